/- MBR slot codec lemmas (helpers for Props/C02.lean). -/
import DiskfsModel.Model.Mbr
import DiskfsModel.Proofs.GptTable
set_option linter.unusedSimpArgs false
namespace Diskfs.Mbr
open Diskfs.Gpt

theorem entryEnc_length (p : Part) : (entryEnc p).length = 16 := by
  simp [entryEnc]

/-- a slot decodes to the entry that was encoded into it (index = the slot's position) -/
theorem entryDec_entryEnc (p : Part) (i : Nat) (ht : p.typ < 256) (hs : p.start < two32) (hz : p.size < two32)
    (hc : p.chs.length = 6) : entryDec i (entryEnc p) = some { p with index := i } := by
  obtain ⟨idx, boot, typ, start, size, chs⟩ := p
  simp only at ht hs hz hc
  rcases chs with _ | ⟨c0, _ | ⟨c1, _ | ⟨c2, _ | ⟨c3, _ | ⟨c4, _ | ⟨c5, _ | ⟨c6, r⟩⟩⟩⟩⟩⟩⟩
  all_goals first | (simp at hc; done) | (simp at hc; omega) | skip
  rw [two32_eq] at hs hz
  have s1 : slice (entryEnc ⟨idx, boot, typ, start, size, [c0, c1, c2, c3, c4, c5]⟩) 8 12 = leEnc 4 start := by
    simp [entryEnc, slice]
  have s2 : slice (entryEnc ⟨idx, boot, typ, start, size, [c0, c1, c2, c3, c4, c5]⟩) 12 16 = leEnc 4 size := by
    simp [entryEnc, slice]
    exact List.take_of_length_le (by simp)
  unfold entryDec
  rw [s1, s2, leDec_leEnc_of_lt 4 _ hs, leDec_leEnc_of_lt 4 _ hz]
  have hb : (byte typ).toNat = typ := by
    simp [byte, UInt8.toNat_ofNat']
    omega
  cases boot <;> simp [entryEnc, hb]

end Diskfs.Mbr
