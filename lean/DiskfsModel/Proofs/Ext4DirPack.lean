/-
  Theorems about the ext4 linear-directory block packing (Model/Ext4/DirPack.lean).

  Hypotheses used throughout:
    `BsOK bs      := 12 + 263 + 12 ≤ bs ∧ bs < 65536`   (1024 … 32768; with bs = 65536 and no
                     checksum the Go `uint16(blockLimit)` rec_len wraps to 0)
    `TailOK csum tail := csum = true → ∀ x, (tail x).length = 12`
    `EntryOK e    := 0 < |name| ≤ 255 ∧ inode < 2^32 ∧ ftype < 256`
    `EntryParseOK e := EntryOK e ∧ |name| ≤ 247`
  Proved, for all inputs (no `sorry`, no `decide` over samples):
    `pack_groups`        pack = one block per *group* (entries at natural size, last stretched)
    `pack_length`, `pack_length_blocks`
    `pack_blocks_tile`, `block_tile`
    `dirpack_parse`      parse (pack es) = some es    -- for `EntryParseOK` entries
    `decodeEntry_wrap`, `cex_dirent_namelen_wrap`
  NOT true as originally intended (`EntryOK` only, names up to 255 bytes):
    `∀ e ∈ es, EntryOK e → parse bs csum tail (pack bs csum tail es) = some es`
  fails for every name of 248…255 bytes, because `directoryEntryFromBytes` computes
  `0x8+nameLength` in uint8 (`decodeEntry_wrap`; concrete `cex_dirent_namelen_wrap`).
-/
import DiskfsModel.Model.Ext4.DirPack
namespace Diskfs.Ext4.DirPack

def EntryOK (e : Entry) : Prop :=
  0 < e.name.length ∧ e.name.length ≤ 255 ∧ e.inode < 2^32 ∧ e.ftype < 256

theorem entryLen_bounds (e : Entry) (h : EntryOK e) :
    12 ≤ entryLen e ∧ entryLen e ≤ 264 ∧ 8 + e.name.length ≤ entryLen e ∧ entryLen e % 4 = 0 := by
  obtain ⟨h1, h2, _, _⟩ := h
  unfold entryLen
  rw [Nat.mod_eq_of_lt (by omega : e.name.length < 256)]
  omega

theorem entryLen_mod4 (e : Entry) : entryLen e % 4 = 0 := by
  unfold entryLen; omega

@[simp] theorem encEntry_length (e : Entry) (w : Nat) : (encEntry e w).length = recLenOf e w := by
  simp only [encEntry, List.length_take, List.length_append, leEnc_length, zeros_length,
    List.length_cons, List.length_nil]
  omega

theorem encEntry_eq (e : Entry) (w : Nat) (h : 8 + e.name.length ≤ recLenOf e w) :
    encEntry e w = leEnc 4 e.inode ++ (leEnc 2 (recLenOf e w) ++
      (UInt8.ofNat (e.name.length % 256) :: UInt8.ofNat e.ftype ::
        (e.name ++ zeros (recLenOf e w - 8 - e.name.length)))) := by
  unfold encEntry
  simp only []
  rw [List.take_of_length_le]
  · simp
  · simp; omega

theorem decodeEntry_enc (e : Entry) (w : Nat) (rest : Bytes) (hok : EntryOK e)
    (h247 : e.name.length ≤ 247) (hr : entryLen e ≤ recLenOf e w) (hr2 : recLenOf e w < 65536) :
    leDec (((encEntry e w ++ rest).drop 4).take 2) = recLenOf e w ∧
    decodeEntry (encEntry e w ++ rest) (recLenOf e w) = some e := by
  have hb := entryLen_bounds e hok
  obtain ⟨h1, h2, h3, h4⟩ := hok
  have hfit : 8 + e.name.length ≤ recLenOf e w := by omega
  rw [encEntry_eq e w hfit]
  generalize hX : (leEnc 4 e.inode ++ (leEnc 2 (recLenOf e w) ++
      (UInt8.ofNat (e.name.length % 256) :: UInt8.ofNat e.ftype ::
        (e.name ++ zeros (recLenOf e w - 8 - e.name.length)))) ++ rest) = X
  have hlen : X.length = recLenOf e w + rest.length := by
    subst hX; simp; omega
  have hg6 : X.getD 6 0 = UInt8.ofNat (e.name.length % 256) := by subst hX; simp [leEnc]
  have hg7 : X.getD 7 0 = UInt8.ofNat e.ftype := by subst hX; simp [leEnc]
  have ht4 : X.take 4 = leEnc 4 e.inode := by
    subst hX; rw [List.append_assoc]; exact List.take_left' (by simp)
  have hd4 : (X.drop 4).take 2 = leEnc 2 (recLenOf e w) := by
    subst hX; rw [List.append_assoc, List.drop_left' (by simp), List.append_assoc]
    exact List.take_left' (by simp)
  have hd8 : (X.drop 8).take e.name.length = e.name := by
    subst hX; simp [leEnc]
  constructor
  · rw [hd4, leDec_leEnc_of_lt 2 _ (by omega)]
  · unfold decodeEntry
    have hnl : (UInt8.ofNat (e.name.length % 256)).toNat = e.name.length := by
      simp [UInt8.toNat_ofNat']; omega
    have hft : (UInt8.ofNat e.ftype).toNat = e.ftype := by
      simp [UInt8.toNat_ofNat']; omega
    have hhi : (8 + e.name.length) % 256 = 8 + e.name.length := Nat.mod_eq_of_lt (by omega)
    simp only [hg6, hg7, ht4, hnl, hft, hhi, Nat.add_sub_cancel_left, hd8]
    rw [if_neg (by omega), if_neg (by omega), if_neg (by omega),
      leDec_leEnc_of_lt 4 _ (by omega)]

/-- `walk` with enough fuel yields `r` -/
def WalksTo (b : Bytes) (r : List Entry) : Prop := ∀ f, b.length ≤ f → walk f b = some r
def ChainsTo (b : Bytes) (rs : List Nat) : Prop := ∀ f, b.length ≤ f → chain f b = some rs

theorem walksTo_nil : WalksTo [] [] := by
  intro f _; cases f <;> simp [walk]

theorem chainsTo_nil : ChainsTo [] [] := by
  intro f _; cases f <;> simp [chain]

theorem walksTo_enc (e : Entry) (w : Nat) (rest : Bytes) (r : List Entry) (hok : EntryOK e)
    (h247 : e.name.length ≤ 247) (hr : entryLen e ≤ recLenOf e w) (hr2 : recLenOf e w < 65536)
    (h : WalksTo rest r) : WalksTo (encEntry e w ++ rest) (e :: r) := by
  intro f hf
  have hb := entryLen_bounds e hok
  obtain ⟨hd, hdec⟩ := decodeEntry_enc e w rest hok h247 hr hr2
  have hdrop : (encEntry e w ++ rest).drop (recLenOf e w) = rest := List.drop_left' (by simp)
  have hlen : (encEntry e w ++ rest).length = recLenOf e w + rest.length := by simp
  generalize encEntry e w ++ rest = X at *
  match f, X with
  | 0, [] => simp at hlen; omega
  | 0, _ :: _ => simp at hf
  | f+1, [] => simp at hlen; omega
  | f+1, x :: xs =>
    rw [walk]
    · simp only [hd, hdec, hdrop]
      rw [if_neg (by omega), h f (by simp at hf hlen; omega)]
      rfl
    · simp

theorem chainsTo_enc (e : Entry) (w : Nat) (rest : Bytes) (rs : List Nat) (hok : EntryOK e)
    (hr : entryLen e ≤ recLenOf e w) (hr2 : recLenOf e w < 65536)
    (h : ChainsTo rest rs) : ChainsTo (encEntry e w ++ rest) (recLenOf e w :: rs) := by
  intro f hf
  have hb := entryLen_bounds e hok
  have hfit : 8 + e.name.length ≤ recLenOf e w := by omega
  have hd : leDec (((encEntry e w ++ rest).drop 4).take 2) = recLenOf e w := by
    rw [encEntry_eq e w hfit, List.append_assoc, List.drop_left' (by simp), List.append_assoc,
      List.take_left' (by simp), leDec_leEnc_of_lt 2 _ (by omega)]
  have hdrop : (encEntry e w ++ rest).drop (recLenOf e w) = rest := List.drop_left' (by simp)
  have hlen : (encEntry e w ++ rest).length = recLenOf e w + rest.length := by simp
  generalize encEntry e w ++ rest = X at *
  match f, X with
  | 0, [] => simp at hlen; omega
  | 0, _ :: _ => simp at hf
  | f+1, [] => simp at hlen; omega
  | f+1, x :: xs =>
    rw [chain]
    · simp only [hd, hdrop]
      rw [if_neg (by omega), if_neg (by omega), h f (by simp at hf hlen; omega)]
      rfl
    · simp

/-! ### groups: the entries of one block, the last one stretched -/

def natEnc (es : List Entry) : Bytes := (es.map (encEntry · 0)).flatten
def sumLen (es : List Entry) : Nat := (es.map entryLen).sum

abbrev Group := List Entry × Entry
def blockBytes (limit : Nat) (g : Group) : Bytes :=
  natEnc g.1 ++ encEntry g.2 (limit - sumLen g.1)
def groupEntries (g : Group) : List Entry := g.1 ++ [g.2]
def groupLens (limit : Nat) (g : Group) : List Nat := g.1.map entryLen ++ [limit - sumLen g.1]

@[simp] theorem recLenOf_zero (e : Entry) : recLenOf e 0 = entryLen e := by simp [recLenOf]
theorem recLenOf_pos (e : Entry) (w : Nat) (h : 0 < w) : recLenOf e w = w := by simp [recLenOf, h]

@[simp] theorem natEnc_nil : natEnc [] = [] := rfl
@[simp] theorem natEnc_cons (e : Entry) (es : List Entry) :
    natEnc (e :: es) = encEntry e 0 ++ natEnc es := by simp [natEnc]
@[simp] theorem natEnc_append (a b : List Entry) : natEnc (a ++ b) = natEnc a ++ natEnc b := by
  simp [natEnc]
@[simp] theorem sumLen_nil : sumLen [] = 0 := rfl
@[simp] theorem sumLen_cons (e : Entry) (es : List Entry) :
    sumLen (e :: es) = entryLen e + sumLen es := by simp [sumLen]
@[simp] theorem sumLen_append (a b : List Entry) : sumLen (a ++ b) = sumLen a + sumLen b := by
  simp [sumLen]
@[simp] theorem natEnc_length (es : List Entry) : (natEnc es).length = sumLen es := by
  induction es with
  | nil => rfl
  | cons e es ih => simp [ih]

theorem blockBytes_length (limit : Nat) (g : Group) (hok : EntryOK g.2)
    (h : sumLen g.1 + entryLen g.2 ≤ limit) : (blockBytes limit g).length = limit := by
  have hb := entryLen_bounds g.2 hok
  simp [blockBytes]
  rw [recLenOf_pos _ _ (by omega)]
  omega

theorem walksTo_natEnc (xs : List Entry) (rest : Bytes) (r : List Entry)
    (hok : ∀ e ∈ xs, EntryOK e ∧ e.name.length ≤ 247) (h : WalksTo rest r) :
    WalksTo (natEnc xs ++ rest) (xs ++ r) := by
  induction xs with
  | nil => simpa using h
  | cons e es ih =>
    have he := hok e (List.mem_cons_self ..)
    have hb := entryLen_bounds e he.1
    simp only [natEnc_cons, List.append_assoc, List.cons_append]
    exact walksTo_enc e 0 _ _ he.1 he.2 (by simp) (by simp; omega)
      (ih (fun x hx => hok x (List.mem_cons_of_mem _ hx)))

theorem walksTo_block (limit : Nat) (hl : limit < 65536) (g : Group) (rest : Bytes)
    (r : List Entry) (hok : ∀ e ∈ groupEntries g, EntryOK e ∧ e.name.length ≤ 247)
    (hfit : sumLen g.1 + entryLen g.2 ≤ limit) (h : WalksTo rest r) :
    WalksTo (blockBytes limit g ++ rest) (groupEntries g ++ r) := by
  have h2 := hok g.2 (by simp [groupEntries])
  have hb := entryLen_bounds g.2 h2.1
  have hw : recLenOf g.2 (limit - sumLen g.1) = limit - sumLen g.1 := recLenOf_pos _ _ (by omega)
  simp only [blockBytes, groupEntries, List.append_assoc, List.cons_append, List.nil_append]
  apply walksTo_natEnc _ _ _ (fun e he => hok e (by simp [groupEntries, he]))
  exact walksTo_enc _ _ _ _ h2.1 h2.2 (by omega) (by omega) h

theorem walksTo_blocks (limit : Nat) (hl : limit < 65536) (gs : List Group)
    (hok : ∀ g ∈ gs, ∀ e ∈ groupEntries g, EntryOK e ∧ e.name.length ≤ 247)
    (hfit : ∀ g ∈ gs, sumLen g.1 + entryLen g.2 ≤ limit) :
    WalksTo (gs.map (blockBytes limit)).flatten (gs.map groupEntries).flatten := by
  induction gs with
  | nil => exact walksTo_nil
  | cons g gs ih =>
    simp only [List.map_cons, List.flatten_cons]
    exact walksTo_block limit hl g _ _ (hok g (List.mem_cons_self ..))
      (hfit g (List.mem_cons_self ..))
      (ih (fun x hx => hok x (List.mem_cons_of_mem _ hx))
        (fun x hx => hfit x (List.mem_cons_of_mem _ hx)))

theorem chainsTo_natEnc (xs : List Entry) (rest : Bytes) (rs : List Nat)
    (hok : ∀ e ∈ xs, EntryOK e) (h : ChainsTo rest rs) :
    ChainsTo (natEnc xs ++ rest) (xs.map entryLen ++ rs) := by
  induction xs with
  | nil => simpa using h
  | cons e es ih =>
    have he := hok e (List.mem_cons_self ..)
    have hb := entryLen_bounds e he
    simp only [natEnc_cons, List.append_assoc, List.map_cons, List.cons_append]
    have := chainsTo_enc e 0 _ _ he (by simp) (by simp; omega)
      (ih (fun x hx => hok x (List.mem_cons_of_mem _ hx)))
    simpa using this

theorem chainsTo_block (limit : Nat) (hl : limit < 65536) (g : Group)
    (hok : ∀ e ∈ groupEntries g, EntryOK e)
    (hfit : sumLen g.1 + entryLen g.2 ≤ limit) :
    ChainsTo (blockBytes limit g) (groupLens limit g) := by
  have h2 := hok g.2 (by simp [groupEntries])
  have hb := entryLen_bounds g.2 h2
  have hw : recLenOf g.2 (limit - sumLen g.1) = limit - sumLen g.1 := recLenOf_pos _ _ (by omega)
  simp only [blockBytes, groupLens]
  apply chainsTo_natEnc _ _ _ (fun e he => hok e (by simp [groupEntries, he]))
  have := chainsTo_enc g.2 (limit - sumLen g.1) [] [] h2 (by omega) (by omega) chainsTo_nil
  simpa [hw] using this

/-! ### the loop of `Directory.toBytes` produces a list of groups -/

def outOf (limit : Nat) (csum : Bool) (tail : Bytes → Bytes) (gs : List Group) : Bytes :=
  (gs.map (fun g => fin csum tail (blockBytes limit g))).flatten

theorem natEnc_snoc_take (cur : List Entry) (p : Entry) :
    (natEnc (cur ++ [p])).take (sumLen (cur ++ [p]) - entryLen p) = natEnc cur := by
  simp only [natEnc_append, natEnc_cons, natEnc_nil, List.append_nil]
  apply List.take_left'
  simp

theorem packLoop_spec (limit : Nat) (csum : Bool) (tail : Bytes → Bytes)
    (hl : 264 ≤ limit) (hl2 : limit < 65536) :
    ∀ (es cur : List Entry) (p : Entry) (done : Bytes), es ≠ [] →
      (∀ e ∈ cur ++ [p] ++ es, EntryOK e) → sumLen (cur ++ [p]) ≤ limit →
      ∃ gs : List Group,
        packLoop limit csum tail es done (natEnc (cur ++ [p])) (entryLen p) (some p)
          = some (done ++ outOf limit csum tail gs) ∧
        (∀ g ∈ gs, sumLen g.1 + entryLen g.2 ≤ limit) ∧
        (gs.map groupEntries).flatten = cur ++ [p] ++ es := by
  intro es
  induction es with
  | nil => intro _ _ _ h; exact absurd rfl h
  | cons e rest ih =>
    intro cur p done _ hok hsum
    have hbe := entryLen_bounds e (hok e (by simp))
    rw [packLoop]
    simp only [encEntry_length, recLenOf_zero, natEnc_length]
    by_cases hfit : sumLen (cur ++ [p]) + entryLen e > limit
    · rw [if_pos hfit]
      simp only [natEnc_snoc_take, natEnc_length]
      rw [Nat.mod_eq_of_lt (by omega : limit - sumLen cur < 65536),
        Nat.mod_eq_of_lt hl2]
      have hg1 : fin csum tail (natEnc cur ++ encEntry p (limit - sumLen cur))
          = fin csum tail (blockBytes limit (cur, p)) := rfl
      have hsum' : sumLen cur + entryLen p ≤ limit := by simpa using hsum
      cases rest with
      | nil =>
        refine ⟨[(cur, p), ([], e)], ?_, ?_, ?_⟩
        · simp [packLoop, outOf, blockBytes]
        · intro g hg
          simp at hg
          rcases hg with rfl | rfl
          · exact hsum'
          · simp; omega
        · simp [groupEntries]
      | cons r rest' =>
        rw [if_neg (by simp)]
        obtain ⟨gs, h1, h2, h3⟩ := ih [] e
          (done ++ fin csum tail (natEnc cur ++ encEntry p (limit - sumLen cur)))
          (by simp) (fun x hx => hok x (List.mem_append_right _ (by simpa using hx))) (by simp; omega)
        refine ⟨(cur, p) :: gs, ?_, ?_, ?_⟩
        · simp only [List.nil_append, natEnc_cons, natEnc_nil, List.append_nil] at h1
          rw [h1]
          simp [outOf, blockBytes]
        · intro g hg
          simp at hg
          rcases hg with rfl | hg
          · exact hsum'
          · exact h2 g hg
        · simp [groupEntries, h3]
    · rw [if_neg hfit]
      rw [Nat.mod_eq_of_lt (by omega : limit - sumLen (cur ++ [p]) < 65536)]
      cases rest with
      | nil =>
        refine ⟨[(cur ++ [p], e)], ?_, ?_, ?_⟩
        · simp [packLoop, outOf, blockBytes]
        · intro g hg
          simp at hg
          subst hg
          simp at hfit ⊢; omega
        · simp [groupEntries]
      | cons r rest' =>
        rw [if_neg (by simp)]
        obtain ⟨gs, h1, h2, h3⟩ := ih (cur ++ [p]) e done
          (by simp) (fun x hx => hok x (by simpa using hx)) (by simp at hfit ⊢; omega)
        refine ⟨gs, ?_, h2, ?_⟩
        · simp only [natEnc_append, natEnc_cons, natEnc_nil, List.append_nil] at h1 ⊢
          rw [h1]
        · simp [h3]

theorem packLoop_init (limit : Nat) (csum : Bool) (tail : Bytes → Bytes)
    (hl : 264 ≤ limit) (hl2 : limit < 65536) (es : List Entry) (hes : es ≠ [])
    (hok : ∀ e ∈ es, EntryOK e) :
    ∃ gs : List Group,
      packLoop limit csum tail es [] [] 0 none = some (outOf limit csum tail gs) ∧
      (∀ g ∈ gs, sumLen g.1 + entryLen g.2 ≤ limit) ∧
      (gs.map groupEntries).flatten = es := by
  cases es with
  | nil => exact absurd rfl hes
  | cons e rest =>
    have hbe := entryLen_bounds e (hok e (by simp))
    rw [packLoop]
    simp only [encEntry_length, recLenOf_zero, List.length_nil, Nat.zero_add, Nat.sub_zero,
      List.nil_append]
    rw [if_neg (by omega), Nat.mod_eq_of_lt hl2]
    cases rest with
    | nil =>
      refine ⟨[([], e)], ?_, ?_, ?_⟩
      · simp [packLoop, outOf, blockBytes]
      · intro g hg
        simp at hg
        subst hg
        simp; omega
      · simp [groupEntries]
    | cons r rest' =>
      rw [if_neg (by simp)]
      obtain ⟨gs, h1, h2, h3⟩ := packLoop_spec limit csum tail hl hl2 (r :: rest') [] e []
        (by simp) (fun x hx => hok x (by simpa using hx)) (by simp; omega)
      refine ⟨gs, ?_, h2, by simpa using h3⟩
      simpa using h1

def blockLimit (bs : Nat) (csum : Bool) : Nat := bs - (if csum then 12 else 0)

def BsOK (bs : Nat) : Prop := 12 + 263 + 12 ≤ bs ∧ bs < 65536
def TailOK (csum : Bool) (tail : Bytes → Bytes) : Prop := csum = true → ∀ x, (tail x).length = 12

theorem blockLimit_bounds (bs : Nat) (csum : Bool) (h : BsOK bs) :
    264 ≤ blockLimit bs csum ∧ blockLimit bs csum < 65536 ∧
    blockLimit bs csum + (if csum then 12 else 0) = bs := by
  unfold blockLimit BsOK at *
  cases csum <;> simp <;> omega

theorem fin_length (bs : Nat) (csum : Bool) (tail : Bytes → Bytes) (hbs : BsOK bs)
    (ht : TailOK csum tail) (b : Bytes) (hb : b.length = blockLimit bs csum) :
    (fin csum tail b).length = bs := by
  have := blockLimit_bounds bs csum hbs
  cases csum with
  | false => simp [fin, hb] at *; omega
  | true => simp [fin, hb, ht rfl] at *; omega

theorem outOf_length (bs : Nat) (csum : Bool) (tail : Bytes → Bytes) (hbs : BsOK bs)
    (ht : TailOK csum tail) (gs : List Group)
    (hok : ∀ g ∈ gs, EntryOK g.2)
    (hfit : ∀ g ∈ gs, sumLen g.1 + entryLen g.2 ≤ blockLimit bs csum) :
    (outOf (blockLimit bs csum) csum tail gs).length = bs * gs.length := by
  induction gs with
  | nil => simp [outOf]
  | cons g gs ih =>
    have h1 := fin_length bs csum tail hbs ht _
      (blockBytes_length _ g (hok g (List.mem_cons_self ..)) (hfit g (List.mem_cons_self ..)))
    have h2 := ih (fun x hx => hok x (List.mem_cons_of_mem _ hx))
      (fun x hx => hfit x (List.mem_cons_of_mem _ hx))
    simp only [outOf, List.map_cons, List.flatten_cons, List.length_append, List.length_cons] at h2 ⊢
    rw [h1, h2, Nat.mul_add]
    omega

theorem groups_all (P : Entry → Prop) (gs : List Group) (es : List Entry)
    (h : (gs.map groupEntries).flatten = es) (hp : ∀ e ∈ es, P e) :
    ∀ g ∈ gs, ∀ e ∈ groupEntries g, P e := by
  intro g hg e he
  apply hp
  rw [← h, List.mem_flatten]
  exact ⟨groupEntries g, List.mem_map_of_mem hg, he⟩

/-- structure of the output of `pack`: a list of groups, one block each -/
theorem pack_groups (bs : Nat) (csum : Bool) (tail : Bytes → Bytes) (es : List Entry)
    (hbs : BsOK bs) (ht : TailOK csum tail) (hes : es ≠ []) (hok : ∀ e ∈ es, EntryOK e) :
    ∃ gs : List Group,
      pack bs csum tail es = outOf (blockLimit bs csum) csum tail gs ∧
      (∀ g ∈ gs, sumLen g.1 + entryLen g.2 ≤ blockLimit bs csum) ∧
      (gs.map groupEntries).flatten = es := by
  have hbl := blockLimit_bounds bs csum hbs
  obtain ⟨gs, h1, h2, h3⟩ := packLoop_init (blockLimit bs csum) csum tail hbl.1 hbl.2.1 es hes hok
  refine ⟨gs, ?_, h2, h3⟩
  have hlen := outOf_length bs csum tail hbs ht gs
    (fun g hg => groups_all EntryOK gs es h3 hok g hg g.2 (by simp [groupEntries])) h2
  unfold blockLimit at h1 hlen ⊢
  unfold pack
  cases es with
  | nil => exact absurd rfl hes
  | cons e rest =>
    simp only [List.isEmpty_cons, Bool.false_eq_true, if_false, h1, hlen, Nat.mul_mod_right]
    simp

/-! ### parsing what `pack` wrote -/

theorem stripBlocks_step (bs : Nat) (tail : Bytes → Bytes) (f : Nat) (B rest : Bytes)
    (hbs : 12 ≤ bs) (hB : B.length = bs - 12) (ht : (tail B).length = 12) :
    stripBlocks bs tail (f+1) (B ++ tail B ++ rest)
      = (stripBlocks bs tail f rest).map (B ++ ·) := by
  have htake : (B ++ tail B ++ rest).take bs = B ++ tail B :=
    List.take_left' (by simp [hB, ht]; omega)
  have hdrop : (B ++ tail B ++ rest).drop bs = rest :=
    List.drop_left' (by simp [hB, ht]; omega)
  have hlen : (B ++ tail B ++ rest).length = bs + rest.length := by simp [hB, ht]; omega
  have hbody : (B ++ tail B).take (bs - 12) = B := List.take_left' hB
  have hst : (B ++ tail B).drop (bs - 4) = (tail B).drop 8 := by
    rw [List.drop_append, List.drop_of_length_le (by omega)]
    simp [hB]
    congr 1; omega
  generalize B ++ tail B ++ rest = X at *
  match X with
  | [] => simp at hlen; omega
  | x :: xs =>
    rw [stripBlocks]
    · simp only [htake, hbody, hdrop, hst]
      rw [if_neg (by simp at hlen ⊢; omega)]
      simp
    · simp

theorem stripBlocks_outOf (bs : Nat) (tail : Bytes → Bytes) (hbs : BsOK bs)
    (ht : TailOK true tail) (gs : List Group)
    (hok : ∀ g ∈ gs, EntryOK g.2)
    (hfit : ∀ g ∈ gs, sumLen g.1 + entryLen g.2 ≤ blockLimit bs true) :
    ∀ f, gs.length ≤ f → stripBlocks bs tail f (outOf (blockLimit bs true) true tail gs)
      = some (gs.map (blockBytes (blockLimit bs true))).flatten := by
  induction gs with
  | nil => intro f _; cases f <;> simp [outOf, stripBlocks]
  | cons g gs ih =>
    intro f hf
    have hB := blockBytes_length _ g (hok g (List.mem_cons_self ..)) (hfit g (List.mem_cons_self ..))
    have h2 := ih (fun x hx => hok x (List.mem_cons_of_mem _ hx))
      (fun x hx => hfit x (List.mem_cons_of_mem _ hx))
    cases f with
    | zero => simp at hf
    | succ f =>
      have := stripBlocks_step bs tail f (blockBytes (blockLimit bs true) g)
        (outOf (blockLimit bs true) true tail gs) (by unfold BsOK at hbs; omega)
        (by rw [hB]; simp [blockLimit]) (ht rfl _)
      simp only [outOf, List.map_cons, List.flatten_cons, fin, if_true] at this ⊢
      rw [this]
      have h3 := h2 f (by simp at hf; omega)
      simp only [outOf, fin, if_true] at h3
      rw [h3]
      simp

theorem outOf_false (limit : Nat) (tail : Bytes → Bytes) (gs : List Group) :
    outOf limit false tail gs = (gs.map (blockBytes limit)).flatten := by
  simp [outOf, fin]

/-- the entries `directoryEntryFromBytes` can read back (see the uint8 wrap in the model header) -/
def EntryParseOK (e : Entry) : Prop := EntryOK e ∧ e.name.length ≤ 247

theorem dirpack_parse (bs : Nat) (csum : Bool) (tail : Bytes → Bytes) (es : List Entry)
    (hbs : BsOK bs) (ht : TailOK csum tail) (hes : es ≠ []) (hok : ∀ e ∈ es, EntryParseOK e) :
    parse bs csum tail (pack bs csum tail es) = some es := by
  obtain ⟨gs, h1, h2, h3⟩ := pack_groups bs csum tail es hbs ht hes (fun e he => (hok e he).1)
  have hbl := blockLimit_bounds bs csum hbs
  have hw := walksTo_blocks (blockLimit bs csum) hbl.2.1 gs (groups_all _ gs es h3 hok) h2
  rw [h3] at hw
  have hlen := outOf_length bs csum tail hbs ht gs
    (fun g hg => groups_all EntryOK gs es h3 (fun e he => (hok e he).1) g hg g.2
      (by simp [groupEntries])) h2
  unfold parse
  rw [h1]
  cases csum with
  | false =>
    simp only [Bool.false_eq_true, if_false, outOf_false]
    exact hw _ (Nat.le_refl _)
  | true =>
    simp only [if_true]
    rw [stripBlocks_outOf bs tail hbs ht gs
      (fun g hg => groups_all EntryOK gs es h3 (fun e he => (hok e he).1) g hg g.2
        (by simp [groupEntries])) h2 _ (by
          rw [hlen]; unfold BsOK at hbs
          exact Nat.le_mul_of_pos_left _ (by omega))]
    exact hw _ (Nat.le_refl _)

/-! ### length and tiling -/

theorem groups_length_le (gs : List Group) : gs.length ≤ ((gs.map groupEntries).flatten).length := by
  induction gs with
  | nil => simp
  | cons g gs ih => simp [groupEntries] at ih ⊢; omega

/-- the output is a whole number `n` of `bs`-sized blocks, `1 ≤ n ≤ |es|` -/
theorem pack_length_blocks (bs : Nat) (csum : Bool) (tail : Bytes → Bytes) (es : List Entry)
    (hbs : BsOK bs) (ht : TailOK csum tail) (hes : es ≠ []) (hok : ∀ e ∈ es, EntryOK e) :
    ∃ n, 1 ≤ n ∧ n ≤ es.length ∧ (pack bs csum tail es).length = bs * n := by
  obtain ⟨gs, h1, h2, h3⟩ := pack_groups bs csum tail es hbs ht hes hok
  refine ⟨gs.length, ?_, ?_, ?_⟩
  · cases gs with
    | nil => simp at h3; exact absurd h3 hes
    | cons g gs => simp
  · have := groups_length_le gs; rwa [h3] at this
  · rw [h1]
    exact outOf_length bs csum tail hbs ht gs
      (fun g hg => groups_all EntryOK gs es h3 hok g hg g.2 (by simp [groupEntries])) h2

theorem pack_length (bs : Nat) (csum : Bool) (tail : Bytes → Bytes) (es : List Entry)
    (hbs : BsOK bs) (ht : TailOK csum tail) (hes : es ≠ []) (hok : ∀ e ∈ es, EntryOK e) :
    (pack bs csum tail es).length % bs = 0 := by
  obtain ⟨n, _, _, h⟩ := pack_length_blocks bs csum tail es hbs ht hes hok
  rw [h, Nat.mul_mod_right]

theorem flatten_block (n : Nat) (L : List Bytes) (h : ∀ b ∈ L, b.length = n) :
    ∀ k (hk : k < L.length), (L.flatten.drop (k * n)).take n = L[k] := by
  induction L with
  | nil => intro k hk; simp at hk
  | cons b L ih =>
    intro k hk
    have hb := h b (List.mem_cons_self ..)
    cases k with
    | zero => simp; exact List.take_left' hb
    | succ k =>
      have : (k + 1) * n = b.length + k * n := by rw [Nat.add_mul, hb]; omega
      simp only [List.flatten_cons, this, List.getElem_cons_succ]
      rw [← List.drop_drop, List.drop_left' rfl]
      exact ih (fun x hx => h x (List.mem_cons_of_mem _ hx)) k (by simpa using hk)

theorem sumLen_mod4 (xs : List Entry) : sumLen xs % 4 = 0 := by
  induction xs with
  | nil => rfl
  | cons e es ih => have := entryLen_mod4 e; simp; omega

/-- one block: the rec_len chain over the first `blockLimit` bytes is the natural lengths of
    all entries but the last followed by the remaining space, and the tail is in place. -/
theorem block_tile (bs : Nat) (csum : Bool) (tail : Bytes → Bytes) (hbs : BsOK bs)
    (ht : TailOK csum tail) (g : Group) (hok : ∀ e ∈ groupEntries g, EntryOK e)
    (hfit : sumLen g.1 + entryLen g.2 ≤ blockLimit bs csum) :
    recLens bs csum (fin csum tail (blockBytes (blockLimit bs csum) g))
        = some (groupLens (blockLimit bs csum) g) ∧
      (groupLens (blockLimit bs csum) g).sum = blockLimit bs csum ∧
      (∀ r ∈ groupLens (blockLimit bs csum) g, 12 ≤ r) ∧
      (bs % 4 = 0 → ∀ r ∈ groupLens (blockLimit bs csum) g, r % 4 = 0) ∧
      (csum = true →
        (fin csum tail (blockBytes (blockLimit bs csum) g)).drop (bs - 12)
          = tail ((fin csum tail (blockBytes (blockLimit bs csum) g)).take (bs - 12))) := by
  have hbl := blockLimit_bounds bs csum hbs
  have h2 := hok g.2 (by simp [groupEntries])
  have hb2 := entryLen_bounds g.2 h2
  have hB := blockBytes_length _ g h2 hfit
  have hch := chainsTo_block (blockLimit bs csum) hbl.2.1 g hok hfit
  have htake : (fin csum tail (blockBytes (blockLimit bs csum) g)).take (blockLimit bs csum)
      = blockBytes (blockLimit bs csum) g := by
    cases csum with
    | false => simp only [fin, Bool.false_eq_true, if_false]; exact List.take_of_length_le (by omega)
    | true => simp only [fin, if_true]; exact List.take_left' hB
  refine ⟨?_, ?_, ?_, ?_, ?_⟩
  · unfold recLens
    simp only []
    have hdef : (bs - if csum = true then 12 else 0) = blockLimit bs csum := rfl
    rw [hdef, htake]
    exact hch _ (Nat.le_refl _)
  · simp [groupLens, sumLen]; simp [sumLen] at hfit; omega
  · intro r hr
    simp only [groupLens, List.mem_append, List.mem_map, List.mem_singleton] at hr
    rcases hr with ⟨e, he, rfl⟩ | rfl
    · exact (entryLen_bounds e (hok e (by simp [groupEntries, he]))).1
    · omega
  · intro h4 r hr
    simp only [groupLens, List.mem_append, List.mem_map, List.mem_singleton] at hr
    rcases hr with ⟨e, he, rfl⟩ | rfl
    · exact entryLen_mod4 e
    · have := sumLen_mod4 g.1
      have hl4 : blockLimit bs csum % 4 = 0 := by
        unfold blockLimit BsOK at *; cases csum <;> simp <;> omega
      omega
  · intro hc
    subst hc
    have h12 : bs - 12 = blockLimit bs true := by simp [blockLimit]
    rw [h12, htake]
    simp only [fin, if_true]
    exact List.drop_left' hB

theorem pack_blocks_tile (bs : Nat) (csum : Bool) (tail : Bytes → Bytes) (es : List Entry)
    (hbs : BsOK bs) (ht : TailOK csum tail) (hes : es ≠ []) (hok : ∀ e ∈ es, EntryOK e) :
    ∀ k, k < (pack bs csum tail es).length / bs →
      ∃ rs, recLens bs csum (((pack bs csum tail es).drop (k * bs)).take bs) = some rs ∧
        rs.sum = blockLimit bs csum ∧
        (∀ r ∈ rs, 12 ≤ r) ∧
        (bs % 4 = 0 → ∀ r ∈ rs, r % 4 = 0) ∧
        (csum = true →
          (((pack bs csum tail es).drop (k * bs)).take bs).drop (bs - 12)
            = tail ((((pack bs csum tail es).drop (k * bs)).take bs).take (bs - 12))) := by
  obtain ⟨gs, h1, h2, h3⟩ := pack_groups bs csum tail es hbs ht hes hok
  have hoks := groups_all EntryOK gs es h3 hok
  have hlen := outOf_length bs csum tail hbs ht gs
    (fun g hg => hoks g hg g.2 (by simp [groupEntries])) h2
  intro k hk
  rw [h1, hlen, Nat.mul_div_cancel_left _ (by unfold BsOK at hbs; omega)] at hk
  rw [h1]
  have hblk := flatten_block bs (gs.map (fun g => fin csum tail (blockBytes (blockLimit bs csum) g)))
    (by
      intro b hb
      simp only [List.mem_map] at hb
      obtain ⟨g, hg, rfl⟩ := hb
      exact fin_length bs csum tail hbs ht _
        (blockBytes_length _ g (hoks g hg g.2 (by simp [groupEntries])) (h2 g hg)))
    k (by simpa using hk)
  simp only [outOf]
  rw [hblk, List.getElem_map]
  have := block_tile bs csum tail hbs ht gs[k] (hoks _ (List.getElem_mem _)) (h2 _ (List.getElem_mem _))
  exact ⟨_, this⟩

/-! ### the uint8 wrap: names of 248…255 bytes are written but cannot be read back -/

theorem decodeEntry_wrap (e : Entry) (w : Nat) (rest : Bytes)
    (h1 : 248 ≤ e.name.length) (h2 : e.name.length ≤ 255) (hr : entryLen e ≤ recLenOf e w) :
    decodeEntry (encEntry e w ++ rest) (recLenOf e w) = none := by
  have hfit : 8 + e.name.length ≤ recLenOf e w := by
    unfold entryLen at hr
    rw [Nat.mod_eq_of_lt (by omega : e.name.length < 256)] at hr
    omega
  have hlen : (encEntry e w ++ rest).length = recLenOf e w + rest.length := by simp
  have hg6 : (encEntry e w ++ rest).getD 6 0 = UInt8.ofNat (e.name.length % 256) := by
    rw [encEntry_eq e w hfit]; simp [leEnc]
  have hnl : (UInt8.ofNat (e.name.length % 256)).toNat = e.name.length := by
    simp [UInt8.toNat_ofNat']; omega
  unfold decodeEntry
  simp only [hg6, hnl, hlen]
  rw [if_neg (by omega), if_neg (by omega), if_pos (by omega)]

/-! ### non-vacuity and concrete checks -/

instance : DecidablePred EntryOK := fun e => by unfold EntryOK; infer_instance
instance : DecidablePred EntryParseOK := fun e => by unfold EntryParseOK; infer_instance

def exTail : Bytes → Bytes := fun b => [0, 0, 0, 0, 12, 0, 0, 0xde, UInt8.ofNat b.length, 1, 2, 3]
def exEntries : List Entry :=
  [⟨2, [46], 2⟩, ⟨2, [46, 46], 2⟩, ⟨11, [97, 98, 99, 100, 101], 1⟩, ⟨12, [120], 1⟩]

example : BsOK 1024 ∧ BsOK 4096 ∧ TailOK true exTail ∧ (∀ e ∈ exEntries, EntryParseOK e) := by
  refine ⟨by unfold BsOK; omega, by unfold BsOK; omega, fun _ _ => rfl, ?_⟩
  decide

-- tiny blocks (outside `BsOK`, the code still behaves): two blocks, with and without tail
example : parse 40 false exTail (pack 40 false exTail exEntries) = some exEntries := by decide
example : parse 40 true exTail (pack 40 true exTail exEntries) = some exEntries := by decide
example : (pack 40 true exTail exEntries).length = 80 := by decide
example : recLens 40 true (pack 40 true exTail exEntries) = some [12, 16] := by decide
example : recLens 40 true ((pack 40 true exTail exEntries).drop 40) = some [16, 12] := by decide
-- a corrupted checksum byte is rejected
example : parse 40 true exTail ((pack 40 true exTail exEntries).set 37 9) = none := by decide
-- realistic block size, long names around the uint8 wrap: 247 reads back, 248 does not
set_option maxRecDepth 20000 in
example : parse 1024 true exTail (pack 1024 true exTail
    [⟨2, [46], 2⟩, ⟨7, List.replicate 247 65, 1⟩, ⟨8, List.replicate 200 66, 1⟩]) =
    some [⟨2, [46], 2⟩, ⟨7, List.replicate 247 65, 1⟩, ⟨8, List.replicate 200 66, 1⟩] := by decide
set_option maxRecDepth 20000 in
/-- a legal 248-byte name is packed by `Directory.toBytes` and panics `parseDirEntriesLinear` -/
theorem cex_dirent_namelen_wrap : EntryOK ⟨7, List.replicate 248 65, 1⟩ ∧
    parse 1024 false exTail (pack 1024 false exTail [⟨7, List.replicate 248 65, 1⟩]) = none := by
  decide
-- the first entry does not fit: Go dereferences a nil previousEntry
example : packLoop 8 false exTail exEntries [] [] 0 none = none := by decide

end Diskfs.Ext4.DirPack
