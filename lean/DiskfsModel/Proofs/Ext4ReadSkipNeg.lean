/-
  C20 / C04 helper lemmas: File.Read with the guard `if leftInExtent < 0 { continue }` (the repair of
  finding ext4-read-extent-out-of-order) returns what File.Read without it returns whenever the latter does
  not panic — in particular on every sorted non-overlapping extent list, where all theorems about
  `sparseRead` (C20) and `readE` (C04) therefore hold for the guarded loop as well.
-/
import DiskfsModel.Model.Ext4.SparseRead
import DiskfsModel.Model.Ext4.FileIO
namespace Diskfs.Ext4.Reader

theorem sparseLoopC_false (dev : Dev) (devSize bs startBlock want : Nat) :
    ∀ (es : List Extent) (st : RdSt),
      sparseLoopC false dev devSize bs startBlock want es st = sparseLoop dev devSize bs startBlock want es st := by
  intro es
  induction es with
  | nil => intro st; rfl
  | cons e es ih =>
    intro st
    simp only [sparseLoopC, sparseLoop, ih, Bool.false_eq_true, if_false]

/-- where the loop without the guard does not panic, the guard changes nothing -/
theorem sparseLoopC_eq (skip : Bool) (dev : Dev) (devSize bs startBlock want : Nat) :
    ∀ (es : List Extent) (st : RdSt),
      (∀ st', sparseLoop dev devSize bs startBlock want es st ≠ .panic st') →
      sparseLoopC skip dev devSize bs startBlock want es st = sparseLoop dev devSize bs startBlock want es st := by
  intro es
  induction es with
  | nil => intro st _; rfl
  | cons e es ih =>
    intro st hnp
    unfold sparseLoop at hnp
    unfold sparseLoopC sparseLoop
    simp only [] at hnp ⊢
    by_cases h1 : e.fileBlock + e.count ≤ startBlock
    · rw [if_pos h1] at hnp ⊢
      rw [if_pos h1]
      exact ih st hnp
    · rw [if_neg h1] at hnp ⊢
      rw [if_neg h1]
      by_cases hh : st.off < e.fileBlock * bs
      · simp only [hh, if_true, true_and] at hnp ⊢
        split
        · rfl
        · rename_i h2
          rw [if_neg h2] at hnp
          split
          · rename_i h3
            rw [if_pos h3] at hnp
            exact absurd rfl (hnp _)
          · rename_i h3
            rw [if_neg h3] at hnp
            split
            · rfl
            · rename_i h4
              rw [if_neg h4] at hnp
              split
              · rfl
              · rename_i h5
                rw [if_neg h5] at hnp
                exact ih _ hnp
      · simp only [hh, if_false, false_and] at hnp ⊢
        split
        · rename_i h3
          rw [if_pos h3] at hnp
          exact absurd rfl (hnp _)
        · rename_i h3
          rw [if_neg h3] at hnp
          split
          · rfl
          · rename_i h4
            rw [if_neg h4] at hnp
            split
            · rfl
            · rename_i h5
              rw [if_neg h5] at hnp
              exact ih _ hnp

theorem sparseReadC_eq (skip : Bool) (dev : Dev) (devSize bs : Nat) (es : List Extent) (size off n : Nat)
    (h : ∀ o, sparseRead dev devSize bs es size off n ≠ .panic o) :
    sparseReadC skip dev devSize bs es size off n = sparseRead dev devSize bs es size off n := by
  unfold sparseReadC sparseRead at *
  split
  · rfl
  · rename_i h1
    rw [if_neg h1] at h
    simp only [] at h ⊢
    rw [sparseLoopC_eq]
    intro st' hp
    rw [hp] at h
    exact h _ rfl

end Diskfs.Ext4.Reader

namespace Diskfs.Ext4

/-- C04's mirror: where File.Read without the guard does not panic, the guard changes nothing -/
theorem readLoopS_eq (skip lt : Bool) (dev : Dev) (bs startBlock want : Nat) :
    ∀ (es : List Extent) (off : Nat) (got : Bytes) (ios : List (Nat × Nat)),
      readLoop lt dev bs startBlock want es off got ios ≠ .panic →
      readLoopS skip lt dev bs startBlock want es off got ios = readLoop lt dev bs startBlock want es off got ios := by
  intro es
  induction es with
  | nil => intro off got ios _; rfl
  | cons e es ih =>
    intro off got ios hnp
    unfold readLoop at hnp
    unfold readLoopS readLoop
    simp only [] at hnp ⊢
    by_cases h1 : skips lt e startBlock = true
    · rw [if_pos h1] at hnp ⊢
      rw [if_pos h1]
      exact ih _ _ _ hnp
    · rw [if_neg h1] at hnp ⊢
      rw [if_neg h1]
      by_cases hh : off < e.fileBlock * bs
      · simp only [hh, if_true, true_and] at hnp ⊢
        split
        · rfl
        · rename_i h2
          rw [if_neg h2] at hnp
          split
          · rename_i h3
            rw [if_pos h3] at hnp
            exact absurd rfl hnp
          · rename_i h3
            rw [if_neg h3] at hnp
            split
            · rfl
            · rename_i h4
              rw [if_neg h4] at hnp
              exact ih _ _ _ hnp
      · simp only [hh, if_false, false_and, Nat.add_zero, zeros, List.replicate_zero, List.append_nil] at hnp ⊢
        split
        · rename_i h3
          rw [if_pos h3] at hnp
          exact absurd rfl hnp
        · rename_i h3
          rw [if_neg h3] at hnp
          split
          · rfl
          · rename_i h4
            rw [if_neg h4] at hnp
            exact ih _ _ _ hnp

theorem readES_eq (skip lt : Bool) (dev : Dev) (bs : Nat) (es : List Extent) (size off n : Nat)
    (h : readE lt dev bs es size off n ≠ .panic) :
    readES skip lt dev bs es size off n = readE lt dev bs es size off n := by
  unfold readES readE at *
  split
  · rfl
  · rename_i h1
    rw [if_neg h1] at h
    simp only [] at h ⊢
    rw [readLoopS_eq]
    intro hp
    rw [hp] at h
    exact h rfl

theorem readES_false (lt : Bool) (dev : Dev) (bs : Nat) (es : List Extent) (size off n : Nat) :
    readES false lt dev bs es size off n = readE lt dev bs es size off n := by
  have key : ∀ (es : List Extent) (startBlock want off : Nat) (got : Bytes) (ios : List (Nat × Nat)),
      readLoopS false lt dev bs startBlock want es off got ios = readLoop lt dev bs startBlock want es off got ios := by
    intro es
    induction es with
    | nil => intros; rfl
    | cons e es ih =>
      intros
      simp only [readLoopS, readLoop, ih, Bool.false_eq_true, if_false]
  unfold readES readE
  simp only [key]

end Diskfs.Ext4
