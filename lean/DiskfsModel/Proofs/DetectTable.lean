/-
  Helper lemmas for C12 (Props/C12.lean): partition.Read over the real acceptance conditions of gpt.Read and
  mbr.Read (Model/DetectTable.lean `tableRead`), composed with the write lists of gpt.Table.Write
  (Model/Gpt.lean, Proofs/GptFlat.lean `write_fresh_exact`, Proofs/GptValid.lean `write_regions`).
-/
import DiskfsModel.Model.DetectTable
import DiskfsModel.Proofs.GptWhole
import DiskfsModel.Proofs.GptValid
import DiskfsModel.Proofs.MbrTable
set_option linter.unusedSimpArgs false
set_option linter.unusedVariables false
namespace Diskfs.Detect
open Diskfs.Gpt

/-! ### the abstraction of Model/Detect.lean is what `tableRead` does -/

/-- when gpt.Read does not panic, the type `tableRead` reports is `tableProbeL` of the two readers' real verdicts
    and the legacy-MBR predicate on the real sector 0 - so the boolean theorems of Props/C12 (gpt_is_gpt_l,
    mbr_over_stale_gpt_is_mbr, cex_mbr_over_stale_gpt) speak about the real readers -/
theorem tableRead_kind (checks : Bool) (c : Cfg) (crc : Bytes → Nat) (d : Dev) (devSize lss : Nat)
    (hnp : (Gpt.read c crc d devSize lss).1.isPanic = false) :
    (tableRead checks c crc d devSize lss).kind =
      tableProbeL checks (Gpt.read c crc d devSize lss).1.isOk (Mbr.read d devSize).1.isSome (legacyMBR d) [.gpt, .mbr] := by
  unfold tableRead
  cases hg : (Gpt.read c crc d devSize lss).1 with
  | panic s => rw [hg] at hnp; simp [Res.isPanic] at hnp
  | ok t =>
    cases hm : (Mbr.read d devSize).1 <;> cases checks <;> cases legacyMBR d <;>
      simp [Res.isOk, tableProbeL, tableProbe, TableRes.kind]
  | err e =>
    cases hm : (Mbr.read d devSize).1 <;> cases checks <;> cases legacyMBR d <;>
      simp [Res.isOk, tableProbeL, tableProbe, TableRes.kind]

/-! ### sector 0 -/

/-- `legacyMBR` and mbr.Read look at bytes 0..511 only -/
theorem legacyMBR_congr (d d' : Dev) (h : ∀ i, i < 512 → d i = d' i) : legacyMBR d = legacyMBR d' := by
  have t : ∀ i, i < 4 → mbrType d i = mbrType d' i := fun i hi => by
    unfold mbrType; rw [h _ (by omega)]
  unfold legacyMBR
  rw [h 510 (by omega), h 511 (by omega)]
  simp only [List.range, List.range.loop, List.any_cons, List.any_nil, Bool.or_false]
  rw [t 0 (by omega), t 1 (by omega), t 2 (by omega), t 3 (by omega)]

theorem readAt_congr (d d' : Dev) (off len : Nat) (h : ∀ i, off ≤ i → i < off + len → d i = d' i) :
    readAt d off len = readAt d' off len := by
  apply List.ext_getElem
  · simp
  · intro i h1 _
    simp only [readAt, List.getElem_map, List.getElem_range]
    simp at h1
    exact h _ (by omega) (by omega)

theorem mbrRead_congr (d d' : Dev) (devSize : Nat) (h : ∀ i, i < 512 → d i = d' i) :
    Mbr.read d devSize = Mbr.read d' devSize := by
  unfold Mbr.read
  rw [readAt_congr d d' 0 512 (fun i _ hi => h i (by omega))]

/-- a protective entry in slot 0 means: not a legacy MBR -/
theorem legacyMBR_protective (d : Dev) (h : d 450 = 0xEE) : legacyMBR d = false := by
  have : mbrType d 0 = 0xEE := by simp [mbrType, h]
  simp [legacyMBR, List.range, List.range.loop, this]

/-! ### gpt.Table.Write, then partition.Read -/

/-- without a protective MBR, gpt.Table.Write leaves bytes 0..511 alone -/
theorem gpt_write_nopmbr_frame (c : Cfg) (crc : Bytes → Nat) (d : Dev) (t0 : Table) (size : Nat) (ws : List Wr) (t : Table)
    (hf : Fresh t0) (hl : t0.lss = 512 ∨ t0.lss = 4096) (hsz : size < two63)
    (hmin : (2 * (16384 / t0.lss) + 3) * t0.lss ≤ size) (hpm : t0.pmbr = false)
    (hw : write c crc t0 size = .ok (ws, t)) (i : Nat) (hi : i < 512) : applyWrs d ws i = d i := by
  obtain ⟨arr, ps, harr, hlen, ht, hws⟩ := write_fresh_exact c crc t0 size ws t hf hl hsz hmin hw
  obtain ⟨il, iph, iac, ies, igu, ipa, ipm, ish, ifd, ild, ips, ia1, ia2⟩ := initTable_geo t0 size hf hl hsz hmin
  have hlpos : 0 < t0.lss := by rcases hl with h | h <;> omega
  have h512 : 512 ≤ t0.lss := by rcases hl with h | h <;> omega
  have hq : 2 * (16384 / t0.lss) + 3 ≤ size / t0.lss := (Nat.le_div_iff_mul_le hlpos).2 hmin
  have hpw : pmWrs c (initTable t0 size) = [] := by simp [pmWrs, ipm, hpm]
  rw [hpw] at hws
  simp only [List.append_nil, List.nil_append, ite_self] at hws
  apply applyWrs_frame
  intro w hwm
  left
  rw [hws] at hwm
  simp only [coreWrs, List.mem_cons, List.not_mem_nil, or_false] at hwm
  have e1 : t0.lss ≤ (size / t0.lss - 1 - 16384 / t0.lss) * t0.lss := Nat.le_mul_of_pos_left _ (by omega)
  have e2 : t0.lss ≤ (size / t0.lss - 1) * t0.lss := Nat.le_mul_of_pos_left _ (by omega)
  rcases hwm with rfl | rfl | rfl | rfl <;> simp only <;> omega

/-- with a protective MBR, byte 450 (the OS type of slot 0) is 0xEE afterwards -/
theorem gpt_write_pmbr_type (c : Cfg) (crc : Bytes → Nat) (d : Dev) (t0 : Table) (size : Nat) (ws : List Wr) (t : Table)
    (hf : Fresh t0) (hl : t0.lss = 512 ∨ t0.lss = 4096) (hg : t0.guid.length = 16) (hsz : size < two63)
    (hmin : (2 * (16384 / t0.lss) + 3) * t0.lss ≤ size) (hpm : t0.pmbr = true)
    (hw : write c crc t0 size = .ok (ws, t)) : applyWrs d ws 450 = 0xEE := by
  obtain ⟨arr, ps, harr, hlen, ht, r1, r2, r3, r4, r5⟩ := write_regions c crc d t0 size ws t hf hl hg hsz hmin hw
  have := dev_of_readAt (applyWrs d ws) 446 66 _ (r5 hpm) 4 (by omega)
  rw [this]
  exact (pmbrEnc_shape c (initTable t0 size)).2.1

end Diskfs.Detect
