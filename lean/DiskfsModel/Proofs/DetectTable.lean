/-
  Helper lemmas for C12 (Props/C12.lean): partition.Read over the real acceptance conditions of gpt.Read and
  mbr.Read (Model/DetectTable.lean `tableRead`), composed with the write lists of gpt.Table.Write
  (Model/Gpt.lean, Proofs/GptFlat.lean `write_fresh_exact`, Proofs/GptValid.lean `write_regions`).
-/
import DiskfsModel.Model.DetectTable
import DiskfsModel.Proofs.GptWhole
import DiskfsModel.Proofs.GptValid
import DiskfsModel.Proofs.MbrTable
set_option linter.unusedSimpArgs false
set_option linter.unusedVariables false
namespace Diskfs.Detect
open Diskfs.Gpt

/-! ### the abstraction of Model/Detect.lean is what `tableRead` does -/

/-- when gpt.Read does not panic, the type `tableRead` reports is `tableProbeL` of the two readers' real verdicts
    and the legacy-MBR predicate on the real sector 0 - so the boolean theorems of Props/C12 (gpt_is_gpt_l,
    mbr_over_stale_gpt_is_mbr, cex_mbr_over_stale_gpt) speak about the real readers -/
theorem tableRead_kind (checks : Bool) (c : Cfg) (crc : Bytes → Nat) (d : Dev) (devSize lss : Nat)
    (hnp : (Gpt.read c crc d devSize lss).1.isPanic = false) :
    (tableRead checks c crc d devSize lss).kind =
      tableProbeL checks (Gpt.read c crc d devSize lss).1.isOk (Mbr.read d devSize).1.isSome (legacyMBR d) [.gpt, .mbr] := by
  unfold tableRead
  cases hg : (Gpt.read c crc d devSize lss).1 with
  | panic s => rw [hg] at hnp; simp [Res.isPanic] at hnp
  | ok t =>
    cases hm : (Mbr.read d devSize).1 <;> cases checks <;> cases legacyMBR d <;>
      simp [Res.isOk, tableProbeL, tableProbe, TableRes.kind]
  | err e =>
    cases hm : (Mbr.read d devSize).1 <;> cases checks <;> cases legacyMBR d <;>
      simp [Res.isOk, tableProbeL, tableProbe, TableRes.kind]

/-! ### sector 0 -/

/-- `legacyMBR` and mbr.Read look at bytes 0..511 only -/
theorem legacyMBR_congr (d d' : Dev) (h : ∀ i, i < 512 → d i = d' i) : legacyMBR d = legacyMBR d' := by
  have t : ∀ i, i < 4 → mbrType d i = mbrType d' i := fun i hi => by
    unfold mbrType; rw [h _ (by omega)]
  unfold legacyMBR
  rw [h 510 (by omega), h 511 (by omega)]
  simp only [List.range, List.range.loop, List.any_cons, List.any_nil, Bool.or_false]
  rw [t 0 (by omega), t 1 (by omega), t 2 (by omega), t 3 (by omega)]

theorem readAt_congr (d d' : Dev) (off len : Nat) (h : ∀ i, off ≤ i → i < off + len → d i = d' i) :
    readAt d off len = readAt d' off len := by
  apply List.ext_getElem
  · simp
  · intro i h1 _
    simp only [readAt, List.getElem_map, List.getElem_range]
    simp at h1
    exact h _ (by omega) (by omega)

theorem mbrRead_congr (d d' : Dev) (devSize : Nat) (h : ∀ i, i < 512 → d i = d' i) :
    Mbr.read d devSize = Mbr.read d' devSize := by
  unfold Mbr.read
  rw [readAt_congr d d' 0 512 (fun i _ hi => h i (by omega))]

/-- a protective entry in slot 0 means: not a legacy MBR -/
theorem legacyMBR_protective (d : Dev) (h : d 450 = 0xEE) : legacyMBR d = false := by
  have : mbrType d 0 = 0xEE := by simp [mbrType, h]
  simp [legacyMBR, List.range, List.range.loop, this]

/-! ### gpt.Table.Write, then partition.Read -/

/-- without a protective MBR, gpt.Table.Write leaves bytes 0..511 alone -/
theorem gpt_write_nopmbr_frame (c : Cfg) (crc : Bytes → Nat) (d : Dev) (t0 : Table) (size : Nat) (ws : List Wr) (t : Table)
    (hf : Fresh t0) (hl : t0.lss = 512 ∨ t0.lss = 4096) (hsz : size < two63)
    (hmin : (2 * (16384 / t0.lss) + 3) * t0.lss ≤ size) (hpm : t0.pmbr = false)
    (hw : write c crc t0 size = .ok (ws, t)) (i : Nat) (hi : i < 512) : applyWrs d ws i = d i := by
  obtain ⟨arr, ps, harr, hlen, ht, hws⟩ := write_fresh_exact c crc t0 size ws t hf hl hsz hmin hw
  obtain ⟨il, iph, iac, ies, igu, ipa, ipm, ish, ifd, ild, ips, ia1, ia2⟩ := initTable_geo t0 size hf hl hsz hmin
  have hlpos : 0 < t0.lss := by rcases hl with h | h <;> omega
  have h512 : 512 ≤ t0.lss := by rcases hl with h | h <;> omega
  have hq : 2 * (16384 / t0.lss) + 3 ≤ size / t0.lss := (Nat.le_div_iff_mul_le hlpos).2 hmin
  have hpw : pmWrs c (initTable t0 size) = [] := by simp [pmWrs, ipm, hpm]
  rw [hpw] at hws
  simp only [List.append_nil, List.nil_append, ite_self] at hws
  apply applyWrs_frame
  intro w hwm
  left
  rw [hws] at hwm
  simp only [coreWrs, List.mem_cons, List.not_mem_nil, or_false] at hwm
  have e1 : t0.lss ≤ (size / t0.lss - 1 - 16384 / t0.lss) * t0.lss := Nat.le_mul_of_pos_left _ (by omega)
  have e2 : t0.lss ≤ (size / t0.lss - 1) * t0.lss := Nat.le_mul_of_pos_left _ (by omega)
  rcases hwm with rfl | rfl | rfl | rfl <;> simp only <;> omega

/-- with a protective MBR, byte 450 (the OS type of slot 0) is 0xEE afterwards -/
theorem gpt_write_pmbr_type (c : Cfg) (crc : Bytes → Nat) (d : Dev) (t0 : Table) (size : Nat) (ws : List Wr) (t : Table)
    (hf : Fresh t0) (hl : t0.lss = 512 ∨ t0.lss = 4096) (hg : t0.guid.length = 16) (hsz : size < two63)
    (hmin : (2 * (16384 / t0.lss) + 3) * t0.lss ≤ size) (hpm : t0.pmbr = true)
    (hw : write c crc t0 size = .ok (ws, t)) : applyWrs d ws 450 = 0xEE := by
  obtain ⟨arr, ps, harr, hlen, ht, r1, r2, r3, r4, r5⟩ := write_regions c crc d t0 size ws t hf hl hg hsz hmin hw
  have := dev_of_readAt (applyWrs d ws) 446 66 _ (r5 hpm) 4 (by omega)
  rw [this]
  exact (pmbrEnc_shape c (initTable t0 size)).2.1

end Diskfs.Detect

namespace Diskfs.Gpt

/-- `read_write_fresh` of Proofs/GptWhole.lean for the SHAPE of the write list instead of the write list itself:
    whatever is written before the primary array and header (`pre`) and whatever is written afterwards into
    bytes 446..511 only (`post`: the protective MBR - or an MBR table written later by mbr.Table.Write) -/
theorem read_of_shape (c : Cfg) (crc : Bytes → Nat) (hcrc : ∀ b, crc b < two32) (d : Dev)
    (t0 : Table) (size : Nat) (pre post : List Wr) (arr : Bytes) (ps : List Part)
    (hf : Fresh t0) (hlss : t0.lss = 512 ∨ t0.lss = 4096) (hg : t0.guid.length = 16)
    (hwf : ∀ p ∈ t0.parts, allZero p.typ = true ∨ (EntryWF p ∧ p.size < two64))
    (hmin : 2 * t0.lss + 16384 ≤ size) (hsz : size < two63)
    (hpost : ∀ w ∈ post, w.off = 446 ∧ w.data.length = 66)
    (harr : arrEnc c (initTable t0 size) = .ok (arr, ps)) :
    ∃ t', (read c crc (applyWrs d (pre ++ [⟨2 * t0.lss, arr⟩, ⟨t0.lss, hdrEnc crc (initTable t0 size) true arr⟩] ++ post)) size t0.lss).1 = .ok t' ∧
      t'.parts = normParts ps 128 := by
  obtain ⟨il, iph, iac, ies, igu, ipa, ish, ifd, ild⟩ := initTable_fresh t0 size hf hlss
  generalize hti : initTable t0 size = ti at *
  have hlpos : 0 < t0.lss := by rcases hlss with h | h <;> omega
  have hl92 : 92 ≤ ti.lss := by rw [il]; rcases hlss with h | h <;> omega
  -- the array
  unfold arrEnc at harr
  rw [il, iac, ies, ipa] at harr
  cases hip : initParts t0.lss 128 t0.parts [] with
  | none => rw [hip] at harr; simp at harr
  | some ps' =>
    rw [hip] at harr
    simp only at harr
    obtain ⟨b, hb, hpair⟩ := bind_ok_inv _ _ _ harr
    simp only [Res.pure_eq, Res.ok.injEq, Prod.mk.injEq] at hpair
    obtain ⟨hb1, hb2⟩ := hpair
    subst hb1 hb2
    have hex := initParts_spec t0.lss 128 hlpos t0.parts [] ps' hip hwf (by simp)
    obtain ⟨harrlen, hdecode⟩ := decodeArr_slots c ps' t0.lss hex b hb
    -- the device
    have hsplit : applyWrs d (pre ++ [⟨2 * t0.lss, b⟩, ⟨t0.lss, hdrEnc crc ti true b⟩] ++ post)
        = applyWrs (applyWr (applyWr (applyWrs d pre) ⟨2 * t0.lss, b⟩) ⟨t0.lss, hdrEnc crc ti true b⟩) post := by
      simp [applyWrs, List.foldl_append]
    rw [hsplit]
    generalize applyWrs d pre = d1
    have hphlen : (hdrEnc crc ti true b).length = t0.lss := by
      rw [hdrEnc_length crc ti true b (by rw [igu]; exact hg) hl92, il]
    have h512 : 512 ≤ t0.lss := by rcases hlss with h | h <;> omega
    have r1 : readAt (applyWrs (applyWr (applyWr d1 ⟨2 * t0.lss, b⟩) ⟨t0.lss, hdrEnc crc ti true b⟩) post) t0.lss t0.lss
        = hdrEnc crc ti true b := by
      rw [readAt_applyWrs_disjoint _ post _ _ (by intro w hw; have := hpost w hw; right; omega)]
      have := readAt_applyWr_same (applyWr d1 ⟨2 * t0.lss, b⟩) ⟨t0.lss, hdrEnc crc ti true b⟩
      simpa [hphlen] using this
    have r2 : readAt (applyWrs (applyWr (applyWr d1 ⟨2 * t0.lss, b⟩) ⟨t0.lss, hdrEnc crc ti true b⟩) post) (2 * t0.lss) 16384 = b := by
      rw [readAt_applyWrs_disjoint _ post _ _ (by intro w hw; have := hpost w hw; right; omega)]
      rw [readAt_applyWr_disjoint _ _ _ _ (by right; simp [hphlen]; omega)]
      have := readAt_applyWr_same d1 ⟨2 * t0.lss, b⟩
      simpa [harrlen] using this
    generalize applyWrs (applyWr (applyWr d1 ⟨2 * t0.lss, b⟩) ⟨t0.lss, hdrEnc crc ti true b⟩) post = dev at r1 r2
    -- the header
    have hhdr : readHeader crc (hdrEnc crc ti true b) = .ok
        { myLBA := 1, altLBA := ti.secondaryHeader, firstData := ti.firstData, lastData := ti.lastData, guid := t0.guid,
          arrLBA := 2, count := 128, entSize := 128, arrCrc := crc b } := by
      rw [C02aux_hdrEnc_shape]
      have has : arraySector ti true = 2 := by simp [arraySector, iph, u64, two64]
      simp only [if_true, iph, has, iac, igu]
      exact readHeader_hdrBody crc hcrc 1 ti.secondaryHeader ti.firstData ti.lastData t0.guid hg 2 128 0x80 (crc b) _
        (by decide) ish ifd ild (by decide) (by decide) (by decide) (hcrc b)
    -- the read
    unfold read readPrimary
    have hnot : ¬ size < t0.lss * 2 := by omega
    simp only [hnot, if_false]
    rw [sl_ok _ t0.lss (t0.lss * 2) _ (by omega) (by simp)]
    simp only
    rw [slice_readAt dev 0 (t0.lss * 2) t0.lss (t0.lss * 2) (by omega) (by omega)]
    have e1 : t0.lss * 2 - t0.lss = t0.lss := by omega
    rw [e1, Nat.zero_add, r1, hhdr]
    simp only
    generalize hpm : readPMBR _ _ = pm
    have hle := loadEntries_std c crc dev size t0.lss
      (tableOfHdr { myLBA := 1, altLBA := ti.secondaryHeader, firstData := ti.firstData, lastData := ti.lastData,
                    guid := t0.guid, arrLBA := 2, count := 128, entSize := 128, arrCrc := crc b } t0.lss pm)
      b hlss rfl rfl rfl rfl hmin r2
    generalize hrl : loadEntries c crc dev size _ t0.lss = rl at hle ⊢
    obtain ⟨r, al⟩ := rl
    simp only at hle
    subst hle
    refine ⟨_, rfl, ?_⟩
    simp only [tableOfHdr]; rw [hdecode]

end Diskfs.Gpt

namespace Diskfs.Detect
open Diskfs.Gpt

theorem mbr_tableEnc_length (ps : List Mbr.Part) : (Mbr.tableEnc ps).length = 66 := by
  rw [Mbr.tableEnc_eq]
  simp [Mbr.slotEnc_length]

/-- gpt.Table.Write, then mbr.Table.Write (which rewrites bytes 446..511 and nothing else): gpt.Read still accepts
    the primary copy - header at LBA 1 and entry array at LBA 2 are untouched - and returns the GPT partitions -/
theorem gpt_read_after_mbr_write (c : Cfg) (crc : Bytes → Nat) (hcrc : ∀ b, crc b < two32) (d : Dev)
    (t0 : Table) (size : Nat) (ws : List Wr) (t : Table) (mps : List Mbr.Part)
    (hf : Fresh t0) (hlss : t0.lss = 512 ∨ t0.lss = 4096) (hg : t0.guid.length = 16)
    (hwf : ∀ p ∈ t0.parts, allZero p.typ = true ∨ (EntryWF p ∧ p.size < two64))
    (hmin : 2 * t0.lss + 16384 ≤ size) (hsz : size < two63)
    (hw : write c crc t0 size = .ok (ws, t)) :
    ∃ t', (Gpt.read c crc (applyWrs d (ws ++ Mbr.write mps)) size t0.lss).1 = .ok t' ∧ t'.parts = normParts t.parts 128 := by
  obtain ⟨pre, post, arr, ps, hws, hpost, harr, ht⟩ := write_fresh_shape c crc t0 size ws t hf hlss hsz hw
  have hpost' : ∀ w ∈ post ++ Mbr.write mps, w.off = 446 ∧ w.data.length = 66 := by
    intro w hwm
    rcases List.mem_append.1 hwm with h | h
    · exact hpost w h
    · simp only [Mbr.write, List.mem_singleton] at h
      subst h
      exact ⟨rfl, mbr_tableEnc_length mps⟩
  obtain ⟨t', hr, hp⟩ := read_of_shape c crc hcrc d t0 size pre (post ++ Mbr.write mps) arr ps hf hlss hg hwf hmin hsz hpost' harr
  refine ⟨t', ?_, ?_⟩
  · rw [hws, List.append_assoc]
    exact hr
  · rw [hp, ht]

end Diskfs.Detect
