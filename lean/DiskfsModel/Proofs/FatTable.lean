import DiskfsModel.Model.Fat.Table
/-
  Machine-checked facts about the FAT table codecs of `Model/Fat/Table.lean`
  (mirror of filesystem/fat12|fat16|fat32/table.go).  Core Lean only.
-/
namespace Diskfs.Fat

theorem byteAt_lt (b : Bytes) (p : Nat) : byteAt b p < 256 := (b.getD p 0).toNat_lt

theorem byteAt_set (b : Bytes) (p q : Nat) (x : UInt8) :
    byteAt (b.set p x) q = if p = q ∧ p < b.length then x.toNat else byteAt b q := by
  unfold byteAt
  simp only [List.getD_eq_getElem?_getD, List.getElem?_set]
  by_cases h : p = q
  · subst h
    by_cases h2 : p < b.length
    · simp [h2]
    · simp [h2]
  · simp [h]

theorem toNat_ofNat_lt {n : Nat} (h : n < 256) : (UInt8.ofNat n).toNat = n := by
  rw [UInt8.toNat_ofNat']; omega

theorem fat12WriteEntry_length (b : Bytes) (i v : Nat) :
    (fat12WriteEntry b i v).length = b.length := by
  unfold fat12WriteEntry
  simp only []
  split
  · rfl
  · split <;> simp [List.length_set]

/-- bytes after an in-bounds write of an even entry -/
theorem byteAt_write_even (b : Bytes) (i v p : Nat) (hb : i * 3 / 2 + 1 < b.length)
    (he : i % 2 = 0) (hv : v < 4096) :
    byteAt (fat12WriteEntry b i v) p =
      if p = i * 3 / 2 then v % 256
      else if p = i * 3 / 2 + 1 then 16 * (byteAt b (i * 3 / 2 + 1) / 16) + v / 256
      else byteAt b p := by
  unfold fat12WriteEntry
  have h1 : ¬ (i * 3 / 2 + 1 ≥ b.length) := by omega
  simp only [h1, he, if_true, if_false]
  have hor : 16 * (byteAt (b.set (i * 3 / 2) (UInt8.ofNat (v % 256))) (i * 3 / 2 + 1) / 16) ||| (v / 256 % 256)
      = 16 * (byteAt b (i * 3 / 2 + 1) / 16) + v / 256 := by
    have h2 : v / 256 % 256 = v / 256 := by omega
    have h3 : v / 256 < 2 ^ 4 := by omega
    rw [h2, byteAt_set]
    have := Nat.two_pow_add_eq_or_of_lt h3 (byteAt b (i * 3 / 2 + 1) / 16)
    simp only [show (2:Nat)^4 = 16 from rfl] at this
    rw [if_neg (by omega), ← this]
  rw [hor, byteAt_set, byteAt_set, List.length_set]
  have := byteAt_lt b (i * 3 / 2 + 1)
  rw [toNat_ofNat_lt (by omega), toNat_ofNat_lt (by omega)]
  by_cases hp : p = i * 3 / 2
  · subst hp
    simp [hb] <;> omega
  · by_cases hp2 : p = i * 3 / 2 + 1
    · subst hp2; simp [hb] <;> omega
    · have : ¬ (i * 3 / 2 + 1 = p) := by omega
      have : ¬ (i * 3 / 2 = p) := by omega
      simp [*]

/-- bytes after an in-bounds write of an odd entry -/
theorem byteAt_write_odd (b : Bytes) (i v p : Nat) (hb : i * 3 / 2 + 1 < b.length)
    (he : i % 2 = 1) (hv : v < 4096) :
    byteAt (fat12WriteEntry b i v) p =
      if p = i * 3 / 2 then 16 * (v % 16) + byteAt b (i * 3 / 2) % 16
      else if p = i * 3 / 2 + 1 then v / 16
      else byteAt b p := by
  unfold fat12WriteEntry
  have h1 : ¬ (i * 3 / 2 + 1 ≥ b.length) := by omega
  have he' : ¬ (i % 2 = 0) := by omega
  simp only [h1, he', if_false]
  have hor : 16 * (v % 16) ||| (byteAt b (i * 3 / 2) % 16)
      = 16 * (v % 16) + byteAt b (i * 3 / 2) % 16 := by
    have h3 : byteAt b (i * 3 / 2) % 16 < 2 ^ 4 := by omega
    have := Nat.two_pow_add_eq_or_of_lt h3 (v % 16)
    simp only [show (2:Nat)^4 = 16 from rfl] at this
    rw [← this]
  rw [hor, byteAt_set, byteAt_set, List.length_set]
  have := byteAt_lt b (i * 3 / 2)
  rw [toNat_ofNat_lt (n := v / 16 % 256) (by omega), toNat_ofNat_lt (n := 16 * (v % 16) + byteAt b (i * 3 / 2) % 16) (by omega)]
  by_cases hp : p = i * 3 / 2
  · subst hp
    simp [hb] <;> omega
  · by_cases hp2 : p = i * 3 / 2 + 1
    · subst hp2; simp [hb] <;> omega
    · have : ¬ (i * 3 / 2 + 1 = p) := by omega
      have : ¬ (i * 3 / 2 = p) := by omega
      simp [*]

theorem fat12_get_set (b : Bytes) (i v : Nat) (hb : i * 3 / 2 + 1 < b.length) (hv : v < 4096) :
    fat12ReadEntry (fat12WriteEntry b i v) i = v := by
  unfold fat12ReadEntry
  simp only [fat12WriteEntry_length]
  have h1 : ¬ (i * 3 / 2 + 1 ≥ b.length) := by omega
  simp only [h1, if_false]
  have := byteAt_lt b (i * 3 / 2)
  have := byteAt_lt b (i * 3 / 2 + 1)
  rcases Nat.mod_two_eq_zero_or_one i with he | he
  · rw [byteAt_write_even b i v _ hb he hv, byteAt_write_even b i v _ hb he hv]
    simp [he]
    omega
  · rw [byteAt_write_odd b i v _ hb he hv, byteAt_write_odd b i v _ hb he hv]
    simp [he]
    omega

theorem fat12_set_frame (b : Bytes) (i j v : Nat) (hij : i ≠ j) (hv : v < 4096) :
    fat12ReadEntry (fat12WriteEntry b i v) j = fat12ReadEntry b j := by
  by_cases hb : i * 3 / 2 + 1 < b.length
  · unfold fat12ReadEntry
    simp only [fat12WriteEntry_length]
    split
    · rfl
    · have c1 : i * 3 / 2 = j * 3 / 2 → byteAt b (i * 3 / 2) = byteAt b (j * 3 / 2) := fun h => by rw [h]
      have c2 : i * 3 / 2 = j * 3 / 2 + 1 → byteAt b (i * 3 / 2) = byteAt b (j * 3 / 2 + 1) := fun h => by rw [h]
      have c3 : i * 3 / 2 + 1 = j * 3 / 2 → byteAt b (i * 3 / 2 + 1) = byteAt b (j * 3 / 2) := fun h => by rw [h]
      have c4 : i * 3 / 2 + 1 = j * 3 / 2 + 1 → byteAt b (i * 3 / 2 + 1) = byteAt b (j * 3 / 2 + 1) := fun h => by rw [h]
      have := byteAt_lt b (i * 3 / 2)
      have := byteAt_lt b (i * 3 / 2 + 1)
      have := byteAt_lt b (j * 3 / 2)
      have := byteAt_lt b (j * 3 / 2 + 1)
      rcases Nat.mod_two_eq_zero_or_one i with he | he
      · rw [byteAt_write_even b i v _ hb he hv, byteAt_write_even b i v _ hb he hv]
        repeat' split
        all_goals omega
      · rw [byteAt_write_odd b i v _ hb he hv, byteAt_write_odd b i v _ hb he hv]
        repeat' split
        all_goals omega
  · have : fat12WriteEntry b i v = b := by
      unfold fat12WriteEntry
      simp only []
      rw [if_pos (by omega)]
    rw [this]

/-- variant of `fat12WriteEntry` whose even branch forgets the `& 0xF0` mask: it stores
    `byte(v>>8)` into byte `o+1` and thereby wipes the low nibble of the odd neighbour entry -/
def fat12WriteEntryNoMask (b : Bytes) (i v : Nat) : Bytes :=
  let o := i * 3 / 2
  if o + 1 ≥ b.length then b
  else if i % 2 = 0 then
    let b1 := b.set o (UInt8.ofNat (v % 256))
    b1.set (o + 1) (UInt8.ofNat ((v / 256) % 256))
  else
    let b1 := b.set o (UInt8.ofNat ((16 * (v % 16)) ||| (byteAt b o % 16)))
    b1.set (o + 1) (UInt8.ofNat ((v / 16) % 256))

/-- without the mask, writing entry 2 destroys entry 3 (0xABC becomes 0xAB0); with it, it does not -/
theorem cex_fat12_no_mask :
    let b := fat12WriteEntry (zeros 6) 3 0xABC
    fat12ReadEntry b 3 = 0xABC ∧
    fat12ReadEntry (fat12WriteEntryNoMask b 2 0x123) 3 = 0xAB0 ∧
    fat12ReadEntry (fat12WriteEntryNoMask b 2 0x123) 3 ≠ fat12ReadEntry b 3 ∧
    fat12ReadEntry (fat12WriteEntry b 2 0x123) 3 = 0xABC := by
  decide

/-! ### `Bytes()` / `FromBytes()` of the FAT12 table -/

theorem fold12_length (m : CMap) (l : List Nat) (b : Bytes) :
    (l.foldl (fun b i => if m i ≠ 0 then fat12WriteEntry b i (m i) else b) b).length = b.length := by
  induction l generalizing b with
  | nil => rfl
  | cons k l ih =>
    rw [List.foldl_cons, ih]
    split
    · exact fat12WriteEntry_length ..
    · rfl

theorem fold12_read (m : CMap) (hm : ∀ j, m j < 4096) (l : List Nat) (hnd : l.Nodup) (b : Bytes)
    (i : Nat) (hi : i * 3 / 2 + 1 < b.length) :
    fat12ReadEntry (l.foldl (fun b i => if m i ≠ 0 then fat12WriteEntry b i (m i) else b) b) i =
      if i ∈ l ∧ m i ≠ 0 then m i else fat12ReadEntry b i := by
  induction l generalizing b with
  | nil => simp
  | cons k l ih =>
    rw [List.foldl_cons]
    rw [List.nodup_cons] at hnd
    have hlen : (if m k ≠ 0 then fat12WriteEntry b k (m k) else b).length = b.length := by
      split
      · exact fat12WriteEntry_length ..
      · rfl
    rw [ih hnd.2 _ (by rw [hlen]; exact hi)]
    by_cases hil : i ∈ l
    · have hik : i ≠ k := fun h => hnd.1 (h ▸ hil)
      by_cases hmi : m i ≠ 0
      · simp [hil, hmi]
      · simp only [hil, hmi, and_false, if_false, List.mem_cons]
        split
        · exact fat12_set_frame b k i (m k) (Ne.symm hik) (hm k)
        · rfl
    · by_cases hik : i = k
      · subst hik
        by_cases hmi : m i ≠ 0
        · simp only [hil, false_and, if_false, hmi, if_true, List.mem_cons, true_or, ne_eq,
            not_false_eq_true, and_self]
          exact fat12_get_set b i (m i) hi (hm i)
        · simp [hil, hmi]
      · simp only [hil, false_and, if_false, List.mem_cons, hik, false_or]
        split
        · exact fat12_set_frame b k i (m k) (Ne.symm hik) (hm k)
        · rfl

theorem bytes12_length (fatID size max : Nat) (m : CMap) (_h : 3 ≤ size) :
    (bytes12 fatID size max m).length = size := by
  unfold bytes12
  simp only []
  rw [fold12_length]
  simp

theorem bytes12_read (fatID size max : Nat) (m : CMap) (i : Nat) (_h3 : 3 ≤ size) (h2 : 2 ≤ i)
    (hmax : i ≤ max) (hb : i * 3 / 2 + 1 < size) (hm : ∀ j, m j < 4096) :
    fat12ReadEntry (bytes12 fatID size max m) i = m i := by
  unfold bytes12
  simp only []
  rw [fold12_read m hm _ (List.nodup_range' ..) _ i (by simpa using hb)]
  have hmem : i ∈ List.range' 2 (max - 1) := by
    rw [List.mem_range'_1]; omega
  have h0 : fat12ReadEntry ((((zeros size).set 0 (UInt8.ofNat (fatID % 256))).set 1 255).set 2 255) i = 0 := by
    unfold fat12ReadEntry
    simp only []
    split
    · rfl
    · have z : ∀ p, 3 ≤ p → byteAt ((((zeros size).set 0 (UInt8.ofNat (fatID % 256))).set 1 255).set 2 255) p = 0 := by
        intro p hp
        rw [byteAt_set, byteAt_set, byteAt_set]
        rw [if_neg (by omega), if_neg (by omega), if_neg (by omega)]
        unfold byteAt zeros
        simp [List.getD_eq_getElem?_getD, List.getElem?_replicate]
        split <;> rfl
      rw [z _ (by omega), z _ (by omega)]
      split <;> rfl
  rw [h0]
  by_cases hmi : m i = 0
  · simp [hmi]
  · simp [hmem, hmi]

theorem table12_roundtrip (fatID size max : Nat) (m old : CMap) (i : Nat) (h3 : 3 ≤ size)
    (hm : ∀ j, m j < 4096) (h2 : 2 ≤ i) (hmax : i ≤ max) (hb : i * 3 / 2 + 1 < size) :
    fromBytes12 (bytes12 fatID size max m) max old i = m i := by
  unfold fromBytes12
  rw [bytes12_length _ _ _ _ h3]
  have : 2 ≤ i ∧ i ≤ min (size * 2 / 3 - 1) max := by
    refine ⟨h2, ?_⟩
    rw [Nat.le_min]
    omega
  rw [if_pos this]
  exact bytes12_read fatID size max m i h3 h2 hmax hb hm

/-! ### FAT16 / FAT32 -/

theorem flatMap_const_length {α : Type} (w : Nat) (f : α → Bytes) (hf : ∀ a, (f a).length = w) (l : List α) :
    (l.flatMap f).length = l.length * w := by
  induction l with
  | nil => simp
  | cons a l ih => simp [List.flatMap_cons, ih, hf, Nat.add_mul, Nat.add_comm]

/-- the `i`-th `w`-byte chunk of a concatenation of `w`-byte chunks -/
theorem chunk_flatMap {α : Type} (w : Nat) (f : α → Bytes) (hf : ∀ a, (f a).length = w)
    (l : List α) (t : Bytes) (i : Nat) (hi : i < l.length) :
    ((l.flatMap f ++ t).drop (i * w)).take w = f l[i] := by
  induction l generalizing i with
  | nil => simp at hi
  | cons a l ih =>
    cases i with
    | zero =>
      simp only [Nat.zero_mul, List.drop_zero, List.flatMap_cons, List.append_assoc, List.getElem_cons_zero]
      rw [List.take_append_of_le_length (by rw [hf]; exact Nat.le_refl _)]
      rw [List.take_of_length_le (by rw [hf]; exact Nat.le_refl _)]
    | succ i =>
      simp only [List.flatMap_cons, List.append_assoc, List.getElem_cons_succ]
      have : (i + 1) * w = (f a).length + i * w := by rw [hf, Nat.add_mul, Nat.one_mul, Nat.add_comm]
      rw [this, List.drop_append, List.drop_of_length_le (Nat.le_add_right _ _), Nat.add_sub_cancel_left,
        List.nil_append]
      exact ih i (by simpa using hi)

theorem bytesW_length (w fatID eoc size max : Nat) (m : CMap) (_hw : 0 < w) :
    (bytesW w fatID eoc size max m).length = size := by
  unfold bytesW
  rw [List.length_append, flatMap_const_length w _ (fun a => leEnc_length w _), List.length_range, zeros_length]
  exact Nat.div_add_mod' size w

theorem readW_bytesW (w fatID eoc size max : Nat) (m : CMap) (i : Nat) (_hw : 0 < w) (hi : i < size / w) :
    readW w (bytesW w fatID eoc size max m) i = entryVal fatID eoc max m i % 256 ^ w := by
  unfold readW bytesW
  rw [chunk_flatMap w _ (fun a => leEnc_length w _) _ _ i (by simpa using hi)]
  rw [List.getElem_range, leDec_leEnc]

theorem tableW_roundtrip (w fatID eoc size max : Nat) (m : CMap) (i : Nat) (hw : 0 < w)
    (h2 : 2 ≤ i) (hmax : i < max) (hsz : max ≤ size / w) (hv : m i < 256 ^ w) :
    fromBytesW w (bytesW w fatID eoc size max m) max (fun _ => 0) i = m i := by
  unfold fromBytesW
  have hr : readW w (bytesW w fatID eoc size max m) i = m i := by
    rw [readW_bytesW w fatID eoc size max m i hw (by omega)]
    unfold entryVal
    rw [if_neg (by omega), if_neg (by omega), if_pos hmax, Nat.mod_eq_of_lt hv]
  rw [hr]
  split
  · rfl
  · rename_i h
    rw [bytesW_length _ _ _ _ _ _ hw] at h
    have h1 : i * w + w ≤ size := by
      have : (i + 1) * w ≤ size / w * w := Nat.mul_le_mul_right w (by omega)
      have := Nat.div_mul_le_self size w
      rw [Nat.add_mul, Nat.one_mul] at *
      omega
    by_cases h0 : m i = 0
    · exact h0.symm
    · exact absurd ⟨h2, hmax, h1, h0⟩ h

theorem table16_roundtrip (fatID size max : Nat) (m : CMap) (i : Nat) (h2 : 2 ≤ i) (hmax : i < max)
    (hsz : max ≤ size / 2) (hv : m i < 65536) :
    fromBytes16 (bytes16 fatID size max m) max (fun _ => 0) i = m i :=
  tableW_roundtrip 2 fatID 0xFFFF size max m i (by decide) h2 hmax hsz hv

theorem table32_roundtrip (fatID eoc size max : Nat) (m : CMap) (i : Nat) (h2 : 2 ≤ i) (hmax : i < max)
    (hsz : max ≤ size / 4) (hv : m i < 4294967296) :
    fromBytes32 (bytes32 fatID eoc size max m) max (fun _ => 0) i = m i :=
  tableW_roundtrip 4 fatID eoc size max m i (by decide) h2 hmax hsz hv

theorem entry01_16 (fatID size max : Nat) (m : CMap) (h : 2 ≤ size / 2) :
    readW 2 (bytes16 fatID size max m) 1 = 0xFFFF := by
  unfold bytes16
  rw [readW_bytesW 2 _ _ _ _ _ 1 (by decide) (by omega)]
  rfl

/-- entry 0 holds the FAT ID (truncated to the entry width) -/
theorem entry0_W (w fatID eoc size max : Nat) (m : CMap) (hw : 0 < w) (h : 1 ≤ size / w) :
    readW w (bytesW w fatID eoc size max m) 0 = fatID % 256 ^ w := by
  rw [readW_bytesW w _ _ _ _ _ 0 hw (by omega)]
  rfl

end Diskfs.Fat
