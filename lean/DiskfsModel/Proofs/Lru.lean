/-
  Helper lemmas of property C17 (LRU block cache), split over three files:
    LruCache.lean  sequential lemmas about trim / add / unlink+push (map ↔ recency list invariant)
    LruInv.lean    the inductive invariant of the N-thread machine and its preservation by `step`
    LruLive.lean   no deadlock, decreasing measure, completion, conservation of the programs
-/
import DiskfsModel.Proofs.LruCache
import DiskfsModel.Proofs.LruInv
import DiskfsModel.Proofs.LruLive
