/-
  Codec lemmas for the GPT model: GUID byte order, UTF-16, the name field,
  partition entries, initEntry.  Helper lemmas for Props/C02.lean.
-/
import DiskfsModel.Model.Gpt
set_option linter.unusedSimpArgs false
namespace Diskfs.Gpt

/-! ### GUID swap -/

theorem guidSwap_length (b : Bytes) (h : b.length = 16) : (guidSwap b).length = 16 := by
  simp [guidSwap, h]

theorem guidSwap_invol (b : Bytes) (h : b.length = 16) : guidSwap (guidSwap b) = b := by
  rcases b with _ | ⟨a0, _ | ⟨a1, _ | ⟨a2, _ | ⟨a3, _ | ⟨a4, _ | ⟨a5, _ | ⟨a6, _ | ⟨a7, _ | ⟨a8, _ | ⟨a9, _ | ⟨a10, _ | ⟨a11, _ | ⟨a12, _ | ⟨a13, _ | ⟨a14, _ | ⟨a15, _ | ⟨a16, r⟩⟩⟩⟩⟩⟩⟩⟩⟩⟩⟩⟩⟩⟩⟩⟩⟩
  all_goals first | rfl | (simp at h) | (simp at h; omega)

theorem allZero_guidSwap (b : Bytes) (h : b.length = 16) : allZero (guidSwap b) = allZero b := by
  rcases b with _ | ⟨a0, _ | ⟨a1, _ | ⟨a2, _ | ⟨a3, _ | ⟨a4, _ | ⟨a5, _ | ⟨a6, _ | ⟨a7, _ | ⟨a8, _ | ⟨a9, _ | ⟨a10, _ | ⟨a11, _ | ⟨a12, _ | ⟨a13, _ | ⟨a14, _ | ⟨a15, _ | ⟨a16, r⟩⟩⟩⟩⟩⟩⟩⟩⟩⟩⟩⟩⟩⟩⟩⟩⟩
  all_goals first | (simp at h; done) | (simp at h; omega) | skip
  simp only [guidSwap, allZero, List.take, List.drop, List.reverse_cons, List.reverse_nil, List.nil_append,
    List.cons_append, List.all_cons, List.all_nil, Bool.and_true]
  cases (a0 == 0) <;> cases (a1 == 0) <;> cases (a2 == 0) <;> cases (a3 == 0) <;> cases (a4 == 0) <;>
    cases (a5 == 0) <;> cases (a6 == 0) <;> cases (a7 == 0) <;> simp

theorem allZero_zeros (n : Nat) : allZero (zeros n) = true := by
  simp [allZero, zeros]

/-! ### UTF-16 -/

theorem utf16Dec_single (u : Nat) (rest : List Nat) (h : u < 0xD800 ∨ 0xE000 ≤ u) :
    utf16Dec (u :: rest) = u :: utf16Dec rest := by
  cases rest with
  | nil =>
    simp only [utf16Dec]
    have : ¬ (0xD800 ≤ u ∧ u < 0xE000) := by omega
    simp [this]
  | cons v r =>
    simp only [utf16Dec]
    have : (u < 0xD800 ∨ 0xE000 ≤ u) := h
    simp [this]

theorem utf16Dec_pair (u v : Nat) (rest : List Nat) (hu : 0xD800 ≤ u ∧ u < 0xDC00) (hv : 0xDC00 ≤ v ∧ v < 0xE000) :
    utf16Dec (u :: v :: rest) = ((u - 0xD800) * 1024 + (v - 0xDC00) + 0x10000) :: utf16Dec rest := by
  simp only [utf16Dec]
  have h1 : ¬ (u < 0xD800 ∨ 0xE000 ≤ u) := by omega
  simp [h1, hu.2, hv.1, hv.2]

/-- `utf16.Decode(utf16.Encode(rs)) = rs` for every sequence of valid runes -/
theorem utf16_roundtrip (rs : List Nat) (h : ∀ r ∈ rs, validRune r = true) : utf16Dec (utf16Enc rs) = rs := by
  induction rs with
  | nil => simp [utf16Enc, utf16Dec]
  | cons r rs ih =>
    have hr := h r (List.mem_cons_self ..)
    have ih' := ih (fun x hx => h x (List.mem_cons_of_mem _ hx))
    simp only [validRune, Bool.or_eq_true, Bool.and_eq_true, decide_eq_true_eq] at hr
    simp only [utf16Enc, List.flatMap_cons] at ih' ⊢
    by_cases hb : r < 0xD800 ∨ (0xE000 ≤ r ∧ r < 0x10000)
    · have : utf16EncRune r = [r] := by
        simp only [utf16EncRune, Bool.or_eq_true, Bool.and_eq_true, decide_eq_true_eq]
        simp [hb]
      rw [this]
      simp only [List.cons_append, List.nil_append]
      rw [utf16Dec_single r _ (by omega), ih']
    · have hhi : 0x10000 ≤ r ∧ r ≤ 0x10FFFF := by omega
      have : utf16EncRune r = [0xD800 + (r - 0x10000) / 1024 % 1024, 0xDC00 + (r - 0x10000) % 1024] := by
        simp only [utf16EncRune, Bool.or_eq_true, Bool.and_eq_true, decide_eq_true_eq]
        simp [hb, hhi]
      rw [this]
      simp only [List.cons_append, List.nil_append]
      rw [utf16Dec_pair _ _ _ (by omega) (by omega), ih']
      congr 1
      omega

/-- every unit produced for a valid non-NUL rune is a non-zero 16-bit value -/
theorem utf16Enc_units (rs : List Nat) (h : ∀ r ∈ rs, validRune r = true ∧ r ≠ 0) :
    ∀ u ∈ utf16Enc rs, 0 < u ∧ u < 65536 := by
  induction rs with
  | nil => simp [utf16Enc]
  | cons r rs ih =>
    intro u hu
    simp only [utf16Enc, List.flatMap_cons, List.mem_append] at hu
    rcases hu with hu | hu
    · have hr := h r (List.mem_cons_self ..)
      simp only [validRune, Bool.or_eq_true, Bool.and_eq_true, decide_eq_true_eq] at hr
      unfold utf16EncRune at hu
      split at hu
      · rename_i hc
        simp only [Bool.or_eq_true, Bool.and_eq_true, decide_eq_true_eq] at hc
        simp only [List.mem_singleton] at hu
        omega
      · split at hu
        · simp only [List.mem_cons, List.not_mem_nil, or_false] at hu
          omega
        · simp only [List.mem_singleton] at hu
          omega
    · exact ih (fun x hx => h x (List.mem_cons_of_mem _ hx)) u (by simpa [utf16Enc] using hu)

/-! ### the name field -/

theorem unitsUntilZero_zeros (k : Nat) : unitsUntilZero (zeros k) = [] := by
  match k with
  | 0 => simp [zeros, unitsUntilZero]
  | 1 => simp [zeros, unitsUntilZero, List.replicate]
  | k + 2 => simp [zeros, unitsUntilZero, List.replicate]

theorem nameBytes_length (us : List Nat) : (nameBytes us).length = 2 * us.length := by
  induction us with
  | nil => simp [nameBytes]
  | cons u us ih =>
    simp only [nameBytes, List.flatMap_cons, List.length_append, leEnc_length, List.length_cons] at ih ⊢
    omega

theorem unitsUntilZero_nameBytes (us : List Nat) (k : Nat) (h : ∀ u ∈ us, 0 < u ∧ u < 65536) :
    unitsUntilZero (nameBytes us ++ zeros k) = us := by
  induction us with
  | nil => simpa [nameBytes] using unitsUntilZero_zeros k
  | cons u us ih =>
    have hu := h u (List.mem_cons_self ..)
    have ih' := ih (fun x hx => h x (List.mem_cons_of_mem _ hx))
    simp only [nameBytes, List.flatMap_cons] at ih' ⊢
    have e : leEnc 2 u = [UInt8.ofNat (u % 256), UInt8.ofNat (u / 256 % 256)] := by simp [leEnc]
    rw [e]
    simp only [List.cons_append, List.nil_append, unitsUntilZero]
    have h1 : (UInt8.ofNat (u % 256)).toNat + 256 * (UInt8.ofNat (u / 256 % 256)).toNat = u := by
      simp [UInt8.toNat_ofNat']
      omega
    rw [h1]
    have : u ≠ 0 := by omega
    simp [this, ih']

/-! ### slices of concatenations -/

theorem slice_append_skip (a rest : Bytes) (lo hi : Nat) (h : a.length ≤ lo) :
    slice (a ++ rest) lo hi = slice rest (lo - a.length) (hi - a.length) := by
  simp only [slice]
  rw [List.drop_append, List.drop_eq_nil_of_le h, List.nil_append]
  congr 1
  omega

theorem slice_append_hit (a rest : Bytes) (hi : Nat) (h : a.length = hi) : slice (a ++ rest) 0 hi = a := by
  subst h
  simp [slice]

theorem slice_all (a : Bytes) (hi : Nat) (h : a.length = hi) : slice a 0 hi = a := by
  subst h
  simp [slice]

/-! ### partition entries -/

theorem utf16EncRune_length_pos (r : Nat) : 1 ≤ (utf16EncRune r).length := by
  unfold utf16EncRune
  split
  · simp
  · split <;> simp

theorem utf16Enc_length_ge (rs : List Nat) : rs.length ≤ (utf16Enc rs).length := by
  induction rs with
  | nil => simp [utf16Enc]
  | cons r rs ih =>
    simp only [utf16Enc, List.flatMap_cons, List.length_append, List.length_cons] at ih ⊢
    have := utf16EncRune_length_pos r
    omega

/-- what `Write` may be given for a used entry: 16-byte GUIDs, a non-zero type, 64-bit fields,
    a name of valid non-NUL runes that fits the 36 UTF-16 units of the name field -/
structure EntryWF (p : Part) : Prop where
  typ_len : p.typ.length = 16
  guid_len : p.guid.length = 16
  used : allZero p.typ = false
  start_lt : p.start < two64
  end_lt : p.end_ < two64
  attrs_lt : p.attrs < two64
  runes : ∀ r ∈ p.name, validRune r = true ∧ r ≠ 0
  units : (utf16Enc p.name).length ≤ 36

theorem two64_eq : two64 = 256 ^ 8 := by decide

theorem entryEnc_ok (c : Cfg) (p : Part) (h : EntryWF p) :
    entryEnc c p = .ok (guidSwap p.typ ++ guidSwap p.guid ++ leEnc 8 p.start ++ leEnc 8 p.end_ ++ leEnc 8 p.attrs
        ++ padTo 72 (nameBytes (utf16Enc p.name))) := by
  unfold entryEnc
  have h1 := utf16Enc_length_ge p.name
  have h2 := h.units
  have h3 : ¬ (p.name.length > 36) := by omega
  have h4 : ¬ ((utf16Enc p.name).length > 36) := by omega
  simp [h.used, h3, h4]

theorem padTo_nameBytes_length (us : List Nat) (h : us.length ≤ 36) : (padTo 72 (nameBytes us)).length = 72 := by
  simp [padTo, nameBytes_length]
  omega

/-- decoding the 128 bytes `toBytes` produced yields the entry again (with the slot's index and the
    size the reader recomputes from start / end) -/
theorem entryDec_entryEnc (c : Cfg) (p : Part) (i lss : Nat) (h : EntryWF p) :
    ∃ b, entryEnc c p = .ok b ∧ b.length = 128 ∧
      entryDec i b lss = some { p with index := i, size := u64 (u64 (u64sub p.end_ p.start + 1) * lss) } := by
  refine ⟨_, entryEnc_ok c p h, ?_, ?_⟩
  · simp [guidSwap_length _ h.typ_len, guidSwap_length _ h.guid_len, padTo_nameBytes_length _ h.units]
  · have l1 := guidSwap_length _ h.typ_len
    have l2 := guidSwap_length _ h.guid_len
    have l6 := padTo_nameBytes_length _ h.units
    have hs := h.start_lt; have he := h.end_lt; have ha := h.attrs_lt
    rw [two64_eq] at hs he ha
    have s0 : slice (guidSwap p.typ ++ guidSwap p.guid ++ leEnc 8 p.start ++ leEnc 8 p.end_ ++ leEnc 8 p.attrs
        ++ padTo 72 (nameBytes (utf16Enc p.name))) 0 16 = guidSwap p.typ := by
      simp [slice_append_skip, slice_append_hit, slice_all, List.append_assoc, l1, l2, l6]
    have s1 : slice (guidSwap p.typ ++ guidSwap p.guid ++ leEnc 8 p.start ++ leEnc 8 p.end_ ++ leEnc 8 p.attrs
        ++ padTo 72 (nameBytes (utf16Enc p.name))) 16 32 = guidSwap p.guid := by
      simp [slice_append_skip, slice_append_hit, slice_all, List.append_assoc, l1, l2, l6]
    have s2 : slice (guidSwap p.typ ++ guidSwap p.guid ++ leEnc 8 p.start ++ leEnc 8 p.end_ ++ leEnc 8 p.attrs
        ++ padTo 72 (nameBytes (utf16Enc p.name))) 32 40 = leEnc 8 p.start := by
      simp [slice_append_skip, slice_append_hit, slice_all, List.append_assoc, l1, l2, l6]
    have s3 : slice (guidSwap p.typ ++ guidSwap p.guid ++ leEnc 8 p.start ++ leEnc 8 p.end_ ++ leEnc 8 p.attrs
        ++ padTo 72 (nameBytes (utf16Enc p.name))) 40 48 = leEnc 8 p.end_ := by
      simp [slice_append_skip, slice_append_hit, slice_all, List.append_assoc, l1, l2, l6]
    have s4 : slice (guidSwap p.typ ++ guidSwap p.guid ++ leEnc 8 p.start ++ leEnc 8 p.end_ ++ leEnc 8 p.attrs
        ++ padTo 72 (nameBytes (utf16Enc p.name))) 48 56 = leEnc 8 p.attrs := by
      simp [slice_append_skip, slice_append_hit, slice_all, List.append_assoc, l1, l2, l6]
    have s5 : slice (guidSwap p.typ ++ guidSwap p.guid ++ leEnc 8 p.start ++ leEnc 8 p.end_ ++ leEnc 8 p.attrs
        ++ padTo 72 (nameBytes (utf16Enc p.name))) 56 128 = padTo 72 (nameBytes (utf16Enc p.name)) := by
      simp [slice_append_skip, slice_append_hit, slice_all, List.append_assoc, l1, l2, l6]
    unfold entryDec
    rw [s0, s1, s2, s3, s4, s5]
    rw [allZero_guidSwap _ h.typ_len, h.used]
    simp only [Bool.false_eq_true, if_false]
    rw [guidSwap_invol _ h.typ_len, guidSwap_invol _ h.guid_len]
    rw [leDec_leEnc_of_lt 8 _ hs, leDec_leEnc_of_lt 8 _ he, leDec_leEnc_of_lt 8 _ ha]
    have hu := utf16Enc_units p.name h.runes
    have : unitsUntilZero (padTo 72 (nameBytes (utf16Enc p.name))) = utf16Enc p.name := by
      unfold padTo
      exact unitsUntilZero_nameBytes _ _ hu
    rw [this, utf16_roundtrip p.name (fun r hr => (h.runes r hr).1)]

/-- an unused slot (all-zero type GUID, in particular 128 zero bytes) decodes to nothing -/
theorem entryDec_zeros (i lss : Nat) : entryDec i (zeros 128) lss = none := by
  unfold entryDec
  have : slice (zeros 128) 0 16 = zeros 16 := by simp [slice, zeros]
  rw [this, allZero_zeros]
  simp

/-! ### initEntry -/

/-- the size the reader derives from start / end -/
def sizeOf (start end_ lss : Nat) : Nat := u64 (u64 (u64sub end_ start + 1) * lss)

theorem initEntry_fields (p p' : Part) (bs : Nat) (h : initEntry p bs = some p') :
    p'.index = p.index ∧ p'.start = p.start ∧ p'.typ = p.typ ∧ p'.guid = p.guid ∧ p'.attrs = p.attrs ∧ p'.name = p.name := by
  unfold initEntry at h
  split at h
  · simp at h; subst h; simp
  · simp only at h
    split at h
    · simp at h
    · split at h
      · simp at h; subst h; simp
      · split at h
        · simp at h; subst h; simp
        · split at h
          · simp at h; subst h; simp
          · simp at h

/-- whatever spelling (start+end, start+size, all three) `initEntry` accepts for a used entry, the
    entry it leaves has a non-zero start, a 64-bit end, and a size equal to what a reader derives
    from start and end -/
theorem initEntry_consistent (p p' : Part) (bs : Nat) (hbs : 0 < bs) (hu : allZero p.typ = false)
    (hs : p.start < two64) (he : p.end_ < two64) (hz : p.size < two64)
    (h : initEntry p bs = some p') :
    p'.start ≠ 0 ∧ p'.end_ < two64 ∧ p'.size = sizeOf p'.start p'.end_ bs := by
  unfold initEntry at h
  rw [hu] at h
  simp only [Bool.false_eq_true, if_false] at h
  split at h
  · simp at h
  · rename_i h0
    split at h
    · rename_i h1
      simp at h; subst h
      exact ⟨h0, he, h1.2⟩
    · split at h
      · simp at h; subst h
        exact ⟨h0, he, rfl⟩
      · split at h
        · rename_i h3
          simp at h; subst h
          obtain ⟨hpos, hmod, _, hend⟩ := h3
          have hq : p.size = (p.size / bs) * bs := (Nat.div_mul_cancel (Nat.dvd_of_mod_eq_zero hmod)).symm
          generalize hqd : p.size / bs = q at hq
          have hq1 : 1 ≤ q := by
            cases q with
            | zero => simp at hq; omega
            | succ n => omega
          have hqlt : q < two64 := by
            have : q ≤ q * bs := Nat.le_mul_of_pos_right q hbs
            omega
          have key : u64 (u64sub (u64sub (u64 (p.start + q)) 1) p.start + 1) = q := by
            simp only [u64, u64sub, two64] at *
            omega
          refine ⟨h0, ?_, ?_⟩
          · simp only [u64sub, two64]; omega
          · simp only [sizeOf]
            rw [key, ← hq]
            simp only [u64]
            exact (Nat.mod_eq_of_lt hz).symm
        · simp at h

end Diskfs.Gpt
