/-
  C20 helper lemmas: the SPEC reader's walk of an extended-attribute entry table (ImageSpec.xattrWalk) on an
  encoded table returns exactly the entries, and therefore what the mirror of parseXattrEntries returns
  (Proofs/Ext4Xattr.lean parseXattrs_enc) when the names are distinct.
-/
import DiskfsModel.Proofs.Ext4Xattr
import DiskfsModel.Model.Ext4.ImageSpec
namespace Diskfs.Ext4.Reader
open Diskfs.Ext4.Spec

theorem le32_bytes4 (b : Bytes) (o : Nat) (h : o + 4 ≤ b.length) :
    le32 b o = u8 b o + 256 * (u8 b (o + 1) + 256 * (u8 b (o + 2) + 256 * u8 b (o + 3))) := by
  have h0 : b.drop o = b[o] :: b.drop (o + 1) := List.drop_eq_getElem_cons (by omega)
  have h1 : b.drop (o + 1) = b[o + 1] :: b.drop (o + 2) := List.drop_eq_getElem_cons (by omega)
  have h2 : b.drop (o + 2) = b[o + 2] :: b.drop (o + 3) := List.drop_eq_getElem_cons (by omega)
  have h3 : b.drop (o + 3) = b[o + 3] :: b.drop (o + 4) := List.drop_eq_getElem_cons (by omega)
  unfold le32 slice u8
  rw [h0, h1, h2, h3, Nat.add_sub_cancel_left]
  simp only [List.take_succ_cons, List.take_zero, leDec, List.getD_eq_getElem?_getD]
  rw [List.getElem?_eq_getElem (by omega), List.getElem?_eq_getElem (by omega), List.getElem?_eq_getElem (by omega),
    List.getElem?_eq_getElem (by omega)]
  simp

/-- what may follow the last entry for BOTH readers to stop there: fewer than four bytes, or four zero bytes
    (the terminator the format prescribes) -/
def TermZero (tail : Bytes) : Prop := tail.length < 4 ∨ ∃ t, tail = 0 :: 0 :: 0 :: 0 :: t

theorem termZero_termOK (tail : Bytes) (h : TermZero tail) : TermOK tail := by
  rcases h with h | ⟨t, rfl⟩
  · left; omega
  · right; constructor <;> rfl

/-- what one entry contributes to the SPEC reader's list -/
def specEntry (buf : Bytes) (base : Nat) (x : XEnt) : Bytes × Bytes :=
  (xattrPrefixSpec x.idx ++ x.name, if x.size > 0 then slice buf (base + x.offs) (base + x.offs + x.size) else [])

theorem xattrWalk_enc (buf : Bytes) (base : Nat) :
    ∀ (xs : List XEnt) (pre tail : Bytes) (acc : List (Bytes × Bytes)) (fuel : Nat),
      buf = pre ++ encXTable xs ++ tail → pre.length % 4 = 0 →
      (∀ x ∈ xs, x.name.length < 256 ∧ x.idx < 256 ∧ ¬ (x.name.length = 0 ∧ x.idx = 0) ∧ x.offs < 65536 ∧
        x.size < 4294967296 ∧ (0 < x.size → base + x.offs + x.size ≤ buf.length)) →
      xs.length < fuel → TermZero tail →
      xattrWalk buf base buf.length fuel pre.length acc = .ok (acc.reverse ++ xs.map (specEntry buf base)) := by
  intro xs
  induction xs with
  | nil =>
    intro pre tail acc fuel hb _ _ hf ht
    cases fuel with
    | zero => simp at hf
    | succ f =>
      simp only [encXTable, List.append_nil] at hb
      rw [xattrWalk]
      rcases ht with ht | ⟨t, rfl⟩
      · rw [if_pos (Or.inl (by rw [hb, List.length_append]; omega))]
        simp
      · have : le32 buf pre.length = 0 := by
          rw [hb]
          have := le32_shift pre (0 :: 0 :: 0 :: 0 :: t) 0
          rw [Nat.add_zero] at this
          rw [this]
          simp [le32, slice, leDec]
        rw [if_pos (Or.inr this)]
        simp
  | cons x rest ih =>
    intro pre tail acc fuel hb hal hwf hf ht
    cases fuel with
    | zero => simp at hf
    | succ f =>
      obtain ⟨hnl, hidx, hnz, hoffs, hsize, hval⟩ := hwf x (List.mem_cons_self ..)
      generalize hpost : x.name ++ zeros (xPad x.name.length) ++ encXTable rest ++ tail = post
      have hbuf : buf = pre ++ (encFields (xHdr x) ++ post) := by
        rw [hb, ← hpost]; simp [encXTable, encXEnt, List.append_assoc]
      have hpl : x.name.length ≤ post.length := by rw [← hpost]; simp
      have L : (xHdr x).length = 6 := rfl
      have hll : (encFields (xHdr x) ++ post).length = 16 + post.length := by simp [xHdr_length]
      have e0 : u8 (encFields (xHdr x) ++ post) 0 = x.name.length := by
        rw [u8_field (xHdr x) 0 post 0 (by rw [L]; decide) rfl rfl (by omega)]
        exact Nat.mod_eq_of_lt hnl
      have e1 : u8 (encFields (xHdr x) ++ post) 1 = x.idx := by
        rw [u8_field (xHdr x) 1 post 1 (by rw [L]; decide) rfl rfl (by omega)]
        exact Nat.mod_eq_of_lt hidx
      have e2 : le16 (encFields (xHdr x) ++ post) 2 = x.offs := by
        rw [le16_field (xHdr x) 2 post 2 (by rw [L]; decide) rfl rfl]
        exact Nat.mod_eq_of_lt hoffs
      have e3 : le32 (encFields (xHdr x) ++ post) 4 = 0 := by
        rw [le32_field (xHdr x) 3 post 4 (by rw [L]; decide) rfl rfl]
        rfl
      have e4 : le32 (encFields (xHdr x) ++ post) 8 = x.size := by
        rw [le32_field (xHdr x) 4 post 8 (by rw [L]; decide) rfl rfl]
        exact Nat.mod_eq_of_lt hsize
      have e5 : slice (encFields (xHdr x) ++ post) 16 (16 + x.name.length) = x.name := by
        have : encFields (xHdr x) ++ post =
            encFields (xHdr x) ++ x.name ++ (zeros (xPad x.name.length) ++ encXTable rest ++ tail) := by
          rw [← hpost]; simp [List.append_assoc]
        rw [this]
        exact slice_mid' _ _ _ 16 _ (xHdr_length x).symm (by rw [xHdr_length])
      have hlen : buf.length = pre.length + 16 + post.length := by
        rw [hbuf]; simp [xHdr_length]; omega
      have s0 : u8 buf pre.length = x.name.length := by
        rw [hbuf]
        have := u8_shift pre (encFields (xHdr x) ++ post) 0; rw [Nat.add_zero] at this; rw [this, e0]
      have s1 : u8 buf (pre.length + 1) = x.idx := by rw [hbuf, u8_shift, e1]
      -- the first four bytes of the entry are not all zero
      have hnz32 : le32 buf pre.length ≠ 0 := by
        rw [le32_bytes4 buf pre.length (by omega), s0, s1]
        intro h0
        apply hnz
        omega
      rw [xattrWalk]
      rw [if_neg (by intro h; rcases h with h | h; omega; exact hnz32 h)]
      rw [if_neg (by omega)]
      simp only []
      rw [s0, s1]
      have s2 : le16 buf (pre.length + 2) = x.offs := by rw [hbuf, le16_shift, e2]
      have s3 : le32 buf (pre.length + 4) = 0 := by rw [hbuf, le32_shift, e3]
      have s4 : le32 buf (pre.length + 8) = x.size := by rw [hbuf, le32_shift, e4]
      have s5 : slice buf (pre.length + 16) (pre.length + 16 + x.name.length) = x.name := by
        rw [hbuf, Nat.add_assoc, slice_shift, e5]
      rw [s2, s3, s4, s5]
      rw [if_neg (by omega), if_neg (by simp)]
      rw [if_neg (by intro ⟨h1, h2⟩; have := hval h1; omega)]
      have hnext : (pre.length + 16 + x.name.length + 3) / 4 * 4 = (pre ++ encXEnt x).length := by
        rw [List.length_append, encXEnt_length]; unfold xPad; omega
      rw [hnext]
      have hbuf2 : buf = (pre ++ encXEnt x) ++ encXTable rest ++ tail := by
        rw [hbuf, ← hpost]; simp [encXEnt, List.append_assoc]
      have hal2 : (pre ++ encXEnt x).length % 4 = 0 := by
        rw [List.length_append, encXEnt_length]; unfold xPad; omega
      rw [ih (pre ++ encXEnt x) tail _ f hbuf2 hal2 (fun y hy => hwf y (List.mem_cons_of_mem _ hy))
        (by simp at hf; omega) ht]
      simp [specEntry]

end Diskfs.Ext4.Reader
