/-
  Read-then-rewrite idempotence (C14 / C02): a table obtained by gpt.Read from a device this library's
  Write produced, written back with Write, changes no byte of the device.  Same for MBR, for ANY device
  mbr.Read accepts.  Helper for Props/C02.
-/
import DiskfsModel.Proofs.GptRefine
import DiskfsModel.Proofs.MbrTable
set_option linter.unusedSimpArgs false
set_option linter.unusedVariables false
namespace Diskfs

/-! ### writing back what is already there changes nothing -/

theorem applyWr_readback (d : Dev) (w : Wr) (h : readAt d w.off w.data.length = w.data) : applyWr d w = d := by
  funext i
  unfold applyWr
  split
  · rename_i hi
    have : w.data.getD (i - w.off) 0 = (readAt d w.off w.data.length).getD (i - w.off) 0 := by rw [h]
    rw [this]
    have hk : i - w.off < w.data.length := by omega
    simp only [readAt, List.getD_eq_getElem?_getD, List.getElem?_map, List.getElem?_range hk, Option.map_some,
      Option.getD_some]
    congr 1
    omega
  · rfl

theorem applyWrs_noop (d : Dev) (ws : List Wr) (h : ∀ w ∈ ws, readAt d w.off w.data.length = w.data) :
    applyWrs d ws = d := by
  induction ws with
  | nil => rfl
  | cons w ws ih =>
    have hcons : applyWrs d (w :: ws) = applyWrs (applyWr d w) ws := rfl
    rw [hcons, applyWr_readback d w (h w (List.mem_cons_self ..))]
    exact ih (fun x hx => h x (List.mem_cons_of_mem _ hx))

end Diskfs

namespace Diskfs.Gpt

/-! ### re-encoding the partitions that were read back gives the same array -/

theorem slotPart_spec (ps : List Part) (i : Nat) (p : Part) (h : slotPart ps i = some p) :
    ps.find? (fun q => q.index == i + 1) = some p ∧ p ∈ ps ∧ p.index = i + 1 ∧ allZero p.typ = false := by
  unfold slotPart at h
  cases hf : ps.find? (fun q => q.index == i + 1) with
  | none => rw [hf] at h; simp at h
  | some q =>
    rw [hf] at h
    simp only [Option.bind_some] at h
    by_cases hz : allZero q.typ = true
    · simp [hz] at h
    · simp only [hz, Bool.false_eq_true, if_false, Option.some.injEq] at h
      subst h
      refine ⟨rfl, List.mem_of_find?_eq_some hf, ?_, by simpa using hz⟩
      have := List.find?_some hf
      simpa using this

/-- the used entries in slot order: looking up index `i+1` finds exactly slot `i` -/
theorem find_filterMap_slots (ps : List Part) (i : Nat) :
    ∀ (m j0 : Nat), ((List.range' j0 m).filterMap (slotPart ps)).find? (fun q => q.index == i + 1) =
      if j0 ≤ i ∧ i < j0 + m then slotPart ps i else none := by
  intro m
  induction m with
  | zero =>
    intro j0
    have : ¬ (j0 ≤ i ∧ i < j0 + 0) := by omega
    rw [if_neg this]
    rfl
  | succ m ih =>
    intro j0
    rw [List.range'_succ, List.filterMap_cons]
    cases hs : slotPart ps j0 with
    | none =>
      simp only
      rw [ih (j0 + 1)]
      by_cases hij : i = j0
      · subst hij; simp [hs]
      · have e : (j0 + 1 ≤ i ∧ i < j0 + 1 + m) ↔ (j0 ≤ i ∧ i < j0 + (m + 1)) := by omega
        simp only [e]
    | some p =>
      simp only
      obtain ⟨_, _, hidx, _⟩ := slotPart_spec ps j0 p hs
      by_cases hij : i = j0
      · subst hij
        simp [List.find?_cons, hidx, hs]
      · have hne : (p.index == i + 1) = false := by simp [hidx]; omega
        rw [List.find?_cons, hne]
        simp only
        rw [ih (j0 + 1)]
        have e : (j0 + 1 ≤ i ∧ i < j0 + 1 + m) ↔ (j0 ≤ i ∧ i < j0 + (m + 1)) := by omega
        simp only [e]

theorem find_normParts (ps : List Part) (n i : Nat) (hi : i < n) :
    (normParts ps n).find? (fun q => q.index == i + 1) = slotPart ps i := by
  unfold normParts
  rw [List.range_eq_range', find_filterMap_slots ps i n 0]
  simp [hi]

/-- slot `i` is encoded to the same 128 bytes from the read-back list as from the original list -/
theorem slotBytes_normParts (c : Cfg) (ps : List Part) (i : Nat) (hi : i < 128) :
    slotBytes c (normParts ps 128) 128 i = slotBytes c ps 128 i := by
  unfold slotBytes
  rw [find_normParts ps 128 i hi]
  cases hs : slotPart ps i with
  | some p =>
    obtain ⟨hf, _, _, _⟩ := slotPart_spec ps i p hs
    rw [hf]
  | none =>
    simp only
    unfold slotPart at hs
    cases hf : ps.find? (fun q => q.index == i + 1) with
    | none => rfl
    | some q =>
      rw [hf] at hs
      simp only [Option.bind_some] at hs
      have hz : allZero q.typ = true := by
        by_cases hz : allZero q.typ = true
        · exact hz
        · simp [hz] at hs
      simp only [entryEnc, hz, if_true]
      show Res.ok (zeros 128) = Res.ok (padTo 128 ((zeros 128).take 128))
      have e1 : (zeros 128).take 128 = zeros 128 := List.take_of_length_le (by simp)
      rw [e1, padTo_self _ _ (by simp)]

theorem slotsFrom_normParts (c : Cfg) (ps : List Part) :
    ∀ (is : List Nat), (∀ i ∈ is, i < 128) → slotsFrom c (normParts ps 128) 128 is = slotsFrom c ps 128 is := by
  intro is
  induction is with
  | nil => intro _; rfl
  | cons i is ih =>
    intro h
    simp only [slotsFrom]
    rw [slotBytes_normParts c ps i (h i (List.mem_cons_self ..)), ih (fun j hj => h j (List.mem_cons_of_mem _ hj))]

/-- the loop of toPartitionArrayBytes accepts the read-back list unchanged, provided every used entry
    is a fixed point of initEntry -/
theorem initParts_slots (bs n : Nat) (ps : List Part)
    (hfp : ∀ p ∈ ps, allZero p.typ = false → initEntry p bs = some p) :
    ∀ (m j0 : Nat) (acc : List Part), j0 + m ≤ n → (∀ q ∈ acc, q.index < j0 + 1) →
      initParts bs n ((List.range' j0 m).filterMap (slotPart ps)) acc =
        some (acc.reverse ++ (List.range' j0 m).filterMap (slotPart ps)) := by
  intro m
  induction m with
  | zero => intro j0 acc _ _; simp [initParts]
  | succ m ih =>
    intro j0 acc hn hacc
    rw [List.range'_succ, List.filterMap_cons]
    cases hs : slotPart ps j0 with
    | none =>
      simp only
      exact ih (j0 + 1) acc (by omega) (fun q hq => by have := hacc q hq; omega)
    | some p =>
      simp only
      obtain ⟨_, hmem, hidx, hused⟩ := slotPart_spec ps j0 p hs
      simp only [initParts, hfp p hmem hused]
      have c1 : ¬ (p.index < 1 ∨ p.index > n) := by omega
      rw [if_neg c1]
      have c2 : (acc.any fun q => q.index == p.index) = false := by
        rw [List.any_eq_false]
        intro q hq
        have := hacc q hq
        simp; omega
      simp only [c2, Bool.false_eq_true, if_false]
      rw [ih (j0 + 1) (p :: acc) (by omega) (by
        intro q hq
        rcases List.mem_cons.1 hq with h | h
        · subst h; omega
        · have := hacc q h; omega)]
      simp

theorem initParts_normParts (bs n : Nat) (ps : List Part)
    (hfp : ∀ p ∈ ps, allZero p.typ = false → initEntry p bs = some p) :
    initParts bs n (normParts ps n) [] = some (normParts ps n) := by
  unfold normParts
  rw [List.range_eq_range']
  have := initParts_slots bs n ps hfp n 0 [] (by omega) (by intro q hq; cases hq)
  simpa using this

/-- a used entry with 1 ≤ start ≤ end and the size a reader derives is a fixed point of initEntry -/
theorem initEntry_fixed (p : Part) (bs : Nat) (hu : allZero p.typ = false) (h1 : 1 ≤ p.start) (h2 : p.start ≤ p.end_)
    (hz : p.size = sizeOf p.start p.end_ bs) : initEntry p bs = some p := by
  unfold initEntry
  simp only [sizeOf] at hz
  have h0 : p.start ≠ 0 := by omega
  simp [hu, h0, h2, hz]

/-! ### the write list of an initialised table of this library's geometry -/

theorem u64sub_of_le (a b : Nat) (hb : b ≤ a) (ha : a < two64) : u64sub a b = a - b := by
  unfold u64sub
  rw [Nat.mod_eq_of_lt ha, Nat.mod_eq_of_lt (show b < two64 by omega)]
  have e : a + two64 - b = (a - b) + two64 := by omega
  rw [e, Nat.add_mod_right, Nat.mod_eq_of_lt (by omega)]

theorem write_init_exact (c : Cfg) (crc : Bytes → Nat) (tt : Table) (size : Nat) (ws : List Wr) (t : Table)
    (hinit : tt.initialized = true) (hl : tt.lss = 512 ∨ tt.lss = 4096) (hsz : size < two63)
    (hmin : (2 * (16384 / tt.lss) + 3) * tt.lss ≤ size)
    (g1 : tt.primaryHeader = 1) (g2 : tt.arrCount = 128) (g3 : tt.entSize = 128)
    (g4 : tt.secondaryHeader = size / tt.lss - 1)
    (hw : write c crc tt size = .ok (ws, t)) :
    ∃ arr ps, arrEnc c tt = .ok (arr, ps) ∧ arr.length = 16384 ∧ t = { tt with parts := ps } ∧
      ws = (if c.pmbrLast then coreWrs crc tt tt.lss size arr ++ pmWrs c tt
            else pmWrs c tt ++ coreWrs crc tt tt.lss size arr) := by
  have hlpos : 0 < tt.lss := by rcases hl with h | h <;> omega
  have hdiv : size / tt.lss * tt.lss ≤ size := Nat.div_mul_le_self size tt.lss
  have hq : 2 * (16384 / tt.lss) + 3 ≤ size / tt.lss := (Nat.le_div_iff_mul_le hlpos).2 hmin
  have hdl : size / tt.lss ≤ size := Nat.div_le_self _ _
  have hq64 : size / tt.lss < two64 := by simp only [two63, two64] at *; omega
  have ips : partSectors tt = 16384 / tt.lss := by
    unfold partSectors
    rw [g2, g3]
    rcases hl with h | h <;> simp [h, u64, two64]
  have ia1 : arraySector tt true = 2 := by simp [arraySector, g1, u64, two64]
  have ia2 : arraySector tt false = size / tt.lss - 1 - 16384 / tt.lss := by
    simp only [arraySector, Bool.false_eq_true, if_false]
    rw [g4, ips]
    exact u64sub_of_le _ _ (by omega) (by omega)
  unfold write at hw
  simp only [hinit, if_true] at hw
  split at hw
  · simp at hw
  · split at hw
    · simp at hw
    · simp at hw
    · rename_i arr ps harr
      have hlen : arr.length = 16384 := by
        unfold arrEnc at harr
        split at harr
        · simp at harr
        · obtain ⟨b, hb, hpair⟩ := bind_ok_inv _ _ _ harr
          simp only [Res.pure_eq, Res.ok.injEq, Prod.mk.injEq] at hpair
          rw [← hpair.1, slotsFrom_length c _ _ _ b hb, g3, g2]
          simp
      have b1 : (size / tt.lss - 1 - 16384 / tt.lss) * tt.lss < two63 := by
        have : (size / tt.lss - 1 - 16384 / tt.lss) * tt.lss ≤ size / tt.lss * tt.lss :=
          Nat.mul_le_mul_right _ (by omega)
        omega
      have b2 : (size / tt.lss - 1) * tt.lss < two63 := by
        have : (size / tt.lss - 1) * tt.lss ≤ size / tt.lss * tt.lss := Nat.mul_le_mul_right _ (by omega)
        omega
      have b3 : 2 * tt.lss < two63 := by
        simp only [two63]; rcases hl with h | h <;> omega
      have o1 : toI64 ((tt.lss : Int) * toI64 ((arraySector tt false : Nat) : Int)) =
          (((size / tt.lss - 1 - 16384 / tt.lss) * tt.lss : Nat) : Int) := by
        rw [ia2, toI64_of_lt _ (by
          have : size / tt.lss - 1 - 16384 / tt.lss ≤ (size / tt.lss - 1 - 16384 / tt.lss) * tt.lss :=
            Nat.le_mul_of_pos_right _ hlpos
          omega), toI64_mul_nat _ _ (by rw [Nat.mul_comm]; exact b1), Nat.mul_comm]
      have o2 : toI64 (toI64 ((tt.secondaryHeader : Nat) : Int) * (tt.lss : Int)) =
          (((size / tt.lss - 1) * tt.lss : Nat) : Int) := by
        rw [g4, toI64_of_lt _ (by
          have : size / tt.lss - 1 ≤ (size / tt.lss - 1) * tt.lss := Nat.le_mul_of_pos_right _ hlpos
          omega), toI64_mul_nat _ _ b2]
      have o3 : toI64 ((tt.lss : Int) * toI64 ((arraySector tt true : Nat) : Int)) = ((2 * tt.lss : Nat) : Int) := by
        rw [ia1, toI64_of_lt _ (by simp only [two63]; omega), toI64_mul_nat _ _ (by rw [Nat.mul_comm]; exact b3), Nat.mul_comm]
      rw [o1, o2, o3] at hw
      split at hw
      · rename_i hneg
        rcases hneg with h | h | h <;> exact absurd h (Int.not_lt.2 (Int.natCast_nonneg _))
      · simp only [Res.ok.injEq, Prod.mk.injEq, Int.toNat_natCast] at hw
        obtain ⟨h1, h2⟩ := hw
        refine ⟨arr, ps, harr, hlen, ?_, ?_⟩
        · rw [← h2, hinit]
        · rw [← h1]
          simp only [coreWrs, pmWrs]

theorem hdrEnc_congr (crc : Bytes → Nat) (t t' : Table) (primary : Bool) (arr : Bytes)
    (h1 : t.primaryHeader = t'.primaryHeader) (h2 : t.secondaryHeader = t'.secondaryHeader)
    (h3 : t.firstData = t'.firstData) (h4 : t.lastData = t'.lastData) (h5 : t.guid = t'.guid)
    (h6 : t.arrCount = t'.arrCount) (h7 : t.entSize = t'.entSize) (h8 : t.lss = t'.lss) :
    hdrEnc crc t primary arr = hdrEnc crc t' primary arr := by
  unfold hdrEnc arraySector partSectors
  rw [h1, h2, h3, h4, h5, h6, h7, h8]

/-- the header fields and the table gpt.Read returns for a device this library's Write produced -/
def hdrOf (t0 : Table) (size acrc : Nat) : Hdr :=
  { myLBA := 1, altLBA := size / t0.lss - 1, firstData := 2 + 16384 / t0.lss,
    lastData := size / t0.lss - 1 - 16384 / t0.lss - 1, guid := t0.guid, arrLBA := 2, count := 128,
    entSize := 128, arrCrc := acrc }

def readBack (t0 : Table) (ps : List Part) (size : Nat) (pm : Bool) (acrc : Nat) : Table :=
  { parts := normParts ps 128, lss := t0.lss, guid := t0.guid, pmbr := pm, initialized := true,
    arrCount := 128, entSize := 128, firstLBA := 2, arrCrc := acrc, primaryHeader := 1,
    secondaryHeader := size / t0.lss - 1, firstData := 2 + 16384 / t0.lss,
    lastData := size / t0.lss - 1 - 16384 / t0.lss - 1 }

/-! ### what gpt.Read returns for a device Write produced, field by field -/

theorem read_after_write (c : Cfg) (crc : Bytes → Nat) (hcrc : ∀ b, crc b < two32) (d : Dev)
    (t0 : Table) (size : Nat) (ws : List Wr) (t : Table)
    (hf : Fresh t0) (hl : t0.lss = 512 ∨ t0.lss = 4096) (hg : t0.guid.length = 16)
    (hwf : ∀ p ∈ t0.parts, allZero p.typ = true ∨ (EntryWF p ∧ p.size < two64))
    (hsz : size < two63) (hmin : (2 * (16384 / t0.lss) + 3) * t0.lss ≤ size)
    (hw : write c crc t0 size = .ok (ws, t)) :
    ∃ pm arr, arrEnc c (initTable t0 size) = .ok (arr, t.parts) ∧ (∀ p ∈ t.parts, EntryExact t0.lss p) ∧
      (Gpt.read c crc (applyWrs d ws) size t0.lss).1 = .ok (readBack t0 t.parts size pm (crc arr)) := by
  obtain ⟨arr, ps, harr, hlen, ht, r1, r2, r3, r4, r5⟩ := write_regions c crc d t0 size ws t hf hl hg hsz hmin hw
  obtain ⟨il, iph, iac, ies, igu, ipa, ipm, ish, ifd, ild, ips, ia1, ia2⟩ := initTable_geo t0 size hf hl hsz hmin
  have hlpos : 0 < t0.lss := by rcases hl with h | h <;> omega
  have hq : 2 * (16384 / t0.lss) + 3 ≤ size / t0.lss := (Nat.le_div_iff_mul_le hlpos).2 hmin
  have hdl : size / t0.lss ≤ size := Nat.div_le_self _ _
  have hq64 : size / t0.lss < two64 := by simp only [two63, two64] at *; omega
  have hgi : (initTable t0 size).guid.length = 16 := by rw [igu]; exact hg
  have b1 : (initTable t0 size).primaryHeader < two64 := by rw [iph]; decide
  have b2 : (initTable t0 size).secondaryHeader < two64 := by rw [ish]; omega
  have b3 : (initTable t0 size).firstData < two64 := by
    rw [ifd]; have : 16384 / t0.lss ≤ 16384 := Nat.div_le_self _ _
    simp only [two64]; omega
  have b4 : (initTable t0 size).lastData < two64 := by rw [ild]; omega
  have b5 : arraySector (initTable t0 size) true < two64 := by rw [ia1]; decide
  have b7 : (initTable t0 size).arrCount < two32 := by rw [iac]; decide
  have hP := readHeader_hdrEnc crc hcrc (initTable t0 size) true arr hgi b1 b2 b3 b4 b5 b7
  simp only [if_true, iph, ish, ifd, ild, ia1, iac, igu] at hP
  -- the array decodes to the used entries in slot order
  have htp : t.parts = ps := by rw [ht]
  have harr' := harr
  unfold arrEnc at harr'
  rw [il, iac, ies, ipa] at harr'
  cases hip : initParts t0.lss 128 t0.parts [] with
  | none => rw [hip] at harr'; simp at harr'
  | some ps' =>
    rw [hip] at harr'
    simp only at harr'
    obtain ⟨b, hb, hpair⟩ := bind_ok_inv _ _ _ harr'
    simp only [Res.pure_eq, Res.ok.injEq, Prod.mk.injEq] at hpair
    obtain ⟨hb1, hb2⟩ := hpair
    subst hb1 hb2
    have hex := initParts_spec t0.lss 128 hlpos t0.parts [] ps' hip hwf (by simp)
    obtain ⟨_, hdecode⟩ := decodeArr_slots c ps' t0.lss hex b hb
    -- the read
    have hp : 16384 / t0.lss * t0.lss = 16384 := by rcases hl with h | h <;> simp [h]
    have h2 : ¬ size < t0.lss * 2 := by
      have : 3 * t0.lss ≤ (2 * (16384 / t0.lss) + 3) * t0.lss := Nat.mul_le_mul_right _ (by omega)
      omega
    have hfit : 2 * t0.lss + 16384 ≤ size := by
      have : (2 + 16384 / t0.lss) * t0.lss ≤ (2 * (16384 / t0.lss) + 3) * t0.lss := Nat.mul_le_mul_right _ (by omega)
      rw [Nat.add_mul, hp] at this
      omega
    have hp1 := GptCrash.readPrimary_fst c crc (applyWrs d ws) size t0.lss h2
    rw [r1, hP] at hp1
    simp only at hp1
    have hle := GptCrash.loadEntries_at c crc (applyWrs d ws) size t0.lss 2
      (tableOfHdr (hdrOf t0 size (crc b)) t0.lss
        (readPMBR ((readAt (applyWrs d ws) 0 (t0.lss * 2)).take t0.lss) (pmbrSectors c (size / t0.lss - 1))))
      hl rfl rfl rfl hfit hsz
    change (readPrimary c crc (applyWrs d ws) size t0.lss).1 = (loadEntries c crc (applyWrs d ws) size
      (tableOfHdr (hdrOf t0 size (crc b)) t0.lss
        (readPMBR ((readAt (applyWrs d ws) 0 (t0.lss * 2)).take t0.lss) (pmbrSectors c (size / t0.lss - 1)))) t0.lss).1 at hp1
    rw [hle, r2] at hp1
    have hcc : (tableOfHdr (hdrOf t0 size (crc b)) t0.lss
        (readPMBR ((readAt (applyWrs d ws) 0 (t0.lss * 2)).take t0.lss) (pmbrSectors c (size / t0.lss - 1)))).arrCrc = crc b := rfl
    rw [if_pos hcc, hdecode] at hp1
    refine ⟨readPMBR ((readAt (applyWrs d ws) 0 (t0.lss * 2)).take t0.lss) (pmbrSectors c (size / t0.lss - 1)), b,
      by rw [htp]; exact harr, by rw [htp]; exact hex, ?_⟩
    unfold Gpt.read
    generalize hrp : readPrimary c crc (applyWrs d ws) size t0.lss = rp at hp1
    obtain ⟨r, al⟩ := rp
    simp only at hp1
    subst hp1
    simp only [htp]
    rfl

/-- READ-THEN-REWRITE IS IDEMPOTENT (GPT).  `dev` = what `Write` left on any prior device for a fresh table;
    `t1` = what gpt.Read returns for `dev`; if `Write t1` is accepted, applying its writes changes no byte of
    `dev`.  Premises: the entries the first Write was left with have 1 ≤ start ≤ end (no uint64 wrap); if the
    read-back table carries the protective-MBR flag, the first Write wrote one (otherwise bytes 446..511
    came from somewhere else and the CHS bytes, which readProtectiveMBR does not check, may differ). -/
theorem write_read_write_noop (c : Cfg) (crc : Bytes → Nat) (hcrc : ∀ b, crc b < two32) (d : Dev)
    (t0 : Table) (size : Nat) (ws : List Wr) (t : Table)
    (hf : Fresh t0) (hl : t0.lss = 512 ∨ t0.lss = 4096) (hg : t0.guid.length = 16)
    (hwf : ∀ p ∈ t0.parts, allZero p.typ = true ∨ (EntryWF p ∧ p.size < two64))
    (hsz : size < two63) (hmin : (2 * (16384 / t0.lss) + 3) * t0.lss ≤ size)
    (hw : write c crc t0 size = .ok (ws, t))
    (hord : ∀ p ∈ t.parts, allZero p.typ = false → 1 ≤ p.start ∧ p.start ≤ p.end_)
    (t1 : Table) (hr : (Gpt.read c crc (applyWrs d ws) size t0.lss).1 = .ok t1)
    (hpmb : t1.pmbr = true → t0.pmbr = true)
    (ws1 : List Wr) (t2 : Table) (hw1 : write c crc t1 size = .ok (ws1, t2)) :
    applyWrs (applyWrs d ws) ws1 = applyWrs d ws ∧ t2.parts = t1.parts := by
  obtain ⟨pm, arr, harr, hex, hrd⟩ := read_after_write c crc hcrc d t0 size ws t hf hl hg hwf hsz hmin hw
  obtain ⟨arr', ps', harr', hlen, ht, r1, r2, r3, r4, r5⟩ := write_regions c crc d t0 size ws t hf hl hg hsz hmin hw
  have hps : ps' = t.parts := by rw [ht]
  have harr2 : arr = arr' := by rw [harr'] at harr; cases harr; rfl
  subst harr2
  obtain ⟨il, iph, iac, ies, igu, ipa, ipm, ish, ifd, ild, ips, ia1, ia2⟩ := initTable_geo t0 size hf hl hsz hmin
  rw [hr] at hrd
  simp only [Res.ok.injEq] at hrd
  subst hrd
  -- the second write
  obtain ⟨arr1, ps1, harr1, _, ht2, hws1⟩ := write_init_exact c crc (readBack t0 t.parts size pm (crc arr)) size ws1 t2 rfl hl hsz hmin rfl rfl rfl rfl hw1
  -- its array is the array on the device
  have hfp : ∀ p ∈ t.parts, allZero p.typ = false → initEntry p t0.lss = some p := by
    intro p hp hu
    rcases hex p hp with hz | ⟨_, hz⟩
    · rw [hz] at hu; cases hu
    · exact initEntry_fixed p t0.lss hu (hord p hp hu).1 (hord p hp hu).2 hz
  have harrA : slotsFrom c t.parts 128 (List.range 128) = .ok arr := by
    have h := harr
    unfold arrEnc at h
    rw [iac, ies] at h
    split at h
    · simp at h
    · rename_i psx hpx
      obtain ⟨b, hb, hpair⟩ := bind_ok_inv _ _ _ h
      simp only [Res.pure_eq, Res.ok.injEq, Prod.mk.injEq] at hpair
      rw [← hpair.1, ← hpair.2]
      exact hb
  have harr1' : arr1 = arr ∧ ps1 = normParts t.parts 128 := by
    unfold arrEnc at harr1
    simp only [readBack] at harr1
    simp only [initParts_normParts t0.lss 128 t.parts hfp] at harr1
    rw [slotsFrom_normParts c t.parts (List.range 128) (by intro i hi; exact List.mem_range.1 hi), harrA] at harr1
    simp only [Res.ok_bind, Res.pure_eq, Res.ok.injEq, Prod.mk.injEq] at harr1
    exact ⟨harr1.1.symm, harr1.2.symm⟩
  obtain ⟨e1, e2⟩ := harr1'
  subst e1
  refine ⟨?_, by rw [ht2, e2]; rfl⟩
  apply applyWrs_noop
  have hP := hdrEnc_congr crc
    (readBack t0 t.parts size pm (crc arr1)) (initTable t0 size) true arr1
    iph.symm ish.symm ifd.symm ild.symm igu.symm iac.symm ies.symm il.symm
  have hB := hdrEnc_congr crc
    (readBack t0 t.parts size pm (crc arr1)) (initTable t0 size) false arr1
    iph.symm ish.symm ifd.symm ild.symm igu.symm iac.symm ies.symm il.symm
  have hpme : pmbrEnc c
    (readBack t0 t.parts size pm (crc arr1)) = pmbrEnc c (initTable t0 size) := by
    simp only [pmbrEnc, readBack, ish]
  have hphl : (hdrEnc crc (initTable t0 size) true arr1).length = t0.lss := by
    rw [hdrEnc_length crc _ true arr1 (by rw [igu]; exact hg) (by rw [il]; rcases hl with h | h <;> omega), il]
  have hbhl : (hdrEnc crc (initTable t0 size) false arr1).length = t0.lss := by
    rw [hdrEnc_length crc _ false arr1 (by rw [igu]; exact hg) (by rw [il]; rcases hl with h | h <;> omega), il]
  intro w hw
  rw [hws1] at hw
  simp only [coreWrs, pmWrs, hP, hB, hpme] at hw
  have hcore : ∀ w ∈ [Wr.mk ((size / t0.lss - 1 - 16384 / t0.lss) * t0.lss) arr1,
      ⟨(size / t0.lss - 1) * t0.lss, hdrEnc crc (initTable t0 size) false arr1⟩, ⟨2 * t0.lss, arr1⟩,
      ⟨t0.lss, hdrEnc crc (initTable t0 size) true arr1⟩],
      readAt (applyWrs d ws) w.off w.data.length = w.data := by
    intro w hw
    simp only [List.mem_cons, List.mem_singleton, List.not_mem_nil, or_false] at hw
    rcases hw with h | h | h | h <;> subst h
    · simp only [hlen]; exact r4
    · simp only [hbhl]; exact r3
    · simp only [hlen]; exact r2
    · simp only [hphl]; exact r1
  have hpmw : ∀ w ∈ (if pm = true then [Wr.mk 446 (pmbrEnc c (initTable t0 size))] else []),
      readAt (applyWrs d ws) w.off w.data.length = w.data := by
    intro w hw
    by_cases hpmt : pm = true
    · simp only [hpmt, if_true, List.mem_singleton] at hw
      subst hw
      have : (pmbrEnc c (initTable t0 size)).length = 66 := by simp [pmbrEnc]
      simp only [this]
      exact r5 (hpmb hpmt)
    · simp [hpmt] at hw
  by_cases hpl : c.pmbrLast = true
  · simp only [hpl, if_true, List.mem_append] at hw
    rcases hw with h | h
    · exact hcore w h
    · exact hpmw w h
  · simp only [hpl, Bool.false_eq_true, if_false, List.mem_append] at hw
    rcases hw with h | h
    · exact hpmw w h
    · exact hcore w h

end Diskfs.Gpt

namespace Diskfs.Mbr

/-! ### MBR: rewriting what mbr.Read returned changes no byte, for ANY device it accepts -/

theorem entryEnc_entryDec (b : Bytes) (hb : b.length = 16) (i : Nat) (p : Part) (h : entryDec i b = some p) :
    entryEnc p = b := by
  match b, hb with
  | [b0, b1, b2, b3, b4, b5, b6, b7, b8, b9, b10, b11, b12, b13, b14, b15], _ =>
    unfold entryDec at h
    simp only [List.getD_cons_zero, List.getD_cons_succ] at h
    split at h
    · cases h
    · rename_i hflag
      simp only [Option.some.injEq] at h
      subst h
      have e1 : leEnc 4 (leDec (slice [b0, b1, b2, b3, b4, b5, b6, b7, b8, b9, b10, b11, b12, b13, b14, b15] 8 12))
          = [b8, b9, b10, b11] := leEnc_leDec [b8, b9, b10, b11]
      have e2 : leEnc 4 (leDec (slice [b0, b1, b2, b3, b4, b5, b6, b7, b8, b9, b10, b11, b12, b13, b14, b15] 12 16))
          = [b12, b13, b14, b15] := leEnc_leDec [b12, b13, b14, b15]
      have e3 : byte b4.toNat = b4 := by
        simp [byte, UInt8.ofNat, Nat.mod_eq_of_lt b4.toNat_lt]
      have e4 : (if (b0 == 0x80) = true then (0x80 : UInt8) else 0x00) = b0 := by
        by_cases h80 : b0 = 0x80
        · simp [h80]
        · have h00 : b0 = 0x00 := by
            by_cases h0 : b0 = 0x00
            · exact h0
            · exact absurd ⟨h0, h80⟩ hflag
          simp [h00]
      simp only [entryEnc, List.getD_cons_zero, List.getD_cons_succ, e1, e2, e3, e4]
      rfl

theorem slot_len (d : Dev) (lo : Nat) (h : lo + 16 ≤ 512) : (slice (readAt d 0 512) lo (lo + 16)).length = 16 := by
  rw [slice_length _ _ _ (by omega) (by simp; omega)]; omega

/-- READ-THEN-REWRITE IS IDEMPOTENT (MBR), for ANY device mbr.Read accepts (whoever wrote it): the 66 bytes
    Table.Write emits for the four partitions mbr.Read returned are the bytes already at 446..511 -/
theorem write_read_noop (d : Dev) (devSize : Nat) (ps : List Part) (h : (read d devSize).1 = some ps) :
    applyWrs d (write ps) = d := by
  unfold read at h
  split at h
  · simp at h
  · simp only at h
    split at h
    · simp at h
    · rename_i hdev hsig
      simp only [ne_eq, Decidable.not_not] at hsig
      simp only [slotsDec, Nat.zero_mul, Nat.one_mul, Nat.add_zero, Nat.reduceMul, Nat.reduceAdd] at h
      cases h0 : entryDec 1 (slice (readAt d 0 512) 446 462) with
      | none => simp [h0] at h
      | some p0 =>
      cases h1 : entryDec 2 (slice (readAt d 0 512) 462 478) with
      | none => simp [h0, h1] at h
      | some p1 =>
      cases h2 : entryDec 3 (slice (readAt d 0 512) 478 494) with
      | none => simp [h0, h1, h2] at h
      | some p2 =>
      cases h3 : entryDec 4 (slice (readAt d 0 512) 494 510) with
      | none => simp [h0, h1, h2, h3] at h
      | some p3 =>
      simp only [h0, h1, h2, h3, Option.some.injEq] at h
      subst h
      have e0 := entryEnc_entryDec _ (slot_len d 446 (by omega)) 1 p0 h0
      have e1 := entryEnc_entryDec _ (slot_len d 462 (by omega)) 2 p1 h1
      have e2 := entryEnc_entryDec _ (slot_len d 478 (by omega)) 3 p2 h2
      have e3 := entryEnc_entryDec _ (slot_len d 494 (by omega)) 4 p3 h3
      have henc : tableEnc [p0, p1, p2, p3] = readAt d 446 66 := by
        have : tableEnc [p0, p1, p2, p3] = entryEnc p0 ++ (entryEnc p1 ++ (entryEnc p2 ++ (entryEnc p3 ++ [0x55, 0xaa]))) := by
          simp [tableEnc, List.range, List.range.loop]
        rw [this, e0, e1, e2, e3, ← hsig]
        rw [Gpt.slice_readAt d 0 512 446 462 (by omega) (by omega), Gpt.slice_readAt d 0 512 462 478 (by omega) (by omega),
          Gpt.slice_readAt d 0 512 478 494 (by omega) (by omega), Gpt.slice_readAt d 0 512 494 510 (by omega) (by omega),
          Gpt.slice_readAt d 0 512 510 512 (by omega) (by omega)]
        have : (66 : Nat) = 16 + (16 + (16 + (16 + 2))) := rfl
        rw [this, readAt_append, readAt_append, readAt_append, readAt_append]
      apply applyWrs_noop
      intro w hw
      simp only [write, List.mem_singleton] at hw
      subst hw
      rw [henc]
      simp

end Diskfs.Mbr
