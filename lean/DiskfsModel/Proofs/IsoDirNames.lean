/-
  Directories with DOTTED host names (conf.d, v1.0, a.b.c): the name such a directory enters
  collision resolution with.  go-diskfs (finalizeFileInfoFromFile) keeps only the short name of a
  directory - `shortname, _ := calculateShortnameExtension(name)` - and `Name()` writes that short
  name alone; `entryName … true` mirrors it.  Helper lemmas for Props/C06 `dir_dotted_same_key`.
-/
import DiskfsModel.Proofs.IsoNames
namespace Diskfs.Iso

theorem takeWhile_ne_dot (b t : Str) (hb : 46 ∉ b) : (b ++ 46 :: t).takeWhile (· ≠ 46) = b := by
  induction b with
  | nil => simp
  | cons x xs ih =>
    have hx : x ≠ 46 := fun h => hb (by simp [h])
    have hxs : 46 ∉ xs := fun h => hb (List.mem_cons_of_mem _ h)
    have := ih hxs
    simp only [List.cons_append, List.takeWhile_cons, ne_eq, hx, not_false_eq_true, decide_true, if_true, this]

theorem takeWhile_no_dot (b : Str) (hb : 46 ∉ b) : b.takeWhile (· ≠ 46) = b := by
  induction b with
  | nil => rfl
  | cons x xs ih =>
    have hx : x ≠ 46 := fun h => hb (by simp [h])
    have hxs : 46 ∉ xs := fun h => hb (List.mem_cons_of_mem _ h)
    simp only [List.takeWhile_cons, ne_eq, hx, not_false_eq_true, decide_true, if_true, ih hxs]

/-- a directory's entry name is decided by what precedes the first dot of its host name -/
theorem entryName_dir_tail (b t1 t2 : Str) (hb : 46 ∉ b) :
    entryName (b ++ 46 :: t1) true = entryName (b ++ 46 :: t2) true := by
  simp only [entryName, if_true, shortExt, splitDot, takeWhile_ne_dot _ _ hb]

/-- and it is the entry name of the undotted directory `b` itself -/
theorem entryName_dir_base (b t : Str) (hb : 46 ∉ b) :
    entryName (b ++ 46 :: t) true = entryName b true := by
  simp only [entryName, if_true, shortExt, splitDot, takeWhile_ne_dot _ _ hb, takeWhile_no_dot _ hb]

theorem entryName_dir_noext (name : Str) : (entryName name true).2 = [] := by
  simp [entryName]

end Diskfs.Iso
