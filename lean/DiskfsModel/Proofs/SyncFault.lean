/-
  C16 helper lemmas, part 3: CopyFileSystem against a destination whose calls may fail or take
  only part of a slice (Model/SyncFault.lean).
-/
import DiskfsModel.Proofs.SyncCopy
import DiskfsModel.Model.SyncFault
namespace Diskfs.Sync
open Forest

/-! ### sequencing -/

theorem seq_ok_iff (a : FRun) (b : Nat → FRun) : (a.seq b).ok = true ↔ a.ok = true ∧ (b a.next).ok = true := by
  unfold FRun.seq
  cases h : a.ok <;> simp [h]

theorem seq_of_ok (a : FRun) (b : Nat → FRun) (h : a.ok = true) :
    a.seq b = ⟨a.log ++ (b a.next).log, a.eff ++ (b a.next).eff, (b a.next).ok, (b a.next).next⟩ := by
  simp [FRun.seq, h]

theorem seq_of_not_ok (a : FRun) (b : Nat → FRun) (h : a.ok = false) : a.seq b = a := by
  simp [FRun.seq, h]

theorem seq_log_sub (a : FRun) (b : Nat → FRun) : ∀ e ∈ a.log, e ∈ (a.seq b).log := by
  intro e he
  cases h : a.ok
  · rw [seq_of_not_ok a b h]; exact he
  · rw [seq_of_ok a b h]; exact List.mem_append_left _ he

/-! ### a run that reports success met no fatal outcome -/

def NoFatal (r : FRun) : Prop := r.ok = true → ∀ e ∈ r.log, fatal e = false

theorem noFatal_seq (a : FRun) (b : Nat → FRun) (ha : NoFatal a) (hb : ∀ j, NoFatal (b j)) : NoFatal (a.seq b) := by
  intro hok e he
  obtain ⟨h1, h2⟩ := (seq_ok_iff a b).1 hok
  rw [seq_of_ok a b h1] at he
  simp only [List.mem_append] at he
  rcases he with he | he
  · exact ha h1 e he
  · exact hb _ h2 e he

theorem noFatal_done (i : Nat) : NoFatal (FRun.done i) := by
  intro _ e he; simp [FRun.done] at he

theorem noFatal_callF (plan : Plan) (op : DstOp) (i : Nat) (hop : ∀ p d, op ≠ .write p d) :
    NoFatal (callF plan op i) := by
  intro hok e he
  unfold callF at hok he
  cases hp : plan i with
  | fail => rw [hp] at hok; simp at hok
  | ok =>
    rw [hp] at he; simp at he; subst he
    cases op <;> simp [fatal]
  | short n =>
    rw [hp] at he; simp at he; subst he
    cases op with
    | write p d => exact absurd rfl (hop p d)
    | _ => simp [fatal]

theorem noFatal_chtimesF (plan : Plan) (p : Path) (i : Nat) : NoFatal (chtimesF plan p i) := by
  intro _ e he
  simp [chtimesF] at he; subst he
  simp [fatal]

theorem fatal_write_short_pos (p : Path) (d : Bytes) (n : Nat) (h : n ≠ 0) : fatal (.write p d, .short n) = false := by
  cases n with
  | zero => exact absurd rfl h
  | succ k => simp [fatal]

theorem noFatal_wholeWriteF (plan : Plan) (p : Path) (d : Bytes) (i : Nat) : NoFatal (wholeWriteF plan p d i) := by
  intro hok e he
  unfold wholeWriteF at hok he
  cases hp : plan i with
  | fail => rw [hp] at hok; simp at hok
  | ok => rw [hp] at he; simp at he; subst he; simp [fatal]
  | short n =>
    rw [hp] at hok he
    by_cases hn : d.length ≤ n
    · simp only [if_pos hn] at he
      simp at he; subst he
      cases n with
      | zero =>
        have : d = [] := List.eq_nil_of_length_eq_zero (Nat.le_zero.1 hn)
        subst this; simp [fatal]
      | succ k => simp [fatal]
    · simp [if_neg hn] at hok

theorem noFatal_writeChunkF (plan : Plan) (p : Path) : ∀ (fuel : Nat) (rem : Bytes) (i : Nat),
    NoFatal (writeChunkF plan p fuel rem i) := by
  intro fuel
  induction fuel with
  | zero => intro rem i hok; simp [writeChunkF] at hok
  | succ fuel ih =>
    intro rem i hok e he
    unfold writeChunkF at hok he
    by_cases hr : rem.isEmpty = true
    · simp only [hr, if_true] at he; simp [FRun.done] at he
    · simp only [hr, Bool.false_eq_true, if_false] at hok he
      cases hp : plan i with
      | fail => rw [hp] at hok; simp at hok
      | ok => rw [hp] at he; simp at he; subst he; simp [fatal]
      | short w =>
        rw [hp] at hok he
        by_cases hw : w = 0
        · simp [if_pos hw] at hok
        · simp only [if_neg hw, List.mem_cons] at hok he
          rcases he with rfl | he
          · exact fatal_write_short_pos p rem w hw
          · exact ih _ _ hok e he

theorem noFatal_streamF (plan : Plan) (p : Path) : ∀ (chunks : List Bytes) (i : Nat),
    NoFatal (streamF plan p chunks i) := by
  intro chunks
  induction chunks with
  | nil => intro i; exact noFatal_done i
  | cons ch rest ih =>
    intro i
    unfold streamF
    exact noFatal_seq _ _ (noFatal_writeChunkF plan p _ ch i) (fun j => ih j)

theorem noFatal_fileRunF (c : Cfg) (src : ReaderBehaviour) (plan : Plan) (p : Path) (d : Bytes) (i : Nat) :
    NoFatal (fileRunF c src plan p d i) := by
  unfold fileRunF
  refine noFatal_seq _ _ (noFatal_callF plan _ i (by intro _ _ h; cases h)) (fun j => ?_)
  refine noFatal_seq _ _ ?_ (fun k => noFatal_chtimesF plan p k)
  split
  · exact noFatal_wholeWriteF plan p d j
  · exact noFatal_streamF plan p _ j

theorem noFatal_copyDirF (c : Cfg) (src : ReaderBehaviour) (readlink : Bool) (plan : Plan) :
    ∀ (f : Forest) (pre : Path) (i : Nat), NoFatal (copyDirF c src readlink plan pre f i) := by
  intro f
  induction f with
  | nil => intro pre i; exact noFatal_done i
  | file n d r ih =>
    intro pre i
    unfold copyDirF
    split
    · exact ih pre i
    · exact noFatal_seq _ _ (noFatal_fileRunF c src plan _ d i) (fun j => ih pre j)
  | dir n s r ihs ih =>
    intro pre i
    unfold copyDirF
    split
    · exact ih pre i
    · refine noFatal_seq _ _ (noFatal_seq _ _ (noFatal_callF plan _ i (by intro _ _ h; cases h)) (fun j => ihs _ j))
        (fun j => ih pre j)
  | link n t r ih =>
    intro pre i
    unfold copyDirF
    split
    · exact ih pre i
    · split
      · exact noFatal_seq _ _ (noFatal_callF plan _ i (by intro _ _ h; cases h)) (fun j => ih pre j)
      · intro hok; simp at hok
  | other n r ih =>
    intro pre i
    unfold copyDirF
    exact ih pre i

/-! ### a file run that reports success wrote exactly the content -/

theorem callF_ok (plan : Plan) (op : DstOp) (i : Nat) (h : (callF plan op i).ok = true) :
    (callF plan op i).eff = [op] ∧ (callF plan op i).next = i + 1 := by
  unfold callF at h ⊢
  cases hp : plan i <;> simp_all

theorem wholeWriteF_ok (plan : Plan) (p : Path) (d : Bytes) (i : Nat) (h : (wholeWriteF plan p d i).ok = true) :
    (wholeWriteF plan p d i).eff = [.write p d] := by
  unfold wholeWriteF at h ⊢
  cases hp : plan i with
  | fail => rw [hp] at h; simp at h
  | ok => rfl
  | short n =>
    rw [hp] at h
    by_cases hn : d.length ≤ n
    · simp [if_pos hn]
    · simp [if_neg hn] at h

theorem writeChunkF_ok (plan : Plan) (p : Path) : ∀ (fuel : Nat) (rem : Bytes) (i : Nat),
    (writeChunkF plan p fuel rem i).ok = true →
    ∃ ws : List Bytes, (writeChunkF plan p fuel rem i).eff = ws.map (.write p) ∧ ws.flatten = rem := by
  intro fuel
  induction fuel with
  | zero => intro rem i h; simp [writeChunkF] at h
  | succ fuel ih =>
    intro rem i h
    unfold writeChunkF at h ⊢
    by_cases hr : rem.isEmpty = true
    · refine ⟨[], ?_, ?_⟩
      · simp [hr, FRun.done]
      · simpa using (List.isEmpty_iff.mp hr).symm
    · simp only [hr, Bool.false_eq_true, if_false] at h ⊢
      cases hp : plan i with
      | fail => rw [hp] at h; simp at h
      | ok => exact ⟨[rem], by simp, by simp⟩
      | short w =>
        rw [hp] at h
        by_cases hw : w = 0
        · simp [if_pos hw] at h
        · simp only [if_neg hw] at h ⊢
          obtain ⟨ws, h1, h2⟩ := ih _ _ h
          exact ⟨rem.take w :: ws, by simp [h1], by simp [h2]⟩

theorem streamF_ok (plan : Plan) (p : Path) : ∀ (chunks : List Bytes) (i : Nat),
    (streamF plan p chunks i).ok = true →
    ∃ ws : List Bytes, (streamF plan p chunks i).eff = ws.map (.write p) ∧ ws.flatten = chunks.flatten := by
  intro chunks
  induction chunks with
  | nil => intro i _; exact ⟨[], by simp [streamF, FRun.done], rfl⟩
  | cons ch rest ih =>
    intro i h
    unfold streamF at h ⊢
    obtain ⟨h1, h2⟩ := (seq_ok_iff _ _).1 h
    rw [seq_of_ok _ _ h1]
    obtain ⟨wa, ea, fa⟩ := writeChunkF_ok plan p _ ch i h1
    obtain ⟨wb, eb, fb⟩ := ih _ h2
    exact ⟨wa ++ wb, by simp [ea, eb], by simp [fa, fb]⟩

theorem applyOps_fileRunF (c : Cfg) (hc : 0 < c.chunk) (src : ReaderBehaviour) (plan : Plan) (s : Store)
    (pre : Path) (n : String) (d : Bytes) (i : Nat) (hpar : s.item pre = some .dir)
    (hs : s.get (pre ++ [n]) = none) (hok : (fileRunF c src plan (pre ++ [n]) d i).ok = true) :
    applyOps (fileRunF c src plan (pre ++ [n]) d i).eff s = some (s ++ [(pre ++ [n], .file d)]) := by
  unfold fileRunF at hok ⊢
  obtain ⟨h1, h2⟩ := (seq_ok_iff _ _).1 hok
  obtain ⟨h3, _⟩ := (seq_ok_iff _ _).1 h2
  rw [seq_of_ok _ _ h1]
  simp only
  rw [seq_of_ok _ _ h3]
  simp only [(callF_ok plan _ i h1).1]
  have hw : ∃ ws : List Bytes,
      (if d.length ≤ c.maxAll then wholeWriteF plan (pre ++ [n]) d (callF plan (.openTrunc (pre ++ [n])) i).next
       else streamF plan (pre ++ [n]) (readChunks src c.chunk (d.length + 1) d 0)
         (callF plan (.openTrunc (pre ++ [n])) i).next).eff = ws.map (.write (pre ++ [n])) ∧ ws.flatten = d := by
    split at h3
    · rename_i hle
      rw [if_pos hle]
      exact ⟨[d], by rw [wholeWriteF_ok plan _ d _ h3]; rfl, by simp⟩
    · rename_i hle
      rw [if_neg hle]
      obtain ⟨ws, e1, e2⟩ := streamF_ok plan _ _ _ h3
      exact ⟨ws, e1, by rw [e2]; exact readChunks_flatten src c.chunk hc _ d 0 (by omega)⟩
  obtain ⟨ws, e1, e2⟩ := hw
  rw [e1]
  simp only [List.cons_append, List.nil_append, applyOps, applyOp, parentIsDir_concat s pre n hpar, if_true, hs,
    chtimesF]
  rw [applyOps_writes s _ hs]
  simp [applyOps, applyOp, e2]

/-! ### the whole copy: success ⇒ the destination holds exactly the copy image -/

theorem copyDirF_apply (c : Cfg) (hc : 0 < c.chunk) (src : ReaderBehaviour) (readlink : Bool) (plan : Plan) :
    ∀ (f : Forest) (pre : Path) (s : Store) (i : Nat), f.wf = true →
      s.item pre = some .dir → Fresh s pre f →
      (copyDirF c src readlink plan pre f i).ok = true →
      applyOps (copyDirF c src readlink plan pre f i).eff s =
        some (s ++ (f.strip c.excluded false).flatAt pre) := by
  intro f
  induction f with
  | nil => intro pre s i _ _ _ _; simp [copyDirF, FRun.done, applyOps, strip, flatAt]
  | file n d r ih =>
    intro pre s i hwf hpre hfresh hok
    have hw := wf_file hwf
    have hfr : ∀ e ∈ s, ∀ m ∈ r.names, ¬ (pre ++ [m]) <+: e.1 :=
      fun e he m hm => hfresh e he m (by simp [names, hm])
    by_cases hex : c.excluded.contains n = true
    · have e : copyDirF c src readlink plan pre (.file n d r) i = copyDirF c src readlink plan pre r i := by
        simp only [copyDirF, hex, if_true]
      rw [e] at hok ⊢
      rw [strip_file_drop hex]
      exact ih pre s i hw.2 hpre hfr hok
    · have hex' : c.excluded.contains n = false := by simpa using hex
      have e : copyDirF c src readlink plan pre (.file n d r) i =
          (fileRunF c src plan (pre ++ [n]) d i).seq (copyDirF c src readlink plan pre r) := by
        simp only [copyDirF, hex', Bool.false_eq_true, if_false]
      rw [e] at hok ⊢
      rw [strip_file_keep hex']
      obtain ⟨h1, h2⟩ := (seq_ok_iff _ _).1 hok
      rw [seq_of_ok _ _ h1]
      have hnone := fresh_get_none s pre _ n hfresh (by simp [names])
      have := ih pre (s ++ [(pre ++ [n], .file d)]) _ hw.2 (item_append_dir s _ pre hpre)
        (fresh_step s pre n _ r hw.1 hfr) h2
      simp only
      rw [applyOps_append, applyOps_fileRunF c hc src plan s pre n d i hpre hnone h1]
      simp only [Option.bind_some, this, flatAt]
      simp [List.append_assoc]
  | dir n sub r ihs ih =>
    intro pre s i hwf hpre hfresh hok
    have hw := wf_dir hwf
    have hfr : ∀ e ∈ s, ∀ m ∈ r.names, ¬ (pre ++ [m]) <+: e.1 :=
      fun e he m hm => hfresh e he m (by simp [names, hm])
    by_cases hex : c.excluded.contains n = true
    · have e : copyDirF c src readlink plan pre (.dir n sub r) i = copyDirF c src readlink plan pre r i := by
        simp only [copyDirF, hex, if_true]
      rw [e] at hok ⊢
      rw [strip_dir_drop hex]
      exact ih pre s i hw.2.2 hpre hfr hok
    · have hex' : c.excluded.contains n = false := by simpa using hex
      have e : copyDirF c src readlink plan pre (.dir n sub r) i =
          ((callF plan (.mkdir (pre ++ [n])) i).seq (copyDirF c src readlink plan (pre ++ [n]) sub)).seq
            (copyDirF c src readlink plan pre r) := by
        simp only [copyDirF, hex', Bool.false_eq_true, if_false]
      rw [e] at hok ⊢
      rw [strip_dir_keep hex']
      obtain ⟨h12, h3⟩ := (seq_ok_iff _ _).1 hok
      obtain ⟨h1, h2⟩ := (seq_ok_iff _ _).1 h12
      have hn : ((callF plan (.mkdir (pre ++ [n])) i).seq (copyDirF c src readlink plan (pre ++ [n]) sub)).next =
          (copyDirF c src readlink plan (pre ++ [n]) sub (callF plan (.mkdir (pre ++ [n])) i).next).next := by
        rw [seq_of_ok _ _ h1]
      rw [hn] at h3
      have hnone := fresh_get_none s pre _ n hfresh (by simp [names])
      have hmk : applyOp s (.mkdir (pre ++ [n])) = some (s ++ [(pre ++ [n], .dir)]) := by
        simp [applyOp, parentIsDir_concat s pre n hpre, hnone]
      let s1 := s ++ [(pre ++ [n], Item.dir)]
      have hs1pre : s1.item (pre ++ [n]) = some .dir := by
        have hne : pre ++ [n] ≠ [] := by simp
        simp only [Store.item, if_neg hne, s1]
        rw [get_append_none s _ _ hnone]; simp [Store.get]
      have hs1fresh : Fresh s1 (pre ++ [n]) sub := by
        intro e he m _ hp
        simp only [List.mem_append, List.mem_singleton, s1] at he
        rcases he with he | rfl
        · exact hfresh e he n (by simp [names])
            (List.IsPrefix.trans (List.prefix_append (pre ++ [n]) [m]) hp)
        · have := List.IsPrefix.length_le hp
          simp at this
      have a1 := ihs (pre ++ [n]) s1 _ hw.2.1 hs1pre hs1fresh h2
      let s2 := s1 ++ (sub.strip c.excluded false).flatAt (pre ++ [n])
      have hs2pre : s2.item pre = some .dir :=
        item_append_dir s1 _ pre (item_append_dir s _ pre hpre)
      have hs2fresh : Fresh s2 pre r := by
        intro e he m hm hp
        simp only [List.mem_append, s2] at he
        rcases he with he | he
        · exact fresh_step s pre n _ r hw.1 hfr e he m hm hp
        · obtain ⟨p, it⟩ := e
          obtain ⟨m', q, _, hq⟩ := flatAt_prefix _ _ p it he
          simp only at hp
          rw [hq, List.append_assoc] at hp
          exact hw.1 (prefix_concat_inj pre (m' :: q) m n (by simpa using hp) ▸ hm)
      have a2 := ih pre s2 _ hw.2.2 hs2pre hs2fresh h3
      rw [seq_of_ok _ _ h12]
      simp only
      rw [seq_of_ok _ _ h1]
      simp only [(callF_ok plan _ i h1).1]
      rw [applyOps_append, applyOps_append]
      simp only [applyOps, hmk, Option.bind_some]
      show ((applyOps _ s1).bind _) = _
      rw [a1]
      simp only [Option.bind_some]
      show applyOps _ s2 = _
      rw [a2]
      simp [s2, s1, flatAt, List.append_assoc]
  | link n t r ih =>
    intro pre s i hwf hpre hfresh hok
    have hw : n ∉ r.names ∧ r.wf = true := by simpa [wf, contains_false_iff] using hwf
    have hfr : ∀ e ∈ s, ∀ m ∈ r.names, ¬ (pre ++ [m]) <+: e.1 :=
      fun e he m hm => hfresh e he m (by simp [names, hm])
    by_cases hex : c.excluded.contains n = true
    · have e : copyDirF c src readlink plan pre (.link n t r) i = copyDirF c src readlink plan pre r i := by
        simp only [copyDirF, hex, if_true]
      rw [e] at hok ⊢
      have hs : (Forest.link n t r).strip c.excluded false = r.strip c.excluded false := by simp only [strip, hex, if_true]
      rw [hs]
      exact ih pre s i hw.2 hpre hfr hok
    · have hex' : c.excluded.contains n = false := by simpa using hex
      by_cases hrl : readlink = true
      · have e : copyDirF c src readlink plan pre (.link n t r) i =
            (callF plan (.symlink (pre ++ [n]) t) i).seq (copyDirF c src readlink plan pre r) := by
          simp only [copyDirF, hex', Bool.false_eq_true, if_false, hrl, if_true]
        rw [e] at hok ⊢
        have hs : (Forest.link n t r).strip c.excluded false = .link n t (r.strip c.excluded false) := by
          simp only [strip, hex', Bool.false_eq_true, if_false]
        rw [hs]
        obtain ⟨h1, h2⟩ := (seq_ok_iff _ _).1 hok
        rw [seq_of_ok _ _ h1]
        have hnone := fresh_get_none s pre _ n hfresh (by simp [names])
        have := ih pre (s ++ [(pre ++ [n], .link t)]) _ hw.2 (item_append_dir s _ pre hpre)
          (fresh_step s pre n _ r hw.1 hfr) h2
        simp only [(callF_ok plan _ i h1).1]
        simp only [List.cons_append, List.nil_append, applyOps, applyOp, parentIsDir_concat s pre n hpre, hnone,
          beq_self_eq_true, Bool.and_self, if_true, this, flatAt]
        simp [List.append_assoc]
      · have e : copyDirF c src readlink plan pre (.link n t r) i = ⟨[], [], false, i⟩ := by
          simp only [copyDirF, hex', Bool.false_eq_true, if_false, hrl]
        rw [e] at hok; simp at hok
  | other n r ih =>
    intro pre s i hwf hpre hfresh hok
    have hw : n ∉ r.names ∧ r.wf = true := by simpa [wf, contains_false_iff] using hwf
    have hfr : ∀ e ∈ s, ∀ m ∈ r.names, ¬ (pre ++ [m]) <+: e.1 :=
      fun e he m hm => hfresh e he m (by simp [names, hm])
    have hs : (Forest.other n r).strip c.excluded false = r.strip c.excluded false := by
      simp [strip]
    have e : copyDirF c src readlink plan pre (.other n r) i = copyDirF c src readlink plan pre r i := by
      simp [copyDirF]
    rw [e] at hok ⊢
    rw [hs]
    exact ih pre s i hw.2 hpre hfr hok

/-! ### a run in which nothing but Chtimes calls failed is the fault-free run -/

def isChtimes : DstOp → Bool
  | .chtimes _ => true
  | _ => false

/-- every call returned nil and took everything it was given, except possibly Chtimes calls -/
def Benign (r : FRun) : Prop := ∀ e ∈ r.log, e.2 = .ok ∨ isChtimes e.1 = true

def Agrees (r : FRun) (ops : List DstOp) (ok : Bool) : Prop :=
  r.log.map (·.1) = ops ∧ r.eff = ops ∧ r.ok = ok

theorem benign_seq_left (a : FRun) (b : Nat → FRun) (h : Benign (a.seq b)) : Benign a :=
  fun e he => h e (seq_log_sub a b e he)

theorem benign_seq_right (a : FRun) (b : Nat → FRun) (h : Benign (a.seq b)) (ha : a.ok = true) : Benign (b a.next) := by
  intro e he
  apply h e
  rw [seq_of_ok a b ha]
  exact List.mem_append_right _ he

theorem agrees_seq (a : FRun) (b : Nat → FRun) (opsA opsB : List DstOp) (okA okB : Bool) (h : Benign (a.seq b))
    (ha : Benign a → Agrees a opsA okA) (hb : okA = true → Benign (b a.next) → Agrees (b a.next) opsB okB) :
    Agrees (a.seq b) (if okA then opsA ++ opsB else opsA) (okA && okB) := by
  obtain ⟨a1, a2, a3⟩ := ha (benign_seq_left a b h)
  cases hk : okA with
  | false =>
    rw [hk] at a3
    rw [seq_of_not_ok a b a3]
    exact ⟨by simpa using a1, by simpa using a2, by simpa using a3⟩
  | true =>
    rw [hk] at a3
    obtain ⟨b1, b2, b3⟩ := hb hk (benign_seq_right a b h a3)
    rw [seq_of_ok a b a3]
    exact ⟨by simp [a1, b1], by simp [a2, b2], by simpa using b3⟩

theorem callF_log (plan : Plan) (op : DstOp) (i : Nat) : (callF plan op i).log = [(op, plan i)] := by
  unfold callF; cases plan i <;> rfl

theorem agrees_callF (plan : Plan) (op : DstOp) (i : Nat) (hop : isChtimes op = false)
    (h : Benign (callF plan op i)) : Agrees (callF plan op i) [op] true := by
  have := h (op, plan i) (by rw [callF_log]; simp)
  simp only [hop, Bool.false_eq_true, or_false] at this
  unfold callF Agrees
  rw [this]; simp

theorem agrees_chtimesF (plan : Plan) (p : Path) (i : Nat) : Agrees (chtimesF plan p i) [.chtimes p] true := by
  simp [Agrees, chtimesF]

theorem wholeWriteF_log (plan : Plan) (p : Path) (d : Bytes) (i : Nat) :
    (wholeWriteF plan p d i).log = [(.write p d, plan i)] := by
  unfold wholeWriteF
  cases plan i with
  | ok => rfl
  | fail => rfl
  | short n => by_cases hn : d.length ≤ n <;> simp [hn]

theorem agrees_wholeWriteF (plan : Plan) (p : Path) (d : Bytes) (i : Nat) (h : Benign (wholeWriteF plan p d i)) :
    Agrees (wholeWriteF plan p d i) [.write p d] true := by
  have := h (.write p d, plan i) (by rw [wholeWriteF_log]; simp)
  simp only [isChtimes, Bool.false_eq_true, or_false] at this
  unfold wholeWriteF Agrees
  rw [this]; simp

theorem agrees_writeChunkF (plan : Plan) (p : Path) (fuel : Nat) (rem : Bytes) (i : Nat) (hr : rem ≠ [])
    (h : Benign (writeChunkF plan p (fuel + 1) rem i)) :
    Agrees (writeChunkF plan p (fuel + 1) rem i) [.write p rem] true := by
  have hne : rem.isEmpty = false := by cases rem <;> simp_all
  have hm : (DstOp.write p rem, plan i) ∈ (writeChunkF plan p (fuel + 1) rem i).log := by
    unfold writeChunkF
    simp only [hne, Bool.false_eq_true, if_false]
    cases hp : plan i with
    | ok => simp
    | fail => simp
    | short w => by_cases hw : w = 0 <;> simp [hw]
  have := h _ hm
  simp only [isChtimes, Bool.false_eq_true, or_false] at this
  unfold writeChunkF Agrees
  simp only [hne, Bool.false_eq_true, if_false, this]
  simp

theorem agrees_streamF (plan : Plan) (p : Path) : ∀ (chunks : List Bytes) (i : Nat), (∀ ch ∈ chunks, ch ≠ []) →
    Benign (streamF plan p chunks i) → Agrees (streamF plan p chunks i) (chunks.map (.write p)) true := by
  intro chunks
  induction chunks with
  | nil => intro i _ _; simp [Agrees, streamF, FRun.done]
  | cons ch rest ih =>
    intro i hne h
    unfold streamF at h ⊢
    have := agrees_seq _ _ [.write p ch] (rest.map (.write p)) true true h
      (fun hb => agrees_writeChunkF plan p _ ch i (hne ch (by simp)) hb)
      (fun _ hb => ih _ (fun c hc => hne c (by simp [hc])) hb)
    simpa using this

theorem readChunks_ne (r : ReaderBehaviour) (buf : Nat) (hb : 0 < buf) : ∀ (fuel : Nat) (data : Bytes) (call : Nat),
    ∀ ch ∈ readChunks r buf fuel data call, ch ≠ [] := by
  intro fuel
  induction fuel with
  | zero => intro data call ch h; simp [readChunks] at h
  | succ fuel ih =>
    intro data call ch h
    unfold readChunks at h
    cases data with
    | nil => simp at h
    | cons x xs =>
      simp only [List.isEmpty_cons, Bool.false_eq_true, if_false, List.mem_cons] at h
      rcases h with rfl | h
      · have hc := count_pos r buf (x :: xs).length call hb (by simp)
        intro e
        have := congrArg List.length e
        simp only [List.length_take, List.length_nil] at this
        omega
      · exact ih _ _ ch h

theorem agrees_fileRunF (c : Cfg) (hc : 0 < c.chunk) (src : ReaderBehaviour) (plan : Plan) (p : Path) (d : Bytes)
    (i : Nat) (h : Benign (fileRunF c src plan p d i)) :
    Agrees (fileRunF c src plan p d i) (fileOps c src p d) true := by
  unfold fileRunF at h ⊢
  have inner : ∀ j, Benign ((if d.length ≤ c.maxAll then wholeWriteF plan p d j
      else streamF plan p (readChunks src c.chunk (d.length + 1) d 0) j).seq fun k => chtimesF plan p k) →
      Agrees ((if d.length ≤ c.maxAll then wholeWriteF plan p d j
      else streamF plan p (readChunks src c.chunk (d.length + 1) d 0) j).seq fun k => chtimesF plan p k)
        ((fileWrites c src d).map (.write p) ++ [.chtimes p]) true := by
    intro j hb
    have := agrees_seq _ _ ((fileWrites c src d).map (.write p)) [.chtimes p] true true hb
      (fun hb' => by
        unfold fileWrites
        split
        · simpa using agrees_wholeWriteF plan p d j (by simpa [*] using hb')
        · rename_i hle
          simp only [if_neg hle] at hb' ⊢
          exact agrees_streamF plan p _ j (readChunks_ne src c.chunk hc _ d 0) hb')
      (fun _ _ => agrees_chtimesF plan p _)
    simpa using this
  have := agrees_seq _ _ [.openTrunc p] ((fileWrites c src d).map (.write p) ++ [.chtimes p]) true true h
    (fun hb => agrees_callF plan _ i rfl hb) (fun _ hb => inner _ hb)
  simpa [fileOps] using this

theorem agrees_copyDirF (c : Cfg) (hc : 0 < c.chunk) (src : ReaderBehaviour) (readlink : Bool) (plan : Plan) :
    ∀ (f : Forest) (pre : Path) (i : Nat), Benign (copyDirF c src readlink plan pre f i) →
      Agrees (copyDirF c src readlink plan pre f i) (copyDir c src readlink pre f).1 (copyDir c src readlink pre f).2 := by
  intro f
  induction f with
  | nil => intro pre i _; simp [Agrees, copyDirF, copyDir, FRun.done]
  | file n d r ih =>
    intro pre i h
    by_cases hex : c.excluded.contains n = true
    · simp only [copyDirF, copyDir, hex, if_true] at h ⊢
      exact ih pre i h
    · have hex' : c.excluded.contains n = false := by simpa using hex
      simp only [copyDirF, copyDir, hex', Bool.false_eq_true, if_false] at h ⊢
      have := agrees_seq _ _ (fileOps c src (pre ++ [n]) d) (copyDir c src readlink pre r).1 true
        (copyDir c src readlink pre r).2 h (fun hb => agrees_fileRunF c hc src plan _ d i hb) (fun _ hb => ih pre _ hb)
      simpa using this
  | dir n s r ihs ih =>
    intro pre i h
    by_cases hex : c.excluded.contains n = true
    · simp only [copyDirF, copyDir, hex, if_true] at h ⊢
      exact ih pre i h
    · have hex' : c.excluded.contains n = false := by simpa using hex
      simp only [copyDirF, copyDir, hex', Bool.false_eq_true, if_false] at h ⊢
      have := agrees_seq _ _ (.mkdir (pre ++ [n]) :: (copyDir c src readlink (pre ++ [n]) s).1)
        (copyDir c src readlink pre r).1 (copyDir c src readlink (pre ++ [n]) s).2
        (copyDir c src readlink pre r).2 h
        (fun hb => by
          have := agrees_seq _ _ [.mkdir (pre ++ [n])] (copyDir c src readlink (pre ++ [n]) s).1 true
            (copyDir c src readlink (pre ++ [n]) s).2 hb (fun hb' => agrees_callF plan _ i rfl hb')
            (fun _ hb' => ihs _ _ hb')
          simpa using this)
        (fun _ hb => ih pre _ hb)
      cases hs : (copyDir c src readlink (pre ++ [n]) s).2 <;> simpa [hs] using this
  | link n t r ih =>
    intro pre i h
    by_cases hex : c.excluded.contains n = true
    · simp only [copyDirF, copyDir, hex, if_true] at h ⊢
      exact ih pre i h
    · have hex' : c.excluded.contains n = false := by simpa using hex
      by_cases hrl : readlink = true
      · subst hrl
        simp only [copyDirF, copyDir, hex', Bool.false_eq_true, if_false, if_true] at h ⊢
        have := agrees_seq _ _ [.symlink (pre ++ [n]) t] (copyDir c src true pre r).1 true
          (copyDir c src true pre r).2 h (fun hb => agrees_callF plan _ i rfl hb)
          (fun _ hb => ih pre _ hb)
        simpa using this
      · simp only [copyDirF, copyDir, hex', Bool.false_eq_true, if_false, hrl] at h ⊢
        simp [Agrees]
  | other n r ih =>
    intro pre i h
    simp only [copyDirF, copyDir] at h ⊢
    exact ih pre i h

/-- every logged outcome is the plan's -/
theorem log_from_plan_seq (plan : Plan) (a : FRun) (b : Nat → FRun) (ha : ∀ e ∈ a.log, ∃ j, e.2 = plan j)
    (hb : ∀ k, ∀ e ∈ (b k).log, ∃ j, e.2 = plan j) : ∀ e ∈ (a.seq b).log, ∃ j, e.2 = plan j := by
  intro e he
  cases h : a.ok
  · rw [seq_of_not_ok a b h] at he; exact ha e he
  · rw [seq_of_ok a b h] at he
    simp only [List.mem_append] at he
    rcases he with he | he
    · exact ha e he
    · exact hb _ e he

theorem writeChunkF_log_plan (plan : Plan) (p : Path) : ∀ (fuel : Nat) (rem : Bytes) (i : Nat),
    ∀ e ∈ (writeChunkF plan p fuel rem i).log, ∃ j, e.2 = plan j := by
  intro fuel
  induction fuel with
  | zero => intro rem i e he; simp [writeChunkF] at he
  | succ fuel ih =>
    intro rem i e he
    unfold writeChunkF at he
    by_cases hr : rem.isEmpty = true
    · simp [hr, FRun.done] at he
    · simp only [hr, Bool.false_eq_true, if_false] at he
      cases hp : plan i with
      | ok => rw [hp] at he; simp at he; exact ⟨i, by rw [he, hp]⟩
      | fail => rw [hp] at he; simp at he; exact ⟨i, by rw [he, hp]⟩
      | short w =>
        rw [hp] at he
        by_cases hw : w = 0
        · simp [hw] at he; exact ⟨i, by rw [he, hp, hw]⟩
        · simp only [if_neg hw, List.mem_cons] at he
          rcases he with rfl | he
          · exact ⟨i, hp.symm⟩
          · exact ih _ _ e he

theorem copyDirF_log_plan (c : Cfg) (src : ReaderBehaviour) (readlink : Bool) (plan : Plan) :
    ∀ (f : Forest) (pre : Path) (i : Nat), ∀ e ∈ (copyDirF c src readlink plan pre f i).log, ∃ j, e.2 = plan j := by
  have hcall : ∀ op i, ∀ e ∈ (callF plan op i).log, ∃ j, e.2 = plan j := by
    intro op i e he; rw [callF_log] at he; simp at he; exact ⟨i, by rw [he]⟩
  have hstream : ∀ p (chunks : List Bytes) i, ∀ e ∈ (streamF plan p chunks i).log, ∃ j, e.2 = plan j := by
    intro p chunks
    induction chunks with
    | nil => intro i e he; simp [streamF, FRun.done] at he
    | cons ch rest ih =>
      intro i
      unfold streamF
      exact log_from_plan_seq plan _ _ (writeChunkF_log_plan plan p _ ch i) (fun k => ih k)
  have hfile : ∀ p d i, ∀ e ∈ (fileRunF c src plan p d i).log, ∃ j, e.2 = plan j := by
    intro p d i
    unfold fileRunF
    refine log_from_plan_seq plan _ _ (hcall _ i) (fun k => log_from_plan_seq plan _ _ ?_ (fun k' => ?_))
    · split
      · intro e he; rw [wholeWriteF_log] at he; simp at he; exact ⟨k, by rw [he]⟩
      · exact hstream _ _ k
    · intro e he; simp [chtimesF] at he; exact ⟨k', by rw [he]⟩
  intro f
  induction f with
  | nil => intro pre i e he; simp [copyDirF, FRun.done] at he
  | file n d r ih =>
    intro pre i
    unfold copyDirF
    split
    · exact ih pre i
    · exact log_from_plan_seq plan _ _ (hfile _ d i) (fun k => ih pre k)
  | dir n s r ihs ih =>
    intro pre i
    unfold copyDirF
    split
    · exact ih pre i
    · exact log_from_plan_seq plan _ _ (log_from_plan_seq plan _ _ (hcall _ i) (fun k => ihs _ k)) (fun k => ih pre k)
  | link n t r ih =>
    intro pre i
    unfold copyDirF
    split
    · exact ih pre i
    · split
      · exact log_from_plan_seq plan _ _ (hcall _ i) (fun k => ih pre k)
      · intro e he; simp at he
  | other n r ih =>
    intro pre i
    unfold copyDirF
    exact ih pre i

end Diskfs.Sync
