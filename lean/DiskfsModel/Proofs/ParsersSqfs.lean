/-
  C18 parsers — squashfs readMetaBlock / readMetadata, parseFragmentEntry, readFragment, id lookup.
-/
import DiskfsModel.Proofs.ParsersBase
namespace Diskfs.Parsers.Sqfs
open Diskfs.Parsers

theorem readAt_length_le (dev : Bytes) (off n : Nat) : (readAt dev off n).length ≤ n := by
  simp [readAt, List.length_take]; omega

/-- a metadata block is at most 0x7fff bytes long (15-bit size field) and reports its size + 2 -/
theorem readMetaBlock_ok (dev : Bytes) (loc : Nat) (m : Bytes) (rd : Nat)
    (h : readMetaBlock dev loc = .ok (m, rd)) : m.length < 32768 ∧ rd = m.length + 2 := by
  unfold readMetaBlock at h
  simp only at h
  split at h
  · simp at h
  · rename_i hl
    split at h
    · simp at h
    · injection h with h
      injection h with h1 h2
      subst h1
      exact ⟨by omega, by omega⟩

theorem readMetaBlock_ne_panic (dev : Bytes) (loc : Nat) : readMetaBlock dev loc ≠ .panic := by
  unfold readMetaBlock
  simp only
  split
  · simp
  · split <;> simp

theorem readMetaBlock_ne_fuel (dev : Bytes) (loc : Nat) : readMetaBlock dev loc ≠ .fuel := by
  unfold readMetaBlock
  simp only
  split
  · simp
  · split <;> simp

/-- one iteration of the checked readMetadata loop -/
theorem metaLoop_step (dev : Bytes) (first size fuel off rd : Nat) (acc : Bytes) (hlt : acc.length < size) :
    metaLoop true dev first size (fuel + 1) off rd acc = .err ∨
    ∃ m rd', 0 < m.length ∧ m.length < 32768 ∧
      metaLoop true dev first size (fuel + 1) off rd acc =
        metaLoop true dev first size fuel (off + rd) rd' (acc ++ m) := by
  rw [metaLoop]
  simp only [hlt, not_true_eq_false, if_false]
  cases h : readMetaBlock dev (first + (off + rd)) with
  | ok p =>
    obtain ⟨m, rd'⟩ := p
    simp only [bind_ok, Bool.true_and, decide_eq_true_eq]
    by_cases h0 : m.length = 0
    · left; simp only [h0, if_true]
    · right
      exact ⟨m, rd', by omega, (readMetaBlock_ok _ _ _ _ h).1, by simp only [h0, if_false]⟩
  | err => left; simp
  | panic => exact absurd h (readMetaBlock_ne_panic _ _)
  | fuel => exact absurd h (readMetaBlock_ne_fuel _ _)

theorem metaLoop_no_panic (dev : Bytes) (first size : Nat) :
    ∀ fuel off rd acc, metaLoop true dev first size fuel off rd acc ≠ .panic := by
  intro fuel
  induction fuel with
  | zero => intro off rd acc; simp [metaLoop]
  | succ n ih =>
    intro off rd acc
    by_cases hlt : acc.length < size
    · rcases metaLoop_step dev first size n off rd acc hlt with h | ⟨m, rd', _, _, h⟩
      · rw [h]; simp
      · rw [h]; exact ih _ _ _
    · rw [metaLoop]; simp [hlt]

/-- every block read brings at least one byte: `size - len(b) + 1` iterations always suffice -/
theorem metaLoop_terminates (dev : Bytes) (first size : Nat) :
    ∀ fuel off rd acc, 0 < fuel → size + 1 ≤ acc.length + fuel →
      metaLoop true dev first size fuel off rd acc ≠ .fuel := by
  intro fuel
  induction fuel with
  | zero => intro off rd acc h; omega
  | succ n ih =>
    intro off rd acc _ h
    by_cases hlt : acc.length < size
    · rcases metaLoop_step dev first size n off rd acc hlt with h' | ⟨m, rd', hm, _, h'⟩
      · rw [h']; simp
      · rw [h']
        apply ih
        · omega
        · simp only [List.length_append]; omega
    · rw [metaLoop]; simp [hlt]

/-- what the loop returns is never more than one metadata block longer than what was asked for -/
theorem metaLoop_alloc (dev : Bytes) (first size : Nat) :
    ∀ fuel off rd acc l, metaLoop true dev first size fuel off rd acc = .ok l →
      acc.length ≤ size + 32767 → l.length ≤ size + 32767 := by
  intro fuel
  induction fuel with
  | zero => intro off rd acc l h; simp [metaLoop] at h
  | succ n ih =>
    intro off rd acc l h hacc
    by_cases hlt : acc.length < size
    · rcases metaLoop_step dev first size n off rd acc hlt with h' | ⟨m, rd', _, hm, h'⟩
      · rw [h'] at h; simp at h
      · rw [h'] at h
        apply ih _ _ _ _ h
        simp only [List.length_append]; omega
    · rw [metaLoop] at h
      simp only [hlt, not_false_eq_true, if_true] at h
      injection h with h; subst h; exact hacc

theorem readMetadata_no_panic (dev : Bytes) (first boff off size fuel : Nat) :
    readMetadata true dev first boff off size fuel ≠ .panic := by
  unfold readMetadata
  cases h : readMetaBlock dev (first + boff) with
  | ok p =>
    obtain ⟨m, rd⟩ := p
    simp only [bind_ok, Bool.true_and, decide_eq_true_eq]
    by_cases ho : off > m.length
    · simp [ho]
    · simp only [ho, if_false]
      rw [slc_ok (GS.ofBytes m) off m.length (by omega) (by simp [GS.ofBytes])]
      simp only [bind_ok]
      exact metaLoop_no_panic _ _ _ _ _ _ _
  | err => simp
  | panic => exact absurd h (readMetaBlock_ne_panic _ _)
  | fuel => simp

theorem readMetadata_terminates (dev : Bytes) (first boff off size : Nat) :
    readMetadata true dev first boff off size (size + 1) ≠ .fuel := by
  unfold readMetadata
  cases h : readMetaBlock dev (first + boff) with
  | ok p =>
    obtain ⟨m, rd⟩ := p
    simp only [bind_ok, Bool.true_and, decide_eq_true_eq]
    by_cases ho : off > m.length
    · simp [ho]
    · simp only [ho, if_false]
      rw [slc_ok (GS.ofBytes m) off m.length (by omega) (by simp [GS.ofBytes])]
      simp only [bind_ok]
      exact metaLoop_terminates _ _ _ _ _ _ _ (by omega) (by omega)
  | err => simp
  | panic => simp
  | fuel => exact absurd h (readMetaBlock_ne_fuel _ _)

theorem readMetadata_alloc (dev : Bytes) (first boff off size fuel : Nat) (l : Bytes)
    (h : readMetadata true dev first boff off size fuel = .ok l) : l.length ≤ size + 32767 := by
  unfold readMetadata at h
  cases hb : readMetaBlock dev (first + boff) with
  | ok p =>
    obtain ⟨m, rd⟩ := p
    rw [hb] at h
    simp only [bind_ok, Bool.true_and, decide_eq_true_eq] at h
    by_cases ho : off > m.length
    · simp [ho] at h
    · simp only [ho, if_false] at h
      rw [slc_ok (GS.ofBytes m) off m.length (by omega) (by simp [GS.ofBytes])] at h
      simp only [bind_ok] at h
      apply metaLoop_alloc _ _ _ _ _ _ _ _ h
      have := (readMetaBlock_ok _ _ _ _ hb).1
      simp only [GS.bytes, List.length_take, List.length_drop]
      omega
  | err => rw [hb] at h; simp at h
  | panic => rw [hb] at h; simp at h
  | fuel => rw [hb] at h; simp at h

/-! ### fragments and ids -/

theorem parseFragmentEntry_no_panic (b : GS) (hwf : b.wf) : parseFragmentEntry b ≠ .panic := by
  unfold GS.wf at hwf
  unfold parseFragmentEntry
  split
  · simp
  · rw [le_ok b 0 8 (by omega), le_ok b 8 4 (by omega)]
    simp

/-- the size a fragment entry can announce is a 24-bit number: `make([]byte, size)` ≤ 16 MiB -/
theorem parseFragmentEntry_size (b : GS) (f : Frag) (h : parseFragmentEntry b = .ok f) : f.size < 16777216 := by
  unfold parseFragmentEntry at h
  split at h
  · simp at h
  · cases h1 : le b 0 8 with
    | ok s =>
      rw [h1] at h; simp only [bind_ok] at h
      cases h2 : le b 8 4 with
      | ok z =>
        rw [h2] at h; simp only [bind_ok, pure_eq] at h
        injection h with h; subst h
        exact Nat.mod_lt _ (by omega)
      | err => rw [h2] at h; simp at h
      | panic => rw [h2] at h; simp at h
      | fuel => rw [h2] at h; simp at h
    | err => rw [h1] at h; simp at h
    | panic => rw [h1] at h; simp at h
    | fuel => rw [h1] at h; simp at h

theorem readFragment_no_panic (dev : Bytes) (frags : List Frag) (index offset : Nat) (fragmentSize : Int) :
    readFragment true dev frags index offset fragmentSize ≠ .panic := by
  unfold readFragment
  simp only [Bool.true_and, decide_eq_true_eq]
  by_cases hidx : (frags.length : Int) - 1 < index
  · simp [hidx]
  · simp only [hidx, if_false]
    have hlt : index < frags.length := by omega
    rw [List.getElem?_eq_getElem hlt]
    simp only
    split
    · simp
    · split
      · simp
      · split
        · simp
        · split
          · simp
          · rename_i hlen _ hfit
            simp only [Bool.or_eq_true, decide_eq_true_eq, not_or] at hfit
            split
            · omega
            · rw [slc_ok _ _ _ (by omega) (by simp only [GS.ofBytes]; omega)]
              simp

/-- the buffer readFragment allocates is the size recorded in the fragment entry it selected -/
theorem readFragment_alloc (dev : Bytes) (frags : List Frag) (index offset : Nat) (fragmentSize : Int)
    (d : Bytes) (a : Nat) (h : readFragment true dev frags index offset fragmentSize = .ok (d, a)) :
    ∃ f ∈ frags, a = f.size := by
  unfold readFragment at h
  simp only [Bool.true_and, decide_eq_true_eq] at h
  by_cases hidx : (frags.length : Int) - 1 < index
  · simp [hidx] at h
  · simp only [hidx, if_false] at h
    have hlt : index < frags.length := by omega
    rw [List.getElem?_eq_getElem hlt] at h
    simp only at h
    refine ⟨frags[index], List.getElem_mem hlt, ?_⟩
    repeat' split at h
    all_goals first
      | (simp at h; done)
      | (cases hs : slc (GS.ofBytes (readAt dev frags[index].start frags[index].size)) offset (offset + fragmentSize.toNat) with
         | ok t => rw [hs] at h; simp only [bind_ok, pure_eq] at h; injection h with h; injection h with _ h2; exact h2.symm
         | err => rw [hs] at h; simp at h
         | panic => rw [hs] at h; simp at h
         | fuel => rw [hs] at h; simp at h)

theorem idLookup_no_panic (ids : List Nat) (u g : Nat) : idLookup true ids u g ≠ .panic := by
  unfold idLookup
  simp only [Bool.true_and, Bool.or_eq_true, decide_eq_true_eq]
  by_cases h : u ≥ ids.length ∨ g ≥ ids.length
  · simp [h]
  · simp only [h, if_false]
    have hu : u < ids.length := by omega
    have hg : g < ids.length := by omega
    rw [List.getElem?_eq_getElem hu, List.getElem?_eq_getElem hg]
    simp

end Diskfs.Parsers.Sqfs
