import DiskfsModel.Model.Iso.Compose
import DiskfsModel.Proofs.IsoWrites
import DiskfsModel.Proofs.IsoNames
namespace Diskfs.Iso

/-! ### association list of locations -/

theorem lookup_zip_map (keys vals : List Nat) (hn : keys.Nodup) (hl : keys.length = vals.length) :
    keys.map (fun k => ((keys.zip vals).lookup k).getD 0) = vals := by
  induction keys generalizing vals with
  | nil => cases vals with
    | nil => rfl
    | cons v vs => simp at hl
  | cons k ks ih =>
    cases vals with
    | nil => simp at hl
    | cons v vs =>
      have hnd := List.nodup_cons.1 hn
      simp only [List.length_cons, Nat.add_right_cancel_iff] at hl
      simp only [List.map_cons, List.zip_cons_cons, List.lookup_cons, BEq.rfl, Option.getD_some, List.cons.injEq, true_and]
      rw [← ih vs hnd.2 hl]
      apply List.map_congr_left
      intro a ha
      have hak : (a == k) = false := by
        simp only [beq_eq_false_iff_ne, ne_eq]
        intro e; subst e; exact hnd.1 ha
      simp only [hak]
      rw [ih vs hnd.2 hl]

/-! ### lengths do not depend on locations -/

theorem encodeRec_length' (r : DirRec) :
    (encodeRec r).length = 26 + r.date.length + r.name.length + (recPad r.name.length).length := by
  simp [encodeRec]; omega

theorem encSuffix_length_congr (bs : Nat) (rs rs' : List Bytes) (pos : Nat)
    (h : rs.map (·.length) = rs'.map (·.length)) : (encSuffix bs rs pos).length = (encSuffix bs rs' pos).length := by
  induction rs generalizing rs' pos with
  | nil => cases rs' with
    | nil => rfl
    | cons y ys => simp at h
  | cons x xs ih =>
    cases rs' with
    | nil => simp at h
    | cons y ys =>
      simp only [List.map_cons, List.cons.injEq] at h
      simp only [encSuffix, List.length_append, zeros_length, h.1]
      rw [ih ys _ h.2]

theorem dirBytes_length_indep (w : WTree) (fin : Nat → Nat → Nm) (bs : Nat) (loc size loc' size' : Nat → Nat) (d : Nat) :
    ((w.ptree fin loc size).dirBytes bs d).length = ((w.ptree fin loc' size').dirBytes bs d).length := by
  unfold PTree.dirBytes encodeExtent
  apply encSuffix_length_congr
  simp only [PTree.dirRecs, List.map_cons, List.map_map, PTree.selfRec, PTree.parRec, PTree.recOf, WTree.ptree, WTree.pent,
    encodeRec_length', List.cons.injEq, true_and]
  apply List.map_congr_left
  intro c _
  simp [encodeRec_length', PTree.recOf, WTree.pent]

theorem dirBytes_length (w : WTree) (fin : Nat → Nat → Nm) (bs : Nat) (loc size : Nat → Nat) (d : Nat) :
    ((w.ptree fin loc size).dirBytes bs d).length = w.dsize fin bs d :=
  dirBytes_length_indep w fin bs loc size _ _ d

theorem encodePtTable_length_congr (big big' : Bool) (l : List Nat) (f f' : Nat → PtRec)
    (h : ∀ d, (f d).name = (f' d).name) :
    (encodePtTable big (l.map f)).length = (encodePtTable big' (l.map f')).length := by
  induction l with
  | nil => rfl
  | cons d ds ih =>
    simp only [encodePtTable, List.map_cons, List.flatten_cons, List.length_append] at ih ⊢
    rw [ih]
    congr 1
    cases big <;> cases big' <;> simp [encodePt, h d]

theorem ptBytes_length (w : WTree) (fin : Nat → Nat → Nm) (loc loc' : Nat → Nat) (pt : List Nat) (big big' : Bool) :
    (encodePtTable big (w.ptRecs fin loc pt)).length = (encodePtTable big' (w.ptRecs fin loc' pt)).length := by
  unfold WTree.ptRecs
  exact encodePtTable_length_congr big big' pt _ _ (fun _ => rfl)

theorem blocksFor_mul (k bs : Nat) (hbs : 0 < bs) : blocksFor (k * bs) bs = k := by
  unfold blocksFor
  rw [Nat.mul_div_cancel _ hbs, Nat.mul_mod_left]
  simp

theorem blocksFor_padBlock (bs : Nat) (hbs : 0 < bs) (b : Bytes) :
    blocksFor (padBlock bs b).length bs = blocksFor b.length bs := by
  rw [padBlock_length_blocks bs hbs, blocksFor_mul _ _ hbs]

/-! ### the locations are `Placed` -/

section
variable (w : WTree) (fin : Nat → Nat → Nm) (bs : Nat) (o : Order) (sysId volId tail : Bytes)

theorem image_mid_blocks (hbs : 0 < bs) :
    (((w.image fin bs o sysId volId tail).mid.map (·.data)).map fun b => blocksFor b.length bs) = w.blocks fin bs o := by
  simp only [WTree.image, ImageIn.mid, WTree.blocks, WTree.lens, List.map_append, List.map_map, List.map_cons, List.map_nil]
  have h1 : List.map ((fun b : Bytes => blocksFor b.length bs) ∘ (fun x : Wr => x.data) ∘ fun d =>
        (⟨((w.ptree fin (w.loc fin bs o) (w.size fin bs)).ent d).loc * bs, padBlock bs ((w.ptree fin (w.loc fin bs o) (w.size fin bs)).dirBytes bs d)⟩ : Wr)) o.dirs =
      List.map ((fun l => blocksFor l bs) ∘ w.dsize fin bs) o.dirs := by
    apply List.map_congr_left
    intro d _
    simp only [Function.comp, blocksFor_padBlock bs hbs, dirBytes_length]
  have h3 : List.map ((fun b : Bytes => blocksFor b.length bs) ∘ (fun x : Wr => x.data) ∘ fun f =>
        (⟨((w.ptree fin (w.loc fin bs o) (w.size fin bs)).ent f).loc * bs, padBlock bs ((w.ptree fin (w.loc fin bs o) (w.size fin bs)).ent f).content⟩ : Wr)) o.files =
      List.map ((fun l => blocksFor l bs) ∘ fun f => (w.content f).length) o.files := by
    apply List.map_congr_left
    intro f _
    simp only [Function.comp, blocksFor_padBlock bs hbs]
    rfl
  rw [h1, h3, ptBytes_length w fin (w.loc fin bs o) (fun _ => 0) o.pt false false,
      ptBytes_length w fin (w.loc fin bs o) (fun _ => 0) o.pt true true]

theorem keys_nodup (hok : w.OK o) : (w.keys o).Nodup := by
  unfold WTree.keys
  rw [List.nodup_append]
  refine ⟨hok.dirsNodup, ?_, ?_⟩
  · simp only [List.cons_append, List.nil_append]
    rw [List.nodup_cons, List.nodup_cons]
    refine ⟨?_, ?_, hok.filesNodup⟩
    · intro h
      simp only [List.mem_cons] at h
      rcases h with h | h
      · omega
      · have := ((hok.filesOK _).1 h).1; omega
    · intro h
      have := ((hok.filesOK _).1 h).1; omega
  · intro a ha b hb e
    subst e
    have h1 := (hok.dirsOK a).1 ha
    simp only [List.mem_append, List.mem_cons, List.not_mem_nil, or_false] at hb
    rcases hb with (hb | hb) | hb
    · omega
    · omega
    · have h2 := (hok.filesOK a).1 hb
      rw [h1.2] at h2
      exact absurd h2.2 (by simp)

theorem keys_loc (hok : w.OK o) :
    (w.keys o).map (w.loc fin bs o) = (seqAlloc (dataStartSector + 2) (w.blocks fin bs o)).map (·.1) := by
  have := lookup_zip_map (w.keys o) ((seqAlloc (dataStartSector + 2) (w.blocks fin bs o)).map (·.1)) (keys_nodup w o hok)
    (by simp [WTree.keys, seqAlloc_length, WTree.blocks, WTree.lens])
  exact this

theorem image_placed (hbs : 0 < bs) (hok : w.OK o) : (w.image fin bs o sysId volId tail).Placed := by
  apply placed_of_offsets
  have hb : (w.image fin bs o sysId volId tail).bs = bs := rfl
  rw [hb, image_mid_blocks w fin bs o sysId volId tail hbs]
  have : (w.image fin bs o sysId volId tail).mid.map (·.off) = ((w.keys o).map (w.loc fin bs o)).map (· * bs) := by
    simp [WTree.image, ImageIn.mid, WTree.keys, WTree.ptree, WTree.pent]
    rfl
  rw [this, keys_loc w fin bs o hok, List.map_map]
  rfl

theorem image_volBlocks (hbs : 0 < bs) : (w.image fin bs o sysId volId tail).volBlocks = w.total fin bs o := by
  unfold ImageIn.volBlocks WTree.total
  have hb : (w.image fin bs o sysId volId tail).bs = bs := rfl
  rw [hb, image_mid_blocks w fin bs o sysId volId tail hbs]

theorem image_mid_bounds (hbs : 0 < bs) (hok : w.OK o) :
    ∀ x ∈ (w.image fin bs o sysId volId tail).mid,
      (dataStartSector + 2) * bs ≤ x.off ∧ x.off + blocksFor x.data.length bs * bs ≤ w.total fin bs o * bs := by
  intro x hx
  have hpl := image_placed w fin bs o sysId volId tail hbs hok
  have hx' := hx
  rw [hpl] at hx'
  have h1 := seqWr_bounds _ _ _ x hx'
  have h2 := seqWr_end _ _ _ x hx'
  rw [← image_volBlocks w fin bs o sysId volId tail hbs]
  exact ⟨h1, h2⟩

theorem dir_in_mid (d : Nat) (hd : d ∈ o.dirs) :
    (⟨w.loc fin bs o d * bs, padBlock bs ((w.ptree fin (w.loc fin bs o) (w.size fin bs)).dirBytes bs d)⟩ : Wr) ∈
      (w.image fin bs o sysId volId tail).mid :=
  List.mem_append_left _ (List.mem_map.2 ⟨d, hd, rfl⟩)

theorem file_in_mid (f : Nat) (hf : f ∈ o.files) :
    (⟨w.loc fin bs o f * bs, padBlock bs (w.content f)⟩ : Wr) ∈ (w.image fin bs o sysId volId tail).mid :=
  List.mem_append_right _ (List.mem_append_right _ (List.mem_map.2 ⟨f, hf, rfl⟩))

theorem ptL_in_mid :
    (⟨w.loc fin bs o w.n * bs, encodePtTable false (w.ptRecs fin (w.loc fin bs o) o.pt)⟩ : Wr) ∈
      (w.image fin bs o sysId volId tail).mid :=
  List.mem_append_right _ (List.mem_append_left _ (by simp [WTree.image]))

theorem ptM_in_mid :
    (⟨w.loc fin bs o (w.n + 1) * bs, encodePtTable true (w.ptRecs fin (w.loc fin bs o) o.pt)⟩ : Wr) ∈
      (w.image fin bs o sysId volId tail).mid :=
  List.mem_append_right _ (List.mem_append_left _ (by simp [WTree.image]))

/-- a piece of `len` bytes at block `l` that ends inside a volume of less than 4 GiB -/
theorem piece_small (l len tot : Nat) (hbs : 0 < bs) (h : l * bs + blocksFor len bs * bs ≤ tot * bs) (hlim : tot * bs < 2 ^ 32) :
    l < 2 ^ 32 ∧ len < 2 ^ 32 := by
  have h1 : l ≤ l * bs := Nat.le_mul_of_pos_right l hbs
  have h2 := (blocksFor_covers len bs hbs).1
  omega

theorem dir_small (hbs : 0 < bs) (hok : w.OK o) (hlim : w.total fin bs o * bs < 2 ^ 32) (d : Nat) (hd : d ∈ o.dirs) :
    w.loc fin bs o d < 2 ^ 32 ∧ w.dsize fin bs d < 2 ^ 32 := by
  have hb := (image_mid_bounds w fin bs o [] [] [] hbs hok _ (dir_in_mid w fin bs o [] [] [] d hd)).2
  simp only [blocksFor_padBlock bs hbs, dirBytes_length] at hb
  exact piece_small bs _ _ _ hbs hb hlim

theorem file_small (hbs : 0 < bs) (hok : w.OK o) (hlim : w.total fin bs o * bs < 2 ^ 32) (f : Nat) (hf : f ∈ o.files) :
    w.loc fin bs o f < 2 ^ 32 ∧ (w.content f).length < 2 ^ 32 := by
  have hb := (image_mid_bounds w fin bs o [] [] [] hbs hok _ (file_in_mid w fin bs o [] [] [] f hf)).2
  simp only [blocksFor_padBlock bs hbs] at hb
  exact piece_small bs _ _ _ hbs hb hlim

theorem fits_ptree (loc size : Nat → Nat) : ∀ fuel d, w.Fits fuel d → (w.ptree fin loc size).Fits fuel d := by
  intro fuel
  induction fuel with
  | zero => intro d h; exact h
  | succ f ih =>
    intro d h c hc hdir
    exact ih c (h c hc hdir)

end

/-! ### names -/

/-- collision resolution never touches an extension -/
theorem resolveGroup_ext (n : Nat) (orig cur cur' : Nat → Nm) (key : Nm)
    (hext : ∀ i, i < n → (cur i).2 = (orig i).2) (h : resolveGroup n orig cur key = some cur') :
    ∀ i, i < n → (cur' i).2 = (orig i).2 := by
  unfold resolveGroup at h
  simp only at h
  split at h
  · simp only [Option.some.injEq] at h; subst h; exact hext
  · split at h
    · simp at h
    · rename_i s hr
      simp only [Option.some.injEq] at h
      subst h
      have R := rounds_ok key.1 key.2 _ (members_nodup n orig key) _ _ _ _ hr
      intro i hi
      by_cases mi : i ∈ members n orig key
      · obtain ⟨d', k, _, hc⟩ := R.2.2.2 i mi
        rw [hc, ((mem_members ..).1 mi).2]
        rfl
      · rw [R.1 i mi]; exact hext i hi

theorem resolveAll_ext (n : Nat) (orig : Nat → Nm) (order : List Nm) (cur fin : Nat → Nm)
    (hext : ∀ i, i < n → (cur i).2 = (orig i).2) (h : resolveAll n orig order cur = some fin) :
    ∀ i, i < n → (fin i).2 = (orig i).2 := by
  induction order generalizing cur with
  | nil => simp only [resolveAll, Option.some.injEq] at h; subst h; exact hext
  | cons key rest ih =>
    simp only [resolveAll] at h
    split at h
    · simp at h
    · rename_i cur' hg
      exact ih cur' (resolveGroup_ext n orig cur cur' key hext hg) h

theorem okChar_lt (c : Nat) (h : okChar c = true) : c < 128 ∧ c ≠ 46 := by
  simp only [okChar, Bool.or_eq_true, Bool.and_eq_true, decide_eq_true_eq, beq_iff_eq] at h
  omega

theorem strBytes_inj (a b : Str) (ha : ∀ c ∈ a, c < 256) (hb : ∀ c ∈ b, c < 256) (h : strBytes a = strBytes b) : a = b := by
  induction a generalizing b with
  | nil => cases b with
    | nil => rfl
    | cons y ys => simp [strBytes] at h
  | cons x xs ih =>
    cases b with
    | nil => simp [strBytes] at h
    | cons y ys =>
      simp only [strBytes, List.map_cons, List.cons.injEq] at h
      have hx := ha x (List.mem_cons_self ..)
      have hy := hb y (List.mem_cons_self ..)
      have e : x = y := by
        have := congrArg UInt8.toNat h.1
        rw [ofNat_toNat_of_lt x hx, ofNat_toNat_of_lt y hy] at this
        exact this
      rw [e, ih ys (fun c hc => ha c (List.mem_cons_of_mem _ hc)) (fun c hc => hb c (List.mem_cons_of_mem _ hc)) h.2]

theorem split_at_dot (a a' r r' : Str) (ha : 46 ∉ a) (ha' : 46 ∉ a') (h : a ++ 46 :: r = a' ++ 46 :: r') : a = a' ∧ r = r' := by
  induction a generalizing a' with
  | nil =>
    cases a' with
    | nil => simpa using h
    | cons y ys =>
      simp only [List.nil_append, List.cons_append, List.cons.injEq] at h
      exact absurd (by rw [← h.1]; exact List.mem_cons_self ..) ha'
  | cons x xs ih =>
    cases a' with
    | nil =>
      simp only [List.nil_append, List.cons_append, List.cons.injEq] at h
      exact absurd (by rw [h.1]; exact List.mem_cons_self ..) ha
    | cons y ys =>
      simp only [List.cons_append, List.cons.injEq] at h
      have := ih ys (fun hm => ha (List.mem_cons_of_mem _ hm)) (fun hm => ha' (List.mem_cons_of_mem _ hm)) h.2
      exact ⟨by rw [h.1, this.1], this.2⟩

/-- the identifier written for a valid 8.3 name determines the name (directories carry no extension) -/
theorem isoIdent_inj (a b : Nm) (da db : Bool) (va : Valid83 a) (vb : Valid83 b)
    (ea : da = true → a.2 = []) (eb : db = true → b.2 = []) (h : isoIdent a da = isoIdent b db) : a = b := by
  have na : 46 ∉ a.1 := fun hm => (okChar_lt 46 (va.2.2.1 46 hm)).2 rfl
  have nb : 46 ∉ b.1 := fun hm => (okChar_lt 46 (vb.2.2.1 46 hm)).2 rfl
  cases da <;> cases db <;> simp only [isoIdent, if_true, if_false, Bool.false_eq_true] at h
  · rw [List.append_assoc, List.append_assoc, List.append_assoc, List.append_assoc] at h
    have := split_at_dot _ _ _ _ na nb h
    have h2' : a.2 ++ [59, 49] = b.2 ++ [59, 49] := this.2
    have h2 := List.append_cancel_right h2'
    exact Prod.ext this.1 h2
  · exfalso
    apply nb
    rw [← h]
    simp
  · exfalso
    apply na
    rw [h]
    simp
  · exact Prod.ext h (by rw [ea rfl, eb rfl])

theorem isoIdent_small (a : Nm) (d : Bool) (va : Valid83 a) :
    (isoIdent a d).length ≤ 14 ∧ ∀ c ∈ isoIdent a d, c < 256 := by
  obtain ⟨h1, h2, h3, h4⟩ := va
  cases d <;> simp only [isoIdent, if_true, if_false, Bool.false_eq_true]
  · refine ⟨by simp; omega, ?_⟩
    intro c hc
    simp only [List.mem_append, List.mem_cons, List.not_mem_nil, or_false] at hc
    rcases hc with ((hc | hc) | hc) | hc
    · exact Nat.lt_trans (okChar_lt c (h3 c hc)).1 (by decide)
    · omega
    · exact Nat.lt_trans (okChar_lt c (h4 c hc)).1 (by decide)
    · omega
  · exact ⟨by omega, fun c hc => Nat.lt_trans (okChar_lt c (h3 c hc)).1 (by decide)⟩

section
variable (w : WTree) (order : Nat → List Nm) (fin : Nat → Nat → Nm)

theorem orig_valid (d : Nat) : ∀ i, i < (w.kids d).length → Valid83 (w.orig d i) :=
  fun _ _ => entryName_valid _ _

/-- what resolution guarantees for the children of one directory -/
theorem resolved_facts (hr : w.Resolved order fin) (d : Nat) (hd : d < w.n) (hdir : w.isDir d = true) :
    (∀ i j, i < (w.kids d).length → j < (w.kids d).length → i ≠ j → fin d i ≠ fin d j) ∧
    (∀ i, i < (w.kids d).length → Valid83 (fin d i)) ∧
    (∀ i, i < (w.kids d).length → (fin d i).2 = (w.orig d i).2) := by
  have h := hr.res d hd hdir
  unfold WTree.resolved at h
  have inv := inv_all _ (w.orig d) (orig_valid w d) (order d) (w.orig d) (fin d) [] (inv_init _ _ (orig_valid w d)) h
  refine ⟨?_, inv.valid, resolveAll_ext _ _ _ _ _ (fun _ _ => rfl) h⟩
  intro i j hi hj hij
  apply inv.uniq i j hi hj hij
  by_cases hm : 1 < (members (w.kids d).length (w.orig d) (w.orig d i)).length
  · left; simp [hr.cover d hd hdir i hi hm]
  · right; omega

theorem getD_idxOf (l : List Nat) (c : Nat) (h : c ∈ l) : l.getD (l.idxOf c) 0 = c := by
  have hlt := List.idxOf_lt_length_of_mem h
  rw [List.getD_eq_getElem?_getD, List.getElem?_eq_getElem hlt, Option.getD_some]
  exact List.getElem_idxOf hlt

/-- **siblings get different identifiers**, each at most 14 bytes long -/
theorem ident_facts (o : Order) (hok : w.OK o) (hr : w.Resolved order fin) (d : Nat) (hd : d < w.n) (hdir : w.isDir d = true) :
    (∀ c ∈ w.kids d, (w.ident fin c).length ≤ 14 ∧
      w.ident fin c = strBytes (isoIdent (fin d ((w.kids d).idxOf c)) (w.isDir c))) ∧
    (∀ c1 ∈ w.kids d, ∀ c2 ∈ w.kids d, c1 ≠ c2 → w.ident fin c1 ≠ w.ident fin c2) := by
  have F := resolved_facts w order fin hr d hd hdir
  have hid : ∀ c ∈ w.kids d, w.ident fin c = strBytes (isoIdent (fin d ((w.kids d).idxOf c)) (w.isDir c)) := by
    intro c hc
    have := hok.kidsPar d hd c hc
    simp only [WTree.ident, this.2, if_false, this.1]
  have hdirext : ∀ c ∈ w.kids d, w.isDir c = true → (fin d ((w.kids d).idxOf c)).2 = [] := by
    intro c hc hcd
    rw [F.2.2 _ (List.idxOf_lt_length_of_mem hc)]
    simp only [WTree.orig, getD_idxOf _ _ hc, hcd, entryName, if_true]
  refine ⟨?_, ?_⟩
  · intro c hc
    refine ⟨?_, hid c hc⟩
    rw [hid c hc]
    simp only [strBytes, List.length_map]
    exact (isoIdent_small _ _ (F.2.1 _ (List.idxOf_lt_length_of_mem hc))).1
  · intro c1 h1 c2 h2 hne e
    rw [hid c1 h1, hid c2 h2] at e
    have l1 := List.idxOf_lt_length_of_mem h1
    have l2 := List.idxOf_lt_length_of_mem h2
    have v1 := F.2.1 _ l1
    have v2 := F.2.1 _ l2
    have e' := strBytes_inj _ _ (isoIdent_small _ _ v1).2 (isoIdent_small _ _ v2).2 e
    have e'' := isoIdent_inj _ _ _ _ v1 v2 (hdirext c1 h1) (hdirext c2 h2) e'
    have hidx : (w.kids d).idxOf c1 ≠ (w.kids d).idxOf c2 := by
      intro hi
      apply hne
      rw [← getD_idxOf _ _ h1, ← getD_idxOf _ _ h2, hi]
    exact F.1 _ _ l1 l2 hidx e''

end

/-! ### the composition -/

section
variable (w : WTree) (order : Nat → List Nm) (fin : Nat → Nat → Nm) (bs : Nat) (o : Order) (sysId volId tail : Bytes)

theorem ptree_wf (hbs : 0 < bs) (hok : w.OK o) (hr : w.Resolved order fin) (hlim : w.total fin bs o * bs < 2 ^ 32) :
    (w.ptree fin (w.loc fin bs o) (w.size fin bs)).WF := by
  refine ⟨hok.kidsLt, hok.parLt, ?_⟩
  intro c hc
  show w.loc fin bs o c < 2 ^ 32 ∧ w.size fin bs c < 2 ^ 32 ∧ (w.date c).length = 7 ∧ (w.ident fin c).length < 222
  refine ⟨?_, ?_, hok.date7 c hc, ?_⟩
  · cases hcd : w.isDir c
    · exact (file_small w fin bs o hbs hok hlim c ((hok.filesOK c).2 ⟨hc, hcd⟩)).1
    · exact (dir_small w fin bs o hbs hok hlim c ((hok.dirsOK c).2 ⟨hc, hcd⟩)).1
  · unfold WTree.size
    cases hcd : w.isDir c
    · simp only [Bool.false_eq_true, if_false]
      exact (file_small w fin bs o hbs hok hlim c ((hok.filesOK c).2 ⟨hc, hcd⟩)).2
    · simp only [if_true]
      exact (dir_small w fin bs o hbs hok hlim c ((hok.dirsOK c).2 ⟨hc, hcd⟩)).2
  · by_cases h0 : c = 0
    · simp [WTree.ident, h0]
    · have hk := hok.inKids c hc h0
      have := ((ident_facts w order fin o hok hr (w.parent c) (hok.parLt c hc) hk.1).1 c hk.2).1
      omega

theorem pvd_wf (hbs : 0 < bs) (hbs16 : bs < 2 ^ 16) (hok : w.OK o) (hlim : w.total fin bs o * bs < 2 ^ 32)
    (hs : sysId.length = 32) (hv : volId.length = 32) (ht : tail.length = 1858) :
    (w.image fin bs o sysId volId tail).pvd.WF := by
  have h0 : 0 ∈ o.dirs := (hok.dirsOK 0).2 ⟨hok.pos, hok.rootDir⟩
  have hd0 := dir_small w fin bs o hbs hok hlim 0 h0
  have hL := (image_mid_bounds w fin bs o sysId volId tail hbs hok _ (ptL_in_mid w fin bs o sysId volId tail)).2
  have hM := (image_mid_bounds w fin bs o sysId volId tail hbs hok _ (ptM_in_mid w fin bs o sysId volId tail)).2
  have pL := piece_small bs _ _ _ hbs hL hlim
  have pM := piece_small bs _ _ _ hbs hM hlim
  have htot : w.total fin bs o < 2 ^ 32 := Nat.lt_of_le_of_lt (Nat.le_mul_of_pos_right _ hbs) hlim
  have hsz : w.size fin bs 0 < 2 ^ 32 := by
    simp only [WTree.size, hok.rootDir, if_true]; exact hd0.2
  exact ⟨hs, hv, htot, (by decide : 1 < 2 ^ 16), (by decide : 1 < 2 ^ 16), hbs16, pL.2, pL.1, (by decide : 0 < 2 ^ 32), pM.1, (by decide : 0 < 2 ^ 32), hd0.1, hsz, hok.date7 0 hok.pos, rfl, ht⟩

/-- **from the workspace to the reader's result** (Proofs-level statement of `workspace_roundtrip`) -/
theorem compose_reader (hbs : 2048 ≤ bs) (hbs16 : bs < 2 ^ 16) (hok : w.OK o) (hr : w.Resolved order fin)
    (hlim : w.total fin bs o * bs < 2 ^ 32) (hs : sysId.length = 32) (hv : volId.length = 32) (ht : tail.length = 1858)
    (d0 : Dev) (fuel : Nat) (hfit : w.Fits fuel 0) :
    readImageP ((w.image fin bs o sysId volId tail).imageOn d0) (16 * bs) fuel =
      some ((w.image fin bs o sysId volId tail).pvd, (w.ptree fin (w.loc fin bs o) (w.size fin bs)).walk fuel [] 0) := by
  have hb0 : 0 < bs := by omega
  have hp := pvd_wf w fin bs o sysId volId tail hb0 hbs16 hok hlim hs hv ht
  have hpl := image_placed w fin bs o sysId volId tail hb0 hok
  refine reader_on_image_on (w.image fin bs o sysId volId tail) d0 fuel (by show 255 ≤ bs; omega)
    (ptree_wf w order fin bs o hb0 hok hr hlim) hp rfl rfl hok.pos hok.rootDir
    (fun d hd hdir => (hok.dirsOK d).2 ⟨hd, hdir⟩) (fun c hc hf => (hok.filesOK c).2 ⟨hc, hf⟩)
    ?_ ?_ (placed_writes_disjoint _ hbs hp hpl) (fits_ptree w fin _ _ fuel 0 hfit)
  · intro d hd
    show w.size fin bs d = _
    have hb : (w.image fin bs o sysId volId tail).bs = bs := rfl
    rw [hb]
    show _ = ((w.ptree fin (w.loc fin bs o) (w.size fin bs)).dirBytes bs d).length
    rw [dirBytes_length]
    simp only [WTree.size, ((hok.dirsOK d).1 hd).2, if_true]
  · intro f hf
    show w.size fin bs f = (w.content f).length
    simp only [WTree.size, ((hok.filesOK f).1 hf).2, Bool.false_eq_true, if_false]

/-- **extents**: every piece laid out behind the descriptor set (directory extents in whole blocks,
    the two path tables, file extents in whole blocks) starts at or after block 18, ends inside the
    declared volume, and they follow each other without overlap -/
theorem compose_extents (hbs : 0 < bs) (hok : w.OK o) :
    (∀ x ∈ (w.image fin bs o sysId volId tail).mid,
      (dataStartSector + 2) * bs ≤ x.off ∧ x.off + x.data.length ≤ w.total fin bs o * bs) ∧
    (w.image fin bs o sysId volId tail).mid.Pairwise (fun a b => a.off + a.data.length ≤ b.off) := by
  refine ⟨?_, ?_⟩
  · intro x hx
    have := image_mid_bounds w fin bs o sysId volId tail hbs hok x hx
    have hc := (blocksFor_covers x.data.length bs hbs).1
    omega
  · have hpl := image_placed w fin bs o sysId volId tail hbs hok
    rw [hpl]
    exact seqWr_pairwise _ hbs _ _

end

end Diskfs.Iso
