/-
  C03, SubStorage (Model/Ranges.lean `subAbs`, `subSeek`): the nest is a pure translation by the sum of the window
  offsets; in-bounds calls through nested windows stay inside every enclosing window; a call that leaves the window
  is passed on unchanged (nothing in backend/substorage.go consults `size` for ReadAt / WriteAt).
-/
import DiskfsModel.Model.Ranges
namespace Diskfs.Ranges

def winSum (ws : List Win) : Nat := (ws.map (·.off)).sum

theorem winSum_cons (w : Win) (ws : List Win) : winSum (w :: ws) = w.off + winSum ws := by
  simp [winSum]

theorem subAbs_eq : ∀ (ws : List Win) (off : Int), subAbs ws off = off + (winSum ws : Int)
  | [], off => by simp [subAbs, winSum]
  | w :: ws, off => by
    rw [subAbs, subAbs_eq ws, winSum_cons]
    omega

/-- each window lies inside the one around it -/
def Nested : List Win → Prop
  | [] => True
  | [_] => True
  | a :: b :: rest => a.off + a.size ≤ b.size ∧ Nested (b :: rest)

/-- the device range [lo, hi) lies inside the device range of every window of the nest -/
def InsideAll : List Win → Int → Int → Prop
  | [], _, _ => True
  | w :: ws, lo, hi => (winSum (w :: ws) : Int) ≤ lo ∧ hi ≤ (winSum (w :: ws) : Int) + (w.size : Int) ∧ InsideAll ws lo hi

theorem insideAll_of_head : ∀ (ws : List Win) (lo hi : Int), Nested ws →
    (∀ w rest, ws = w :: rest → (winSum ws : Int) ≤ lo ∧ hi ≤ (winSum ws : Int) + (w.size : Int)) → InsideAll ws lo hi
  | [], _, _, _, _ => trivial
  | [w], lo, hi, _, h => by
    obtain ⟨h1, h2⟩ := h w [] rfl
    exact ⟨h1, h2, trivial⟩
  | a :: b :: rest, lo, hi, hn, h => by
    obtain ⟨h1, h2⟩ := h a (b :: rest) rfl
    refine ⟨h1, h2, insideAll_of_head (b :: rest) lo hi hn.2 ?_⟩
    intro w rest' he
    cases he
    have := hn.1
    rw [winSum_cons] at h1 h2
    constructor <;> omega

theorem subSeek_start (devSize : Nat) : ∀ (ws : List Win) (upos offset : Int), 0 ≤ offset →
    subSeek devSize ws upos .start offset = some (offset + (winSum ws : Int), offset)
  | [], upos, offset, h => by
    simp only [subSeek, winSum, List.map_nil, List.sum_nil]
    split
    · omega
    · simp
  | w :: ws, upos, offset, h => by
    simp only [subSeek]
    rw [subSeek_start devSize ws upos (offset + (w.off : Int)) (by omega), winSum_cons]
    simp only [Option.map_some, Option.some.injEq, Prod.mk.injEq]
    constructor <;> omega

theorem subSeek_current (devSize : Nat) : ∀ (ws : List Win) (upos offset : Int), 0 ≤ upos + offset →
    subSeek devSize ws upos .current offset = some (upos + offset, upos + offset - (winSum ws : Int))
  | [], upos, offset, h => by
    simp only [subSeek, winSum, List.map_nil, List.sum_nil]
    split
    · omega
    · simp
  | w :: ws, upos, offset, h => by
    simp only [subSeek]
    rw [subSeek_current devSize ws upos offset h, winSum_cons]
    simp only [Option.map_some, Option.some.injEq, Prod.mk.injEq]
    exact ⟨trivial, by omega⟩

theorem subSeek_end (devSize : Nat) (w : Win) (ws : List Win) (upos offset : Int) (h : 0 ≤ (w.size : Int) + offset) :
    subSeek devSize (w :: ws) upos .«end» offset =
      some ((w.size : Int) + offset + (winSum (w :: ws) : Int), (w.size : Int) + offset) := by
  simp only [subSeek]
  rw [subSeek_start devSize ws upos _ (by omega), winSum_cons]
  simp only [Option.map_some, Option.some.injEq, Prod.mk.injEq]
  constructor <;> omega

end Diskfs.Ranges
