/-
  Helper lemmas for C12 (Props/C12.lean), deeper reader parts of Model/DetectMid.lean:
    * squashfs: an image whose LAST write is the 96-byte superblock `Sqfs.encodeSB s` at offset 0 (what
      Finalize does) - over arbitrary earlier content: byte 12 is zero (so the FAT readers refuse), the
      header test and the modelled part of squashfs.Read go through to `deep`;
    * ext4: the validity checks of ext4.Read accept the geometry ext4.Create computes
      (Model/Ext4/Mkfs.lean) and the group descriptor table it then reads lies inside the volume.
-/
import DiskfsModel.Model.DetectMid
import DiskfsModel.Proofs.Detect
import DiskfsModel.Proofs.SqfsCodec
import DiskfsModel.Proofs.Ext4Mkfs
import DiskfsModel.Proofs.GptRobust
set_option linter.unusedSimpArgs false
namespace Diskfs.Detect

/-! ### the last write of a write list -/

theorem applyWrs_last_read (d : Dev) (pre : List Wr) (data : Bytes) :
    readAt (applyWrs d (pre ++ [⟨0, data⟩])) 0 data.length = data := by
  have : applyWrs d (pre ++ [⟨0, data⟩]) = applyWr (applyWrs d pre) ⟨0, data⟩ := by
    simp [applyWrs, List.foldl_append]
  rw [this]
  exact readAt_applyWr_same (applyWrs d pre) ⟨0, data⟩

theorem applyWrs_last_byte (d : Dev) (pre : List Wr) (data : Bytes) (i : Nat) (hi : i < data.length) :
    applyWrs d (pre ++ [⟨0, data⟩]) i = data.getD i 0 := by
  have : applyWrs d (pre ++ [⟨0, data⟩]) = applyWr (applyWrs d pre) ⟨0, data⟩ := by
    simp [applyWrs, List.foldl_append]
  rw [this, applyWr_hit _ _ _ (Nat.zero_le _) (by simpa using hi)]
  simp

/-! ### squashfs -/

theorem encodeSB_length (s : Sqfs.Superblock) : (Sqfs.encodeSB s).length = 96 := by
  simp [Sqfs.encodeSB]

/-- the bytes of the superblock the probes look at -/
theorem encodeSB_bytes (s : Sqfs.Superblock) :
    (Sqfs.encodeSB s).getD 0 0 = 0x68 ∧ (Sqfs.encodeSB s).getD 1 0 = 0x73 ∧ (Sqfs.encodeSB s).getD 2 0 = 0x71 ∧
    (Sqfs.encodeSB s).getD 3 0 = 0x73 ∧ (Sqfs.encodeSB s).getD 12 0 = UInt8.ofNat (s.blocksize % 256) ∧
    (Sqfs.encodeSB s).getD 28 0 = 4 ∧ (Sqfs.encodeSB s).getD 29 0 = 0 ∧ (Sqfs.encodeSB s).getD 30 0 = 0 ∧
    (Sqfs.encodeSB s).getD 31 0 = 0 := by
  simp [Sqfs.encodeSB, leEnc, Sqfs.sbMagic, List.getD_cons_succ, List.getD_cons_zero]

/-- a block size squashfs.Create accepts (validateBlocksize: a power of two between 4 KiB and 1 MiB) -/
def sqfsBlockOk (n : Nat) : Bool := (List.range 9).any fun j => n == 4096 * 2 ^ j

/-- what the squashfs-relevant readers see on an image whose last write is the superblock at offset 0 -/
theorem sqfs_image_facts (stale : Dev) (pre : List Wr) (s : Sqfs.Superblock) (hwf : s.WF)
    (hblk : s.blocksize % 256 = 0) (hcomp : s.compression ≤ 6)
    (avail bs0 : Nat) (hav : 96 ≤ avail)
    (hbs : (if bs0 == 0 then 131072 else bs0) ≥ 4096 ∧ (if bs0 == 0 then 131072 else bs0) ≤ 1048576 ∧
           isPow2 (if bs0 == 0 then 131072 else bs0) = true)
    (deep : Verdict) :
    applyWrs stale (pre ++ [⟨0, Sqfs.encodeSB s⟩]) 12 = 0 ∧
    verdictSqfs (applyWrs stale (pre ++ [⟨0, Sqfs.encodeSB s⟩])) avail bs0
      (sqfsMid (applyWrs stale (pre ++ [⟨0, Sqfs.encodeSB s⟩])) deep) = deep := by
  have hlen := encodeSB_length s
  obtain ⟨b0, b1, b2, b3, b12, b28, b29, b30, b31⟩ := encodeSB_bytes s
  have hb : ∀ i, i < 96 → applyWrs stale (pre ++ [⟨0, Sqfs.encodeSB s⟩]) i = (Sqfs.encodeSB s).getD i 0 :=
    fun i hi => applyWrs_last_byte stale pre _ i (by rw [hlen]; exact hi)
  have hrd : readAt (applyWrs stale (pre ++ [⟨0, Sqfs.encodeSB s⟩])) 0 96 = Sqfs.encodeSB s := by
    have := applyWrs_last_read stale pre (Sqfs.encodeSB s)
    rwa [hlen] at this
  generalize applyWrs stale (pre ++ [⟨0, Sqfs.encodeSB s⟩]) = img at hb hrd ⊢
  refine ⟨?_, ?_⟩
  · rw [hb 12 (by omega), b12, hblk]; rfl
  · have i0 : img 0 = 0x68 := by rw [hb 0 (by omega), b0]
    have i1 : img 1 = 0x73 := by rw [hb 1 (by omega), b1]
    have i2 : img 2 = 0x71 := by rw [hb 2 (by omega), b2]
    have i3 : img 3 = 0x73 := by rw [hb 3 (by omega), b3]
    have i28 : img 28 = 4 := by rw [hb 28 (by omega), b28]
    have i29 : img 29 = 0 := by rw [hb 29 (by omega), b29]
    have i30 : img 30 = 0 := by rw [hb 30 (by omega), b30]
    have i31 : img 31 = 0 := by rw [hb 31 (by omega), b31]
    have hmagic : u32 img 0 = 0x73717368 := by
      simp [u32, u16, u8, i0, i1, i2, i3]
    have hver : u16 img 28 = 4 ∧ u16 img 30 = 0 := by
      simp [u16, u8, i28, i29, i30, i31]
    have hmid : sqfsMid img deep = deep := by
      simp [sqfsMid, hrd, Sqfs.decode_encodeSB s hwf, sqfsCompKnown, hcomp]
    rw [hmid]
    have hro : readOk avail 0 96 = true := by simp [readOk]; omega
    obtain ⟨h1, h2, h3⟩ := hbs
    unfold verdictSqfs
    simp only []
    generalize (if bs0 == 0 then 131072 else bs0) = B at h1 h2 h3 ⊢
    have c1 : ¬ (B < 4096) := by omega
    have c2 : ¬ (B > 1048576) := by omega
    simp [hro, hmagic, hver.1, hver.2, h3, c1, c2]

/-- every block size squashfs.Create accepts is a multiple of 256 (all the probes need) -/
theorem sqfsBlockOk_mod (n : Nat) (h : sqfsBlockOk n = true) : n % 256 = 0 := by
  simp only [sqfsBlockOk, List.any_eq_true, List.mem_range, beq_iff_eq] at h
  obtain ⟨j, hj, rfl⟩ := h
  have : j = 0 ∨ j = 1 ∨ j = 2 ∨ j = 3 ∨ j = 4 ∨ j = 5 ∨ j = 6 ∨ j = 7 ∨ j = 8 := by omega
  rcases this with h | h | h | h | h | h | h | h | h <;> subst h <;> decide

/-! ### ext4 -/

/-- what the theorems need of the geometry ext4.Create decided on (all of it follows from
    Model/Ext4/Mkfs.lean `mkLayout p = .ok l`, see `mkLayout_mk_ok`, except the two lower bounds) -/
structure Ext4MkOK (m : Ext4Mk) (size : Nat) : Prop where
  bs_ge : 1024 ≤ m.bs
  bpg_ge : 256 ≤ m.bpg
  ipg_pos : 0 < m.ipg
  nb_eq : m.numBlocks = size / m.bs
  nb_ge : 3 ≤ m.numBlocks

/-- number of groups ext4.Read computes: at least one, and no more than one per 256 blocks (+1) -/
theorem groupsGo_bounds (nb bpg : Nat) (hb : 256 ≤ bpg) (hn : 1 ≤ nb) :
    1 ≤ (nb + bpg - 1) / bpg ∧ 256 * ((nb + bpg - 1) / bpg) ≤ nb + 255 := by
  have hb0 : 0 < bpg := by omega
  have hpos : 0 < (nb + bpg - 1) / bpg := Nat.div_pos (by omega) hb0
  have hs := Ext4.Mkfs.ceilDiv_spec nb bpg hb0 (by unfold Ext4.Mkfs.ceilDiv; exact hpos)
  unfold Ext4.Mkfs.ceilDiv at hs
  generalize (nb + bpg - 1) / bpg = g at *
  obtain ⟨k, rfl⟩ : ∃ k, g = k + 1 := ⟨g - 1, by omega⟩
  have h1 : 256 * k ≤ k * bpg := by rw [Nat.mul_comm 256 k]; exact Nat.mul_le_mul_left k hb
  simp only [Nat.add_sub_cancel] at hs
  have hlt : k * bpg < nb := hs.1
  clear hs
  refine ⟨Nat.succ_le_succ (Nat.zero_le k), ?_⟩
  rw [Nat.mul_add, Nat.mul_one]
  generalize k * bpg = y at *
  omega

/-- ext4.Read's validity checks (fix 1d32ac0) accept the geometry ext4.Create wrote, and the group
    descriptor table it reads next lies inside the volume -/
theorem ext4_mk_read_accepts (m : Ext4Mk) (size compat inc ro : Nat) (ok : Ext4MkOK m size)
    (hinc : ext4MkIncompatOk inc m.bit64 = true) :
    Ext4.Spec.readAccepts (ext4MkGeo m compat inc ro) size = true ∧
    (ext4MkGeo m compat inc ro).gdtStartGo +
      (ext4MkGeo m compat inc ro).gdSize * (ext4MkGeo m compat inc ro).groupsGo ≤ size := by
  obtain ⟨hbs, hbpg, hipg, hnbe, hnb⟩ := ok
  have hg := groupsGo_bounds m.numBlocks m.bpg hbpg (by omega)
  have hnbs : m.numBlocks * m.bs ≤ size := by rw [hnbe]; exact Nat.div_mul_le_self size m.bs
  have hdiv : size / m.bs = m.numBlocks := hnbe.symm
  obtain ⟨k, hk⟩ : ∃ k, m.numBlocks = k + 1 := ⟨m.numBlocks - 1, by omega⟩
  have hlow : m.bs + 1024 * k ≤ size := by
    have h1 : 1024 * k ≤ k * m.bs := by rw [Nat.mul_comm 1024 k]; exact Nat.mul_le_mul_left k hbs
    rw [hk, Nat.add_mul, Nat.one_mul] at hnbs
    generalize k * m.bs = y at *
    omega
  have h64 : Ext4.Reader.hasBit inc 0x80 = m.bit64 := by
    simp only [ext4MkIncompatOk, Bool.and_eq_true, beq_iff_eq] at hinc
    exact hinc.2
  generalize hG : (m.numBlocks + m.bpg - 1) / m.bpg = G at hg
  have hgo : (ext4MkGeo m compat inc ro).groupsGo = G := by
    simp only [Ext4.Spec.Geo.groupsGo, ext4MkGeo, hG]
  have hgd : (ext4MkGeo m compat inc ro).gdSize = (if m.bit64 then 64 else 32) := rfl
  have hstart : (ext4MkGeo m compat inc ro).gdtStartGo = (if m.bs = 1024 then 2 else 1) * m.bs := rfl
  rw [hgo, hgd, hstart]
  have hfit : (if m.bs = 1024 then 2 else 1) * m.bs + (if m.bit64 = true then 64 else 32) * G ≤ size := by
    cases hb : m.bit64 <;> by_cases h1k : m.bs = 1024 <;> simp only [hb, h1k, if_true, if_false, Bool.false_eq_true] <;> omega
  refine ⟨?_, hfit⟩
  unfold Ext4.Spec.readAccepts
  rw [hgo, hgd]
  simp only [Ext4.Spec.Geo.is64, ext4MkGeo, h64, hdiv]
  cases hb : m.bit64 <;> simp <;> omega

/-- the layout of Model/Ext4/Mkfs.lean as the superblock fields see it -/
def mkOf (l : Ext4.Mkfs.Layout) : Ext4Mk := ⟨l.bs, l.numBlocks, l.bpg, l.ipg, l.groups, l.fdb, l.descSize == 64⟩

/-- every parameter set ext4.Create's checks let through gives a block size of at least 1 KiB, at least 256
    blocks per group and `size / blocksize` blocks -/
theorem mkLayout_mk_ok (p : Ext4.Mkfs.Params) (l : Ext4.Mkfs.Layout) (h : Ext4.Mkfs.mkLayout p = .ok l)
    (hipg : 0 < l.ipg) (hnb : 3 ≤ l.numBlocks) : Ext4MkOK (mkOf l) p.size := by
  unfold Ext4.Mkfs.mkLayout at h
  split at h
  · cases h
  · rename_i hspb
    split at h
    · cases h
    · rename_i hbpg1
      split at h
      · cases h
      · rename_i hbpg2
        split at h
        · cases h
        · split at h
          · cases h
          · split at h
            · cases h
            · simp only [Except.ok.injEq] at h
              subst h
              have hbs : 1024 ≤ Ext4.Mkfs.chooseBs p := by
                unfold Ext4.Mkfs.chooseBs
                split
                · split <;> omega
                · omega
              refine ⟨hbs, ?_, hipg, rfl, hnb⟩
              show 256 ≤ Ext4.Mkfs.chooseBpg p
              unfold Ext4.Mkfs.chooseBpg Ext4.Mkfs.maxBPG
              split
              · omega
              · omega

/-- the modelled part of ext4.Read lets an image through whose superblock decodes, passes the feature gate
    and the validity checks and whose descriptor table lies on the device -/
theorem ext4Mid_accepts (cfg : Ext4.Reader.Cfg) (rd : Dev) (size avail : Nat) (csumOk : Bool) (deep : Verdict)
    (info : Ext4.Reader.SbInfo) (g : Ext4.Spec.Geo)
    (hdec : Ext4.Reader.sbDecode csumOk (readAt rd 1024 1024) = some info)
    (hgate : Ext4.Reader.gateAccepts cfg info.incompat = true)
    (hgeo : Ext4.Spec.sbGeo (readAt rd 1024 1024) = some g)
    (hacc : Ext4.Spec.readAccepts g size = true)
    (hfit : g.gdtStartGo + g.gdSize * g.groupsGo ≤ avail) :
    ext4Mid cfg rd size avail csumOk deep = deep := by
  have hpos : g.gdSize * g.groupsGo ≠ 0 := by
    unfold Ext4.Spec.readAccepts at hacc
    simp only [Bool.and_eq_true, Bool.not_eq_true', beq_eq_false_iff_ne, ne_eq] at hacc
    exact hacc.2
  have hro : readOk avail g.gdtStartGo (g.gdSize * g.groupsGo) = true := by
    simp only [readOk, Bool.and_eq_true, decide_eq_true_eq]
    omega
  unfold ext4Mid
  simp only []
  generalize readAt rd 1024 1024 = b at hdec hgeo ⊢
  rw [hdec]
  simp only [hgate, hgeo, hacc, hro, Bool.not_true, Bool.false_eq_true, if_false]

/-- the magic number the header model tests is the one the superblock decoder tests -/
theorem ext4_magic_of_geo (rd : Dev) (g : Ext4.Spec.Geo) (h : Ext4.Spec.sbGeo (readAt rd 1024 1024) = some g) :
    u16 rd 1080 = 0xEF53 := by
  unfold Ext4.Spec.sbGeo at h
  split at h
  · cases h
  · rename_i hm
    simp only [ne_eq, Decidable.not_not] at hm
    unfold Ext4.Reader.le16 at hm
    rw [Gpt.slice_readAt rd 1024 1024 0x38 (0x38 + 2) (by omega) (by omega)] at hm
    have : readAt rd (1024 + 0x38) (0x38 + 2 - 0x38) = [rd 1080, rd 1081] := by
      simp [readAt, List.range_succ]
    rw [this] at hm
    simpa [leDec, u16, u8] using hm

end Diskfs.Detect
