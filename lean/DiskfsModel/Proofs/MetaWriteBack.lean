/-
  Helper lemmas for the ext4 read-modify-write theorems of Props/C19.lean.
-/
import DiskfsModel.Model.Ext4.InodeWriteBack
import DiskfsModel.Proofs.MetaInodeBytes
namespace Diskfs.Ext4.InodeCodec

theorem zeroDropped_length (b : Bytes) : (zeroDropped b).length = b.length := by simp [zeroDropped]

theorem zeroDropped_getElem? (b : Bytes) (i : Nat) :
    (zeroDropped b)[i]? = if i < b.length then some (if dropped i then 0 else b.getD i 0) else none := by
  unfold zeroDropped
  by_cases h : i < b.length
  · simp [h]
  · simp [h]

theorem writeBack_length (keep : Bool) (b : Bytes) (h : RecordWF b) : (writeBack keep b).length = b.length := by
  unfold writeBack
  cases keep
  · simp only [Bool.false_eq_true, if_false]
    rw [putWord_length _ _ _ _ (by rw [zeroDropped_length]; unfold RecordWF at h; omega), zeroDropped_length]
  · rfl

/-- as found, write-back keeps every byte outside the dropped ranges and the flags word -/
theorem writeBack_frame (b : Bytes) (i : Nat) (h : RecordWF b) (hd : dropped i = false) (hf : i < 0x20 ∨ 0x24 ≤ i) :
    (writeBack false b)[i]? = b[i]? := by
  unfold writeBack
  simp only [Bool.false_eq_true, if_false]
  rw [putWord_frame _ _ _ _ _ (by rw [zeroDropped_length]; unfold RecordWF at h; omega) hf, zeroDropped_getElem?, hd]
  by_cases hi : i < b.length
  · simp [hi, List.getD_eq_getElem?_getD]
  · simp [hi]

/-- as found, write-back zeroes every byte of the dropped ranges -/
theorem writeBack_drops (b : Bytes) (i : Nat) (h : RecordWF b) (hi : i < b.length) (hd : dropped i = true) :
    (writeBack false b)[i]? = some 0 := by
  have hf : i < 0x20 ∨ 0x24 ≤ i := by
    simp only [dropped, Bool.or_eq_true, Bool.and_eq_true, decide_eq_true_eq] at hd; omega
  unfold writeBack
  simp only [Bool.false_eq_true, if_false]
  rw [putWord_frame _ _ _ _ _ (by rw [zeroDropped_length]; unfold RecordWF at h; omega) hf, zeroDropped_getElem?, hd]
  simp [hi]

theorem writeBack_wf (keep : Bool) (b : Bytes) (h : RecordWF b) : RecordWF (writeBack keep b) := by
  unfold RecordWF at *; rw [writeBack_length keep b h]; exact h

/-- Chmod through the as-found write-back: the extended attribute area of the inode body comes back zero -/
theorem chmodRmw_drops (b : Bytes) (perm i : Nat) (h : RecordWF b) (hi : i < b.length) (h98 : 0x98 ≤ i) :
    (chmodRmw false b perm)[i]? = some 0 := by
  unfold chmodRmw
  rw [chmodBytes_frame _ perm i (writeBack_wf false b h) (by omega)]
  exact writeBack_drops b i h hi (by simp [dropped]; omega)

theorem chownRmw_drops (b : Bytes) (uid gid : Option Nat) (i : Nat) (h : RecordWF b) (hi : i < b.length) (h98 : 0x98 ≤ i) :
    (chownRmw false b uid gid)[i]? = some 0 := by
  unfold chownRmw
  rw [chownBytes_frame _ uid gid i (writeBack_wf false b h) (by omega)]
  exact writeBack_drops b i h hi (by simp [dropped]; omega)

theorem chtimesRmw_drops (b : Bytes) (cr at' mt : Ts) (i : Nat) (h : RecordWF b) (hi : i < b.length) (h98 : 0x98 ≤ i) :
    (chtimesRmw false b cr at' mt)[i]? = some 0 := by
  unfold chtimesRmw
  rw [chtimesBytes_frame _ cr at' mt i (writeBack_wf false b h) (by omega)]
  exact writeBack_drops b i h hi (by simp [dropped]; omega)

end Diskfs.Ext4.InodeCodec
