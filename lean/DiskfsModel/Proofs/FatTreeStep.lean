/-
  Layer E for a tree of directories, second half (first half: Proofs/FatTreeFs.lean):
    local_write / local_trunc / local_remove / local_rename   the remaining calls inside one directory
    dstep_local      every call inside one directory establishes `StepFacts`
    atDirT_local     the path walk lifts that to any depth (induction over the path)
    tstep_facts      one call on the volume
    tstep_inv / tstep_refines / tstep_refused / tstep_spec_error
    trun_inv / trun_refines     every history (induction over the call list)
    tmkdirAll_refines           `Mkdir(p)` = mkdir -p, component by component
  Core Lean only.
-/
import DiskfsModel.Proofs.FatTreeFs
namespace Diskfs.Fat

/-! ### small facts -/

theorem inv_owner_ne_nil {k lim m O} (h : Inv k lim m O) {o : List Nat} (ho : o ∈ O) : o ≠ [] := by
  intro e
  have := h.chains o ho
  rw [e] at this
  exact this

theorem fileContent_congr {d d' : Dev} {io : IOGeom} {c : List Nat} (sz : Nat)
    (h : chainBytes d' io c = chainBytes d io c) : fileContent d' io c sz = fileContent d io c sz := by
  unfold fileContent; rw [h]

theorem kerase_none {eqn} {ks : List TNode} {n : Spec.Name} (h : kfind eqn ks n = none) :
    kerase eqn ks n = ks :=
  filter_not_of_false (fun x : TNode => eqn x.name n) ks (kfind_none h)

theorem kerase_names {eqn} (ks : List TNode) (n : Spec.Name) :
    ∀ x ∈ kerase eqn ks n, eqn x.name n = false := by
  intro x hx
  have := (List.mem_filter.1 hx).2
  simpa using this

theorem kfind_kerase_ne {eqn} (he : EqnOk eqn) {o n : Spec.Name} (hon : eqn o n = false)
    (ks : List TNode) : kfind eqn (kerase eqn ks n) o = kfind eqn ks o := by
  induction ks with
  | nil => rfl
  | cons a l ih =>
    unfold kfind kerase at ih ⊢
    cases hao : eqn a.name o with
    | true =>
      have han : eqn a.name n = false := by
        cases han : eqn a.name n with
        | false => rfl
        | true =>
          have := he.trans _ _ _ (he.symm _ _ hao) han
          rw [hon] at this; cases this
      rw [List.filter_cons, han]
      simp only [Bool.not_false, if_true, List.find?_cons, hao]
    | false =>
      rw [List.filter_cons]
      cases han : eqn a.name n with
      | true =>
        simp only [Bool.not_true, Bool.false_eq_true, if_false, List.find?_cons, hao]
        exact ih
      | false =>
        simp only [Bool.not_false, if_true, List.find?_cons, hao]
        exact ih

theorem kidsWF_drop {eqn g} {pre post : List TNode} {t : TNode} (h : kidsWF eqn g (pre ++ t :: post)) :
    kidsWF eqn g (pre ++ post) := by
  rw [kidsWF_iff] at h ⊢
  refine ⟨?_, h.2.sublist (List.Sublist.append (List.Sublist.refl _) (List.sublist_cons_self _ _))⟩
  intro u hu
  rcases List.mem_append.1 hu with hu | hu
  · exact h.1 u (List.mem_append_left _ hu)
  · exact h.1 u (List.mem_append_right _ (List.mem_cons_of_mem _ hu))

theorem kidsWF_mid {eqn g} {pre post : List TNode} {t : TNode} (h : kidsWF eqn g (pre ++ t :: post)) :
    t.WF eqn g :=
  ((kidsWF_iff eqn g _).1 h).1 t (List.mem_append_right _ List.mem_cons_self)

theorem kidsWF_pairwise {eqn g} {ks : List TNode} (h : kidsWF eqn g ks) :
    ks.Pairwise fun a b => eqn a.name b.name = false := ((kidsWF_iff eqn g _).1 h).2

section local_ops2
variable {eqn : Spec.Name → Spec.Name → Bool} {g : TGeom} {fuel : Nat}

/-- the owners around one child `t` of the directory, `t`'s own first -/
theorem inv_child_head {s : DirSt} {rest : List (List Nat)} {pre post : List TNode} {t : TNode}
    (hk : s.kids = pre ++ t :: post)
    (h : Inv g.f.kind g.f.lim s.m (chainOwner s.chain ++ kidsOwners s.kids ++ rest)) :
    Inv g.f.kind g.f.lim s.m (t.owners ++ (chainOwner s.chain ++ (kidsOwners pre ++ kidsOwners post ++ rest))) := by
  rw [hk] at h
  simp only [kidsOwners_append, kidsOwners_cons] at h
  exact inv_perm (by perm_tac) h

theorem local_write (he : EqnOk eqn) (hg : TGeomOk g) (hfuel : g.f.lim - 2 ≤ fuel) (d0 : List Spec.Name)
    (n : Spec.Name) (off : Nat) (data img : Bytes) :
    LocalOk eqn g (dWrite eqn g fuel n off data img) (Spec.stepDir eqn (.writeAt d0 n off data)) := by
  intro base s rest h hwf
  unfold dWrite
  simp only [Spec.stepDir, lookup_kidsAbs]
  split
  · rename_i hf
    simp only [hf, Option.map_none]
    exact StepFacts.same h hwf (fun hh => by cases hh) (fun e he' => by cases he'; rfl)
  · rename_i nm c ks hf
    simp only [hf, Option.map_some, abs_dir]
    exact StepFacts.same h hwf (fun hh => by cases hh) (fun e he' => by cases he'; rfl)
  · rename_i fn fc size hf
    simp only [hf, Option.map_some, abs_file]
    split
    · rename_i hz
      exact StepFacts.same h hwf (fun _ => ⟨rfl, rfl⟩) (fun e he' => by cases he')
    · rename_i hz
      split
      · exact StepFacts.refused h hwf (by simp) (by simp)
      · rename_i l' hres
        split
        · exact StepFacts.refused h hwf (by simp) (by simp)
        · rename_i ws hws
          split
          · rename_i e hw
            obtain ⟨h1, h2⟩ := writeDir_err hw
            exact StepFacts.refused h hwf h1 h2
          · rename_i w hw
            obtain ⟨pre, post, hsplit, hfn, hpre, hpost⟩ := kfind_split he (kidsWF_pairwise hwf) hf
            have hhead := inv_child_head hsplit h
            rw [owners_file] at hhead
            have hhead' : Inv g.f.kind g.f.lim s.m
                (fc :: (chainOwner s.chain ++ (kidsOwners pre ++ kidsOwners post ++ rest))) := hhead
            have hfl : fc.length ≤ fuel := Nat.le_trans (chain_length_le hhead') hfuel
            rw [hsplit] at hwf
            have htwf := kidsWF_mid hwf
            rw [wf_file, nat_max_eq] at htwf
            have hb := hg.bpc
            have hcov : size ≤ fc.length * g.f.io.bpc :=
              Nat.le_trans (clusterCount_covers size g.f.io.bpc hb) (Nat.mul_le_mul_right _ (by omega))
            have hpl : 0 < data.length := Nat.pos_of_ne_zero hz
            have hm1 := clusterCount_mono (bpc := g.f.io.bpc) (a := size)
              (b := Nat.max size (off + data.length)) hb (Nat.le_max_left ..)
            have hm2 := clusterCount_mono (bpc := g.f.io.bpc) (a := 1)
              (b := Nat.max size (off + data.length)) hb
              (by have := Nat.le_max_right size (off + data.length); rw [nat_max_eq]; omega)
            rw [clusterCount_one hb] at hm2
            have hgrow : fc.length ≤ clusterCount g.f.io.bpc (Nat.max size (off + data.length)) := by omega
            unfold falloc at hres hw
            obtain ⟨hinv, hlen, hcont, hothers⟩ := file_write_core s.d g.f.io g.f.kind g.f.lim g.f.max fuel
              (firstFit g.f.lim) s.m fc l' _ size off data ws hhead' (firstFit_spec _) hg.lim hg.max hb hfl hpl
              hcov hgrow hres hws
            -- the parent directory is rewritten
            have hperm : Inv g.f.kind g.f.lim
                (allocateSpace g.f.kind g.f.max g.f.io.bpc (firstFit g.f.lim) fuel s.m
                  (Nat.max size (off + data.length)) (fc.headD 0)).m
                (chainOwner s.chain ++ (l' :: (kidsOwners pre ++ kidsOwners post ++ rest))) :=
              inv_perm (by perm_tac) hinv
            obtain ⟨hinvw, hroot, hfr, _⟩ := writeDir_ok hg hfuel hperm hw
            obtain ⟨hn1, hn2⟩ := mid_names (kidsWF_pairwise hwf)
            rw [hsplit, kset_split _ hfn hpre hpost]
            refine assemble_mid (t := .file fn fc size) (x := .file fn l' (Nat.max size (off + data.length)))
              w.m w.d w.chain hwf hn1 hn2 ?_ ?_ hroot ?_ ?_
            · rw [wf_file, nat_max_eq _ 1]; omega
            · rw [owners_file]
              exact inv_perm (by perm_tac) hinvw
            · intro o ho
              rw [hfr o (List.mem_cons_of_mem _ ho)]
              exact hothers o (List.mem_append_right _ ho)
            · rw [kidsAbs_eq_map, treplace_split (fun t => t.abs s.d g.f.io) (fun x => abs_fst _ _ x) _ hfn hpre hpost,
                ← kidsAbs_eq_map, ← kidsAbs_eq_map, abs_file]
              simp only [TNode.name]
              rw [fileContent_congr _ (hfr l' List.mem_cons_self), hcont]

theorem local_trunc (he : EqnOk eqn) (hg : TGeomOk g) (hfuel : g.f.lim - 2 ≤ fuel) (d0 : List Spec.Name)
    (n : Spec.Name) (img : Bytes) :
    LocalOk eqn g (dTrunc eqn g fuel n img) (Spec.stepDir eqn (.truncate d0 n)) := by
  intro base s rest h hwf
  unfold dTrunc
  simp only [Spec.stepDir, lookup_kidsAbs]
  split
  · rename_i hf
    simp only [hf, Option.map_none]
    exact StepFacts.same h hwf (fun hh => by cases hh) (fun e he' => by cases he'; rfl)
  · rename_i nm c ks hf
    simp only [hf, Option.map_some, abs_dir]
    exact StepFacts.same h hwf (fun hh => by cases hh) (fun e he' => by cases he'; rfl)
  · rename_i fn fc size hf
    simp only [hf, Option.map_some, abs_file]
    obtain ⟨pre, post, hsplit, hfn, hpre, hpost⟩ := kfind_split he (kidsWF_pairwise hwf) hf
    have hrep : Spec.replace eqn (kidsAbs s.d g.f.io s.kids) n (Spec.Node.file [])
        = kidsAbs s.d g.f.io pre ++ (fn, Spec.Node.file []) :: kidsAbs s.d g.f.io post := by
      rw [hsplit, kidsAbs_eq_map, treplace_split (fun t => t.abs s.d g.f.io) (fun x => abs_fst _ _ x) _ hfn hpre hpost,
        ← kidsAbs_eq_map, ← kidsAbs_eq_map]
      rfl
    split
    · rename_i hz
      refine StepFacts.same h hwf (fun _ => ⟨?_, rfl⟩) (fun e he' => by cases he')
      simp only
      rw [hrep]
      conv => lhs; rw [hsplit, kidsAbs_eq_map, List.map_append, List.map_cons, ← kidsAbs_eq_map, ← kidsAbs_eq_map]
      rw [abs_file, hz]
      simp [fileContent]
    · rename_i hz
      split
      · rename_i e hw
        obtain ⟨h1, h2⟩ := writeDir_err hw
        exact StepFacts.refused h hwf h1 h2
      · rename_i w hw
        split
        · exact StepFacts.refused h hwf (by simp) (by simp)
        · rename_i l' hres
          have hhead := inv_child_head hsplit h
          rw [owners_file] at hhead
          have hperm : Inv g.f.kind g.f.lim s.m
              (chainOwner s.chain ++ (fc :: (kidsOwners pre ++ kidsOwners post ++ rest))) :=
            inv_perm (by perm_tac) hhead
          obtain ⟨hinvw, hroot, hfr, _⟩ := writeDir_ok hg hfuel hperm hw
          have hhw : Inv g.f.kind g.f.lim w.m
              (fc :: (chainOwner w.chain ++ (kidsOwners pre ++ kidsOwners post ++ rest))) :=
            inv_perm (by perm_tac) hinvw
          have hfl : fc.length ≤ fuel := Nat.le_trans (chain_length_le hhw) hfuel
          rw [hsplit] at hwf
          have htwf := kidsWF_mid hwf
          rw [wf_file, nat_max_eq] at htwf
          have hb := hg.bpc
          have hc1 : 1 / g.f.io.bpc + (if 1 % g.f.io.bpc > 0 then 1 else 0) = 1 := clusterCount_one hb
          obtain ⟨hn1, hn2⟩ := mid_names (kidsWF_pairwise hwf)
          unfold falloc at hres ⊢
          rw [hsplit, kset_split _ hfn hpre hpost]
          refine assemble_mid (t := .file fn fc size) (x := .file fn (fc.take 1) 0)
            _ w.d w.chain hwf hn1 hn2 ?_ ?_ hroot ?_ ?_
          · rw [wf_file, clusterCount_zero, List.length_take, nat_max_eq]; omega
          · rw [owners_file]
            show Inv g.f.kind g.f.lim _ (fc.take 1 :: _)
            by_cases hlt : 1 < fc.length
            · have := (alloc_shrink_inv (pick := firstFit g.f.lim) (size := 1) hhw hg.lim hg.max hb hfl
                (by rw [hc1]; exact hlt)).2
              rw [hc1] at this
              exact this
            · have hle : fc.length ≤ 1 / g.f.io.bpc + (if 1 % g.f.io.bpc > 0 then 1 else 0) := by
                rw [hc1]; omega
              obtain ⟨hinv, hlen, hpre'⟩ := alloc_grow_inv hhw (firstFit_spec _) hg.lim hg.max hb hfl hle hres
              rw [hc1] at hlen
              have hl1 : fc.length = 1 := by omega
              have : l' = fc := by
                rw [← hpre', hl1, ← hlen, List.take_length]
              rw [this] at hinv
              have ht : fc.take 1 = fc := by rw [← hl1, List.take_length]
              rw [ht]
              exact hinv
          · intro o ho
            exact hfr o (List.mem_cons_of_mem _ ho)
          · rw [← hsplit, hrep, abs_file]
            simp [fileContent]

theorem owners_leaf {t : TNode} (h : ∀ nm c k ks, t ≠ .dir nm c (k :: ks)) : t.owners = [t.chain] := by
  cases t with
  | file nm c sz => rw [owners_file]; rfl
  | dir nm c ks =>
    cases ks with
    | nil => rw [owners_dir, kidsOwners_nil]; rfl
    | cons k ks => exact absurd rfl (h nm c k ks)

theorem stepDir_remove_leaf (eqn : Spec.Name → Spec.Name → Bool) (d0 : List Spec.Name) (n : Spec.Name)
    (T : Spec.Tree) (v : Spec.Node) (hl : Spec.lookup eqn T n = some v) (hv : ∀ k ks, v ≠ .dir (k :: ks)) :
    Spec.stepDir eqn (.remove d0 n) T = (Spec.erase eqn T n, .ok) := by
  cases v with
  | file c => simp only [Spec.stepDir, hl]
  | dir ch =>
    cases ch with
    | nil => simp only [Spec.stepDir, hl]
    | cons k ks => exact absurd rfl (hv k ks)

theorem local_remove (he : EqnOk eqn) (hg : TGeomOk g) (hfuel : g.f.lim - 2 ≤ fuel) (d0 : List Spec.Name)
    (n : Spec.Name) (img : Bytes) :
    LocalOk eqn g (dRemove eqn g fuel n img) (Spec.stepDir eqn (.remove d0 n)) := by
  intro base s rest h hwf
  unfold dRemove
  split
  · rename_i hf
    simp only [Spec.stepDir, lookup_kidsAbs, hf, Option.map_none]
    exact StepFacts.same h hwf (fun hh => by cases hh) (fun e he' => by cases he'; rfl)
  · rename_i nm c k ks hf
    simp only [Spec.stepDir, lookup_kidsAbs, hf, Option.map_some, abs_dir, kidsAbs_cons]
    exact StepFacts.same h hwf (fun hh => by cases hh) (fun e he' => by cases he'; rfl)
  · rename_i t hnot hf
    have hnot' : ∀ nm c k ks, t ≠ .dir nm c (k :: ks) := by
      intro nm c k ks e
      exact hnot nm c k ks e
    have hleaf : t.owners = [t.chain] := owners_leaf hnot'
    rw [stepDir_remove_leaf eqn d0 n _ (t.abs s.d g.f.io).2 (by rw [lookup_kidsAbs, hf]; rfl) (by
      intro k ks e
      cases t with
      | file nm c sz => rw [abs_file] at e; cases e
      | dir nm c ks' =>
        cases ks' with
        | nil => rw [abs_dir, kidsAbs_nil] at e; cases e
        | cons k' ks'' => exact hnot' nm c k' ks'' rfl)]
    split
    · rename_i e hw
      obtain ⟨h1, h2⟩ := writeDir_err hw
      exact StepFacts.refused h hwf h1 h2
    · rename_i w hw
      obtain ⟨pre, post, hsplit, hfn, hpre, hpost⟩ := kfind_split he (kidsWF_pairwise hwf) hf
      have hhead := inv_child_head hsplit h
      rw [hleaf] at hhead
      have hperm : Inv g.f.kind g.f.lim s.m
          (chainOwner s.chain ++ (t.chain :: (kidsOwners pre ++ kidsOwners post ++ rest))) :=
        inv_perm (by perm_tac) hhead
      obtain ⟨hinvw, hroot, hfr, _⟩ := writeDir_ok hg hfuel hperm hw
      have hhw : Inv g.f.kind g.f.lim w.m
          (t.chain :: (chainOwner w.chain ++ (kidsOwners pre ++ kidsOwners post ++ rest))) :=
        inv_perm (by perm_tac) hinvw
      have hfl : t.chain.length ≤ fuel := Nat.le_trans (chain_length_le hhw) hfuel
      obtain ⟨f1, f2⟩ := freeChain_inv hhw hg.lim hg.max hfl
      simp only [f1, if_true]
      rw [hsplit] at hwf
      rw [hsplit, kerase_split hfn hpre hpost]
      refine assemble_drop (t := t) _ w.d w.chain hwf f2 hroot ?_ ?_
      · intro o ho
        exact hfr o (List.mem_cons_of_mem _ ho)
      · rw [← hsplit, ← erase_kidsAbs, hsplit, kerase_split hfn hpre hpost]

theorem inv_child_head' {k lim} {m : CMap} {c : List Nat} {K : List TNode} {rest : List (List Nat)}
    {pre post : List TNode} {t : TNode} (hk : K = pre ++ t :: post)
    (h : Inv k lim m (chainOwner c ++ (kidsOwners K ++ rest))) :
    Inv k lim m (t.owners ++ (chainOwner c ++ (kidsOwners pre ++ kidsOwners post ++ rest))) := by
  rw [hk] at h
  simp only [kidsOwners_append, kidsOwners_cons] at h
  exact inv_perm (by perm_tac) h

theorem stepDir_rename_isdir (eqn : Spec.Name → Spec.Name → Bool) (d0 : List Spec.Name) (o n : Spec.Name)
    (T : Spec.Tree) (v : Spec.Node) (c : Spec.Tree) (hl : Spec.lookup eqn T o = some v) (hon : eqn o n = false)
    (hn : Spec.lookup eqn T n = some (.dir c)) :
    Spec.stepDir eqn (.rename d0 o n) T = (T, .isdir) := by
  simp [Spec.stepDir, hl, hon, hn]

theorem stepDir_rename_ok (eqn : Spec.Name → Spec.Name → Bool) (d0 : List Spec.Name) (o n : Spec.Name)
    (T : Spec.Tree) (v : Spec.Node) (hl : Spec.lookup eqn T o = some v) (hon : eqn o n = false)
    (hn : ∀ c, Spec.lookup eqn T n ≠ some (.dir c)) :
    Spec.stepDir eqn (.rename d0 o n) T
      = ((Spec.erase eqn T n).map (fun e => if eqn e.1 o = true then (n, v) else e), .ok) := by
  simp only [Spec.stepDir, hl, hon]
  cases hln : Spec.lookup eqn T n with
  | none => simp
  | some u =>
    cases u with
    | file c => simp
    | dir c => exact absurd hln (hn c)

/-- the child `t` called `o` of the list `K` (no entry of which is called `n`) gets the name `n` -/
theorem rename_assemble (he : EqnOk eqn) {s : DirSt} {rest : List (List Nat)} {K : List TNode} {t : TNode}
    {o n : Spec.Name} (mF : CMap) (dF : Dev) (cF : List Nat)
    (hwf : kidsWF eqn g K) (hf : kfind eqn K o = some t) (hKn : ∀ a ∈ K, eqn a.name n = false)
    (hinv : Inv g.f.kind g.f.lim mF (chainOwner cF ++ (kidsOwners K ++ rest)))
    (hfr : ∀ o ∈ kidsOwners K ++ rest, chainBytes dF g.f.io o = chainBytes s.d g.f.io o)
    (hroot : cF = [] ↔ s.chain = [])
    {sp : Spec.Tree × Spec.Res}
    (hsp : sp = ((kidsAbs s.d g.f.io K).map
      (fun e => if eqn e.1 o = true then (n, (t.abs s.d g.f.io).2) else e), .ok)) :
    StepFacts eqn g rest s (⟨mF, dF, cF, krename eqn K o n⟩, .ok) sp := by
  obtain ⟨pre, post, hsplit, hfn, hpre, hpost⟩ := kfind_split he (kidsWF_pairwise hwf) hf
  have hhead := inv_child_head' hsplit hinv
  subst hsplit
  have hmem : ∀ o' ∈ kidsOwners pre ++ kidsOwners post ++ rest,
      o' ∈ kidsOwners (pre ++ t :: post) ++ rest := by
    intro o' ho'
    simp only [kidsOwners_append, kidsOwners_cons, List.mem_append] at ho' ⊢
    rcases ho' with (h1 | h1) | h1
    · exact Or.inl (Or.inl h1)
    · exact Or.inl (Or.inr (Or.inr h1))
    · exact Or.inr h1
  have htown : ∀ o' ∈ t.owners, o' ∈ kidsOwners (pre ++ t :: post) ++ rest := by
    intro o' ho'
    simp only [kidsOwners_append, kidsOwners_cons, List.mem_append]
    exact Or.inl (Or.inr (Or.inl ho'))
  rw [krename_split n hfn hpre hpost]
  refine assemble_mid (t := t) (x := t.rename n) mF dF cF hwf ?_ ?_ ?_ ?_ hroot ?_ ?_
  · intro a ha
    rw [name_rename]
    exact hKn a (List.mem_append_left _ ha)
  · intro b hb
    rw [name_rename]
    exact eqn_false_symm he (hKn b (List.mem_append_right _ (List.mem_cons_of_mem _ hb)))
  · rw [wf_rename]; exact kidsWF_mid hwf
  · rw [owners_rename]; exact hhead
  · intro o' ho'
    exact hfr o' (hmem o' ho')
  · rw [hsp, kidsAbs_eq_map,
      trename_split (fun t => t.abs s.d g.f.io) (fun x => abs_fst _ _ x)
        (fun _ => (n, (t.abs s.d g.f.io).2)) hfn hpre hpost,
      ← kidsAbs_eq_map, ← kidsAbs_eq_map, abs_rename,
      TNode.abs_congr s.d dF g.f.io t (fun o' ho' => hfr o' (htown o' ho'))]

theorem local_rename (he : EqnOk eqn) (hg : TGeomOk g) (hfuel : g.f.lim - 2 ≤ fuel) (d0 : List Spec.Name)
    (o n : Spec.Name) (img : Bytes) :
    LocalOk eqn g (dRename eqn g fuel o n img) (Spec.stepDir eqn (.rename d0 o n)) := by
  intro base s rest h hwf
  have h' : Inv g.f.kind g.f.lim s.m (chainOwner s.chain ++ (kidsOwners s.kids ++ rest)) := by
    rw [← List.append_assoc]; exact h
  unfold dRename
  split
  · rename_i hf
    simp only [Spec.stepDir, lookup_kidsAbs, hf, Option.map_none]
    exact StepFacts.same h hwf (fun hh => by cases hh) (fun e he' => by cases he'; rfl)
  · rename_i t hf
    have hlo : Spec.lookup eqn (kidsAbs s.d g.f.io s.kids) o = some (t.abs s.d g.f.io).2 := by
      rw [lookup_kidsAbs, hf]; rfl
    split
    · exact StepFacts.refused h hwf (by simp) (by simp)
    · rename_i hon
      have hon' : eqn o n = false := by simpa using hon
      split
      · rename_i nm c ks hfn
        rw [stepDir_rename_isdir eqn d0 o n _ _ (kidsAbs s.d g.f.io ks) hlo hon'
          (by rw [lookup_kidsAbs, hfn]; simp [abs_dir])]
        exact StepFacts.same h hwf (fun hh => by cases hh) (fun e he' => by cases he'; rfl)
      · rename_i hfn
        rw [stepDir_rename_ok eqn d0 o n _ _ hlo hon' (by rw [lookup_kidsAbs, hfn]; simp)]
        split
        · rename_i e hw
          obtain ⟨h1, h2⟩ := writeDir_err hw
          exact StepFacts.refused h hwf h1 h2
        · rename_i w hw
          obtain ⟨hinvw, hroot, hfr, _⟩ := writeDir_ok hg hfuel h' hw
          refine rename_assemble he w.m w.d w.chain hwf hf (kfind_none hfn) hinvw hfr hroot ?_
          rw [← erase_kidsAbs, kerase_none hfn]
      · rename_i un tc usz hfn
        rw [stepDir_rename_ok eqn d0 o n _ _ hlo hon' (by rw [lookup_kidsAbs, hfn]; simp [abs_file])]
        split
        · rename_i e hw
          obtain ⟨h1, h2⟩ := writeDir_err hw
          exact StepFacts.refused h hwf h1 h2
        · rename_i w hw
          obtain ⟨p1, p2, hsplit, hun, hp1, hp2⟩ := kfind_split he (kidsWF_pairwise hwf) hfn
          have hK : kerase eqn s.kids n = p1 ++ p2 := by rw [hsplit, kerase_split hun hp1 hp2]
          have hwfK : kidsWF eqn g (kerase eqn s.kids n) := by
            rw [hK]; rw [hsplit] at hwf; exact kidsWF_drop hwf
          have hown : kidsOwners s.kids = kidsOwners p1 ++ ([tc] ++ kidsOwners p2) := by
            rw [hsplit, kidsOwners_append, kidsOwners_cons, owners_file]
          have hownK : kidsOwners (kerase eqn s.kids n) = kidsOwners p1 ++ kidsOwners p2 := by
            rw [hK, kidsOwners_append]
          have hperm : Inv g.f.kind g.f.lim s.m
              (chainOwner s.chain ++ (tc :: (kidsOwners (kerase eqn s.kids n) ++ rest))) := by
            rw [hownK]; rw [hown] at h'
            exact inv_perm (by perm_tac) h'
          obtain ⟨hinvw, hroot, hfr, _⟩ := writeDir_ok hg hfuel hperm hw
          have hhw : Inv g.f.kind g.f.lim w.m
              (tc :: (chainOwner w.chain ++ (kidsOwners (kerase eqn s.kids n) ++ rest))) :=
            inv_perm (by perm_tac) hinvw
          have hfl : tc.length ≤ fuel := Nat.le_trans (chain_length_le hhw) hfuel
          obtain ⟨f1, f2⟩ := freeChain_inv hhw hg.lim hg.max hfl
          simp only [f1, if_true]
          refine rename_assemble he _ w.d w.chain hwfK (by rw [kfind_kerase_ne he hon']; exact hf)
            (kerase_names _ _) f2 (fun o' ho' => hfr o' (List.mem_cons_of_mem _ ho')) hroot ?_
          rw [← erase_kidsAbs]

/-- **every call inside one directory** establishes `StepFacts` against `Spec.stepDir` -/
theorem dstep_local (he : EqnOk eqn) (hg : TGeomOk g) (hfuel : g.f.lim - 2 ≤ fuel) (op : TOp) :
    LocalOk eqn g (dstep eqn g fuel op) (Spec.stepDir eqn op.toSpec) := by
  cases op with
  | mkdir d n img img2 => exact local_mkdir hg hfuel d n img img2
  | create d n img => exact local_create hg hfuel d n img
  | writeAt d n off data img => exact local_write he hg hfuel d n off data img
  | truncate d n img => exact local_trunc he hg hfuel d n img
  | rename d o n img => exact local_rename he hg hfuel d o n img
  | remove d n img => exact local_remove he hg hfuel d n img

/-- **the path walk**: what holds for a call inside the directory it addresses holds for the
    call on any ancestor, with the descent of the specification (`Spec.atDir`) on the other side.
    Induction over the path. -/
theorem atDirT_local (he : EqnOk eqn) {f : Nat → DirSt → DirSt × TRes} {sf : Spec.Tree → Spec.Tree × Spec.Res}
    (hf : LocalOk eqn g f sf) (path : List Spec.Name) :
    LocalOk eqn g (fun base s => atDirT eqn f path base s) (Spec.atDir eqn sf path) := by
  induction path with
  | nil =>
    intro base s rest h hwf
    simp only [atDirT, Spec.atDir]
    exact hf base s rest h hwf
  | cons n path ih =>
    intro base s rest h hwf
    simp only [atDirT, Spec.atDir, lookup_kidsAbs]
    split
    · rename_i nm c ks hfd
      simp only [hfd, Option.map_some, abs_dir]
      obtain ⟨pre, post, hsplit, hfn, hpre, hpost⟩ := kfind_split he (kidsWF_pairwise hwf) hfd
      have hhead := inv_child_head hsplit h
      rw [owners_dir] at hhead
      have hc : c ≠ [] := inv_owner_ne_nil hhead List.mem_cons_self
      have hsub : Inv g.f.kind g.f.lim s.m (chainOwner c ++ kidsOwners ks ++
          (chainOwner s.chain ++ (kidsOwners pre ++ kidsOwners post ++ rest))) := by
        rw [chainOwner_of_ne hc]
        exact inv_perm (by perm_tac) hhead
      rw [hsplit] at hwf
      have hwfks : kidsWF eqn g ks := by
        have := kidsWF_mid hwf
        rwa [wf_dir] at this
      have IH : StepFacts eqn g (chainOwner s.chain ++ (kidsOwners pre ++ kidsOwners post ++ rest))
          ⟨s.m, s.d, c, ks⟩ (atDirT eqn f path 2 ⟨s.m, s.d, c, ks⟩)
          (Spec.atDir eqn sf path (kidsAbs s.d g.f.io ks)) := ih 2 ⟨s.m, s.d, c, ks⟩ _ hsub hwfks
      generalize atDirT eqn f path 2 ⟨s.m, s.d, c, ks⟩ = r at IH ⊢
      generalize Spec.atDir eqn sf path (kidsAbs s.d g.f.io ks) = q at IH ⊢
      obtain ⟨q1, q2⟩ := q
      by_cases hok : r.2 = .ok
      · obtain ⟨hacc1, hacc2⟩ := IH.acc hok
        simp only at hacc1 hacc2
        simp only [hok, hacc2, if_true]
        have hrc : r.1.chain ≠ [] := fun e => hc (IH.root.1 e)
        obtain ⟨hn1, hn2⟩ := mid_names (kidsWF_pairwise hwf)
        rw [hsplit, kset_split _ hfn hpre hpost]
        refine assemble_mid (t := .dir nm c ks) (x := .dir nm r.1.chain r.1.kids) r.1.m r.1.d s.chain
          hwf hn1 hn2 ?_ ?_ Iff.rfl ?_ ?_
        · rw [wf_dir]; exact IH.wf
        · rw [owners_dir]
          have := IH.inv
          rw [chainOwner_of_ne hrc] at this
          exact inv_perm (by perm_tac) this
        · intro o ho
          exact IH.frame o (List.mem_append_right _ ho)
        · rw [kidsAbs_eq_map, treplace_split (fun t => t.abs s.d g.f.io) (fun x => abs_fst _ _ x) _ hfn hpre hpost,
            ← kidsAbs_eq_map, ← kidsAbs_eq_map, abs_dir, hacc1]
          rfl
      · simp only [hok, if_false]
        refine ⟨h, by rw [← hsplit] at hwf; exact hwf, Iff.rfl, fun _ _ => rfl, fun hh => absurd hh hok,
          fun _ => rfl, ?_⟩
        intro e he'
        have := IH.err e he'
        simpa using this
    · rename_i nm c sz hfd
      simp only [hfd, Option.map_some, abs_file]
      exact StepFacts.same h hwf (fun hh => by cases hh) (fun e he' => by cases he'; rfl)
    · rename_i hfd
      simp only [hfd, Option.map_none]
      exact StepFacts.same h hwf (fun hh => by cases hh) (fun e he' => by cases he'; rfl)

end local_ops2

/-! ### one call on the volume, and histories -/

theorem toSpec_dir (op : TOp) : op.toSpec.dir = op.dir := by cases op <;> rfl

section main
variable {eqn : Spec.Name → Spec.Name → Bool} {g : TGeom} {fuel : Nat}

/-- one call on the volume: everything `StepFacts` says, with the root directory as the
    outermost level (no owner outside it) -/
theorem tstep_facts (he : EqnOk eqn) (hg : TGeomOk g) (hfuel : g.f.lim - 2 ≤ fuel) (s : DirSt) (op : TOp)
    (h : TInv eqn g s) :
    StepFacts eqn g [] s (tstep eqn g fuel s op) (Spec.step eqn (tabs g s) op.toSpec) := by
  unfold tstep Spec.step tabs
  rw [toSpec_dir]
  exact atDirT_local he (dstep_local he hg hfuel op) op.dir g.rootBase s []
    (by rw [List.append_nil]; exact h.table) h.wf

/-- every call, accepted or refused, keeps the invariant: the cluster map is sound with exactly
    the chains of the tree as owners, files have the clusters their sizes need, names differ -/
theorem tstep_inv (he : EqnOk eqn) (hg : TGeomOk g) (hfuel : g.f.lim - 2 ≤ fuel) (s : DirSt) (op : TOp)
    (h : TInv eqn g s) : TInv eqn g (tstep eqn g fuel s op).1 := by
  have hs := tstep_facts he hg hfuel s op h
  exact ⟨by have := hs.inv; rwa [List.append_nil] at this, hs.wf⟩

/-- an accepted call changes the tree read back from the volume exactly as the specification
    says, and the specification accepts it too -/
theorem tstep_refines (he : EqnOk eqn) (hg : TGeomOk g) (hfuel : g.f.lim - 2 ≤ fuel) (s : DirSt) (op : TOp)
    (h : TInv eqn g s) (hacc : (tstep eqn g fuel s op).2 = .ok) :
    tabs g (tstep eqn g fuel s op).1 = (Spec.step eqn (tabs g s) op.toSpec).1 ∧
    (Spec.step eqn (tabs g s) op.toSpec).2 = .ok :=
  (tstep_facts he hg hfuel s op h).acc hacc

/-- a refused call returns the state it was given: table, device, root chain and tree -/
theorem tstep_refused (he : EqnOk eqn) (hg : TGeomOk g) (hfuel : g.f.lim - 2 ≤ fuel) (s : DirSt) (op : TOp)
    (h : TInv eqn g s) (hrej : (tstep eqn g fuel s op).2 ≠ .ok) : (tstep eqn g fuel s op).1 = s :=
  (tstep_facts he hg hfuel s op h).rej hrej

/-- when the model refuses with one of the specification's errors, the specification refuses
    with the same one -/
theorem tstep_spec_error (he : EqnOk eqn) (hg : TGeomOk g) (hfuel : g.f.lim - 2 ≤ fuel) (s : DirSt) (op : TOp)
    (h : TInv eqn g s) (e : Spec.Res) (herr : (tstep eqn g fuel s op).2 = .spec e) :
    (Spec.step eqn (tabs g s) op.toSpec).2 = e :=
  (tstep_facts he hg hfuel s op h).err e herr

/-- a fixed root directory stays fixed, a chained one stays chained -/
theorem tstep_root (he : EqnOk eqn) (hg : TGeomOk g) (hfuel : g.f.lim - 2 ≤ fuel) (s : DirSt) (op : TOp)
    (h : TInv eqn g s) : (tstep eqn g fuel s op).1.chain = [] ↔ s.chain = [] :=
  (tstep_facts he hg hfuel s op h).root

/-- replay a history on the specification side: a call the model accepted is applied with
    `Spec.step`, one it refused is skipped -/
def tspecRun (eqn : Spec.Name → Spec.Name → Bool) (g : TGeom) (fuel : Nat) :
    DirSt → Spec.Tree → List TOp → Spec.Tree
  | _, t, [] => t
  | s, t, op :: ops =>
    tspecRun eqn g fuel (tstep eqn g fuel s op).1
      (if (tstep eqn g fuel s op).2 = .ok then (Spec.step eqn t op.toSpec).1 else t) ops

theorem trun_inv (he : EqnOk eqn) (hg : TGeomOk g) (hfuel : g.f.lim - 2 ≤ fuel) (ops : List TOp) (s : DirSt)
    (h : TInv eqn g s) : TInv eqn g (trun eqn g fuel s ops) := by
  induction ops generalizing s with
  | nil => exact h
  | cons op rest ih =>
    simp only [trun, List.foldl_cons]
    exact ih _ (tstep_inv he hg hfuel s op h)

/-- after every history the invariant holds and the tree read back from the volume is the
    specification's tree after the same history (refused calls skipped). Induction over the list. -/
theorem trun_refines (he : EqnOk eqn) (hg : TGeomOk g) (hfuel : g.f.lim - 2 ≤ fuel) (ops : List TOp) (s : DirSt)
    (h : TInv eqn g s) :
    TInv eqn g (trun eqn g fuel s ops) ∧
    tabs g (trun eqn g fuel s ops) = tspecRun eqn g fuel s (tabs g s) ops := by
  refine ⟨trun_inv he hg hfuel ops s h, ?_⟩
  induction ops generalizing s with
  | nil => rfl
  | cons op rest ih =>
    have h' := tstep_inv he hg hfuel s op h
    have ih' := ih _ h'
    simp only [trun, List.foldl_cons, tspecRun] at ih' ⊢
    rw [ih']
    by_cases hacc : (tstep eqn g fuel s op).2 = .ok
    · rw [if_pos hacc, (tstep_refines he hg hfuel s op h hacc).1]
    · rw [if_neg hacc, tstep_refused he hg hfuel s op h hacc]

/-- when no call is refused the history is `Spec.run` -/
theorem tspecRun_all_accepted (eqn : Spec.Name → Spec.Name → Bool) (g : TGeom) (fuel : Nat) :
    ∀ (ops : List TOp) (s : DirSt) (t : Spec.Tree),
      (∀ (i : Nat) (hi : i < ops.length),
        (tstep eqn g fuel (trun eqn g fuel s (ops.take i)) ops[i]).2 = .ok) →
      tspecRun eqn g fuel s t ops = Spec.run eqn t (ops.map TOp.toSpec)
  | [], _, _, _ => rfl
  | op :: rest, s, t, hall => by
    have h0 : (tstep eqn g fuel s op).2 = .ok := hall 0 (by simp)
    simp only [tspecRun, Spec.run, List.map_cons, List.foldl_cons, if_pos h0]
    apply tspecRun_all_accepted eqn g fuel rest
    intro i hi
    have := hall (i + 1) (by simpa using hi)
    simpa [trun] using this

end main

/-! ### `Mkdir(p)` = mkdir -p -/

section mkdirall
variable {eqn : Spec.Name → Spec.Name → Bool} {g : TGeom} {fuel : Nat}

/-- `Mkdir(p)` component by component: the invariant holds whatever happens, and when every
    component was accepted the tree is the specification's after the same `mkdir` steps -/
theorem tmkdirAll_refines (he : EqnOk eqn) (hg : TGeomOk g) (hfuel : g.f.lim - 2 ≤ fuel) (img img2 : Bytes) :
    ∀ (path pre : List Spec.Name) (s : DirSt), TInv eqn g s →
      TInv eqn g (tmkdirAll eqn g fuel img img2 s pre path).1 ∧
      ((tmkdirAll eqn g fuel img img2 s pre path).2 = .ok →
        tabs g (tmkdirAll eqn g fuel img img2 s pre path).1 = (specMkdirAll eqn (tabs g s) pre path).1 ∧
        (specMkdirAll eqn (tabs g s) pre path).2 = .ok)
  | [], _, s, h => ⟨h, fun _ => ⟨rfl, rfl⟩⟩
  | n :: path, pre, s, h => by
    have h1 := tstep_inv he hg hfuel s (.mkdir pre n img img2) h
    simp only [tmkdirAll, specMkdirAll]
    by_cases hok : (tstep eqn g fuel s (.mkdir pre n img img2)).2 = .ok
    · obtain ⟨r1, r2⟩ := tstep_refines he hg hfuel s (.mkdir pre n img img2) h hok
      have r2' : (Spec.step eqn (tabs g s) (Spec.Op.mkdir pre n)).2 = .ok := r2
      have r1' : tabs g (tstep eqn g fuel s (.mkdir pre n img img2)).1
          = (Spec.step eqn (tabs g s) (Spec.Op.mkdir pre n)).1 := r1
      rw [if_pos hok, if_pos r2', ← r1']
      exact tmkdirAll_refines he hg hfuel img img2 path (pre ++ [n]) _ h1
    · rw [if_neg hok]
      exact ⟨h1, fun hh => absurd hh hok⟩

end mkdirall

/-! ### non-vacuity: the hypotheses hold together on a small FAT12 volume with a subdirectory -/

/-- 64-byte clusters, a fixed root region of 8 slots in front of the data area, one slot per name -/
def exTGeom : TGeom := ⟨⟨.f12, 10, 10, ⟨0, 256, 64⟩⟩, fun _ => 1, 8, 1, 0⟩

theorem exTGeom_ok : TGeomOk exTGeom := ⟨by decide, ex_limOk, by decide, by decide⟩

/-- the root holds the file "A" (3 bytes, cluster 2) and the directory "B" (chain 3 → 4, empty) -/
def exTree : DirSt := ⟨exTable, fun _ => 0, [], [.file [65] [2] 3, .dir [66] [3, 4] []]⟩

theorem exTree_inv : TInv exEqn exTGeom exTree where
  table := by
    have : chainOwner exTree.chain ++ kidsOwners exTree.kids = [[2], [3, 4]] := by
      simp [exTree, chainOwner, kidsOwners_cons, kidsOwners_nil, owners_file, owners_dir]
    rw [this]
    exact ex_inv
  wf := by
    rw [kidsWF_iff]
    refine ⟨?_, ?_⟩
    · intro t ht
      simp only [exTree, List.mem_cons, List.mem_nil_iff, or_false] at ht
      rcases ht with rfl | rfl
      · rw [wf_file]; decide
      · rw [wf_dir]; exact kidsWF_nil _ _
    · simp only [exTree, List.pairwise_cons, List.mem_cons, List.mem_nil_iff, or_false, forall_eq,
        List.Pairwise.nil, and_true]
      exact ⟨by decide, fun _ hf => hf.elim⟩

/-- the theorems apply to this volume, for every history -/
example (ops : List TOp) :
    TInv exEqn exTGeom (trun exEqn exTGeom 8 exTree ops) ∧
    tabs exTGeom (trun exEqn exTGeom 8 exTree ops)
      = tspecRun exEqn exTGeom 8 exTree (tabs exTGeom exTree) ops :=
  trun_refines exEqn_ok exTGeom_ok (by decide) ops exTree exTree_inv

/-- a file created inside the subdirectory "B": accepted, it gets cluster 5, the directory keeps its chain -/
example : (tstep exEqn exTGeom 8 exTree (.create [[66]] [67] [])).2 = .ok := by decide

example : kidsOwners (tstep exEqn exTGeom 8 exTree (.create [[66]] [67] [])).1.kids = [[2], [3, 4], [5]] := by
  decide

/-- a nested directory below "B" -/
example : (tstep exEqn exTGeom 8 exTree (.mkdir [[66]] [68] [] [])).2 = .ok := by decide

/-- a path through the file "A" is refused with the specification's error -/
example : (tstep exEqn exTGeom 8 exTree (.create [[65]] [67] [])).2 = .spec .notdir := by decide

/-- a write that would need 7 clusters for a file below "B" when 4 are free: refused -/
example :
    (tstep exEqn exTGeom 8 (tstep exEqn exTGeom 8 exTree (.create [[66]] [67] [])).1
      (.writeAt [[66]] [67] 400 [1] [])).2 = .nospace := by decide

/-- a write past the end of that file: accepted, the file grows to two clusters -/
example :
    kidsOwners (tstep exEqn exTGeom 8 (tstep exEqn exTGeom 8 exTree (.create [[66]] [67] [])).1
      (.writeAt [[66]] [67] 70 [1, 2] [])).1.kids = [[2], [3, 4], [5, 6]] := by decide

end Diskfs.Fat
