/-
  Helper lemmas for the Rock Ridge time stamp / TF / PX theorems of Props/C19.lean.
-/
import DiskfsModel.Model.MetaRR
import DiskfsModel.Proofs.MetaCodec
namespace Diskfs.Meta

theorem u8 (n : Nat) (h : n < 256) : (UInt8.ofNat n).toNat = n := by
  simp [UInt8.toNat_ofNat']; omega

theorem byteOfInt_toNat (i : Int) : ((byteOfInt i).toNat : Int) = i % 256 := by
  unfold byteOfInt
  rw [u8 _ (by omega)]
  omega

theorem int8_byteOfInt (i : Int) (h1 : -128 ≤ i) (h2 : i ≤ 127) : int8 (byteOfInt i).toNat = i := by
  have h := byteOfInt_toNat i
  unfold int8
  split <;> omega

/-! ### 7-byte stamps -/

theorem stamp7_roundtrip_aux (s : Stamp) (h : Stamp7WF s) : stamp7Dec (stamp7Enc s) = stamp7Norm s := by
  obtain ⟨h1, h2, h3, h4, h5, h6, h7, h8, h9⟩ := h
  obtain ⟨y, mo, d, hh, mi, se, cs, off⟩ := s
  simp only at h1 h2 h3 h4 h5 h6 h7 h8 h9
  have hy := byteOfInt_toNat (y - 1900)
  simp only [stamp7Dec, stamp7Enc, stamp7Norm, List.getD_cons_zero, List.getD_cons_succ, Stamp.mk.injEq,
    u8 _ h3, u8 _ h4, u8 _ h5, u8 _ h6, u8 _ h7, int8_byteOfInt _ h8 h9, and_true]
  omega

/-- whatever the year and the zone: the year byte holds (year - 1900) mod 256, the zone byte the quarter hours mod 256 read as int8 -/
theorem stamp7_wraps_aux (s : Stamp) (h3 : s.month < 256) (h4 : s.day < 256) (h5 : s.hour < 256) (h6 : s.minute < 256)
    (h7 : s.second < 256) :
    stamp7Dec (stamp7Enc s) =
      { s with year := 1900 + (s.year - 1900) % 256, csec := 0,
               offset := int8 (tzQuarters s.offset % 256).toNat * 900 } := by
  obtain ⟨y, mo, d, hh, mi, se, cs, off⟩ := s
  simp only at h3 h4 h5 h6 h7
  have hy := byteOfInt_toNat (y - 1900)
  have hz : (byteOfInt (tzQuarters off)).toNat = (tzQuarters off % 256).toNat := by
    have := byteOfInt_toNat (tzQuarters off); omega
  simp only [stamp7Dec, stamp7Enc, List.getD_cons_zero, List.getD_cons_succ, Stamp.mk.injEq,
    u8 _ h3, u8 _ h4, u8 _ h5, u8 _ h6, u8 _ h7, hz, and_true]
  omega

/-! ### 17-byte stamps -/

theorem digit_toNat (n : Nat) : (digit n).toNat = 48 + n % 10 := by
  unfold digit; rw [u8 _ (by omega)]

theorem isDigit_digit (n : Nat) : isDigit (digit n) = true := by
  simp [isDigit, digit_toNat]; omega

theorem num2 (n : Nat) (h : n < 100) : num (enc2 n) = n := by
  simp [num, enc2, digit_toNat]; omega

theorem first4_lt : ∀ (f y : Nat), y < 10000 → first4 f y = y := by
  intro f y h
  cases f with
  | zero => rfl
  | succ f => simp [first4, h]

theorem num4 (y : Nat) (h : y < 10000) : num (enc4 y) = y := by
  simp [num, enc4, first4_lt y y h, digit_toNat]; omega

theorem enc2_all (n : Nat) : (enc2 n).all isDigit = true := by simp [enc2, isDigit_digit]
theorem enc4_all (n : Nat) : (enc4 n).all isDigit = true := by simp [enc4, isDigit_digit]

theorem stamp17_roundtrip_aux (s : Stamp) (h : Stamp17WF s) : stamp17Dec (stamp17Enc s) = some (stamp17Norm s) := by
  obtain ⟨h1, h2, h3, h4, h5, h6, h7, h8, h9, h10, h11, h12⟩ := h
  obtain ⟨y, mo, d, hh, mi, se, cs, off⟩ := s
  simp only at h1 h2 h3 h4 h5 h6 h7 h8 h9 h10 h11 h12
  have hyn : y.toNat < 10000 := by omega
  have hq := int8_byteOfInt (tzQuarters off) (by omega) (by omega)
  have e : stamp17Enc ⟨y, mo, d, hh, mi, se, cs, off⟩ =
      enc4 y.toNat ++ (enc2 mo ++ (enc2 d ++ (enc2 hh ++ (enc2 mi ++ (enc2 se ++ (enc2 cs ++ [byteOfInt (tzQuarters off)])))))) := by
    simp [stamp17Enc]
  have l4 : (enc4 y.toNat).length = 4 := rfl
  have l2 : ∀ n, (enc2 n).length = 2 := fun _ => rfl
  have hlen : (stamp17Enc ⟨y, mo, d, hh, mi, se, cs, off⟩).length = 17 := by rw [e]; simp [l4, l2]
  have htake : (stamp17Enc ⟨y, mo, d, hh, mi, se, cs, off⟩).take 16 =
      enc4 y.toNat ++ (enc2 mo ++ (enc2 d ++ (enc2 hh ++ (enc2 mi ++ (enc2 se ++ enc2 cs))))) := by
    rw [e]; simp [enc4, enc2]
  have hall : ((stamp17Enc ⟨y, mo, d, hh, mi, se, cs, off⟩).take 16).all isDigit = true := by
    rw [htake]; simp only [List.all_append, enc2_all, enc4_all, Bool.and_self]
  have s0 : slice (stamp17Enc ⟨y, mo, d, hh, mi, se, cs, off⟩) 0 4 = enc4 y.toNat := by rw [e]; simp [slice, enc4, enc2]
  have s1 : slice (stamp17Enc ⟨y, mo, d, hh, mi, se, cs, off⟩) 4 6 = enc2 mo := by rw [e]; simp [slice, enc4, enc2]
  have s2 : slice (stamp17Enc ⟨y, mo, d, hh, mi, se, cs, off⟩) 6 8 = enc2 d := by rw [e]; simp [slice, enc4, enc2]
  have s3 : slice (stamp17Enc ⟨y, mo, d, hh, mi, se, cs, off⟩) 8 10 = enc2 hh := by rw [e]; simp [slice, enc4, enc2]
  have s4 : slice (stamp17Enc ⟨y, mo, d, hh, mi, se, cs, off⟩) 10 12 = enc2 mi := by rw [e]; simp [slice, enc4, enc2]
  have s5 : slice (stamp17Enc ⟨y, mo, d, hh, mi, se, cs, off⟩) 12 14 = enc2 se := by rw [e]; simp [slice, enc4, enc2]
  have s6 : slice (stamp17Enc ⟨y, mo, d, hh, mi, se, cs, off⟩) 14 16 = enc2 cs := by rw [e]; simp [slice, enc4, enc2]
  have s7 : (stamp17Enc ⟨y, mo, d, hh, mi, se, cs, off⟩).getD 16 0 = byteOfInt (tzQuarters off) := by
    rw [e]; simp [enc4, enc2]
  have hd31 : daysIn y.toNat mo ≤ 31 := by unfold daysIn; split <;> (try split) <;> omega
  have hd100 : d < 100 := by omega
  unfold stamp17Dec
  rw [if_neg (by omega), hall]
  simp only [Bool.not_true, Bool.false_eq_true, if_false, s0, s1, s2, s3, s4, s5, s6, s7, hq,
    num4 _ hyn, num2 _ (by omega : mo < 100), num2 _ hd100,
    num2 _ (by omega : hh < 100), num2 _ (by omega : mi < 100), num2 _ (by omega : se < 100), num2 _ h10]
  rw [if_neg (by omega)]
  simp only [stamp17Norm, Option.some.injEq, Stamp.mk.injEq, and_true]
  omega

/-! ### TF -/

theorem stampLen_enc7 (s : Stamp) : (stamp7Enc s).length = 7 := rfl
theorem stampLen_enc17 (s : Stamp) : (stamp17Enc s).length = 17 := by
  simp [stamp17Enc, enc4, enc2]

theorem encStamp_length (long : Bool) (s : Stamp) : (encStamp long s).length = stampLen long := by
  cases long <;> simp [encStamp, stampLen, stampLen_enc7, stampLen_enc17]

def StampWF (long : Bool) (s : Stamp) : Prop := if long then Stamp17WF s else Stamp7WF s
def stampNorm (long : Bool) (s : Stamp) : Stamp := if long then stamp17Norm s else stamp7Norm s

theorem decStamp_encStamp (long : Bool) (s : Stamp) (h : StampWF long s) :
    decStamp long (encStamp long s) = some (stampNorm long s) := by
  cases long
  · simp only [decStamp, encStamp, stampNorm, Bool.false_eq_true, if_false]
    rw [stamp7_roundtrip_aux s h]
  · simp only [decStamp, encStamp, stampNorm, if_true]
    exact stamp17_roundtrip_aux s h

theorem tfDecSlots_body (long : Bool) : ∀ (sl : List (Option Stamp)) (rest : Bytes),
    (∀ s, some s ∈ sl → StampWF long s) →
    tfDecSlots long sl.length (flagsOf sl) (tfBody long sl ++ rest) = some (sl.map (Option.map (stampNorm long))) := by
  intro sl
  induction sl with
  | nil => intro rest _; rfl
  | cons x r ih =>
    intro rest h
    have hr : ∀ s, some s ∈ r → StampWF long s := fun s hs => h s (List.mem_cons_of_mem _ hs)
    cases x with
    | none =>
      have e1 : flagsOf (none :: r) % 2 = 0 := by simp [flagsOf]
      have e2 : flagsOf (none :: r) / 2 = flagsOf r := by simp [flagsOf]
      simp only [List.length_cons, tfDecSlots, e1, e2, if_true, tfBody, ih rest hr, Option.map_some, List.map_cons,
        Option.map_none]
    | some s =>
      have e1 : flagsOf (some s :: r) % 2 = 1 := by simp [flagsOf]
      have e2 : flagsOf (some s :: r) / 2 = flagsOf r := by simp [flagsOf]; omega
      have hl := encStamp_length long s
      have ht : (encStamp long s ++ (tfBody long r ++ rest)).take (stampLen long) = encStamp long s := by
        rw [← hl]; simp
      have hdr : (encStamp long s ++ (tfBody long r ++ rest)).drop (stampLen long) = tfBody long r ++ rest := by
        rw [← hl]; simp
      simp only [List.length_cons, tfDecSlots, e1, e2, tfBody, List.append_assoc]
      rw [if_neg (by omega), if_neg (by simp [hl])]
      rw [ht, decStamp_encStamp long s (h s (List.mem_cons_self ..)), hdr, ih rest hr]
      simp

theorem flagsOf_lt : ∀ (sl : List (Option Stamp)), flagsOf sl < 2 ^ sl.length := by
  intro sl
  induction sl with
  | nil => simp [flagsOf]
  | cons x r ih => simp only [flagsOf, List.length_cons, Nat.pow_succ]; split <;> omega

theorem present_le : ∀ (sl : List (Option Stamp)), present sl ≤ sl.length := by
  intro sl
  induction sl with
  | nil => simp [present]
  | cons x r ih => simp only [present, List.length_cons]; split <;> omega

theorem tfBody_length (long : Bool) : ∀ (sl : List (Option Stamp)), (tfBody long sl).length = stampLen long * present sl := by
  intro sl
  induction sl with
  | nil => simp [tfBody, present]
  | cons x r ih =>
    cases x with
    | none => simp [tfBody, present, ih]
    | some s => simp [tfBody, present, ih, encStamp_length, Nat.mul_add]

theorem tf_roundtrip_aux (t : Tf) (hn : t.slots.length = 7) (h : ∀ s, some s ∈ t.slots → StampWF t.long s) :
    tfDec (tfEnc t) = some ⟨t.long, t.slots.map (Option.map (stampNorm t.long))⟩ := by
  obtain ⟨long, sl⟩ := t
  simp only at hn h
  have hf : flagsOf sl < 128 := by have := flagsOf_lt sl; rw [hn] at this; simpa using this
  have hp : present sl ≤ 7 := by have := present_le sl; omega
  have hsl : stampLen long ≤ 17 := by cases long <;> simp [stampLen]
  have hmul : stampLen long * present sl ≤ 119 := by
    calc stampLen long * present sl ≤ 17 * 7 := Nat.mul_le_mul hsl hp
      _ = 119 := rfl
  have hlen : (tfEnc ⟨long, sl⟩).length = 5 + stampLen long * present sl := by
    simp [tfEnc, tfBody_length]; omega
  have h2 : ((tfEnc ⟨long, sl⟩).getD 2 0).toNat = 5 + stampLen long * present sl := by
    simp only [tfEnc, List.cons_append, List.getD_cons_succ, List.getD_cons_zero]
    exact u8 _ (by omega)
  have h3 : ((tfEnc ⟨long, sl⟩).getD 3 0).toNat = 1 := by simp [tfEnc]
  have h4 : ((tfEnc ⟨long, sl⟩).getD 4 0).toNat = (if long then 128 else 0) + flagsOf sl := by
    simp only [tfEnc, List.cons_append, List.getD_cons_succ, List.getD_cons_zero]
    rw [u8 _ (by split <;> omega)]; omega
  have hd : (tfEnc ⟨long, sl⟩).drop 5 = tfBody long sl ++ [] := by simp [tfEnc]
  unfold tfDec
  rw [if_neg (by omega)]
  simp only [h4, hd]
  have hlong : (((if long then 128 else 0) + flagsOf sl) / 128 % 2 = 1) = (long = true) := by
    cases long <;> simp <;> omega
  have hfl : ((if long then 128 else 0) + flagsOf sl) % 128 = flagsOf sl := by
    cases long <;> simp <;> omega
  simp only [hlong, hfl]
  have := tfDecSlots_body long sl [] h
  rw [hn] at this
  cases long <;> simp_all

/-! ### PX -/

theorem slice_mid (pre x post : Bytes) (a b : Nat) (ha : a = pre.length) (hb : b = pre.length + x.length) :
    slice (pre ++ (x ++ post)) a b = x := by
  subst ha; subst hb
  simp [slice]

theorem px_fields (p : Px) :
    slice (pxEnc p) 4 8 = leEnc 4 (pxModeEnc p.kind p.mode) ∧ slice (pxEnc p) 8 12 = beEnc 4 (pxModeEnc p.kind p.mode) ∧
    slice (pxEnc p) 12 16 = leEnc 4 p.links ∧ slice (pxEnc p) 16 20 = beEnc 4 p.links ∧
    slice (pxEnc p) 20 24 = leEnc 4 p.uid ∧ slice (pxEnc p) 24 28 = beEnc 4 p.uid ∧
    slice (pxEnc p) 28 32 = leEnc 4 p.gid ∧ slice (pxEnc p) 32 36 = beEnc 4 p.gid := by
  have e : pxEnc p = [80, 88, 44, 1] ++ (leEnc 4 (pxModeEnc p.kind p.mode) ++ (beEnc 4 (pxModeEnc p.kind p.mode) ++
      (leEnc 4 p.links ++ (beEnc 4 p.links ++ (leEnc 4 p.uid ++ (beEnc 4 p.uid ++ (leEnc 4 p.gid ++ (beEnc 4 p.gid ++
      leEnc 8 p.serial)))))))) := by
    simp [pxEnc, both32]
  refine ⟨?_, ?_, ?_, ?_, ?_, ?_, ?_, ?_⟩
  · rw [e]; exact slice_mid _ _ _ _ _ (by simp) (by simp)
  · rw [e, ← List.append_assoc]; exact slice_mid _ _ _ _ _ (by simp) (by simp)
  · rw [e, ← List.append_assoc, ← List.append_assoc]; exact slice_mid _ _ _ _ _ (by simp) (by simp)
  · rw [e, ← List.append_assoc, ← List.append_assoc, ← List.append_assoc]; exact slice_mid _ _ _ _ _ (by simp) (by simp)
  · rw [e, ← List.append_assoc, ← List.append_assoc, ← List.append_assoc, ← List.append_assoc]
    exact slice_mid _ _ _ _ _ (by simp) (by simp)
  · rw [e, ← List.append_assoc, ← List.append_assoc, ← List.append_assoc, ← List.append_assoc, ← List.append_assoc]
    exact slice_mid _ _ _ _ _ (by simp) (by simp)
  · rw [e, ← List.append_assoc, ← List.append_assoc, ← List.append_assoc, ← List.append_assoc, ← List.append_assoc,
      ← List.append_assoc]
    exact slice_mid _ _ _ _ _ (by simp) (by simp)
  · rw [e, ← List.append_assoc, ← List.append_assoc, ← List.append_assoc, ← List.append_assoc, ← List.append_assoc,
      ← List.append_assoc, ← List.append_assoc]
    exact slice_mid _ _ _ _ _ (by simp) (by simp)

theorem pxEnc_length (p : Px) : (pxEnc p).length = 44 := by simp [pxEnc, both32]

theorem pxModeEnc_lt (k : PxKind) (m : GoMode) (h : m.perm < 512) : pxModeEnc k m < 2 ^ 32 := by
  have h1 := unix_lt m h
  have h2 := pxKindCode_lt k
  unfold pxModeEnc; omega

end Diskfs.Meta
