/-
  Re-opening the tree model's volume from its bytes (Model/Fat/TreeImg.lean):
    dirWrs_bytes      a directory image written through a chain reads back as the image
    jobs_bytes        all directories' images written: each reads back, every other chain is untouched
    owners_split      the owners of a tree = its directories' chains + its files' chains
    image_dir / image_file / image_root
    reopen_kids       mutual induction over the tree: parsing what `image` holds gives `kidsAbs`
    reopen_image      `reopen (image s) = tabs s`
  Core Lean only.
-/
import DiskfsModel.Model.Fat.TreeImg
import DiskfsModel.Proofs.FatTreeFit
import DiskfsModel.Proofs.FatDir
namespace Diskfs.Fat

/-! ### one image through one chain -/

theorem dirWrs_in_chain (io : IOGeom) (chain : List Nat) (img : Bytes) :
    ∀ w ∈ dirWrs io chain img, w.data.length = 0 ∨ ∃ c ∈ chain, InCluster io c w := dirWrs_in io chain img

theorem dirWrs_bytes (io : IOGeom) (hb : 0 < io.bpc) : ∀ (chain : List Nat) (img : Bytes) (d : Dev),
    chain.Nodup → (∀ c ∈ chain, 2 ≤ c) → img.length = chain.length * io.bpc →
    chainBytes (applyWrs d (dirWrs io chain img)) io chain = img
  | [], img, d, _, _, hl => by
    simp only [List.length_nil, Nat.zero_mul] at hl
    rw [List.eq_nil_of_length_eq_zero hl]
    rfl
  | c :: cs, img, d, hnd, h2, hl => by
    obtain ⟨hc, hnd'⟩ := List.nodup_cons.1 hnd
    have h2' : ∀ c' ∈ cs, 2 ≤ c' := fun c' hc' => h2 c' (List.mem_cons_of_mem _ hc')
    have hlen : img.length = io.bpc + cs.length * io.bpc := by
      rw [hl, List.length_cons, Nat.add_mul, Nat.one_mul, Nat.add_comm]
    rw [dirWrs, applyWrs_cons, chainBytes_cons]
    have htl : (img.drop io.bpc).length = cs.length * io.bpc := by rw [List.length_drop]; omega
    have ih := dirWrs_bytes io hb cs (img.drop io.bpc) (applyWr d ⟨clusterOff io c, img.take io.bpc⟩) hnd' h2' htl
    rw [ih]
    have hhead : readAt (applyWrs (applyWr d ⟨clusterOff io c, img.take io.bpc⟩) (dirWrs io cs (img.drop io.bpc)))
        (clusterOff io c) io.bpc = img.take io.bpc := by
      have htk : (img.take io.bpc).length = io.bpc := by rw [List.length_take]; omega
      have h1 : readAt (applyWrs (applyWr d ⟨clusterOff io c, img.take io.bpc⟩) (dirWrs io cs (img.drop io.bpc)))
          (clusterOff io c) io.bpc = readAt (applyWr d ⟨clusterOff io c, img.take io.bpc⟩) (clusterOff io c) io.bpc := by
        apply readAt_congr
        intro i hi1 hi2
        apply writes_frame _ io cs _ i (dirWrs_in io cs _)
        intro c' hc'
        have hne : c ≠ c' := fun e => hc (e ▸ hc')
        have := cluster_disjoint io c c' (h2 c List.mem_cons_self) (h2' c' hc') hne
        omega
      rw [h1]
      have := readAt_applyWr_same d ⟨clusterOff io c, img.take io.bpc⟩
      simp only [htk] at this
      exact this
    rw [hhead, List.take_append_drop]

/-! ### all images -/

theorem jobWrs_cons (io : IOGeom) (j : List Nat × Bytes) (js : List (List Nat × Bytes)) :
    jobWrs io (j :: js) = dirWrs io j.1 j.2 ++ jobWrs io js := by
  simp [jobWrs]

theorem jobWrs_in (io : IOGeom) (js : List (List Nat × Bytes)) :
    ∀ w ∈ jobWrs io js, w.data.length = 0 ∨ ∃ c ∈ (js.map (·.1)).flatten, InCluster io c w := by
  intro w hw
  unfold jobWrs at hw
  obtain ⟨j, hj, hwj⟩ := List.mem_flatMap.1 hw
  rcases dirWrs_in io j.1 j.2 w hwj with h | ⟨c, hc, h⟩
  · exact Or.inl h
  · exact Or.inr ⟨c, List.mem_flatten.2 ⟨j.1, List.mem_map.2 ⟨j, hj, rfl⟩, hc⟩, h⟩

/-- a chain that shares no cluster with any directory reads as before -/
theorem jobs_other (io : IOGeom) (js : List (List Nat × Bytes)) (d : Dev)
    (h2 : ∀ c ∈ (js.map (·.1)).flatten, 2 ≤ c) (o : List Nat) (ho2 : ∀ c ∈ o, 2 ≤ c)
    (hdis : ∀ c ∈ o, c ∉ (js.map (·.1)).flatten) :
    chainBytes (applyWrs d (jobWrs io js)) io o = chainBytes d io o :=
  chainBytes_other d io _ o _ (jobWrs_in io js) h2 ho2 hdis

/-- every directory reads back as its image -/
theorem jobs_bytes (io : IOGeom) (hb : 0 < io.bpc) : ∀ (js : List (List Nat × Bytes)) (d : Dev),
    (js.map (·.1)).flatten.Nodup → (∀ c ∈ (js.map (·.1)).flatten, 2 ≤ c) →
    (∀ j ∈ js, j.2.length = j.1.length * io.bpc) →
    ∀ j ∈ js, chainBytes (applyWrs d (jobWrs io js)) io j.1 = j.2
  | [], _, _, _, _ => by intro j hj; cases hj
  | j0 :: js, d, hnd, h2, hlen => by
    intro j hj
    simp only [List.map_cons, List.flatten_cons] at hnd h2
    obtain ⟨hnd0, hndr, hdis⟩ := List.nodup_append.1 hnd
    have h20 : ∀ c ∈ j0.1, 2 ≤ c := fun c hc => h2 c (List.mem_append_left _ hc)
    have h2r : ∀ c ∈ (js.map (·.1)).flatten, 2 ≤ c := fun c hc => h2 c (List.mem_append_right _ hc)
    rw [jobWrs_cons, applyWrs_append]
    rcases List.mem_cons.1 hj with rfl | hj
    · rw [jobs_other io js _ h2r j.1 h20 (fun c hc hc' => hdis c hc c hc' rfl)]
      exact dirWrs_bytes io hb j.1 j.2 d hnd0 h20 (hlen j List.mem_cons_self)
    · exact jobs_bytes io hb js _ hndr h2r (fun j' hj' => hlen j' (List.mem_cons_of_mem _ hj')) j hj

/-! ### owners = directory chains + file chains -/

theorem kidsJobs_nil (X : ImgParams) (bpc par : Nat) : kidsJobs X bpc par [] = [] := by rw [kidsJobs]
theorem kidsJobs_cons (X : ImgParams) (bpc par : Nat) (t : TNode) (ks : List TNode) :
    kidsJobs X bpc par (t :: ks) = t.jobs X bpc par ++ kidsJobs X bpc par ks := by rw [kidsJobs]
theorem jobs_file (X : ImgParams) (bpc par : Nat) (n : Spec.Name) (c : List Nat) (sz : Nat) :
    (TNode.file n c sz).jobs X bpc par = [] := by rw [TNode.jobs]
theorem jobs_dir (X : ImgParams) (bpc par : Nat) (n : Spec.Name) (c : List Nat) (ks : List TNode) :
    (TNode.dir n c ks).jobs X bpc par =
      (c, serDir bpc (dots X (c.headD 0) par ++ ks.map (entOf X))) :: kidsJobs X bpc (c.headD 0) ks := by
  rw [TNode.jobs]
theorem kidsFileOwners_nil : kidsFileOwners [] = [] := by rw [kidsFileOwners]
theorem kidsFileOwners_cons (t : TNode) (ks : List TNode) :
    kidsFileOwners (t :: ks) = t.fileOwners ++ kidsFileOwners ks := by rw [kidsFileOwners]
theorem fileOwners_file (n : Spec.Name) (c : List Nat) (sz : Nat) : (TNode.file n c sz).fileOwners = [c] := by
  rw [TNode.fileOwners]
theorem fileOwners_dir (n : Spec.Name) (c : List Nat) (ks : List TNode) :
    (TNode.dir n c ks).fileOwners = kidsFileOwners ks := by rw [TNode.fileOwners]

mutual
theorem TNode.owners_split (X : ImgParams) (bpc par : Nat) (t : TNode) (a : List Nat) :
    t.owners.count a = ((t.jobs X bpc par).map (·.1)).count a + t.fileOwners.count a := by
  cases t with
  | file n c sz => rw [owners_file, jobs_file, fileOwners_file]; simp
  | dir n c ks =>
    rw [owners_dir, jobs_dir, fileOwners_dir, List.map_cons, List.count_cons, List.count_cons,
      kids_owners_split X bpc (c.headD 0) ks a]
    simp only
    omega
theorem kids_owners_split (X : ImgParams) (bpc par : Nat) (ks : List TNode) (a : List Nat) :
    (kidsOwners ks).count a = ((kidsJobs X bpc par ks).map (·.1)).count a + (kidsFileOwners ks).count a := by
  cases ks with
  | nil => rw [kidsOwners_nil, kidsJobs_nil, kidsFileOwners_nil]; simp
  | cons t ks =>
    rw [kidsOwners_cons, kidsJobs_cons, kidsFileOwners_cons, List.map_append, List.count_append,
      List.count_append, List.count_append, TNode.owners_split X bpc par t a, kids_owners_split X bpc par ks a]
    omega
end

theorem kids_owners_perm (X : ImgParams) (bpc par : Nat) (ks : List TNode) :
    List.Perm (kidsOwners ks) ((kidsJobs X bpc par ks).map (·.1) ++ kidsFileOwners ks) := by
  rw [List.perm_iff_count]
  intro a
  rw [List.count_append]
  exact kids_owners_split X bpc par ks a

/-! ### the entries of the model are well formed, real, and read back as the node's name -/

theorem mkEnt_wf {X : ImgParams} {g : TGeom} {n : Spec.Name} (h : NameOk X g n) (dirBit cl sz : Nat)
    (hb : dirBit = 0 ∨ dirBit = 16) (hcl : cl < 4294967296) (hsz : sz < 4294967296) :
    (mkEnt X n dirBit cl sz).WF := by
  obtain ⟨hwf, _, _, _, hattr, _⟩ := h
  unfold DirEntry.WF mkEnt at *
  simp only at *
  obtain ⟨h1, h2, h3, h4, h5, h6, h7, h8, h9, _, _, h12, h13, h14, h15, h16, h17, _, _, h20, h21, h22⟩ := hwf
  exact ⟨h1, h2, h3, h4, h5, h6, h7, h8, h9, by omega, by omega, h12, h13, h14, h15, h16, h17, hcl, hsz, h20, h21, h22⟩

theorem mkEnt_name {X : ImgParams} {g : TGeom} {n : Spec.Name} (h : NameOk X g n) (dirBit cl sz : Nat) :
    entryName (mkEnt X n dirBit cl sz) = n := h.2.1

theorem mkEnt_real {X : ImgParams} {g : TGeom} {n : Spec.Name} (h : NameOk X g n) (dirBit cl sz : Nat)
    (hb : dirBit = 0 ∨ dirBit = 16) : isRealEntry (mkEnt X n dirBit cl sz) = true := by
  obtain ⟨hwf, _, hd1, hd2, hattr, _⟩ := h
  have hne : (X.enc n).short ≠ [] := by
    unfold DirEntry.WF mkEnt at hwf
    exact hwf.2.2.2.2.1
  have hl : (((X.stamp n).attr + dirBit) / 8 % 2 = 1) = False := by
    apply eq_false
    omega
  simp [isRealEntry, DirEntry.isLabel, mkEnt, hne, hd1, hd2, hl]

theorem mkEnt_isDir {X : ImgParams} {g : TGeom} {n : Spec.Name} (h : NameOk X g n) (cl sz : Nat) :
    (mkEnt X n 0 cl sz).isDir = false ∧ (mkEnt X n 16 cl sz).isDir = true := by
  obtain ⟨_, _, _, _, hattr, _⟩ := h
  constructor
  · show decide (((X.stamp n).attr + 0) / 16 % 2 = 1) = false
    apply decide_eq_false; omega
  · show decide (((X.stamp n).attr + 16) / 16 % 2 = 1) = true
    apply decide_eq_true; omega

theorem dotEnt_wf {X : ImgParams} (hm : metaOk X.dotMeta) (nm : List Nat) (hnm : nm = [46] ∨ nm = [46, 46])
    (cl : Nat) (hcl : cl < 4294967296) : (dotEnt X nm cl).WF := by
  obtain ⟨t1, t2, t3, t4, t5⟩ := hm
  unfold DirEntry.WF dotEnt
  simp only
  rcases hnm with rfl | rfl
  · exact ⟨by decide, by decide, by decide, by decide, by decide, by decide, by decide, by decide, by decide,
      by decide, by decide, by decide, t1, t2, t3, t4, t5, hcl, by decide, by decide, by decide, by decide⟩
  · exact ⟨by decide, by decide, by decide, by decide, by decide, by decide, by decide, by decide, by decide,
      by decide, by decide, by decide, t1, t2, t3, t4, t5, hcl, by decide, by decide, by decide, by decide⟩

theorem dots_wf {X : ImgParams} (hm : metaOk X.dotMeta) (self par : Nat) (h1 : self < 4294967296)
    (h2 : par < 4294967296) : ∀ e ∈ dots X self par, e.WF := by
  intro e he
  simp only [dots, List.mem_cons, List.mem_nil_iff, or_false] at he
  rcases he with rfl | rfl
  · exact dotEnt_wf hm _ (Or.inl rfl) _ h1
  · exact dotEnt_wf hm _ (Or.inr rfl) _ h2

theorem dots_skip (X : ImgParams) (self par : Nat) : ∀ e ∈ dots X self par, isRealEntry e = false := by
  intro e he
  simp only [dots, List.mem_cons, List.mem_nil_iff, or_false] at he
  rcases he with rfl | rfl <;> simp [isRealEntry, dotEnt]

theorem dots_slots (X : ImgParams) (self par : Nat) : slotCount (dots X self par) = 2 := by
  simp [slotCount, dots, dotEnt, calculateSlots, utf8Len]

/-! ### lengths -/

theorem serDir_length (bpc : Nat) (hb : 0 < bpc) (es : List DirEntry) :
    (serDir bpc es).length = clusterCount bpc (32 * slotCount es) * bpc := by
  unfold serDir clusterCount
  simp only
  have hL := serEntries_length es
  generalize 32 * slotCount es = S at *
  generalize es.flatMap serEntry = b at *
  have hdm := Nat.div_add_mod S bpc
  have hm := Nat.mod_lt S hb
  rw [Nat.mul_comm bpc] at hdm
  rw [hL]
  split
  · rename_i h0
    rw [if_neg (by omega), Nat.add_zero, hL]
    omega
  · rename_i h0
    rw [if_pos (by omega), List.length_append, hL, zeros_length, Nat.add_mul, Nat.one_mul]
    generalize S / bpc * bpc = q at *
    omega

theorem serDir_eq_zeros (bpc : Nat) (es : List DirEntry) :
    ∃ z, serDir bpc es = es.flatMap serEntry ++ zeros z := by
  unfold serDir
  simp only
  split
  · exact ⟨0, by simp [zeros]⟩
  · exact ⟨_, rfl⟩

theorem parseDir_zeros (es : List DirEntry) (h : ∀ e ∈ es, e.WF) (z : Nat) :
    parseDir (es.flatMap serEntry ++ zeros z) = es := by
  unfold parseDir
  rw [List.length_append, serEntries_length, zeros_length]
  have : (32 * slotCount es + z) / 32 = z / 32 + slotCount es := by omega
  rw [this, parse_ser_entries es h, parseSlots_zeros, List.append_nil]

theorem parseDir_fixedImg (cap : Nat) (es : List DirEntry) (h : ∀ e ∈ es, e.WF) :
    parseDir (fixedImg cap es) = es := parseDir_zeros es h _

theorem kidsImgOk_nil (X : ImgParams) (g : TGeom) : kidsImgOk X g [] := by rw [kidsImgOk]; trivial
theorem kidsImgOk_cons (X : ImgParams) (g : TGeom) (t : TNode) (ks : List TNode) :
    kidsImgOk X g (t :: ks) ↔ t.ImgOk X g ∧ kidsImgOk X g ks := by rw [kidsImgOk]
theorem imgOk_file (X : ImgParams) (g : TGeom) (n : Spec.Name) (c : List Nat) (sz : Nat) :
    (TNode.file n c sz).ImgOk X g ↔ NameOk X g n ∧ sz < 4294967296 := by rw [TNode.ImgOk]
theorem imgOk_dir (X : ImgParams) (g : TGeom) (n : Spec.Name) (c : List Nat) (ks : List TNode) :
    (TNode.dir n c ks).ImgOk X g ↔ NameOk X g n ∧ kidsImgOk X g ks := by rw [TNode.ImgOk]
theorem imgOk_name {X : ImgParams} {g : TGeom} {t : TNode} (h : t.ImgOk X g) : NameOk X g t.name := by
  cases t with
  | file n c sz => exact ((imgOk_file X g n c sz).1 h).1
  | dir n c ks => exact ((imgOk_dir X g n c ks).1 h).1

theorem kidsImgOk_iff (X : ImgParams) (g : TGeom) (ks : List TNode) :
    kidsImgOk X g ks ↔ ∀ t ∈ ks, t.ImgOk X g := by
  induction ks with
  | nil => simp [kidsImgOk_nil]
  | cons t ks ih => rw [kidsImgOk_cons, ih]; simp

theorem entOf_slots {X : ImgParams} {g : TGeom} {t : TNode} (h : t.ImgOk X g) :
    calculateSlots (entOf X t).long + 1 = g.slots t.name := by
  have := (imgOk_name h).2.2.2.2.2
  cases t <;> exact this.symm

theorem slotCount_append (a b : List DirEntry) : slotCount (a ++ b) = slotCount a + slotCount b := by
  simp [slotCount]

theorem slotCount_kids {X : ImgParams} {g : TGeom} {ks : List TNode} (h : kidsImgOk X g ks) :
    slotCount (ks.map (entOf X)) = (ks.map fun t => g.slots t.name).sum := by
  induction ks with
  | nil => rfl
  | cons t ks ih =>
    rw [kidsImgOk_cons] at h
    simp only [slotCount, List.map_cons, List.sum_cons] at ih ⊢
    rw [ih h.2, entOf_slots h.1]

/-- a directory that fits its chain: its image fills the chain exactly -/
theorem level_image_length {X : ImgParams} {g : TGeom} {pre : List DirEntry} {base : Nat} {chain : List Nat}
    {ks : List TNode} (hb : 0 < g.f.io.bpc) (hbase : base = slotCount pre) (hok : kidsImgOk X g ks)
    (hfit : LevelFit g base chain ks) (hne : chain ≠ []) :
    (serDir g.f.io.bpc (pre ++ ks.map (entOf X))).length = chain.length * g.f.io.bpc := by
  rw [serDir_length _ hb, slotCount_append, slotCount_kids hok, hfit.2 hne]
  unfold dirNeed dirSlots
  rw [hbase]

/-! ### parsing what the image holds gives the abstraction -/

theorem depth_pos (t : TNode) : 1 ≤ t.depth := by
  cases t <;> rw [TNode.depth] <;> omega

theorem kidsDepth_nil : kidsDepth [] = 0 := by rw [kidsDepth]
theorem kidsDepth_cons (t : TNode) (ks : List TNode) : kidsDepth (t :: ks) = Nat.max t.depth (kidsDepth ks) := by
  rw [kidsDepth]
theorem depth_dir (n : Spec.Name) (c : List Nat) (ks : List TNode) : (TNode.dir n c ks).depth = 1 + kidsDepth ks := by
  rw [TNode.depth]

theorem chainOk_head {k lim m} {l : List Nat} (h : ChainOk k lim m l) : 2 ≤ l.headD 0 ∧ l.headD 0 < lim := by
  cases l with
  | nil => exact h.elim
  | cons a rest => exact chainOk_mem h a List.mem_cons_self

section reopen
variable {X : ImgParams} {g : TGeom} {fuel : Nat} {m : CMap} {D d : Dev}

theorem reopenLvl_cons_real (depth : Nat) (e : DirEntry) (es : List DirEntry) (h : isRealEntry e = true) :
    reopenLvl g.f.kind g.f.max fuel m D g.f.io (depth + 1) (e :: es) =
      reopenNode g.f.kind g.f.max fuel m D g.f.io (reopenLvl g.f.kind g.f.max fuel m D g.f.io depth) e ::
        reopenLvl g.f.kind g.f.max fuel m D g.f.io (depth + 1) es := by
  simp [reopenLvl, h]

theorem reopenLvl_skip (depth : Nat) (pre es : List DirEntry) (h : ∀ e ∈ pre, isRealEntry e = false) :
    reopenLvl g.f.kind g.f.max fuel m D g.f.io depth (pre ++ es) =
      reopenLvl g.f.kind g.f.max fuel m D g.f.io depth es := by
  cases depth with
  | zero => rfl
  | succ depth =>
    have : pre.filter isRealEntry = [] := by
      rw [List.filter_eq_nil_iff]
      intro a ha
      rw [h a ha]; simp
    simp [reopenLvl, List.filter_append, this]

/-- what is assumed of one subtree: its chains are chains of the table short enough to walk, its
    directories read back as their images on `D`, its files read on `D` as on `d` -/
structure SubOk (X : ImgParams) (g : TGeom) (fuel : Nat) (m : CMap) (D d : Dev)
    (owners : List (List Nat)) (jobs : List (List Nat × Bytes)) (files : List (List Nat)) : Prop where
  chains : ∀ o ∈ owners, ChainOk g.f.kind g.f.lim m o ∧ o.length ≤ fuel
  dirs : ∀ j ∈ jobs, chainBytes D g.f.io j.1 = j.2
  files : ∀ o ∈ files, chainBytes D g.f.io o = chainBytes d g.f.io o

mutual
theorem reopen_node (hX : ImgParamsOk X g) (hg : TGeomOk g) (t : TNode) (par depth : Nat) (hpar : par < 4294967296)
    (hd : t.depth ≤ depth + 1) (hok : t.ImgOk X g)
    (h : SubOk X g fuel m D d t.owners (t.jobs X g.f.io.bpc par) t.fileOwners) :
    reopenNode g.f.kind g.f.max fuel m D g.f.io (reopenLvl g.f.kind g.f.max fuel m D g.f.io depth) (entOf X t)
      = t.abs d g.f.io := by
  cases t with
  | file n c sz =>
    rw [imgOk_file] at hok
    obtain ⟨hch, hlen⟩ := h.chains c (by rw [owners_file]; exact List.mem_cons_self)
    have hw := walk_complete (fuel := fuel) hg.lim hg.max hch hlen
    have hwc : walk g.f.kind g.f.max m fuel (entOf X (.file n c sz)).cluster = .ok c := hw
    have hdir : (entOf X (.file n c sz)).isDir = false := (mkEnt_isDir hok.1 _ _).1
    have hname : entryName (entOf X (.file n c sz)) = n := mkEnt_name hok.1 _ _ _
    have hsize : (entOf X (.file n c sz)).size = sz := rfl
    simp only [reopenNode, hwc, hdir, hname, hsize, abs_file]
    unfold fileContent
    rw [h.files c (by rw [fileOwners_file]; exact List.mem_cons_self)]
    simp
  | dir n c ks =>
    rw [imgOk_dir] at hok
    rw [depth_dir] at hd
    obtain ⟨hch, hlen⟩ := h.chains c (by rw [owners_dir]; exact List.mem_cons_self)
    have hw := walk_complete (fuel := fuel) hg.lim hg.max hch hlen
    have hwc : walk g.f.kind g.f.max m fuel (entOf X (.dir n c ks)).cluster = .ok c := hw
    have hdir : (entOf X (.dir n c ks)).isDir = true := (mkEnt_isDir hok.1 _ _).2
    have hname : entryName (entOf X (.dir n c ks)) = n := mkEnt_name hok.1 _ _ _
    have hhead := chainOk_head hch
    have hh32 : c.headD 0 < 4294967296 := Nat.lt_of_lt_of_le hhead.2 hX.lim32
    have hjob := h.dirs (c, serDir g.f.io.bpc (dots X (c.headD 0) par ++ ks.map (entOf X)))
      (by rw [jobs_dir]; exact List.mem_cons_self)
    simp only at hjob
    have hsub : SubOk X g fuel m D d (kidsOwners ks) (kidsJobs X g.f.io.bpc (c.headD 0) ks) (kidsFileOwners ks) :=
      ⟨fun o ho => h.chains o (by rw [owners_dir]; exact List.mem_cons_of_mem _ ho),
       fun j hj => h.dirs j (by rw [jobs_dir]; exact List.mem_cons_of_mem _ hj),
       fun o ho => h.files o (by rw [fileOwners_dir]; exact ho)⟩
    have hwfall : ∀ e ∈ dots X (c.headD 0) par ++ ks.map (entOf X), e.WF := by
      intro e he
      rcases List.mem_append.1 he with he | he
      · exact dots_wf hX.dot _ _ hh32 hpar e he
      · obtain ⟨t, ht, rfl⟩ := List.mem_map.1 he
        have htok := (kidsImgOk_iff X g ks).1 hok.2 t ht
        have hto : t.owners ⊆ kidsOwners ks := by
          intro o ho
          obtain ⟨pre, post, rfl⟩ := List.append_of_mem ht
          rw [kidsOwners_append, kidsOwners_cons]
          exact List.mem_append_right _ (List.mem_append_left _ ho)
        cases t with
        | file n' c' sz' =>
          rw [imgOk_file] at htok
          have := (hsub.chains c' (hto (by rw [owners_file]; exact List.mem_cons_self))).1
          exact mkEnt_wf htok.1 0 _ _ (Or.inl rfl) (Nat.lt_of_lt_of_le (chainOk_head this).2 hX.lim32) htok.2
        | dir n' c' ks' =>
          rw [imgOk_dir] at htok
          have := (hsub.chains c' (hto (by rw [owners_dir]; exact List.mem_cons_self))).1
          exact mkEnt_wf htok.1 16 _ _ (Or.inr rfl) (Nat.lt_of_lt_of_le (chainOk_head this).2 hX.lim32) (by decide)
    simp only [reopenNode, hwc, hdir, hname, if_true, abs_dir, hjob]
    rw [dir_parse_ser _ _ hwfall hg.bpc, reopenLvl_skip _ _ _ (dots_skip X _ _),
      reopen_kids hX hg ks (c.headD 0) depth hh32 (by omega) hok.2 hsub]
theorem reopen_kids (hX : ImgParamsOk X g) (hg : TGeomOk g) (ks : List TNode) (par depth : Nat) (hpar : par < 4294967296)
    (hd : kidsDepth ks ≤ depth) (hok : kidsImgOk X g ks)
    (h : SubOk X g fuel m D d (kidsOwners ks) (kidsJobs X g.f.io.bpc par ks) (kidsFileOwners ks)) :
    reopenLvl g.f.kind g.f.max fuel m D g.f.io depth (ks.map (entOf X)) = kidsAbs d g.f.io ks := by
  cases ks with
  | nil =>
    rw [kidsAbs_nil]
    cases depth <;> simp [reopenLvl]
  | cons t ks =>
    rw [kidsDepth_cons] at hd
    have hd' : max t.depth (kidsDepth ks) ≤ depth := hd
    have := depth_pos t
    obtain ⟨depth', rfl⟩ : ∃ k, depth = k + 1 := ⟨depth - 1, by omega⟩
    rw [kidsImgOk_cons] at hok
    have hreal : isRealEntry (entOf X t) = true := by
      cases t with
      | file n c sz => exact mkEnt_real ((imgOk_file X g n c sz).1 hok.1).1 0 _ _ (Or.inl rfl)
      | dir n c ks' => exact mkEnt_real ((imgOk_dir X g n c ks').1 hok.1).1 16 _ _ (Or.inr rfl)
    rw [List.map_cons, reopenLvl_cons_real _ _ _ hreal, kidsAbs_cons]
    have h1 : SubOk X g fuel m D d t.owners (t.jobs X g.f.io.bpc par) t.fileOwners :=
      ⟨fun o ho => h.chains o (by rw [kidsOwners_cons]; exact List.mem_append_left _ ho),
       fun j hj => h.dirs j (by rw [kidsJobs_cons]; exact List.mem_append_left _ hj),
       fun o ho => h.files o (by rw [kidsFileOwners_cons]; exact List.mem_append_left _ ho)⟩
    have h2 : SubOk X g fuel m D d (kidsOwners ks) (kidsJobs X g.f.io.bpc par ks) (kidsFileOwners ks) :=
      ⟨fun o ho => h.chains o (by rw [kidsOwners_cons]; exact List.mem_append_right _ ho),
       fun j hj => h.dirs j (by rw [kidsJobs_cons]; exact List.mem_append_right _ hj),
       fun o ho => h.files o (by rw [kidsFileOwners_cons]; exact List.mem_append_right _ ho)⟩
    rw [reopen_node hX hg t par depth' hpar (by omega) hok.1 h1,
      reopen_kids hX hg ks par (depth' + 1) hpar (by omega) hok.2 h2]
end

end reopen

/-! ### the image of a volume that meets the invariants -/

theorem inv_chain_fuel {k lim m fuel} {O : List (List Nat)} (h : Inv k lim m O) (hfuel : lim - 2 ≤ fuel) :
    ∀ o ∈ O, ChainOk k lim m o ∧ o.length ≤ fuel := by
  intro o ho
  have hp : Inv k lim m (o :: O.erase o) := inv_perm (List.perm_cons_erase ho) h
  exact ⟨h.chains o ho, Nat.le_trans (chain_length_le hp) hfuel⟩

theorem kids_ent_wf {X : ImgParams} {g : TGeom} {m : CMap} (hX : ImgParamsOk X g) (ks : List TNode)
    (hok : kidsImgOk X g ks) (hch : ∀ o ∈ kidsOwners ks, ChainOk g.f.kind g.f.lim m o) :
    ∀ e ∈ ks.map (entOf X), e.WF := by
  intro e he
  obtain ⟨t, ht, rfl⟩ := List.mem_map.1 he
  have htok := (kidsImgOk_iff X g ks).1 hok t ht
  have hto : t.owners ⊆ kidsOwners ks := by
    intro o ho
    obtain ⟨pre, post, rfl⟩ := List.append_of_mem ht
    rw [kidsOwners_append, kidsOwners_cons]
    exact List.mem_append_right _ (List.mem_append_left _ ho)
  cases t with
  | file n' c' sz' =>
    rw [imgOk_file] at htok
    have := hch c' (hto (by rw [owners_file]; exact List.mem_cons_self))
    exact mkEnt_wf htok.1 0 _ _ (Or.inl rfl) (Nat.lt_of_lt_of_le (chainOk_head this).2 hX.lim32) htok.2
  | dir n' c' ks' =>
    rw [imgOk_dir] at htok
    have := hch c' (hto (by rw [owners_dir]; exact List.mem_cons_self))
    exact mkEnt_wf htok.1 16 _ _ (Or.inr rfl) (Nat.lt_of_lt_of_le (chainOk_head this).2 hX.lim32) (by decide)

mutual
theorem node_jobs_len {X : ImgParams} {g : TGeom} (hb : 0 < g.f.io.bpc) (t : TNode) (par : Nat)
    (hfit : t.Fit g) (hok : t.ImgOk X g) :
    ∀ j ∈ t.jobs X g.f.io.bpc par, j.2.length = j.1.length * g.f.io.bpc := by
  cases t with
  | file n c sz => rw [jobs_file]; intro j hj; cases hj
  | dir n c ks =>
    rw [fit_dir] at hfit
    rw [imgOk_dir] at hok
    rw [jobs_dir]
    intro j hj
    rcases List.mem_cons.1 hj with rfl | hj
    · exact level_image_length hb (dots_slots X _ _).symm hok.2 hfit.2.1 hfit.1
    · exact kids_jobs_len hb ks _ hfit.2.2 hok.2 j hj
theorem kids_jobs_len {X : ImgParams} {g : TGeom} (hb : 0 < g.f.io.bpc) (ks : List TNode) (par : Nat)
    (hfit : kidsFit g ks) (hok : kidsImgOk X g ks) :
    ∀ j ∈ kidsJobs X g.f.io.bpc par ks, j.2.length = j.1.length * g.f.io.bpc := by
  cases ks with
  | nil => rw [kidsJobs_nil]; intro j hj; cases hj
  | cons t ks =>
    rw [kidsFit] at hfit
    rw [kidsImgOk_cons] at hok
    rw [kidsJobs_cons]
    intro j hj
    rcases List.mem_append.1 hj with hj | hj
    · exact node_jobs_len hb t par hfit.1 hok.1 j hj
    · exact kids_jobs_len hb ks par hfit.2 hok.2 j hj
end

theorem rootJobs_chains (X : ImgParams) (g : TGeom) (s : DirSt) :
    (rootJobs X g s).map (·.1) = chainOwner s.chain ++ (kidsJobs X g.f.io.bpc (rootParOf X s) s.kids).map (·.1) := by
  unfold rootJobs
  rw [List.map_append, List.map_map]
  congr 1
  exact List.map_id' _

theorem fixedImg_length {cap : Nat} {es : List DirEntry} (h : slotCount es ≤ cap) :
    (fixedImg cap es).length = 32 * cap := by
  unfold fixedImg
  simp only
  rw [List.length_append, zeros_length, serEntries_length]
  omega

/-- **what the image holds**: every directory's chain reads as the serialisation of its child
    list (behind the volume label, resp. "." and ".."), the fixed root region of FAT12/16 as the
    fixed-size serialisation, and every file's chain as on the model's device. -/
theorem image_facts {eqn : Spec.Name → Spec.Name → Bool} {X : ImgParams} {g : TGeom} {fuel : Nat} {s : DirSt}
    (hX : ImgParamsOk X g) (hg : TGeomOk g) (hfuel : g.f.lim - 2 ≤ fuel)
    (h : TInv eqn g s) (hfit : TFit g s) (hok : kidsImgOk X g s.kids) :
    (∀ j ∈ rootJobs X g s, chainBytes (image X g s) g.f.io j.1 = j.2) ∧
    (∀ o ∈ kidsFileOwners s.kids, chainBytes (image X g s) g.f.io o = chainBytes s.d g.f.io o) ∧
    (s.chain = [] → readAt (image X g s) g.rootOff (32 * g.rootCap) = fixedImg g.rootCap (rootEntries X s)) := by
  have hInv := h.table
  have hcf := inv_chain_fuel hInv hfuel
  -- owners = directory chains + file chains
  have hperm : List.Perm (chainOwner s.chain ++ kidsOwners s.kids)
      ((rootJobs X g s).map (·.1) ++ kidsFileOwners s.kids) := by
    rw [rootJobs_chains, List.append_assoc]
    exact List.Perm.append_left _ (kids_owners_perm X g.f.io.bpc (rootParOf X s) s.kids)
  have hnd : (((rootJobs X g s).map (·.1)).flatten ++ (kidsFileOwners s.kids).flatten).Nodup := by
    rw [← List.flatten_append]
    exact hperm.flatten.nodup_iff.1 hInv.nodup
  obtain ⟨hndj, _, hdisj⟩ := List.nodup_append.1 hnd
  have hmemO : ∀ o, o ∈ (rootJobs X g s).map (·.1) ++ kidsFileOwners s.kids →
      o ∈ chainOwner s.chain ++ kidsOwners s.kids := fun o ho => hperm.mem_iff.2 ho
  have h2j : ∀ c ∈ ((rootJobs X g s).map (·.1)).flatten, 2 ≤ c := by
    intro c hc
    obtain ⟨o, ho, hco⟩ := List.mem_flatten.1 hc
    exact inv_ge2 hInv (hmemO o (List.mem_append_left _ ho)) c hco
  have hlenj : ∀ j ∈ rootJobs X g s, j.2.length = j.1.length * g.f.io.bpc := by
    intro j hj
    unfold rootJobs at hj
    rcases List.mem_append.1 hj with hj | hj
    · obtain ⟨c, hc, rfl⟩ := List.mem_map.1 hj
      have hne : s.chain ≠ [] := by intro e; rw [e] at hc; cases hc
      rw [chainOwner_of_ne hne, List.mem_singleton] at hc
      subst hc
      exact level_image_length hg.bpc hX.pre_slots hok hfit.root hne
    · exact kids_jobs_len hg.bpc s.kids _ hfit.kids hok j hj
  have hdirs := jobs_bytes g.f.io hg.bpc (rootJobs X g s) (applyWrs s.d (rootWrs X g s)) hndj h2j hlenj
  -- the fixed root region lies in front of every cluster
  have hrootslots : s.chain = [] → slotCount (rootEntries X s) ≤ g.rootCap := by
    intro e
    have := hfit.root.1 e
    unfold rootEntries
    rw [slotCount_append, slotCount_kids hok]
    unfold dirSlots at this
    rw [hX.pre_slots] at this
    exact this
  have hfiles : ∀ o ∈ kidsFileOwners s.kids, chainBytes (image X g s) g.f.io o = chainBytes s.d g.f.io o := by
    intro o ho
    have ho2 : ∀ c ∈ o, 2 ≤ c := inv_ge2 hInv (hmemO o (List.mem_append_right _ ho))
    unfold image
    rw [jobs_other g.f.io _ _ h2j o ho2 (fun c hc hc' => hdisj c hc' c (List.mem_flatten.2 ⟨o, ho, hc⟩) rfl)]
    unfold rootWrs
    split
    · rename_i e
      apply frame_below
      simp only
      rw [fixedImg_length (hrootslots e)]
      exact hg.root
    · rfl
  refine ⟨hdirs, hfiles, fun hc => ?_⟩
  have hlen := fixedImg_length (hrootslots hc)
  have h1 : readAt (image X g s) g.rootOff (32 * g.rootCap)
      = readAt (applyWrs s.d (rootWrs X g s)) g.rootOff (32 * g.rootCap) := by
    apply readAt_congr
    intro i hi1 hi2
    unfold image
    apply applyWrs_frame
    intro w hw
    rcases jobWrs_in g.f.io _ w hw with h0 | ⟨c, hc', hin⟩
    · omega
    · have hc2 := h2j c hc'
      have hroot := hg.root
      have : g.f.io.start + g.f.io.dataStart ≤ clusterOff g.f.io c := by unfold clusterOff; omega
      left
      exact Nat.lt_of_lt_of_le hi2 (Nat.le_trans hroot (Nat.le_trans this hin.1))
  rw [h1]
  unfold rootWrs
  rw [hc]
  simp only [applyWrs, List.foldl_cons, List.foldl_nil]
  have := readAt_applyWr_same s.d ⟨g.rootOff, fixedImg g.rootCap (rootEntries X s)⟩
  simp only [hlen] at this
  exact this

/-- **re-opening**: a reader that is given only the table and the bytes of the volume — the root
    directory's bytes parsed into entries, volume label, "." and ".." skipped, every entry's chain
    followed through the table from its first cluster, directories parsed in turn, files cut to
    their recorded size — builds exactly the tree the model's abstraction `tabs` reads. -/
theorem reopen_image {eqn : Spec.Name → Spec.Name → Bool} {X : ImgParams} {g : TGeom} {fuel depth : Nat} {s : DirSt}
    (hX : ImgParamsOk X g) (hg : TGeomOk g) (hfuel : g.f.lim - 2 ≤ fuel)
    (h : TInv eqn g s) (hfit : TFit g s) (hok : kidsImgOk X g s.kids) (hd : kidsDepth s.kids ≤ depth) :
    reopen g fuel depth s.m (image X g s) (s.chain.headD 0) = tabs g s := by
  have hInv := h.table
  have hcf := inv_chain_fuel hInv hfuel
  obtain ⟨hdirs, hfiles, hfixed⟩ := image_facts hX hg hfuel h hfit hok
  have hsub : SubOk X g fuel s.m (image X g s) s.d (kidsOwners s.kids)
      (kidsJobs X g.f.io.bpc (rootParOf X s) s.kids) (kidsFileOwners s.kids) :=
    ⟨fun o ho => hcf o (List.mem_append_right _ ho),
     fun j hj => hdirs j (by unfold rootJobs; exact List.mem_append_right _ hj),
     hfiles⟩
  have hkids := reopen_kids hX hg s.kids (rootParOf X s) depth hX.par hd hok hsub
  have hwfall : ∀ e ∈ rootEntries X s, e.WF := by
    intro e he
    unfold rootEntries at he
    rcases List.mem_append.1 he with he | he
    · exact hX.pre_wf e he
    · exact kids_ent_wf hX s.kids hok (fun o ho => (hcf o (List.mem_append_right _ ho)).1) e he
  unfold reopen tabs
  rw [← hkids]
  cases hc : s.chain with
  | nil =>
    have hread : rootBytes g fuel s.m (image X g s) ((([] : List Nat)).headD 0) = fixedImg g.rootCap (rootEntries X s) := by
      unfold rootBytes
      rw [if_pos (by rfl)]
      exact hfixed hc
    rw [hread, parseDir_fixedImg _ _ hwfall]
    unfold rootEntries
    rw [reopenLvl_skip _ _ _ hX.pre_skip]
  | cons c cs =>
    have hmem : (c :: cs) ∈ chainOwner s.chain ++ kidsOwners s.kids := by
      rw [hc, chainOwner_cons]; exact List.mem_append_left _ List.mem_cons_self
    obtain ⟨hch, hlen⟩ := hcf _ hmem
    have hw := walk_complete (fuel := fuel) hg.lim hg.max hch hlen
    have hc2 : 2 ≤ c := (chainOk_head hch).1
    have hjob := hdirs (c :: cs, serDir g.f.io.bpc (rootEntries X s)) (by
      unfold rootJobs
      rw [hc, chainOwner_cons]
      exact List.mem_append_left _ List.mem_cons_self)
    have hread : rootBytes g fuel s.m (image X g s) ((c :: cs).headD 0) = serDir g.f.io.bpc (rootEntries X s) := by
      unfold rootBytes
      rw [if_neg (by simp only [List.headD_cons]; omega), hw]
      exact hjob
    rw [hread, dir_parse_ser _ _ hwfall hg.bpc]
    unfold rootEntries
    rw [reopenLvl_skip _ _ _ hX.pre_skip]

end Diskfs.Fat
