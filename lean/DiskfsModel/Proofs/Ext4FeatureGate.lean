/-
  C20 helper lemmas: the feature gate of ext4.Read as a decision table (Model/Ext4/FeatureGate.lean).
-/
import DiskfsModel.Model.Ext4.FeatureGate
namespace Diskfs.Ext4.Reader
open Diskfs.Generated

/-- a listed bit that is set makes the open fail, whatever else the word holds -/
theorem gate_table_refuses (t : GateTbl) (word b : Nat) (hb : b ∈ t.refused) (hs : hasBit word b = true) :
    gateAcceptsT t word = false := by
  unfold gateAcceptsT
  have : t.refused.all (fun b => !hasBit word b) = false := by
    rw [List.all_eq_false]
    exact ⟨b, hb, by simp [hs]⟩
  simp [this]

theorem gate_table_requires (t : GateTbl) (word b : Nat) (hb : b ∈ t.required) (hs : hasBit word b = false) :
    gateAcceptsT t word = false := by
  unfold gateAcceptsT
  have : t.required.all (fun b => hasBit word b) = false := by
    rw [List.all_eq_false]
    exact ⟨b, hb, by simp [hs]⟩
  simp [this]

/-- the clause a complete gate satisfies: if the table refuses every single-bit position outside the supported
    set, then an image whose INCOMPAT word has ANY bit outside the supported set is refused -/
theorem gate_refuses_outside_supported (t : GateTbl) (hcover : gateUncovered t = []) (word k : Nat) (hk : k < 32)
    (hbit : hasBit word (2 ^ k) = true) (hns : supportedIncompat.contains (2 ^ k) = false) :
    gateAcceptsT t word = false := by
  apply gate_table_refuses t word (2 ^ k) _ hbit
  unfold gateUncovered at hcover
  have := List.filter_eq_nil_iff.1 hcover k (List.mem_range.2 hk)
  simp only [hns, Bool.not_false, Bool.true_and, Bool.not_eq_true', Bool.not_eq_false] at this
  simpa using this

end Diskfs.Ext4.Reader
