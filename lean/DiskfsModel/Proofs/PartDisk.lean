/-
  C13, disk level: helper lemmas about Model/PartDisk.lean (Disk.GetPartition, the start/end/size switch of
  gpt WriteContents, Disk.WritePartitionContents / ReadPartitionContents, sync.CopyPartitionRaw).
  Property theorems are in Props/C13.lean.
-/
import DiskfsModel.Model.PartDisk
import DiskfsModel.Proofs.PartIO
set_option linter.unusedSimpArgs false
set_option linter.unusedVariables false
namespace Diskfs.PartDisk
open Diskfs Diskfs.PartIO

/-! ### Disk.GetPartition -/

/-- the partition picked is the FIRST one of the table that carries the index -/
theorem getPartition_some (ps : List P) (idx : Int) (p : P) (h : getPartition ps idx = some p) :
    p.index = idx ∧ ∃ pre post, ps = pre ++ p :: post ∧ ∀ q ∈ pre, q.index ≠ idx := by
  unfold getPartition at h
  rw [List.find?_eq_some_iff_append] at h
  obtain ⟨hp, pre, post, hps, hpre⟩ := h
  refine ⟨by simpa using hp, pre, post, hps, ?_⟩
  intro q hq
  have := hpre q hq
  simpa using this

/-- no partition is picked exactly when no entry of the table carries the index (index 0 with a table
    numbered from 1, an index past the last slot, an unused sparse GPT slot, a negative index) -/
theorem getPartition_none (ps : List P) (idx : Int) :
    getPartition ps idx = none ↔ ∀ q ∈ ps, q.index ≠ idx := by
  unfold getPartition
  rw [List.find?_eq_none]
  constructor
  · intro h q hq; simpa using h q hq
  · intro h q hq; simpa using h q hq

theorem getPartition_mem (ps : List P) (idx : Int) (p : P) (h : getPartition ps idx = some p) : p ∈ ps := by
  obtain ⟨_, pre, post, hps, _⟩ := getPartition_some ps idx p h
  rw [hps]; simp

/-- with pairwise different indices the lookup finds THE partition with that index -/
theorem getPartition_unique (ps : List P) (idx : Int) (p : P) (hp : p ∈ ps) (hi : p.index = idx)
    (huniq : ∀ a ∈ ps, ∀ b ∈ ps, a.index = b.index → a = b) : getPartition ps idx = some p := by
  cases h : getPartition ps idx with
  | none => exact absurd hi ((getPartition_none ps idx).1 h p hp)
  | some q =>
    have hq := getPartition_some ps idx q h
    have hm := getPartition_mem ps idx q h
    rw [huniq q hm p hp (by rw [hq.1, hi])]

/-! ### sector sizes -/

theorem lssOf_pos (p : P) : 0 < p.lssOf := by
  unfold P.lssOf; split <;> omega

theorem pssOf_pos (p : P) : 0 < p.pssOf := by
  unfold P.pssOf; split <;> omega

/-! ### the start/end/size switch -/

theorem byteSize_gpt (p : P) (hk : p.kind = .gpt) : p.byteSize = p.size := by
  unfold P.byteSize; rw [hk]

/-- what WriteContents leaves of the partition: kind, index, start and both sector sizes are kept, hence the
    byte start; the byte size is the entry's own Size when that is set, else the one computed from End -/
theorem reconcile_spec (p p' : P) (h : reconcile p = some p') :
    p'.kind = p.kind ∧ p'.index = p.index ∧ p'.start = p.start ∧ p'.lss = p.lss ∧ p'.pss = p.pss ∧
    p'.byteStart = p.byteStart ∧
    (p.kind = .mbr → p' = p) ∧
    (p.kind = .gpt → (0 < p.size ∧ p'.byteSize = p.size) ∨
                      (p.size = 0 ∧ p.start ≤ p.end_ ∧ p'.byteSize = calcSize p)) := by
  unfold reconcile at h
  cases hk : p.kind with
  | mbr =>
    simp only [hk] at h
    cases h
    refine ⟨hk, rfl, rfl, rfl, rfl, rfl, fun _ => rfl, ?_⟩
    intro h2; cases h2
  | gpt =>
    simp only [hk] at h
    split at h
    · rename_i h1
      cases h
      refine ⟨hk, rfl, rfl, rfl, rfl, rfl, (fun h2 => by cases h2), ?_⟩
      intro _; left; exact ⟨h1.1, byteSize_gpt p hk⟩
    · split at h
      · rename_i h1 h2
        cases h
        refine ⟨rfl, rfl, rfl, rfl, rfl, rfl, (fun h2 => by cases h2), ?_⟩
        intro _; right; exact ⟨h2.1, h2.2, byteSize_gpt _ rfl⟩
      · split at h
        · rename_i h1 h2 h3
          cases h
          refine ⟨rfl, rfl, rfl, rfl, rfl, rfl, (fun h2 => by cases h2), ?_⟩
          intro _; left; exact ⟨h3.1, byteSize_gpt _ rfl⟩
        · cases h

/-- without a 64-bit wrap the computed size is the sector count times the sector size -/
theorem calcSize_exact (p : P) (h1 : p.start ≤ p.end_) (h2 : p.end_ < two64)
    (h3 : (p.end_ - p.start + 1) * p.lssOf < two64) : calcSize p = (p.end_ - p.start + 1) * p.lssOf := by
  unfold calcSize
  have hl := lssOf_pos p
  have hle : p.end_ - p.start + 1 ≤ (p.end_ - p.start + 1) * p.lssOf := Nat.le_mul_of_pos_right _ hl
  have e : (p.end_ + two64 - p.start + 1) % two64 = p.end_ - p.start + 1 := by
    have : p.end_ + two64 - p.start + 1 = (p.end_ - p.start + 1) + two64 := by omega
    rw [this, Nat.add_mod_right, Nat.mod_eq_of_lt (by omega)]
  rw [e, Nat.mod_eq_of_lt h3]

/-- a partition read back from disk (Size = (End-Start+1)*lss, no wrap) passes the switch unchanged -/
theorem reconcile_consistent (p : P) (hk : p.kind = .gpt) (h1 : p.start ≤ p.end_) (h2 : p.end_ < two64)
    (h3 : (p.end_ - p.start + 1) * p.lssOf < two64) (hs : p.size = (p.end_ - p.start + 1) * p.lssOf) :
    reconcile p = some p := by
  have hc := calcSize_exact p h1 h2 h3
  have hl := lssOf_pos p
  have hpos : 0 < p.size := by rw [hs]; exact Nat.mul_pos (by omega) hl
  unfold reconcile
  simp only [hk]
  rw [if_pos ⟨hpos, by rw [hc, hs]⟩]

/-! ### Disk.WritePartitionContents -/

theorem diskWrite_noTable (idx : Int) (chunks : List Bytes) : (diskWrite none idx chunks).ws = [] := rfl

theorem diskWrite_badIndex (ps : List P) (idx : Int) (chunks : List Bytes) (h : getPartition ps idx = none) :
    (diskWrite (some ps) idx chunks).ws = [] := by
  simp [diskWrite, h, DW.ws]

theorem diskWrite_unreconciled (ps : List P) (idx : Int) (chunks : List Bytes) (p : P)
    (h : getPartition ps idx = some p) (hr : reconcile p = none) : (diskWrite (some ps) idx chunks).ws = [] := by
  simp [diskWrite, h, partWrite, hr, DW.ws]

theorem diskWrite_done (ps : List P) (idx : Int) (chunks : List Bytes) (p p' : P)
    (h : getPartition ps idx = some p) (hr : reconcile p = some p') :
    diskWrite (some ps) idx chunks = .done (writeContents p'.byteStart p'.byteSize chunks) := by
  simp [diskWrite, h, partWrite, hr]

/-- whatever the table, the index and the reader: a WriteAt is issued only when the index names a partition,
    and then it lies inside the byte range of the FIRST partition with that index -/
theorem diskWrite_in_partition (tbl : Option (List P)) (idx : Int) (chunks : List Bytes) (w : Wr)
    (hw : w ∈ (diskWrite tbl idx chunks).ws) :
    ∃ ps p p', tbl = some ps ∧ getPartition ps idx = some p ∧ reconcile p = some p' ∧
      p.byteStart ≤ w.off ∧ w.off + w.data.length ≤ p.byteStart + p'.byteSize := by
  cases tbl with
  | none => simp [diskWrite, DW.ws] at hw
  | some ps =>
    cases hg : getPartition ps idx with
    | none => rw [diskWrite_badIndex ps idx chunks hg] at hw; simp at hw
    | some p =>
      cases hr : reconcile p with
      | none => rw [diskWrite_unreconciled ps idx chunks p hg hr] at hw; simp at hw
      | some p' =>
        rw [diskWrite_done ps idx chunks p p' hg hr] at hw
        simp only [DW.ws] at hw
        have hin := writeLoop_in_range p'.byteStart p'.byteSize chunks 0 [] (by simp) w hw
        have hb := (reconcile_spec p p' hr).2.2.2.2.2.1
        refine ⟨ps, p, p', rfl, hg, hr, ?_, ?_⟩
        · rw [← hb]; exact hin.1
        · rw [← hb]; exact hin.2

/-! ### ReadContents -/

theorem oneChunk_false_of_size (p : P) (h : p.kind = .gpt → 0 < p.size) : p.oneChunk = false := by
  unfold P.oneChunk
  cases hk : p.kind with
  | mbr => simp
  | gpt =>
    have := h hk
    have : p.size ≠ 0 := by omega
    simp [this]

/-- the pieces handed to the writer, concatenated, are what remains of the partition -/
theorem readReqs_chunks (d : Dev) (devSize start size pss : Nat) (hdev : start + size ≤ devSize) (hpss : 0 < pss) :
    ∀ (k total : Nat) (acc : List (Nat × Nat)), size - total ≤ k → total ≤ size →
      ((readReqs devSize start size pss total acc).map fun r => readAt d r.1 (min r.2 (devSize - r.1))).flatten =
      (acc.map fun r => readAt d r.1 (min r.2 (devSize - r.1))).flatten ++ readAt d (start + total) (size - total) := by
  intro k
  induction k with
  | zero =>
    intro total acc hk ht
    have h1 : total = size := by omega
    unfold readReqs
    simp [h1, readAt]
  | succ k ih =>
    intro total acc hk ht
    unfold readReqs
    simp only
    have hn : min (min pss (size - total)) (devSize - (start + total)) = min pss (size - total) := by omega
    rw [hn]
    by_cases hdone : total + min pss (size - total) ≥ size
    · have h3 : min pss (size - total) = size - total := by omega
      have h4 : min (size - total) (devSize - (start + total)) = size - total := by omega
      rw [if_pos (Or.inr (Or.inl hdone))]
      simp [h3, h4]
    · have hne : ¬ (min pss (size - total) < min pss (size - total) ∨ total + min pss (size - total) ≥ size ∨ min pss (size - total) = 0) := by
        omega
      rw [if_neg hne]
      rw [ih (total + min pss (size - total)) (acc ++ [(start + total, min pss (size - total))]) (by omega) (by omega)]
      have h4 : min (min pss (size - total)) (devSize - (start + total)) = min pss (size - total) := by omega
      have hsplit : size - total = min pss (size - total) + (size - (total + min pss (size - total))) := by omega
      conv => rhs; rw [hsplit, readAt_append]
      simp [h4, Nat.add_assoc]

/-- inside the device, a partition that is not the Size = 0 case reads as exactly its byte range -/
theorem partRead_exact (d : Dev) (devSize : Nat) (p : P) (h1 : p.oneChunk = false)
    (hdev : p.byteStart + p.byteSize ≤ devSize) :
    partRead d devSize p = (readAt d p.byteStart p.byteSize, p.byteSize) := by
  unfold partRead
  simp only [h1, Bool.false_eq_true, if_false]
  have := readLoop_spec d devSize p.byteStart p.byteSize p.pssOf 0 [] hdev (pssOf_pos p) (Nat.zero_le _)
  simpa [readContents] using this

theorem partReadChunks_flatten (d : Dev) (devSize : Nat) (p : P) (h1 : p.oneChunk = false)
    (hdev : p.byteStart + p.byteSize ≤ devSize) :
    (partReadChunks d devSize p).flatten = readAt d p.byteStart p.byteSize := by
  unfold partReadChunks partReadReqs
  simp only [h1, Bool.false_eq_true, if_false]
  have := readReqs_chunks d devSize p.byteStart p.byteSize p.pssOf hdev (pssOf_pos p) p.byteSize 0 [] (by omega) (by omega)
  simpa using this

theorem partReadReqs_inside (devSize : Nat) (p : P) (h1 : p.oneChunk = false)
    (hdev : p.byteStart + p.byteSize ≤ devSize) :
    (∀ r ∈ partReadReqs devSize p, p.byteStart ≤ r.1 ∧ r.1 + r.2 ≤ p.byteStart + p.byteSize ∧ r.2 ≤ p.pssOf) ∧
    ((partReadReqs devSize p).map (·.2)).sum = p.byteSize := by
  unfold partReadReqs
  simp only [h1, Bool.false_eq_true, if_false]
  obtain ⟨ext, he, hin, hsum⟩ :=
    readReqs_spec_aux devSize p.byteStart p.byteSize p.pssOf hdev (pssOf_pos p) p.byteSize 0 [] (by omega) (by omega)
  rw [he]
  constructor
  · intro r hr
    have := hin r (by simpa using hr)
    omega
  · simpa using hsum

/-! ### CopyPartitionRaw -/

theorem splitEvery_flatten (n : Nat) (hn : 0 < n) : ∀ (k : Nat) (c : Bytes), c.length ≤ k → (splitEvery n c).flatten = c := by
  intro k
  induction k with
  | zero =>
    intro c hc
    have : c = [] := List.eq_nil_of_length_eq_zero (by omega)
    subst this
    rw [splitEvery]; simp
  | succ k ih =>
    intro c hc
    rw [splitEvery]
    by_cases h0 : c.length = 0
    · have : c = [] := List.eq_nil_of_length_eq_zero h0
      subst this; simp
    · have hne : ¬ (n = 0 ∨ c.length = 0) := by omega
      rw [if_neg hne]
      simp only [List.flatten_cons]
      rw [ih (c.drop n) (by simp only [List.length_drop]; omega)]
      exact List.take_append_drop n c

theorem flatMap_splitEvery_flatten (n : Nat) (hn : 0 < n) (cs : List Bytes) :
    (cs.flatMap (splitEvery n)).flatten = cs.flatten := by
  induction cs with
  | nil => rfl
  | cons c cs ih =>
    simp only [List.flatMap_cons, List.flatten_append, List.flatten_cons, ih]
    rw [splitEvery_flatten n hn c.length c (Nat.le_refl _)]

theorem sum_length_eq (cs : List Bytes) : (cs.map List.length).sum = cs.flatten.length := by
  rw [List.length_flatten]

/-- while the supplied bytes fit, the loop consumes all of them -/
theorem writeLoop_total_le (start size : Nat) (cs : List Bytes) (total : Nat) (ws : List Wr)
    (h : total + (cs.map List.length).sum ≤ size) :
    (writeLoop start size cs total ws).total = total + (cs.map List.length).sum := by
  induction cs generalizing total ws with
  | nil => simp [writeLoop]
  | cons c cs ih =>
    simp only [List.map_cons, List.sum_cons] at h ⊢
    unfold writeLoop
    have hc : ¬ (c.length + total > size) := by omega
    rw [if_neg hc]
    split
    · rw [ih _ _ (by omega)]; omega
    · rename_i hp
      rw [ih _ _ (by omega)]; omega

theorem readAt_take (d : Dev) (off m n : Nat) (h : n ≤ m) : (readAt d off m).take n = readAt d off n := by
  have : m = n + (m - n) := by omega
  rw [this, readAt_append, List.take_left' (by simp)]

theorem readAt_congr (d1 d2 : Dev) (off len : Nat) (h : ∀ i, off ≤ i → i < off + len → d1 i = d2 i) :
    readAt d1 off len = readAt d2 off len := by
  apply List.ext_getElem
  · simp
  · intro i h1 _
    simp only [readAt_length] at h1
    simp only [readAt, List.getElem_map, List.getElem_range]
    exact h _ (by omega) (by omega)

/-- the WriteAt list of the copy is the one WritePartitionContents(to) produces, whatever else happens -/
theorem copyRaw_ws (d : Dev) (devSize : Nat) (ps : List P) (from_ to : Int) (tp tp' : P)
    (ht : getPartition ps to = some tp) (hr : reconcile tp = some tp') :
    ∃ chunks, (copyRaw d devSize ps from_ to).ws = (writeContents tp'.byteStart tp'.byteSize chunks).ws := by
  cases hs : getPartition ps from_ with
  | none =>
    refine ⟨([] : List Bytes).flatMap (splitEvery tp'.pssOf), ?_⟩
    unfold copyRaw
    simp only [hs, ht, hr]
    split <;> rfl
  | some sp =>
    refine ⟨(partReadChunks d devSize sp).flatMap (splitEvery tp'.pssOf), ?_⟩
    unfold copyRaw
    simp only [hs, ht, hr]
    repeat' split
    all_goals rfl

theorem copyRaw_ws_nil_noTarget (d : Dev) (devSize : Nat) (ps : List P) (from_ to : Int)
    (ht : getPartition ps to = none) : (copyRaw d devSize ps from_ to).ws = [] := by
  unfold copyRaw; simp only [ht]

theorem copyRaw_ws_nil_unreconciled (d : Dev) (devSize : Nat) (ps : List P) (from_ to : Int) (tp : P)
    (ht : getPartition ps to = some tp) (hr : reconcile tp = none) : (copyRaw d devSize ps from_ to).ws = [] := by
  unfold copyRaw; simp only [ht, hr]

/-- every WriteAt of CopyPartitionRaw lies inside the target partition — for every table, every pair of indices,
    every device content and size (source missing, too large, unreadable: all included) -/
theorem copyRaw_in_target (d : Dev) (devSize : Nat) (ps : List P) (from_ to : Int) (w : Wr)
    (hw : w ∈ (copyRaw d devSize ps from_ to).ws) :
    ∃ tp tp', getPartition ps to = some tp ∧ reconcile tp = some tp' ∧
      tp.byteStart ≤ w.off ∧ w.off + w.data.length ≤ tp.byteStart + tp'.byteSize := by
  cases ht : getPartition ps to with
  | none => rw [copyRaw_ws_nil_noTarget d devSize ps from_ to ht] at hw; simp at hw
  | some tp =>
    cases hr : reconcile tp with
    | none => rw [copyRaw_ws_nil_unreconciled d devSize ps from_ to tp ht hr] at hw; simp at hw
    | some tp' =>
      obtain ⟨chunks, hc⟩ := copyRaw_ws d devSize ps from_ to tp tp' ht hr
      rw [hc] at hw
      have hin := writeLoop_in_range tp'.byteStart tp'.byteSize chunks 0 [] (by simp) w hw
      have hb := (reconcile_spec tp tp' hr).2.2.2.2.2.1
      refine ⟨tp, tp', rfl, hr, ?_, ?_⟩
      · rw [← hb]; exact hin.1
      · rw [← hb]; exact hin.2

/-- CopyPartitionRaw is correct whenever it can be: the source partition lies inside the device, the
    (reconciled) target lies inside the device, is at least as large and does not overlap the source.  Then the
    copy reports success, the target's leading bytes are the source partition's bytes (as they were before the
    call), the source partition still holds them, and no byte outside the target partition changed — for every
    device content, every pair of physical sector sizes of the two partitions (the pipe re-cuts the source's
    chunks to the target's chunk size). -/
theorem copyRaw_correct (d : Dev) (devSize : Nat) (ps : List P) (from_ to : Int) (sp tp tp' : P)
    (hs : getPartition ps from_ = some sp) (ht : getPartition ps to = some tp) (hr : reconcile tp = some tp')
    (hne : from_ ≠ to) (hpos : 0 < sp.byteSize)
    (hsdev : sp.byteStart + sp.byteSize ≤ devSize) (htdev : tp.byteStart + tp'.byteSize ≤ devSize)
    (hfit : sp.byteSize ≤ tp'.byteSize)
    (hdisj : sp.byteStart + sp.byteSize ≤ tp.byteStart ∨ tp.byteStart + tp'.byteSize ≤ sp.byteStart) :
    (copyRaw d devSize ps from_ to).out = .ok ∧
    readAt (applyWrs d (copyRaw d devSize ps from_ to).ws) tp.byteStart sp.byteSize = readAt d sp.byteStart sp.byteSize ∧
    readAt (applyWrs d (copyRaw d devSize ps from_ to).ws) sp.byteStart sp.byteSize = readAt d sp.byteStart sp.byteSize ∧
    (∀ i, i < tp.byteStart ∨ tp.byteStart + tp'.byteSize ≤ i → applyWrs d (copyRaw d devSize ps from_ to).ws i = d i) := by
  have hb : tp'.byteStart = tp.byteStart := (reconcile_spec tp tp' hr).2.2.2.2.2.1
  -- neither partition is the Size = 0 case
  have hs1 : sp.oneChunk = false := by
    apply oneChunk_false_of_size
    intro hk; rw [byteSize_gpt sp hk] at hpos; exact hpos
  have ht1 : tp'.oneChunk = false := by
    apply oneChunk_false_of_size
    intro hk; have := byteSize_gpt tp' hk; omega
  -- what travels through the pipe
  have hfl : (partReadChunks d devSize sp).flatten = readAt d sp.byteStart sp.byteSize :=
    partReadChunks_flatten d devSize sp hs1 hsdev
  have hn : ((partReadChunks d devSize sp).map List.length).sum = sp.byteSize := by
    rw [sum_length_eq, hfl, readAt_length]
  have hfl2 : ((partReadChunks d devSize sp).flatMap (splitEvery tp'.pssOf)).flatten = readAt d sp.byteStart sp.byteSize := by
    rw [flatMap_splitEvery_flatten _ (pssOf_pos tp'), hfl]
  have hn2 : (((partReadChunks d devSize sp).flatMap (splitEvery tp'.pssOf)).map List.length).sum = sp.byteSize := by
    rw [sum_length_eq, hfl2, readAt_length]
  -- the write side
  have htot : (writeContents tp.byteStart tp'.byteSize ((partReadChunks d devSize sp).flatMap (splitEvery tp'.pssOf))).total
      = sp.byteSize := by
    have := writeLoop_total_le tp.byteStart tp'.byteSize ((partReadChunks d devSize sp).flatMap (splitEvery tp'.pssOf)) 0 []
      (by rw [hn2]; omega)
    rw [hn2] at this
    simpa [writeContents] using this
  have hin : ∀ w ∈ (writeContents tp.byteStart tp'.byteSize ((partReadChunks d devSize sp).flatMap (splitEvery tp'.pssOf))).ws,
      tp.byteStart ≤ w.off ∧ w.off + w.data.length ≤ tp.byteStart + tp'.byteSize := by
    intro w hw
    exact writeLoop_in_range tp.byteStart tp'.byteSize _ 0 [] (by simp) w hw
  have heff : readAt (applyWrs d (writeContents tp.byteStart tp'.byteSize
        ((partReadChunks d devSize sp).flatMap (splitEvery tp'.pssOf))).ws) tp.byteStart sp.byteSize
      = readAt d sp.byteStart sp.byteSize := by
    have := writeLoop_effect_le d tp.byteStart tp'.byteSize ((partReadChunks d devSize sp).flatMap (splitEvery tp'.pssOf))
      0 [] [] (by simp [readAt]) rfl (by rw [hn2]; omega)
    rw [hn2, hfl2] at this
    simpa [writeContents] using this
  have hframe : ∀ i, i < tp.byteStart ∨ tp.byteStart + tp'.byteSize ≤ i →
      applyWrs d (writeContents tp.byteStart tp'.byteSize ((partReadChunks d devSize sp).flatMap (splitEvery tp'.pssOf))).ws i = d i := by
    intro i hi
    apply applyWrs_frame
    intro w hw
    have := hin w hw
    omega
  have hsrc : readAt (applyWrs d (writeContents tp.byteStart tp'.byteSize
        ((partReadChunks d devSize sp).flatMap (splitEvery tp'.pssOf))).ws) sp.byteStart sp.byteSize
      = readAt d sp.byteStart sp.byteSize := by
    apply readAt_congr
    intro i h1 h2
    apply hframe
    omega
  -- the model, step by step
  have hcopy : copyRaw d devSize ps from_ to =
      ⟨(writeContents tp.byteStart tp'.byteSize ((partReadChunks d devSize sp).flatMap (splitEvery tp'.pssOf))).ws, .ok⟩ := by
    unfold copyRaw
    simp only [hs, ht, hr, hb, hn, htot]
    rw [if_neg (by omega), if_neg (by simp), if_neg hne, if_neg (by omega)]
    rw [partRead_exact _ devSize sp hs1 hsdev, partRead_exact _ devSize tp' ht1 (by rw [hb]; exact htdev)]
    simp only
    rw [readAt_take _ _ _ _ (Nat.le_refl _), readAt_take _ _ _ _ hfit, hb, heff, hsrc]
    simp
  rw [hcopy]
  exact ⟨rfl, heff, hsrc, hframe⟩

end Diskfs.PartDisk
