/-
  C16 helper lemmas, part 2: CopyFileSystem's op sequence applied to the flat destination store.
-/
import DiskfsModel.Proofs.Sync
namespace Diskfs.Sync
open Forest

/-! ### the flat store -/

theorem get_eq_none_iff (s : Store) (p : Path) : s.get p = none ↔ ∀ e ∈ s, e.1 ≠ p := by
  induction s with
  | nil => simp [Store.get]
  | cons e r ih =>
    obtain ⟨q, it⟩ := e
    simp only [Store.get, List.mem_cons, forall_eq_or_imp]
    by_cases h : q = p
    · simp [h]
    · simp [h, ih]

theorem get_some_mem (s : Store) (p : Path) (it : Item) (h : s.get p = some it) : (p, it) ∈ s := by
  induction s with
  | nil => simp [Store.get] at h
  | cons e r ih =>
    obtain ⟨q, i⟩ := e
    simp only [Store.get] at h
    split at h
    · rename_i e; cases h; subst e; exact List.mem_cons_self ..
    · exact List.mem_cons_of_mem _ (ih h)

theorem get_append_none (s t : Store) (p : Path) (h : s.get p = none) : Store.get (s ++ t) p = Store.get t p := by
  induction s with
  | nil => rfl
  | cons e r ih =>
    obtain ⟨q, i⟩ := e
    simp only [Store.get] at h
    split at h
    · cases h
    · rename_i hne
      simp only [List.cons_append, Store.get, if_neg hne]
      exact ih h

theorem get_append_some (s t : Store) (p : Path) (it : Item) (h : s.get p = some it) :
    Store.get (s ++ t) p = some it := by
  induction s with
  | nil => simp [Store.get] at h
  | cons e r ih =>
    obtain ⟨q, i⟩ := e
    simp only [Store.get] at h
    simp only [List.cons_append, Store.get]
    split
    · rename_i e; rw [if_pos e] at h; exact h
    · rename_i e; rw [if_neg e] at h; exact ih h

theorem set_of_get_none (s : Store) (p : Path) (it : Item) (h : s.get p = none) : s.set p it = s := by
  rw [get_eq_none_iff] at h
  unfold Store.set
  conv => rhs; rw [← List.map_id s]
  apply List.map_congr_left
  intro e he
  simp [h e he]

theorem set_append_last (s : Store) (p : Path) (x y : Item) (h : s.get p = none) :
    Store.set (s ++ [(p, x)]) p y = s ++ [(p, y)] := by
  have := set_of_get_none s p y h
  unfold Store.set at this ⊢
  simp [List.map_append, this]

theorem item_append_dir (s t : Store) (p : Path) (h : s.item p = some .dir) : Store.item (s ++ t) p = some .dir := by
  unfold Store.item at h ⊢
  split
  · rfl
  · rename_i hp; rw [if_neg hp] at h; exact get_append_some s t p _ h

theorem applyOps_append (a b : List DstOp) (s : Store) :
    applyOps (a ++ b) s = (applyOps a s).bind (applyOps b) := by
  induction a generalizing s with
  | nil => rfl
  | cons op ops ih =>
    simp only [List.cons_append, applyOps]
    cases applyOp s op with
    | none => rfl
    | some s' => exact ih s'

/-! ### one file -/

theorem readChunks_flatten (r : ReaderBehaviour) (buf : Nat) (hb : 0 < buf) :
    ∀ (fuel : Nat) (data : Bytes) (call : Nat), data.length ≤ fuel →
      (readChunks r buf fuel data call).flatten = data := by
  intro fuel
  induction fuel with
  | zero =>
    intro data call h
    have : data = [] := List.eq_nil_of_length_eq_zero (by omega)
    subst this; rfl
  | succ fuel ih =>
    intro data call h
    unfold readChunks
    cases data with
    | nil => rfl
    | cons x xs =>
      simp only [List.isEmpty_cons, Bool.false_eq_true, if_false, List.flatten_cons]
      have hc := count_pos r buf (x :: xs).length call hb (by simp)
      rw [ih]
      · exact List.take_append_drop _ _
      · simp only [List.length_drop]
        simp only [List.length_cons] at h hc ⊢
        omega

theorem readChunks_lengths (r : ReaderBehaviour) (buf : Nat) :
    ∀ (fuel : Nat) (data : Bytes) (call : Nat),
      (readChunks r buf fuel data call).map List.length = chunkLens r buf fuel data.length call := by
  intro fuel
  induction fuel with
  | zero => intro data call; rfl
  | succ fuel ih =>
    intro data call
    unfold readChunks chunkLens
    cases data with
    | nil => rfl
    | cons x xs =>
      have hle : r.count buf (x :: xs).length call ≤ (x :: xs).length := by
        unfold ReaderBehaviour.count; omega
      simp only [List.isEmpty_cons, Bool.false_eq_true, if_false, List.map_cons, List.length_take]
      rw [if_neg (by simp), ih, List.length_drop, Nat.min_eq_left hle]

theorem fileWrites_flatten (c : Cfg) (hc : 0 < c.chunk) (src : ReaderBehaviour) (d : Bytes) :
    (fileWrites c src d).flatten = d := by
  unfold fileWrites
  split
  · simp
  · exact readChunks_flatten src c.chunk hc _ d 0 (by omega)

theorem fileWrites_lengths (c : Cfg) (src : ReaderBehaviour) (d : Bytes) :
    (fileWrites c src d).map List.length = fileWriteLens c src d.length := by
  unfold fileWrites fileWriteLens
  split
  · rfl
  · exact readChunks_lengths src c.chunk _ d 0

theorem applyOps_writes (s : Store) (p : Path) (hs : s.get p = none) (tail : List DstOp) :
    ∀ (chunks : List Bytes) (old : Bytes),
      applyOps (chunks.map (.write p) ++ tail) (s ++ [(p, .file old)]) =
        applyOps tail (s ++ [(p, .file (old ++ chunks.flatten))]) := by
  intro chunks
  induction chunks with
  | nil => intro old; simp
  | cons d ds ih =>
    intro old
    have hg : Store.get (s ++ [(p, Item.file old)]) p = some (.file old) := by
      rw [get_append_none s _ p hs]; simp [Store.get]
    simp only [List.map_cons, List.cons_append, applyOps, applyOp, hg, set_append_last s p _ _ hs]
    rw [ih]
    simp [List.append_assoc]

theorem parentIsDir_concat (s : Store) (pre : Path) (n : String) (h : s.item pre = some .dir) :
    s.parentIsDir (pre ++ [n]) = true := by
  simp [Store.parentIsDir, h]

theorem applyOps_fileOps (c : Cfg) (hc : 0 < c.chunk) (src : ReaderBehaviour) (s : Store) (pre : Path)
    (n : String) (d : Bytes) (hpar : s.item pre = some .dir) (hs : s.get (pre ++ [n]) = none) :
    applyOps (fileOps c src (pre ++ [n]) d) s = some (s ++ [(pre ++ [n], .file d)]) := by
  unfold fileOps
  simp only [applyOps, applyOp, parentIsDir_concat s pre n hpar, if_true, hs]
  rw [applyOps_writes s _ hs]
  simp [applyOps, applyOp, fileWrites_flatten c hc src d]

/-! ### the whole copy -/

/-- nothing in the store lies at or below `pre/n` for any entry name `n` of `f` -/
def Fresh (s : Store) (pre : Path) (f : Forest) : Prop :=
  ∀ e ∈ s, ∀ n ∈ f.names, ¬ (pre ++ [n]) <+: e.1

theorem prefix_concat_inj (pre q : Path) (m n : String) (h : (pre ++ [m]) <+: (pre ++ n :: q)) : m = n := by
  rw [List.prefix_append_right_inj] at h
  obtain ⟨t, ht⟩ := h
  simp at ht
  exact ht.1

theorem fresh_get_none (s : Store) (pre : Path) (f : Forest) (n : String) (hf : Fresh s pre f)
    (hn : n ∈ f.names) : s.get (pre ++ [n]) = none := by
  rw [get_eq_none_iff]
  intro e he heq
  exact hf e he n hn (heq ▸ List.prefix_refl _)

theorem flatAt_prefix (f : Forest) (pre : Path) (p : Path) (it : Item) (h : (p, it) ∈ f.flatAt pre) :
    ∃ m q, m ∈ f.names ∧ p = pre ++ m :: q := by
  induction f generalizing pre with
  | nil => simp [flatAt] at h
  | file n d r ih =>
    simp only [flatAt, List.mem_cons, Prod.mk.injEq] at h
    rcases h with ⟨rfl, _⟩ | h
    · exact ⟨n, [], by simp [names], rfl⟩
    · obtain ⟨m, q, hm, hp⟩ := ih _ h; exact ⟨m, q, by simp [names, hm], hp⟩
  | dir n s r ihs ih =>
    simp only [flatAt, List.mem_cons, List.mem_append, Prod.mk.injEq] at h
    rcases h with ⟨rfl, _⟩ | h | h
    · exact ⟨n, [], by simp [names], rfl⟩
    · obtain ⟨m, q, _, hp⟩ := ihs _ h
      exact ⟨n, m :: q, by simp [names], by simp [hp]⟩
    · obtain ⟨m, q, hm, hp⟩ := ih _ h; exact ⟨m, q, by simp [names, hm], hp⟩
  | link n t r ih =>
    simp only [flatAt, List.mem_cons, Prod.mk.injEq] at h
    rcases h with ⟨rfl, _⟩ | h
    · exact ⟨n, [], by simp [names], rfl⟩
    · obtain ⟨m, q, hm, hp⟩ := ih _ h; exact ⟨m, q, by simp [names, hm], hp⟩
  | other n r ih =>
    simp only [flatAt, List.mem_cons, Prod.mk.injEq] at h
    rcases h with ⟨rfl, _⟩ | h
    · exact ⟨n, [], by simp [names], rfl⟩
    · obtain ⟨m, q, hm, hp⟩ := ih _ h; exact ⟨m, q, by simp [names, hm], hp⟩

/-- adding the entry `pre/n` keeps the store fresh for siblings with other names -/
theorem fresh_step (s : Store) (pre : Path) (n : String) (it : Item) (r : Forest) (hn : n ∉ r.names)
    (h : ∀ e ∈ s, ∀ m ∈ r.names, ¬ (pre ++ [m]) <+: e.1) : Fresh (s ++ [(pre ++ [n], it)]) pre r := by
  intro e he m hm
  simp only [List.mem_append, List.mem_singleton] at he
  rcases he with he | rfl
  · exact h e he m hm
  · intro hp
    exact hn (prefix_concat_inj pre [] m n hp ▸ hm)

theorem copyDir_apply (c : Cfg) (hc : 0 < c.chunk) (src : ReaderBehaviour) (readlink : Bool) :
    ∀ (f : Forest) (pre : Path) (s : Store), f.wf = true →
      (readlink = true ∨ (f.strip c.excluded false).noLinks = true) →
      s.item pre = some .dir → Fresh s pre f →
      (copyDir c src readlink pre f).2 = true ∧
      applyOps (copyDir c src readlink pre f).1 s = some (s ++ (f.strip c.excluded false).flatAt pre) := by
  intro f
  induction f with
  | nil => intro pre s _ _ _ _; simp [copyDir, applyOps, strip, flatAt]
  | file n d r ih =>
    intro pre s hwf hl hpre hfresh
    have hw := wf_file hwf
    have hfr : ∀ e ∈ s, ∀ m ∈ r.names, ¬ (pre ++ [m]) <+: e.1 :=
      fun e he m hm => hfresh e he m (by simp [names, hm])
    simp only [copyDir, strip]
    split
    · rename_i hex
      rw [strip_file_drop hex] at hl
      exact ih pre s hw.2 hl hpre hfr
    · rename_i hex
      rw [strip_file_keep (Bool.eq_false_iff.mpr hex)] at hl
      have hl' : readlink = true ∨ (r.strip c.excluded false).noLinks = true := by
        simpa [noLinks] using hl
      have hnone := fresh_get_none s pre _ n hfresh (by simp [names])
      have := ih pre (s ++ [(pre ++ [n], .file d)]) hw.2 hl' (item_append_dir s _ pre hpre)
        (fresh_step s pre n _ r hw.1 hfr)
      refine ⟨this.1, ?_⟩
      rw [applyOps_append, applyOps_fileOps c hc src s pre n d hpre hnone]
      simp only [Option.bind_some, this.2, flatAt]
      simp [List.append_assoc]
  | dir n sub r ihs ih =>
    intro pre s hwf hl hpre hfresh
    have hw := wf_dir hwf
    have hfr : ∀ e ∈ s, ∀ m ∈ r.names, ¬ (pre ++ [m]) <+: e.1 :=
      fun e he m hm => hfresh e he m (by simp [names, hm])
    simp only [copyDir, strip]
    split
    · rename_i hex
      rw [strip_dir_drop hex] at hl
      exact ih pre s hw.2.2 hl hpre hfr
    · rename_i hex
      rw [strip_dir_keep (Bool.eq_false_iff.mpr hex)] at hl
      have hl1 : readlink = true ∨ (sub.strip c.excluded false).noLinks = true := by
        rcases hl with h | h
        · exact Or.inl h
        · simp only [noLinks, Bool.and_eq_true] at h; exact Or.inr h.1
      have hl2 : readlink = true ∨ (r.strip c.excluded false).noLinks = true := by
        rcases hl with h | h
        · exact Or.inl h
        · simp only [noLinks, Bool.and_eq_true] at h; exact Or.inr h.2
      have hnone := fresh_get_none s pre _ n hfresh (by simp [names])
      -- Mkdir
      have hmk : applyOp s (.mkdir (pre ++ [n])) = some (s ++ [(pre ++ [n], .dir)]) := by
        simp [applyOp, parentIsDir_concat s pre n hpre, hnone]
      -- the sub-directory
      let s1 := s ++ [(pre ++ [n], Item.dir)]
      have hs1pre : s1.item (pre ++ [n]) = some .dir := by
        have hne : pre ++ [n] ≠ [] := by simp
        simp only [Store.item, if_neg hne, s1]
        rw [get_append_none s _ _ hnone]; simp [Store.get]
      have hs1fresh : Fresh s1 (pre ++ [n]) sub := by
        intro e he m _ hp
        simp only [List.mem_append, List.mem_singleton, s1] at he
        rcases he with he | rfl
        · exact hfresh e he n (by simp [names])
            (List.IsPrefix.trans (List.prefix_append (pre ++ [n]) [m]) hp)
        · have := List.IsPrefix.length_le hp
          simp at this
      have h1 := ihs (pre ++ [n]) s1 hw.2.1 hl1 hs1pre hs1fresh
      -- the remaining siblings
      let s2 := s1 ++ (sub.strip c.excluded false).flatAt (pre ++ [n])
      have hs2pre : s2.item pre = some .dir :=
        item_append_dir s1 _ pre (item_append_dir s _ pre hpre)
      have hs2fresh : Fresh s2 pre r := by
        intro e he m hm hp
        simp only [List.mem_append, s2] at he
        rcases he with he | he
        · exact fresh_step s pre n _ r hw.1 hfr e he m hm hp
        · obtain ⟨p, it⟩ := e
          obtain ⟨m', q, _, hq⟩ := flatAt_prefix _ _ p it he
          simp only at hp
          rw [hq, List.append_assoc] at hp
          exact hw.1 (prefix_concat_inj pre (m' :: q) m n (by simpa using hp) ▸ hm)
      have h2 := ih pre s2 hw.2.2 hl2 hs2pre hs2fresh
      rw [h1.1]
      simp only [if_true]
      refine ⟨h2.1, ?_⟩
      simp only [applyOps, hmk]
      rw [applyOps_append]
      show (applyOps _ s1).bind _ = _
      rw [h1.2]
      simp only [Option.bind_some]
      show applyOps _ s2 = _
      rw [h2.2]
      simp [s2, s1, flatAt, List.append_assoc]
  | link n t r ih =>
    intro pre s hwf hl hpre hfresh
    have hw : n ∉ r.names ∧ r.wf = true := by simpa [wf, contains_false_iff] using hwf
    have hfr : ∀ e ∈ s, ∀ m ∈ r.names, ¬ (pre ++ [m]) <+: e.1 :=
      fun e he m hm => hfresh e he m (by simp [names, hm])
    simp only [copyDir, strip]
    split
    · rename_i hex
      simp only [strip, hex, if_true] at hl
      exact ih pre s hw.2 hl hpre hfr
    · rename_i hex
      simp only [strip, hex, Bool.false_eq_true, if_false, noLinks, or_false] at hl
      subst hl
      simp only [if_true]
      have hnone := fresh_get_none s pre _ n hfresh (by simp [names])
      have := ih pre (s ++ [(pre ++ [n], .link t)]) hw.2 (Or.inl rfl) (item_append_dir s _ pre hpre)
        (fresh_step s pre n _ r hw.1 hfr)
      refine ⟨this.1, ?_⟩
      simp only [applyOps, applyOp, parentIsDir_concat s pre n hpre, hnone, beq_self_eq_true, Bool.and_self,
        if_true, this.2, flatAt]
      simp [List.append_assoc]
  | other n r ih =>
    intro pre s hwf hl hpre hfresh
    have hw : n ∉ r.names ∧ r.wf = true := by simpa [wf, contains_false_iff] using hwf
    have hfr : ∀ e ∈ s, ∀ m ∈ r.names, ¬ (pre ++ [m]) <+: e.1 :=
      fun e he m hm => hfresh e he m (by simp [names, hm])
    have hs : (Forest.other n r).strip c.excluded false = r.strip c.excluded false := by
      simp [strip]
    rw [hs] at hl ⊢
    simp only [copyDir]
    exact ih pre s hw.2 hl hpre hfr

/-! ### the store holding a tree denotes the same items as the tree -/

theorem item_flatAt (f : Forest) (hwf : f.wf = true) (p : Path) : Store.item (f.flatAt []) p = f.lookup p := by
  unfold Store.item
  split
  · rename_i h; subst h; rw [lookup_nil_path]
  · rename_i hp
    cases hl : f.lookup p with
    | none =>
      rw [get_eq_none_iff]
      intro e he heq
      obtain ⟨q, it⟩ := e
      simp only at heq; subst heq
      have := ((mem_flatAt_root f hwf q it).1 he).2
      rw [hl] at this; cases this
    | some it =>
      have hm := (mem_flatAt_root f hwf p it).2 ⟨hp, hl⟩
      cases hg : Store.get (f.flatAt []) p with
      | none => exact absurd rfl ((get_eq_none_iff _ _).1 hg _ hm)
      | some it' =>
        have := ((mem_flatAt_root f hwf p it').1 (get_some_mem _ _ _ hg)).2
        rw [hl] at this; exact this.symm

/-! ### stripping twice, and plain trees -/

theorem plain_strip (ex : List String) (k : Bool) (f : Forest) (h : f.plain = true) : (f.strip ex k).plain = true := by
  induction f with
  | nil => rfl
  | file n d r ih => simp only [plain] at h; simp only [strip]; split <;> simp [plain, ih h]
  | dir n s r ihs ih =>
    simp only [plain, Bool.and_eq_true] at h
    simp only [strip]; split <;> simp [plain, ih h.2, ihs h.1]
  | link n t r _ => simp [plain] at h
  | other n r _ => simp [plain] at h

theorem strip_plain_keepOther (ex : List String) (f : Forest) (h : f.plain = true) :
    f.strip ex false = f.strip ex true := by
  induction f with
  | nil => rfl
  | file n d r ih => simp only [plain] at h; simp only [strip, ih h]
  | dir n s r ihs ih =>
    simp only [plain, Bool.and_eq_true] at h
    simp only [strip, ih h.2, ihs h.1]
  | link n t r _ => simp [plain] at h
  | other n r _ => simp [plain] at h

theorem strip_idem (ex : List String) (k : Bool) (f : Forest) : (f.strip ex k).strip ex k = f.strip ex k := by
  induction f with
  | nil => rfl
  | file n d r ih =>
    simp only [strip]
    split
    · exact ih
    · rename_i h; simp only [strip, h, Bool.false_eq_true, if_false, ih]
  | dir n s r ihs ih =>
    simp only [strip]
    split
    · exact ih
    · rename_i h; simp only [strip, h, Bool.false_eq_true, if_false, ih, ihs]
  | link n t r ih =>
    simp only [strip]
    split
    · exact ih
    · rename_i h; simp only [strip, h, Bool.false_eq_true, if_false, ih]
  | other n r ih =>
    simp only [strip]
    split
    · exact ih
    · rename_i h; simp only [strip, h, Bool.false_eq_true, if_false, ih]

end Diskfs.Sync
