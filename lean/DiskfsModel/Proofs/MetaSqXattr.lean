/-
  Helper lemmas for the squashfs xattr lookup walk (Model/MetaSqXattr.lean).
-/
import DiskfsModel.Model.MetaSqXattr
namespace Diskfs.Meta.SqXattr
open Diskfs

theorem sub_at (pre mid post : Bytes) (o n : Nat) (ho : o = pre.length) (hn : n = mid.length) :
    sub (pre ++ (mid ++ post)) o n = mid := by
  subst ho; subst hn; simp [sub]

theorem encAttr_length (a : Attr) : (encAttr a).length = 8 + a.name.length + a.val.length := by
  simp [encAttr]; omega

/-- one step of the walk over a well-formed attribute that sits at the cursor -/
theorem step_enc (pre : Bytes) (a : Attr) (rest : Bytes) (h : WfAttr a) :
    step (pre ++ (encAttr a ++ rest)) pre.length
      = some (a.name, a.val, pre.length + (encAttr a).length) := by
  obtain ⟨h1, h2, h3⟩ := h
  have hlen : (pre ++ (encAttr a ++ rest)).length
      = pre.length + (8 + a.name.length + a.val.length) + rest.length := by
    simp [encAttr]; omega
  have hx : leDec (sub (pre ++ (encAttr a ++ rest)) (pre.length + 2) 2) = a.name.length := by
    have e : pre ++ (encAttr a ++ rest) = (pre ++ leEnc 2 a.typ) ++
        (leEnc 2 a.name.length ++ (a.name ++ (leEnc 4 a.val.length ++ a.val) ++ rest)) := by
      simp [encAttr, List.append_assoc]
    rw [e, sub_at _ _ _ _ _ (by simp) (by simp)]
    exact leDec_leEnc_of_lt 2 _ (by omega)
  have hk : sub (pre ++ (encAttr a ++ rest)) (pre.length + 4) a.name.length = a.name := by
    have e : pre ++ (encAttr a ++ rest) = (pre ++ leEnc 2 a.typ ++ leEnc 2 a.name.length) ++
        (a.name ++ ((leEnc 4 a.val.length ++ a.val) ++ rest)) := by
      simp [encAttr, List.append_assoc]
    rw [e, sub_at _ _ _ _ _ (by simp <;> omega) rfl]
  have hv : leDec (sub (pre ++ (encAttr a ++ rest)) (pre.length + 4 + a.name.length) 4) = a.val.length := by
    have e : pre ++ (encAttr a ++ rest) = (pre ++ leEnc 2 a.typ ++ leEnc 2 a.name.length ++ a.name) ++
        (leEnc 4 a.val.length ++ (a.val ++ rest)) := by
      simp [encAttr, List.append_assoc]
    rw [e, sub_at _ _ _ _ _ (by simp <;> omega) (by simp)]
    exact leDec_leEnc_of_lt 4 _ (by omega)
  have hw : sub (pre ++ (encAttr a ++ rest)) (pre.length + 4 + a.name.length + 4) a.val.length = a.val := by
    have e : pre ++ (encAttr a ++ rest) = (pre ++ leEnc 2 a.typ ++ leEnc 2 a.name.length ++ a.name
        ++ leEnc 4 a.val.length) ++ (a.val ++ rest) := by
      simp [encAttr, List.append_assoc]
    rw [e, sub_at _ _ _ _ _ (by simp <;> omega) rfl]
  unfold step
  simp only [hx, hv, hk, hw, hlen, encAttr_length]
  rw [if_neg (by omega), if_neg (by omega), if_neg (by omega), if_neg (by omega), if_neg (by omega)]
  congr 3; omega

/-- the repaired walk over `as.length` well-formed attributes laid out back to back behind `pre`
    (whatever follows them) returns them all, in order -/
theorem walk_encSet (pre : Bytes) (as : List Attr) (rest : Bytes) (h : ∀ a ∈ as, WfAttr a) :
    walk true (pre ++ (encSet as ++ rest)) as.length pre.length
      = some (as.map fun a => (a.name, a.val)) := by
  induction as generalizing pre with
  | nil => simp [walk]
  | cons a as ih =>
    have e : pre ++ (encSet (a :: as) ++ rest) = pre ++ (encAttr a ++ (encSet as ++ rest)) := by
      simp [encSet, List.append_assoc]
    have e2 : pre ++ (encAttr a ++ (encSet as ++ rest)) = (pre ++ encAttr a) ++ (encSet as ++ rest) := by
      simp
    have ih' := ih (pre ++ encAttr a) (fun x hx => h x (by simp [hx]))
    simp only [List.length_cons, walk]
    rw [e, step_enc pre a _ (h a (by simp))]
    simp only [if_true]
    rw [e2, show pre.length + (encAttr a).length = (pre ++ encAttr a).length by simp, ih']
    simp

/-- the cursor rule as found agrees with the repaired one for ids of one or two attributes -/
theorem walk_as_found_le_two (b : Bytes) (n : Nat) (hn : n ≤ 2) : walk false b n 0 = walk true b n 0 := by
  match n, hn with
  | 0, _ => rfl
  | 1, _ => simp only [walk]
  | 2, _ =>
    simp only [walk]
    cases step b 0 with
    | none => rfl
    | some r =>
      obtain ⟨k, v, e⟩ := r
      simp only [Nat.zero_add, if_true, Bool.false_eq_true, if_false]

end Diskfs.Meta.SqXattr
