/-
  C03, ext4: every WriteAt of the volume machine (Model/RangesExt4.lean) lies below numBlocks × blockSize.
  Adapter lemmas over the mkfs layout (Model/Ext4/Mkfs.lean, Proofs/Ext4Mkfs.lean), the allocator
  (Model/Ext4/Alloc.lean, Proofs/Ext4Alloc.lean) and the ownership layer (Model/Ext4/Own.lean).
-/
import DiskfsModel.Model.RangesExt4
import DiskfsModel.Proofs.Ext4Mkfs
import DiskfsModel.Proofs.Ext4Alloc
namespace Diskfs.Ranges.Ext4
open Diskfs.Ext4.Mkfs Diskfs.Ext4.Alloc

/-! ### what Create's parameter checks guarantee about the layout -/

structure LWF (l : Layout) : Prop where
  bs1024 : 1024 ≤ l.bs
  bpg_pos : 0 < l.bpg
  groups_pos : 0 < l.groups
  cover : l.numBlocks ≤ l.groups * l.bpg
  gdt_fit : l.groups * l.descSize ≤ l.gdtBlocks * l.bs
  gdt_pos : 1 ≤ l.gdtBlocks
  itb_fit : l.ipg * inodeSize ≤ l.itb * l.bs
  icount : l.inodeCount = l.ipg * l.groups
  flex_pos : 0 < l.flexSize

theorem le_ceilDiv_mul (a b : Nat) (hb : 0 < b) : a ≤ ceilDiv a b * b := by
  unfold ceilDiv
  have h1 := Nat.div_add_mod (a + b - 1) b
  have h2 := Nat.mod_lt (a + b - 1) hb
  rw [Nat.mul_comm] at h1
  omega

theorem ceilDiv_pos (a b : Nat) (hb : 0 < b) (ha : 0 < a) : 1 ≤ ceilDiv a b := by
  unfold ceilDiv
  exact Nat.div_pos (by omega) hb

theorem chooseBs_ge (p : Params) (h1 : ¬ (p.spb ≠ 0 ∧ (p.spb > 128 ∨ p.spb < 2))) : 1024 ≤ chooseBs p := by
  unfold chooseBs
  split
  · split <;> omega
  · have : ¬ (p.spb > 128 ∨ p.spb < 2) := fun hh => h1 ⟨by assumption, hh⟩
    omega

/-- every layout Create's parameter checks let through is well formed -/
theorem lwf_of_mkLayout (p : Params) (l : Layout) (h : mkLayout p = .ok l) : LWF l ∧ l.numBlocks * l.bs ≤ p.size := by
  unfold mkLayout at h
  split at h
  · cases h
  rename_i h1
  split at h
  · cases h
  split at h
  · cases h
  split at h
  · cases h
  split at h
  · cases h
  rename_i hg
  split at h
  · cases h
  injection h with h
  subst h
  have hbs : 1024 ≤ chooseBs p := chooseBs_ge p h1
  have hbpg : 0 < chooseBpg p := by
    unfold chooseBpg maxBPG
    split <;> omega
  have hgp : 0 < groupsOf p := Nat.pos_of_ne_zero hg
  have hds : 0 < (if p.bit64 then 64 else 32) := by split <;> omega
  refine ⟨⟨hbs, hbpg, hgp, ?_, ?_, ?_, ?_, ?_, ?_⟩, ?_⟩
  · exact le_ceilDiv_mul _ _ hbpg
  · simp only [layoutOf]
    exact le_ceilDiv_mul _ _ (by omega)
  · simp only [layoutOf]
    exact ceilDiv_pos _ _ (by omega) (Nat.mul_pos hgp hds)
  · simp only [layoutOf, inodeSize]
    exact le_ceilDiv_mul _ _ (by omega)
  · rfl
  · simp only [layoutOf, flexSizeOf]
    split
    · exact Nat.two_pow_pos _
    · omega
  · simp only [layoutOf, numBlocksOf]
    exact Nat.div_mul_le_self _ _

/-! ### a valid event lies inside the volume -/

theorem mul_bs_le {a b : Nat} (bs : Nat) (h : a ≤ b) : a * bs ≤ b * bs := Nat.mul_le_mul_right bs h

/-- a group with at least one block ends at or below the block count -/
theorem group_end_le (l : Layout) (g k : Nat) (hk : 1 ≤ k) (h : k ≤ blocksInGroup l g) :
    groupStart l g + k ≤ l.numBlocks := by
  unfold blocksInGroup at h
  have := Nat.le_min.1 h
  omega

/-- the metadata slot (block bitmap, inode bitmap, inode table) of a group lies below the block count -/
theorem slot_inside (l : Layout) (flex : Bool) (hw : LWF l) (hfit : Fits l flex) (g : Nat) (hg : g < l.groups) :
    metaBase l flex g + perGroupMeta l ≤ l.numBlocks := by
  cases flex with
  | true =>
    have h := flex_slot_inside l hw.flex_pos hfit g hg
    have hpos : 1 ≤ blocksInGroup l (flexOwner l g) := by
      unfold perGroupMeta at h; omega
    have := group_end_le l (flexOwner l g) _ hpos (Nat.le_refl _)
    omega
  | false =>
    have h := hfit g hg
    simp only [Bool.false_eq_true, if_false] at h
    have hpos : 1 ≤ metaBlocks l g + perGroupMeta l := by unfold perGroupMeta; omega
    have := group_end_le l g _ hpos h
    unfold metaBase
    simp only [Bool.false_eq_true, if_false]
    omega

/-- group 0 carries the primary superblock, descriptor table and reserved GDT blocks: they fit -/
theorem meta0_inside (l : Layout) (flex : Bool) (hw : LWF l) (hfit : Fits l flex) :
    groupStart l 0 + 1 + l.gdtBlocks + l.rsvGdt ≤ l.numBlocks := by
  have h := hfit 0 hw.groups_pos
  have hm : metaBlocks l 0 = 1 + l.gdtBlocks + l.rsvGdt := by
    unfold metaBlocks; rw [if_pos (by decide)]
  have ho : flexOwner l 0 = 0 := by unfold flexOwner; simp
  cases flex with
  | true =>
    simp only [if_true] at h
    have h := h ho.symm
    have := group_end_le l 0 (metaBlocks l 0) (by omega) (by omega)
    omega
  | false =>
    simp only [Bool.false_eq_true, if_false] at h
    have := group_end_le l 0 (metaBlocks l 0) (by omega) (by omega)
    omega

theorem evOk_inside (l : Layout) (flex : Bool) (owned : List Nat) (hw : LWF l) (hfit : Fits l flex) (hb : BackupsFit l)
    (hown : ∀ b ∈ owned, b < l.numBlocks) (ev : Ev) (hok : EvOk l owned ev) :
    (evRegion l flex ev).off + (evRegion l flex ev).len ≤ l.numBlocks * l.bs := by
  have hbs := hw.bs1024
  cases ev with
  | boot =>
    simp only [evRegion]
    have h0 := hb 0 hw.groups_pos (by decide)
    have h1 := group_end_le l 0 (1 + l.gdtBlocks) (by omega) h0
    have hgp := hw.gdt_pos
    have : 2 * l.bs ≤ l.numBlocks * l.bs := mul_bs_le l.bs (by omega)
    omega
  | sb g =>
    obtain ⟨hg, hs⟩ := hok
    have h0 := hb g hg hs
    have h1 := group_end_le l g (1 + l.gdtBlocks) (by omega) h0
    have hgp := hw.gdt_pos
    simp only [evRegion]
    split
    · have : 2 * l.bs ≤ l.numBlocks * l.bs := mul_bs_le l.bs (by omega)
      omega
    · have : (groupStart l g + 1) * l.bs ≤ l.numBlocks * l.bs := mul_bs_le l.bs (by omega)
      rw [Nat.add_mul] at this
      omega
  | gdt g =>
    obtain ⟨hg, hs⟩ := hok
    have h0 := hb g hg hs
    have h1 := group_end_le l g (1 + l.gdtBlocks) (by omega) h0
    have : (groupStart l g + 1 + l.gdtBlocks) * l.bs ≤ l.numBlocks * l.bs := mul_bs_le l.bs (by omega)
    rw [Nat.add_mul] at this
    have := hw.gdt_fit
    simp only [evRegion]
    omega
  | rsv i =>
    have hi : i < l.rsvGdt := hok
    have h0 := meta0_inside l flex hw hfit
    have : (groupStart l 0 + 1 + l.gdtBlocks + i + 1) * l.bs ≤ l.numBlocks * l.bs := mul_bs_le l.bs (by omega)
    rw [Nat.add_mul] at this
    simp only [evRegion]
    omega
  | bbm g =>
    have hg : g < l.groups := hok
    have h0 := slot_inside l flex hw hfit g hg
    unfold perGroupMeta at h0
    have : (metaBase l flex g + 1) * l.bs ≤ l.numBlocks * l.bs := mul_bs_le l.bs (by omega)
    rw [Nat.add_mul] at this
    simp only [evRegion]
    omega
  | ibm g =>
    have hg : g < l.groups := hok
    have h0 := slot_inside l flex hw hfit g hg
    unfold perGroupMeta at h0
    have : (metaBase l flex g + 2 + l.itb) * l.bs ≤ l.numBlocks * l.bs := mul_bs_le l.bs (by omega)
    rw [Nat.add_mul, Nat.add_mul] at this
    have h2 : (metaBase l flex g + 1) * l.bs = metaBase l flex g * l.bs + l.bs := by rw [Nat.add_mul]; omega
    have hi := hw.itb_fit
    unfold inodeSize at hi
    simp only [evRegion]
    omega
  | ibmInit g =>
    have hg : g < l.groups := hok
    have h0 := slot_inside l flex hw hfit g hg
    unfold perGroupMeta at h0
    have : (metaBase l flex g + 2) * l.bs ≤ l.numBlocks * l.bs := mul_bs_le l.bs (by omega)
    rw [Nat.add_mul] at this
    have h2 : (metaBase l flex g + 1) * l.bs = metaBase l flex g * l.bs + l.bs := by rw [Nat.add_mul]; omega
    simp only [evRegion]
    omega
  | itab g =>
    have hg : g < l.groups := hok
    have h0 := slot_inside l flex hw hfit g hg
    unfold perGroupMeta at h0
    have : (metaBase l flex g + 2 + l.itb) * l.bs ≤ l.numBlocks * l.bs := mul_bs_le l.bs (by omega)
    rw [Nat.add_mul] at this
    simp only [evRegion]
    omega
  | inode ino =>
    obtain ⟨h1, h2⟩ := hok
    rw [hw.icount] at h2
    have hipg : 0 < l.ipg := by
      rcases Nat.eq_zero_or_pos l.ipg with h | h
      · rw [h] at h2; omega
      · exact h
    have hg : (ino - 1) / l.ipg < l.groups := by
      apply Nat.div_lt_of_lt_mul
      omega
    have h0 := slot_inside l flex hw hfit _ hg
    unfold perGroupMeta at h0
    have : (metaBase l flex ((ino - 1) / l.ipg) + 2 + l.itb) * l.bs ≤ l.numBlocks * l.bs := mul_bs_le l.bs (by omega)
    rw [Nat.add_mul] at this
    have hm := Nat.mod_lt (ino - 1) hipg
    have hs : ((ino - 1) % l.ipg + 1) * inodeSize ≤ l.ipg * inodeSize := Nat.mul_le_mul_right _ (by omega)
    rw [Nat.add_mul] at hs
    have hi := hw.itb_fit
    simp only [evRegion]
    omega
  | span b n off len =>
    obtain ⟨hn, h1, h2⟩ := hok
    simp only [evRegion]
    have hb' := hown (b + (n - 1)) (h1 (n - 1) (by omega))
    have : (b + n) * l.bs ≤ l.numBlocks * l.bs := mul_bs_le l.bs (by omega)
    rw [Nat.add_mul] at this
    omega

/-! ### the geometry of the bitmaps never changes -/

def shape (s : Acc) : List (Nat × Nat) := s.groups.map fun g => (g.bbm.length, g.ibm.length)

theorem clearRun_len : ∀ (b : Bits) (p c : Nat), (clearRun b p c).length = b.length := by
  intro b
  induction b with
  | nil => intro p c; simp [clearRun]
  | cons x xs ih =>
    intro p c
    cases p with
    | zero => cases c with
      | zero => simp [clearRun]
      | succ c => simp [clearRun, ih]
    | succ p => simp [clearRun, ih]

theorem map_modifyAt {β : Type} (φ : Group → β) (f : Group → Group) (hf : ∀ g, φ (f g) = φ g) :
    ∀ (gs : List Group) (i : Nat), (modifyAt gs i f).map φ = gs.map φ := by
  intro gs
  induction gs with
  | nil => intro i; rfl
  | cons g gs ih =>
    intro i
    cases i with
    | zero => simp [modifyAt, hf]
    | succ i => simp [modifyAt, ih]

theorem shape_markRun (s : Acc) (r : Run) : shape (markRun s r) = shape s := by
  unfold shape markRun
  exact map_modifyAt _ _ (by intro g; simp [setRun_length]) _ _

theorem shape_markRuns : ∀ (rs : List Run) (s : Acc), shape (rs.foldl markRun s) = shape s := by
  intro rs
  induction rs with
  | nil => intro s; rfl
  | cons r rs ih => intro s; simp only [List.foldl_cons]; rw [ih, shape_markRun]

theorem shape_allocExtents (s : Acc) (n : Nat) (c : Option (List Run)) : shape (allocExtents s n c).state = shape s := by
  unfold allocExtents
  split
  · rfl
  · split
    · rfl
    · split
      · simp only [Res.state]
        show shape (List.foldl markRun s _) = _
        exact shape_markRuns _ _
      · rfl

theorem shape_allocInode (s : Acc) (d : Bool) : shape (allocInode s d).state = shape s := by
  unfold allocInode
  split
  · rfl
  · simp only [Res.state]
    unfold shape
    exact map_modifyAt _ _ (by intro g; simp [setRun_length]) _ _

theorem shape_freeBlock (geo : Geom) (s : Acc) (b : Nat) : shape (freeBlock true geo s b) = shape s := by
  unfold shape freeBlock
  exact map_modifyAt _ _ (by intro g; simp [clearRun_len]) _ _

theorem shape_freeBlocks (geo : Geom) : ∀ (bs : List Nat) (s : Acc), shape (bs.foldl (freeBlock true geo) s) = shape s := by
  intro bs
  induction bs with
  | nil => intro s; rfl
  | cons b bs ih => intro s; simp only [List.foldl_cons]; rw [ih, shape_freeBlock]

theorem shape_removeOp (geo : Geom) (s : Acc) (ino : Nat) (blocks : List Nat) (d : Bool) :
    shape (removeOp geo s ino blocks d).state = shape s := by
  unfold removeOp
  split
  · simp only [Res.state, removeInode, if_true]
    rw [← shape_freeBlocks geo blocks s]
    unfold shape
    exact map_modifyAt _ _ (by intro g; simp [clearRun_len]) _ _
  · rfl

theorem shape_ostep (geo : Geom) (o : Own) (op : OOp) : shape (ostep geo o op).acc = shape o.acc := by
  cases op with
  | create ino isDir =>
    simp only [ostep]
    have := shape_allocInode o.acc isDir
    split
    · rename_i acc' h; rw [h] at this; exact this
    · rfl
  | grow i n runs =>
    simp only [ostep]
    have := shape_allocExtents o.acc n (some runs)
    split
    · rename_i f acc' h1 h2; rw [h2] at this; exact this
    · rfl
  | remove i isDir =>
    simp only [ostep]
    split
    · rename_i f hf
      have := shape_removeOp geo o.acc f.ino f.blocks isDir
      split
      · rename_i acc' h; rw [h] at this; exact this
      · rfl
    · rfl

theorem lenInv_of_shape (l : Layout) (s s' : Acc) (h : shape s' = shape s) (hi : LenInv l s) : LenInv l s' := by
  unfold shape at h
  obtain ⟨h1, h2⟩ := hi
  have hlen : s'.groups.length = s.groups.length := by
    have := congrArg List.length h
    simpa using this
  refine ⟨by omega, ?_⟩
  intro g grp hg
  have hx := congrArg (fun x => x[g]?) h
  simp only [List.getElem?_map, hg, Option.map_some] at hx
  cases hs : s.groups[g]? with
  | none => rw [hs] at hx; cases hx
  | some grp0 =>
    rw [hs] at hx
    simp only [Option.map_some, Option.some.injEq, Prod.mk.injEq] at hx
    have := h2 g grp0 hs
    omega

/-! ### the blocks allocateExtents hands out lie below the block count -/

theorem runFree_bound (l : Layout) (s : Acc) (r : Run) (hi : LenInv l s) (hf : runFree s r = true) (hc : 0 < r.2.2) :
    r.1 < l.groups ∧ r.2.1 + r.2.2 ≤ blocksInGroup l r.1 := by
  unfold runFree at hf
  cases hg : s.groups[r.1]? with
  | none => simp [hg] at hf
  | some grp =>
    simp only [hg] at hf
    obtain ⟨h1, _⟩ := allAre_spec false grp.bbm r.2.1 r.2.2 hc hf
    have h2 := (hi.2 r.1 grp hg).1
    have h3 : r.1 < s.groups.length := by
      have := List.getElem?_eq_some_iff.1 hg
      exact this.1
    exact ⟨by have := hi.1; omega, by omega⟩

theorem runFree_group (l : Layout) (s : Acc) (r : Run) (hi : LenInv l s) (hf : runFree s r = true) : r.1 < l.groups := by
  unfold runFree at hf
  cases hg : s.groups[r.1]? with
  | none => simp [hg] at hf
  | some grp =>
    have h3 : r.1 < s.groups.length := (List.getElem?_eq_some_iff.1 hg).1
    have := hi.1
    omega

theorem runBlocks_below (l : Layout) (r : Run) (h : r.2.1 + r.2.2 ≤ blocksInGroup l r.1) (_hc : 0 < r.2.2) :
    ∀ b ∈ runBlocks (geoOf l) r, b < l.numBlocks := by
  intro b hb
  simp only [runBlocks, geoOf, List.mem_range'_1] at hb
  have := group_end_le l r.1 (r.2.1 + r.2.2) (by omega) h
  unfold groupStart at this
  omega

theorem runs_below (l : Layout) : ∀ (rs : List Run) (s : Acc), LenInv l s → runsOK s rs = true →
    (∀ r ∈ rs, r.1 < l.groups) ∧ ∀ b ∈ rs.flatMap (runBlocks (geoOf l)), b < l.numBlocks := by
  intro rs
  induction rs with
  | nil => intro s _ _; simp
  | cons r rs ih =>
    intro s hi hok
    simp only [runsOK, Bool.and_eq_true] at hok
    obtain ⟨ih1, ih2⟩ := ih (markRun s r) (lenInv_of_shape l s _ (shape_markRun s r) hi) hok.2
    have hg := runFree_group l s r hi hok.1
    refine ⟨?_, ?_⟩
    · intro r' hr'
      simp only [List.mem_cons] at hr'
      rcases hr' with h | h
      · subst h; exact hg
      · exact ih1 r' h
    · intro b hb
      simp only [List.flatMap_cons, List.mem_append] at hb
      rcases hb with hb | hb
      · rcases Nat.eq_zero_or_pos r.2.2 with hc | hc
        · simp [runBlocks, hc] at hb
        · exact runBlocks_below l r (runFree_bound l s r hi hok.1 hc).2 hc b hb
      · exact ih2 b hb

/-! ### the invariant along the machine, and the validity of every event it emits -/

theorem mem_superGroups (l : Layout) (g : Nat) (h : g ∈ superGroups l) : g < l.groups ∧ hasSuper g = true := by
  simp only [superGroups, List.mem_filter, List.mem_range] at h
  exact h

theorem metaEvs_ok (l : Layout) (owned : List Nat) : ∀ ev ∈ metaEvs l, EvOk l owned ev := by
  intro ev hev
  simp only [metaEvs, List.mem_append, List.mem_map] at hev
  rcases hev with ⟨g, hg, rfl⟩ | ⟨g, hg, rfl⟩
  · exact mem_superGroups l g hg
  · exact mem_superGroups l g hg

theorem ownedBlocks_append (acc : Acc) (fs : List FileRec) (f : FileRec) :
    ownedBlocks ⟨acc, fs ++ [f]⟩ = ownedBlocks ⟨acc, fs⟩ ++ f.blocks := by
  simp [ownedBlocks]

theorem mem_ownedBlocks (o : Own) (b : Nat) : b ∈ ownedBlocks o ↔ ∃ f ∈ o.files, b ∈ f.blocks := by
  simp [ownedBlocks, List.mem_flatMap]

theorem pickInode_bound (l : Layout) (s : Acc) (hi : LenInv l s) (gi p : Nat) (h : pickInode s.groups 0 = some (gi, p)) :
    gi < l.groups ∧ p < l.ipg := by
  obtain ⟨g, _, hg, ha⟩ := pickInode_spec s.groups 0 gi p h
  simp only [Nat.sub_zero] at hg
  obtain ⟨h1, _⟩ := allAre_spec false g.ibm p 1 (by omega) ha
  have h2 := (hi.2 gi g hg).2
  have h3 : gi < s.groups.length := (List.getElem?_eq_some_iff.1 hg).1
  have := hi.1
  exact ⟨by omega, by omega⟩

theorem ino_of_slot (l : Layout) (hw : LWF l) (gi p : Nat) (hg : gi < l.groups) (hp : p < l.ipg) :
    1 ≤ gi * l.ipg + p + 1 ∧ gi * l.ipg + p + 1 ≤ l.inodeCount := by
  rw [hw.icount]
  have : (gi + 1) * l.ipg ≤ l.groups * l.ipg := Nat.mul_le_mul_right _ (by omega)
  rw [Nat.add_mul, Nat.mul_comm l.groups] at this
  omega

theorem block_group_lt (l : Layout) (hw : LWF l) (b : Nat) (hb : b < l.numBlocks) : (b - l.fdb) / l.bpg < l.groups := by
  apply Nat.div_lt_of_lt_mul
  have := hw.cover
  rw [Nat.mul_comm]
  omega

theorem ownsSpan_spec (f : FileRec) (b n : Nat) (h : ownsSpan f b n = true) : ∀ j, j < n → b + j ∈ f.blocks := by
  intro j hj
  simp only [ownsSpan, List.all_eq_true, List.mem_range] at h
  have := h j hj
  simpa using this

/-- one call of the machine: the invariant is kept and every WriteAt names a structure of the volume, with the
    blocks owned before or after the call -/
theorem vstep_ok (l : Layout) (hw : LWF l) (o : Own) (op : VOp) (hi : RInv l o) :
    RInv l (vstep l o op).1 ∧
    ∀ ev ∈ (vstep l o op).2, EvOk l (ownedBlocks o ++ ownedBlocks (vstep l o op).1) ev := by
  obtain ⟨hlen, hown, hino⟩ := hi
  cases op with
  | create isDir =>
    simp only [vstep]
    split
    · rename_i gi p hp
      obtain ⟨hg, hpp⟩ := pickInode_bound l o.acc hlen gi p hp
      have hin := ino_of_slot l hw gi p hg hpp
      refine ⟨⟨lenInv_of_shape l _ _ (shape_ostep _ o _) hlen, ?_, ?_⟩, ?_⟩
      · intro b hb
        simp only [ostep] at hb
        split at hb
        · rw [ownedBlocks_append] at hb
          simp only [List.append_nil] at hb
          exact hown b (by simpa [ownedBlocks] using hb)
        · exact hown b hb
      · intro f hf
        simp only [ostep] at hf
        split at hf
        · simp only [List.mem_append, List.mem_singleton] at hf
          rcases hf with hf | hf
          · exact hino f hf
          · subst hf; exact hin
        · exact hino f hf
      · intro ev hev
        simp only [List.mem_append, List.mem_cons, List.not_mem_nil, or_false] at hev
        rcases hev with (rfl | hev) | rfl
        · exact hg
        · exact metaEvs_ok l _ ev hev
        · exact hin
    · exact ⟨⟨hlen, hown, hino⟩, by simp⟩
  | grow i n runs =>
    simp only [vstep]
    split
    · rename_i f acc' hf hacc
      have hok : runsOK o.acc runs = true := by
        cases hro : runsOK o.acc runs with
        | true => rfl
        | false =>
          exfalso
          simp [allocExtents, hro] at hacc
      obtain ⟨hr1, hr2⟩ := runs_below l runs o.acc hlen hok
      refine ⟨⟨lenInv_of_shape l _ _ (shape_ostep _ o _) hlen, ?_, ?_⟩, ?_⟩
      · intro b hb
        simp only [ostep, hf, hacc] at hb
        rw [mem_ownedBlocks] at hb
        obtain ⟨f', hf', hb'⟩ := hb
        simp only at hf'
        rcases List.mem_or_eq_of_mem_set hf' with h | h
        · exact hown b ((mem_ownedBlocks o b).2 ⟨f', h, hb'⟩)
        · subst h
          simp only [List.mem_append] at hb'
          rcases hb' with h | h
          · exact hown b ((mem_ownedBlocks o b).2 ⟨f, List.mem_of_getElem? hf, h⟩)
          · exact hr2 b h
      · intro f' hf'
        simp only [ostep, hf, hacc] at hf'
        rcases List.mem_or_eq_of_mem_set hf' with h | h
        · exact hino f' h
        · subst h; exact hino f (List.mem_of_getElem? hf)
      · intro ev hev
        simp only [List.mem_append, List.mem_map] at hev
        rcases hev with ⟨r, hr, rfl⟩ | hev
        · exact hr1 r hr
        · exact metaEvs_ok l _ ev hev
    · exact ⟨⟨hlen, hown, hino⟩, by simp⟩
  | remove i isDir =>
    simp only [vstep]
    split
    · rename_i f hf
      split
      · rename_i acc' hacc
        have hfm : f ∈ o.files := List.mem_of_getElem? hf
        refine ⟨⟨lenInv_of_shape l _ _ (shape_ostep _ o _) hlen, ?_, ?_⟩, ?_⟩
        · intro b hb
          simp only [ostep, hf, hacc] at hb
          rw [mem_ownedBlocks] at hb
          obtain ⟨f', hf', hb'⟩ := hb
          exact hown b ((mem_ownedBlocks o b).2 ⟨f', List.mem_of_mem_eraseIdx hf', hb'⟩)
        · intro f' hf'
          simp only [ostep, hf, hacc] at hf'
          exact hino f' (List.mem_of_mem_eraseIdx hf')
        · intro ev hev
          simp only [List.mem_append, List.mem_map, List.mem_cons, List.not_mem_nil, or_false] at hev
          rcases hev with (⟨b, hb, rfl⟩ | rfl | rfl) | hev
          · exact block_group_lt l hw b (hown b ((mem_ownedBlocks o b).2 ⟨f, hfm, hb⟩))
          · have := hino f hfm
            rw [hw.icount] at this
            show (f.ino - 1) / l.ipg < l.groups
            rcases Nat.eq_zero_or_pos l.ipg with h0 | h0
            · rw [h0] at this; omega
            · apply Nat.div_lt_of_lt_mul; omega
          · exact hino f hfm
          · exact metaEvs_ok l _ ev hev
      · exact ⟨⟨hlen, hown, hino⟩, by simp⟩
    · exact ⟨⟨hlen, hown, hino⟩, by simp⟩
  | wblocks i b n off len =>
    simp only [vstep]
    split
    · rename_i f hf
      split
      · rename_i hc
        simp only [Bool.and_eq_true, decide_eq_true_eq] at hc
        refine ⟨⟨hlen, hown, hino⟩, ?_⟩
        intro ev hev
        simp only [List.mem_singleton] at hev
        subst hev
        refine ⟨hc.1.1, ?_, hc.2⟩
        intro j hj
        have := ownsSpan_spec f b n hc.1.2 j hj
        exact List.mem_append_left _ ((mem_ownedBlocks o _).2 ⟨f, List.mem_of_getElem? hf, this⟩)
      · exact ⟨⟨hlen, hown, hino⟩, by simp⟩
    · exact ⟨⟨hlen, hown, hino⟩, by simp⟩
  | winode i =>
    simp only [vstep]
    split
    · rename_i f hf
      refine ⟨⟨hlen, hown, hino⟩, ?_⟩
      intro ev hev
      simp only [List.mem_singleton] at hev
      subst hev
      exact hino f (List.mem_of_getElem? hf)
    · exact ⟨⟨hlen, hown, hino⟩, by simp⟩

/-- one call: every WriteAt lies below numBlocks × blockSize -/
theorem vstep_inside (l : Layout) (flex : Bool) (hw : LWF l) (hfit : Fits l flex) (hb : BackupsFit l)
    (o : Own) (op : VOp) (hi : RInv l o) :
    ∀ ev ∈ (vstep l o op).2, (evRegion l flex ev).off + (evRegion l flex ev).len ≤ l.numBlocks * l.bs := by
  intro ev hev
  obtain ⟨hi', hok⟩ := vstep_ok l hw o op hi
  apply evOk_inside l flex _ hw hfit hb ?_ ev (hok ev hev)
  intro b hb'
  rcases List.mem_append.1 hb' with h | h
  · exact hi.2.1 b h
  · exact hi'.2.1 b h

/-- every history, by induction over the call sequence -/
theorem vrun_inside (l : Layout) (flex : Bool) (hw : LWF l) (hfit : Fits l flex) (hb : BackupsFit l) :
    ∀ (ops : List VOp) (o : Own), RInv l o →
      RInv l (vrun l o ops).1 ∧
      ∀ ev ∈ (vrun l o ops).2, (evRegion l flex ev).off + (evRegion l flex ev).len ≤ l.numBlocks * l.bs := by
  intro ops
  induction ops with
  | nil => intro o hi; exact ⟨hi, by simp [vrun]⟩
  | cons op ops ih =>
    intro o hi
    simp only [vrun]
    obtain ⟨h1, h2⟩ := ih (vstep l o op).1 (vstep_ok l hw o op hi).1
    refine ⟨h1, ?_⟩
    intro ev hev
    rcases List.mem_append.1 hev with h | h
    · exact vstep_inside l flex hw hfit hb o op hi ev h
    · exact h2 ev h

/-! ### Create: the state it leaves satisfies the invariant, its own writes are valid -/

theorem fresh_rinv (l : Layout) (flex : Bool) : RInv l (freshOwn l flex) := by
  refine ⟨⟨by simp [freshOwn], ?_⟩, by simp [freshOwn, ownedBlocks], by simp [freshOwn]⟩
  intro g grp hg
  simp only [freshOwn, List.getElem?_map] at hg
  cases hr : (List.range l.groups)[g]? with
  | none => rw [hr] at hg; cases hg
  | some g' =>
    rw [hr] at hg
    have hgg : g' = g := by
      have := List.getElem?_eq_some_iff.1 hr
      obtain ⟨h1, h2⟩ := this
      exact (by simpa using h2 : g = g').symm
    subst hgg
    simp only [Option.map_some, Option.some.injEq] at hg
    subst hg
    simp only [freshGroup, List.length_append, List.length_replicate]
    constructor
    · omega
    · split <;> omega

theorem createEvs_ok (l : Layout) (owned : List Nat) : ∀ ev ∈ createEvs l, EvOk l owned ev := by
  intro ev hev
  simp only [createEvs, List.mem_append, List.mem_flatMap, List.mem_range, List.mem_map,
    List.mem_cons, List.not_mem_nil, or_false] at hev
  rcases hev with ((rfl | ⟨g, hg, rfl | rfl | rfl⟩) | ⟨i, hi, rfl⟩) | hev
  · trivial
  · exact hg
  · exact hg
  · exact hg
  · exact hi
  · exact metaEvs_ok l owned ev hev

end Diskfs.Ranges.Ext4
