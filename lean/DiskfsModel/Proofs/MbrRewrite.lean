/-
  Rewriting the MBR table that mbr.Read returned (Table level, Model/MbrTable.lean: Read stamps sector sizes,
  Write refuses more than four partitions) changes no byte.  Helper for Props/C14.lean.
-/
import DiskfsModel.Proofs.MbrRead
import DiskfsModel.Proofs.GptIdem
namespace Diskfs.Mbr
open Diskfs.Gpt (Res)

/-- for ANY device content mbr.Read accepts — whoever wrote it, whatever sector sizes Read is given — Table.Write
    accepts the table that was read (it has exactly four slots) and leaves every byte of the device as it was -/
theorem readT_rewrite_noop (d : Dev) (devSize : Nat) (lbs pbs : Int) (t : Table)
    (h : (readT d devSize lbs pbs).1 = .ok t) : ∃ ws, writeT t = some ws ∧ applyWrs d ws = d := by
  obtain ⟨⟨a, b, c, e, hps, _⟩, _, _⟩ := readT_canonical d devSize lbs pbs t h
  have hlen : t.parts.length ≤ 4 := by rw [hps]; simp
  refine ⟨write t.parts, writeT_some t hlen, ?_⟩
  rw [readT_eq] at h
  cases hr : (read d devSize).1 with
  | none => simp [hr] at h
  | some ps =>
    simp only [hr, Res.ok.injEq] at h
    subst h
    exact write_read_noop d devSize ps hr

end Diskfs.Mbr
