/-
  Writer ∘ reader at the level of bytes (Model/Sqfs/ImageWr.lean against Model/Sqfs/ImageRd.lean).
  Part 1: the metadata tables the writers lay down (`cutGT` = the 8 KiB chunks of the stream) and
  how every (translated block, offset) reference into them resolves on the device.
-/
import DiskfsModel.Model.Sqfs.ImageWr
import DiskfsModel.Proofs.SqfsImageRd
namespace Diskfs.Sqfs

/-! ### `cutGT` cuts the stream into 8 KiB chunks -/

theorem chunksOf_fuel (n : Nat) (hn : 0 < n) : ∀ (f : Nat) (s : Bytes), s.length ≤ f → chunksOf n f s = chunksOf n s.length s := by
  intro f
  induction f using Nat.strongRecOn with
  | _ f ih =>
    intro s hs
    cases s with
    | nil => cases f <;> simp [chunksOf]
    | cons a r =>
      cases f with
      | zero => simp at hs
      | succ f =>
        simp only [chunksOf, List.isEmpty_cons, List.length_cons]
        simp only [Bool.false_eq_true, if_false]
        congr 1
        have hl : ((a :: r).drop n).length ≤ r.length := by simp; omega
        rw [ih f (by omega) _ (by simp at hs; omega), ih r.length (by simp at hs; omega) _ hl]

theorem metaChunks_nil : metaChunks [] = [] := rfl

theorem metaChunks_cons (s : Bytes) (h : s ≠ []) : metaChunks s = s.take metaBlock :: metaChunks (s.drop metaBlock) := by
  cases s with
  | nil => exact absurd rfl h
  | cons a r =>
    unfold metaChunks
    rw [List.length_cons, chunksOf]
    simp only [List.isEmpty_cons, Bool.false_eq_true, if_false]
    rw [chunksOf_fuel metaBlock (by decide) r.length ((a :: r).drop metaBlock) (by simp [metaBlock])]

/-- **the writers' chunking**: with items of at most 8 KiB, `writeInodes` / `writeDirectories` cut
    exactly the 8 KiB chunks of the stream -/
theorem cutGT_chunks : ∀ (items : List Bytes) (buf : Bytes), buf.length ≤ metaBlock → (∀ x ∈ items, x.length ≤ metaBlock) →
    cutGT items buf = metaChunks (buf ++ items.flatten) := by
  intro items
  induction items with
  | nil =>
    intro buf hb _
    simp only [cutGT, List.flatten_nil, List.append_nil]
    cases buf with
    | nil => rfl
    | cons a r =>
      rw [metaChunks_cons _ (by simp), List.take_of_length_le hb, List.drop_of_length_le hb]
      rfl
  | cons x r ih =>
    intro buf hb hx
    have hxl := hx x (List.mem_cons_self ..)
    have hr : ∀ y ∈ r, y.length ≤ metaBlock := fun y hy => hx y (List.mem_cons_of_mem _ hy)
    simp only [cutGT, List.flatten_cons]
    by_cases hgt : (buf ++ x).length > metaBlock
    · rw [if_pos hgt, ih _ (by simp only [List.length_drop, List.length_append] at hgt ⊢; omega) hr]
      have hne : buf ++ (x ++ r.flatten) ≠ [] := by
        intro h
        have := congrArg List.length h
        simp only [List.length_append, List.length_nil] at this hgt
        simp only [metaBlock] at hgt; omega
      have e : buf ++ (x ++ r.flatten) = (buf ++ x) ++ r.flatten := by simp
      rw [metaChunks_cons _ hne, e, List.take_append_of_le_length (Nat.le_of_lt hgt),
        List.drop_append_of_le_length (Nat.le_of_lt hgt)]
    · rw [if_neg hgt, ih _ (by omega) hr, List.append_assoc]

/-! ### references into a table followed by more blocks -/

theorem metaChunks_length (s : Bytes) : (metaChunks s).length = (s.length + metaBlock - 1) / metaBlock :=
  chunksOf_length metaBlock (by decide) _ _ (Nat.le_refl _)

theorem metaChunks_getD (s : Bytes) (k : Nat) : (metaChunks s).getD k [] = (s.drop (k * metaBlock)).take metaBlock := by
  induction k generalizing s with
  | zero =>
    cases s with
    | nil => rfl
    | cons a r => rw [metaChunks_cons _ (by simp)]; simp
  | succ k ih =>
    cases s with
    | nil => simp [metaChunks_nil]
    | cons a r =>
      rw [metaChunks_cons _ (by simp), List.getD_cons_succ, ih, List.drop_drop]
      congr 2
      rw [Nat.succ_mul]; omega

theorem metaOff_append (c : Codec) (nc : Bool) (a x : List Bytes) (k : Nat) (hk : k ≤ a.length) :
    metaOff c nc (a ++ x) k = metaOff c nc a k := by
  unfold metaOff
  rw [List.take_append_of_le_length hk]

/-- **references resolve in a written table**: the device shows, from `tbl` on, the encoded 8 KiB
    chunks of the stream `S` followed by further metadata blocks `X` (the next table).  Then the
    reference (byte offset of chunk `pos / 8192` in the table, `pos % 8192`) makes `readMetadata`
    answer from `S` at `pos`, continuing into `X` -/
theorem readsFrom_stream (c : Codec) (nc : Bool) (img : Dev) (tbl : Nat) (S : Bytes) (X : List Bytes)
    (hX : ∀ x ∈ X, BlockOK x) (hT : HoldsAt img tbl (metaTable c nc (metaChunks S ++ X)))
    (pos : Nat) (hpos : pos ≤ S.length) (hk : pos / metaBlock < (metaChunks S).length) :
    ReadsFrom c img tbl (metaOff c nc (metaChunks S) (pos / metaBlock)) (pos % metaBlock) (S.drop pos ++ X.flatten) := by
  have hok : ∀ x ∈ metaChunks S ++ X, BlockOK x := by
    intro x hx
    rcases List.mem_append.1 hx with h | h
    · exact metaChunks_ok S x h
    · exact hX x h
  have hdm := Nat.div_add_mod pos metaBlock
  have hgetD : (metaChunks S ++ X).getD (pos / metaBlock) [] = (S.drop (pos / metaBlock * metaBlock)).take metaBlock := by
    rw [List.getD_eq_getElem?_getD, List.getElem?_append_left hk, ← List.getD_eq_getElem?_getD, metaChunks_getD]
  have hoff : pos % metaBlock ≤ ((metaChunks S ++ X).getD (pos / metaBlock) []).length := by
    rw [hgetD, List.length_take, List.length_drop]
    have : pos % metaBlock < metaBlock := Nat.mod_lt _ (by decide)
    have h2 : pos / metaBlock * metaBlock = metaBlock * (pos / metaBlock) := Nat.mul_comm _ _
    omega
  have := readsFrom_of_table c nc img tbl (metaChunks S ++ X) hok hT (pos / metaBlock) (pos % metaBlock)
    (by rw [List.length_append]; omega) hoff
  rw [metaOff_append c nc _ _ _ (by omega)] at this
  have hstream : ((metaChunks S ++ X).drop (pos / metaBlock)).flatten.drop (pos % metaBlock) = S.drop pos ++ X.flatten := by
    rw [List.drop_append_of_le_length (by omega), List.flatten_append]
    have h1 : ((metaChunks S).drop (pos / metaBlock)).flatten = S.drop (pos / metaBlock * metaBlock) := by
      unfold metaChunks
      exact chunksOf_drop_flatten metaBlock (by decide) _ _ _ (Nat.le_refl _)
    rw [h1, List.drop_append_of_le_length (by
      rw [List.length_drop]
      have h2 : pos / metaBlock * metaBlock = metaBlock * (pos / metaBlock) := Nat.mul_comm _ _
      omega), List.drop_drop]
    congr 2
    have h2 : pos / metaBlock * metaBlock = metaBlock * (pos / metaBlock) := Nat.mul_comm _ _
    omega
  rw [hstream] at this
  exact this

/-- `translateInodeLocations` over the offsets `writeInodes` records = the table offset of the chunk -/
theorem blockOffsets_length (l : List Nat) (p : Nat) : (blockOffsets l p).length = l.length := by
  induction l generalizing p with
  | nil => rfl
  | cons b r ih => simp [blockOffsets, ih]

theorem translate_metaOff (c : Codec) (nc : Bool) (blocks : List Bytes) (k : Nat) (hk : k < blocks.length) :
    translate (blockOffsets (blocks.map fun b => (storeBlock c nc b).payload.length) 0) k = metaOff c nc blocks k := by
  have hl : (blockOffsets (blocks.map fun b => (storeBlock c nc b).payload.length) 0).length = blocks.length := by
    rw [blockOffsets_length, List.length_map]
  unfold translate
  rw [if_pos (by omega)]
  simpa using metaOff_blockOffsets c nc blocks 0 k hk

/-! ### positions inside a flattened list -/

theorem flatten_drop_prefix (l : List Bytes) (i : Nat) (hi : i < l.length) :
    l.flatten.drop ((l.take i).flatten.length) = l.getD i [] ++ (l.drop (i + 1)).flatten := by
  induction l generalizing i with
  | nil => simp at hi
  | cons x r ih =>
    cases i with
    | zero => simp
    | succ i =>
      simp only [List.take_succ_cons, List.flatten_cons, List.length_append, List.getD_cons_succ, List.drop_succ_cons]
      rw [List.drop_append, List.drop_eq_nil_of_le (by omega), List.nil_append]
      have : x.length + (r.take i).flatten.length - x.length = (r.take i).flatten.length := by omega
      rw [this]
      exact ih i (by simpa using hi)

theorem flatten_take_lt (l : List Bytes) (i : Nat) (hi : i < l.length) (hne : 0 < (l.getD i []).length) :
    (l.take i).flatten.length < l.flatten.length := by
  have := congrArg List.length (flatten_drop_prefix l i hi)
  simp only [List.length_drop, List.length_append] at this
  omega

theorem flatten_take_le (l : List Bytes) (i : Nat) : (l.take i).flatten.length ≤ l.flatten.length := by
  conv => rhs; rw [← List.take_append_drop i l]
  rw [List.flatten_append, List.length_append]
  exact Nat.le_add_right _ _

end Diskfs.Sqfs

namespace Diskfs.Sqfs

/-! ## Part 2: file contents come back out of the data and fragment blocks -/

theorem readS_congr (c : Codec) (f g : FileImg) (hs : f.size = g.size) (hb : ∀ p, p < f.size → byteAt c f p = byteAt c g p)
    (off n : Nat) : readS c f off n = readS c g off n := by
  unfold readS
  simp only [hs]
  congr 1
  apply List.map_congr_left
  intro k hk
  simp only [List.mem_range] at hk
  exact hb _ (by rw [hs]; omega)

theorem byteAt_blocks (c : Codec) (f g : FileImg) (h1 : f.bs = g.bs) (h2 : f.blocks = g.blocks) (p : Nat)
    (hp : p / f.bs < f.blocks.length) : byteAt c f p = byteAt c g p := by
  unfold byteAt
  rw [← h1, ← h2, if_pos hp, if_pos hp]

theorem storedBytes_cons (s : Stored) (r : List Stored) : storedBytes (s :: r) = s.payload ++ storedBytes r := by
  simp [storedBytes]

/-- `File.Read` finds the blocks `copyFileData` wrote: block i at `start + Σ sizes[<i]` -/
theorem loadBlocks_stored (img : Dev) : ∀ (l : List Stored) (loc : Nat), HoldsAt img loc (storedBytes l) →
    loadBlocks img loc (l.map blkOfStored) = l := by
  intro l
  induction l with
  | nil => intro _ _; rfl
  | cons s r ih =>
    intro loc h
    rw [storedBytes_cons] at h
    obtain ⟨h1, h2⟩ := holdsAt_append _ _ _ _ h
    simp only [List.map_cons, loadBlocks, blkOfStored]
    rw [ih _ h2]
    unfold HoldsAt at h1
    rw [h1]

/-- the entries `writeFragmentTable` records lead back to the stored fragment blocks -/
theorem fragEnts_get (img : Dev) : ∀ (l : List Stored) (loc : Nat), HoldsAt img loc (storedBytes l) → ∀ i, i < l.length →
    ∃ fe, (fragEnts l loc)[i]? = some fe ∧ (⟨fe.compressed, readAt img fe.start fe.size⟩ : Stored) = l.getD i ⟨false, []⟩ := by
  intro l
  induction l with
  | nil => intro _ _ i hi; simp at hi
  | cons s r ih =>
    intro loc h i hi
    rw [storedBytes_cons] at h
    obtain ⟨h1, h2⟩ := holdsAt_append _ _ _ _ h
    cases i with
    | zero =>
      refine ⟨⟨loc, s.payload.length, s.compressed⟩, by simp [fragEnts], ?_⟩
      unfold HoldsAt at h1
      simp [h1]
    | succ i =>
      obtain ⟨fe, a, b⟩ := ih _ h2 i (by simpa using hi)
      exact ⟨fe, by simpa [fragEnts] using a, by simpa using b⟩

theorem fragEnts_length (l : List Stored) (loc : Nat) : (fragEnts l loc).length = l.length := by
  induction l generalizing loc with
  | nil => rfl
  | cons s r ih => simp [fragEnts, ih]

/-- what the image has to offer for a file's tail: nothing if there is none, else the fragment
    table entry the reference names leads to a stored block that holds the tail at the offset -/
def FragOK (c : Codec) (ncf : Bool) (img : Dev) (frags : List FragEnt) (tail : Bytes) : Option (Nat × Nat) → Prop
  | none => tail = []
  | some (idx, fo) => tail = [] ∨ (idx < noFrag ∧ ∃ fe blkU, frags[idx]? = some fe ∧
      (⟨fe.compressed, readAt img fe.start fe.size⟩ : Stored) = storeBlock c ncf blkU ∧ (blkU.drop fo).take tail.length = tail)

theorem tail_length (bs : Nat) (d : Bytes) : (d.drop (d.length / bs * bs)).length = d.length % bs := by
  rw [List.length_drop]
  have := Nat.div_add_mod d.length bs
  have h2 : d.length / bs * bs = bs * (d.length / bs) := Nat.mul_comm _ _
  omega

/-- **file contents read back**: for a regular file whose full blocks stand at `dloc` and whose
    tail the fragment reference finds (`FragOK`), `ReadFile` over the inode `createInodes` builds
    returns the contents — basic or extended inode, any codec, any NoCompress flags -/
theorem fileBytes_written (c : Codec) (o : WOpt) (hbs : 0 < o.bs) (img : Dev) (frags : List FragEnt) (e : FEnt) (hk : e.kind = 0)
    (dloc : Nat) (fr : Option (Nat × Nat)) (dir : Nat × Nat × Nat)
    (hD : HoldsAt img dloc (storedBytes (fileStored c o e)))
    (hF : FragOK c o.noCompFrag img frags (tailOf o e) fr) :
    fileBytes c img o.bs frags (mkBody c o e dloc fr dir) = some e.data := by
  have hblocks : loadBlocks img dloc ((fileStored c o e).map blkOfStored) =
      (fullBlocks o.bs (e.data.length / o.bs) e.data).map (storeBlock c o.noCompData) := by
    rw [loadBlocks_stored img _ _ hD]; simp [fileStored, hk]
  have htl : (tailOf o e).length = e.data.length % o.bs := by simp only [tailOf, hk, if_true]; exact tail_length _ _
  have hspec : ∀ pre post, (readS c (buildFile c o.noCompData o.noCompFrag o.bs pre post e.data) 0 e.data.length).1 = e.data := by
    intro pre post
    rw [readS_build c _ _ _ pre post e.data hbs]
    simp
  -- the FileImg the reader works on
  have key : ∀ frag fo, (∀ idx f2, fr = some (idx, f2) → frag = idx ∧ fo = f2) →
      (readS c (fileFromImage img o.bs frags dloc frag fo e.data.length ((fileStored c o e).map blkOfStored)) 0 e.data.length).1 = e.data := by
    intro frag fo hfrag
    by_cases hz : e.data.length % o.bs = 0
    · -- no tail: only the blocks are consulted
      refine Eq.trans ?_ (hspec [] [])
      congr 1
      apply readS_congr
      · rfl
      · intro p hp
        apply byteAt_blocks
        · rfl
        · simp only [fileFromImage, buildFile, hblocks]
        · simp only [fileFromImage, hblocks, List.length_map, fullBlocks_length]
          simp only [fileFromImage] at hp
          have := Nat.div_add_mod e.data.length o.bs
          rw [hz] at this
          have h3 : p < o.bs * (e.data.length / o.bs) := by omega
          rw [Nat.mul_comm] at h3
          exact (Nat.div_lt_iff_lt_mul hbs).2 h3
    · -- a tail: the fragment reference must be there
      cases fr with
      | none =>
        simp only [FragOK] at hF
        rw [hF] at htl
        simp at htl
        omega
      | some f =>
        obtain ⟨idx, fo'⟩ := f
        have hne : 0 < (tailOf o e).length := by omega
        rcases hF with hF | ⟨hlt, fe, blkU, hget, hst, htail⟩
        · rw [hF] at hne; simp at hne
        obtain ⟨hfr, hfo⟩ := hfrag idx fo' rfl
        rw [hfr, hfo]
        have hfo2 : fo' < blkU.length := by
          have h1 := congrArg List.length htail
          simp only [List.length_take, List.length_drop] at h1
          omega
        have hsplit : blkU = blkU.take fo' ++ tailOf o e ++ blkU.drop (fo' + (tailOf o e).length) := by
          conv => lhs; rw [← List.take_append_drop fo' blkU, ← List.take_append_drop (tailOf o e).length (blkU.drop fo'), htail,
            List.drop_drop]
          simp [List.append_assoc]
        refine Eq.trans ?_ (hspec (blkU.take fo') (blkU.drop (fo' + (tailOf o e).length)))
        congr 2
        simp only [fileFromImage, buildFile, hblocks, hz, if_false]
        have hnf : ¬ idx = noFrag := by omega
        simp only [hnf, if_false, hget, Option.map_some, hst]
        have ht : tailOf o e = e.data.drop (e.data.length / o.bs * o.bs) := by simp [tailOf, hk]
        rw [← ht, ← hsplit]
        simp only [List.length_take]
        rw [Nat.min_eq_left (Nat.le_of_lt hfo2)]
  unfold mkBody
  have hk1 : ¬ e.kind = 1 := by omega
  have hk2 : ¬ e.kind = 2 := by omega
  simp only [hk1, hk2, if_false]
  by_cases hl : e.links > 0
  · simp only [hl, if_true, fileBytes]
    rw [key _ _ (by intro idx f2 h; subst h; exact ⟨rfl, rfl⟩)]
  · simp only [hl, if_false, fileBytes]
    rw [key _ _ (by intro idx f2 h; subst h; exact ⟨rfl, rfl⟩)]

end Diskfs.Sqfs
