import DiskfsModel.Model.Sqfs.ImageRd
import DiskfsModel.Proofs.SqfsInode
import DiskfsModel.Proofs.SqfsMap
import DiskfsModel.Proofs.SqfsWalk
import DiskfsModel.Proofs.SqfsMeta
namespace Diskfs.Sqfs

/-- the device shows the byte string `X` at offset `off` -/
def HoldsAt (img : Dev) (off : Nat) (X : Bytes) : Prop := readAt img off X.length = X

theorem readAt_drop_take (d : Dev) (off L a n : Nat) (h : a + n ≤ L) :
    ((readAt d off L).drop a).take n = readAt d (off + a) n := by
  apply List.ext_getElem
  · simp; omega
  · intro i h1 h2
    simp [readAt, Nat.add_assoc]

theorem holdsAt_sub (img : Dev) (off : Nat) (X : Bytes) (h : HoldsAt img off X) (a n : Nat) (han : a + n ≤ X.length) :
    readAt img (off + a) n = (X.drop a).take n := by
  rw [← readAt_drop_take img off X.length a n han, h]

theorem holdsAt_append (img : Dev) (off : Nat) (A B : Bytes) (h : HoldsAt img off (A ++ B)) :
    HoldsAt img off A ∧ HoldsAt img (off + A.length) B := by
  constructor
  · have := holdsAt_sub img off (A ++ B) h 0 A.length (by simp)
    simpa [HoldsAt] using this
  · have := holdsAt_sub img off (A ++ B) h A.length B.length (by simp)
    simpa [HoldsAt] using this

/-! ### one metadata block -/

def encStored (s : Stored) : Bytes :=
  leEnc 2 (s.payload.length + (if s.compressed then 0 else metaFlag)) ++ s.payload

theorem encodeMetaBlock_eq (c : Codec) (nc : Bool) (buf : Bytes) :
    encodeMetaBlock c nc buf = encStored (storeBlock c nc buf) := rfl

theorem encStored_length (s : Stored) : (encStored s).length = s.payload.length + 2 := by
  simp [encStored]; omega

theorem readMetaBlock_enc (c : Codec) (img : Dev) (loc : Nat) (s : Stored) (hs : s.payload.length < metaFlag)
    (h : HoldsAt img loc (encStored s)) : readMetaBlock c img loc = (loadFrag c s, s.payload.length + 2) := by
  have hlen := encStored_length s
  have h2 : readAt img loc 2 = leEnc 2 (s.payload.length + (if s.compressed then 0 else metaFlag)) := by
    have := holdsAt_sub img loc _ h 0 2 (by omega)
    simpa [encStored] using this
  have hv : leDec (readAt img loc 2) = s.payload.length + (if s.compressed then 0 else metaFlag) := by
    rw [h2]
    apply leDec_leEnc_of_lt
    simp only [metaFlag] at hs ⊢
    split <;> omega
  have hp : ∀ n, n = s.payload.length → readAt img (loc + 2) n = s.payload := by
    intro n hn
    have := holdsAt_sub img loc _ h 2 n (by omega)
    rw [this, hn]
    simp [encStored]
  cases hc : s.compressed with
  | true =>
    simp only [hc, if_true, Nat.add_zero] at hv
    have e1 : s.payload.length % metaFlag = s.payload.length := Nat.mod_eq_of_lt hs
    have e2 : s.payload.length / metaFlag % 2 = 0 := by rw [Nat.div_eq_of_lt hs]
    unfold readMetaBlock
    simp only [hv, e1, e2, hp _ rfl, loadFrag, hc]
    simp
  | false =>
    simp only [hc, Bool.false_eq_true, if_false] at hv
    have e1 : (s.payload.length + metaFlag) % metaFlag = s.payload.length := by
      simp; exact Nat.mod_eq_of_lt hs
    have e2 : (s.payload.length + metaFlag) / metaFlag % 2 = 1 := by
      simp only [metaFlag] at hs ⊢
      omega
    unfold readMetaBlock
    simp only [hv, e1, e2, hp _ rfl, loadFrag, hc]
    simp

theorem storeBlock_payload_le (c : Codec) (nc : Bool) (blk : Bytes) : (storeBlock c nc blk).payload.length ≤ blk.length := by
  unfold storeBlock
  split
  · rename_i h; simp; omega
  · simp

/-- a block the writers produce: non-empty, at most 8 KiB -/
def BlockOK (b : Bytes) : Prop := 0 < b.length ∧ b.length ≤ metaBlock

/-- reading the block `writeMetadataBlock` wrote returns its contents and its stored length -/
theorem readMetaBlock_written (c : Codec) (nc : Bool) (img : Dev) (loc : Nat) (blk : Bytes) (hb : BlockOK blk)
    (h : HoldsAt img loc (encodeMetaBlock c nc blk)) :
    readMetaBlock c img loc = (blk, (encodeMetaBlock c nc blk).length) := by
  rw [encodeMetaBlock_eq] at h ⊢
  have hle := storeBlock_payload_le c nc blk
  rw [readMetaBlock_enc c img loc _ (by simp only [metaFlag]; have := hb.2; simp only [metaBlock] at this; omega) h,
    loadFrag_store, encStored_length]

/-! ### `readMetadata` across blocks -/

theorem metaTable_cons (c : Codec) (nc : Bool) (b : Bytes) (r : List Bytes) :
    metaTable c nc (b :: r) = encodeMetaBlock c nc b ++ metaTable c nc r := by simp [metaTable]

theorem readMetaMore_spec (c : Codec) (nc : Bool) (img : Dev) (first size : Nat) :
    ∀ (rest : List Bytes) (fuel blockOff read : Nat) (b : Bytes),
      (∀ x ∈ rest, BlockOK x) → HoldsAt img (first + (blockOff + read)) (metaTable c nc rest) →
      size ≤ b.length + rest.flatten.length → (1 ≤ fuel ∧ size + 1 ≤ fuel + b.length) →
      ∃ n, size ≤ n ∧ n ≤ b.length + rest.flatten.length ∧
        readMetaMore c img first size fuel blockOff read b = some ((b ++ rest.flatten).take n) := by
  intro rest
  induction rest with
  | nil =>
    intro fuel blockOff read b _ _ hsz hf
    cases fuel with
    | zero => simp at hsz; omega
    | succ f =>
      refine ⟨b.length, by simpa using hsz, by simp, ?_⟩
      simp at hsz
      simp [readMetaMore, hsz]
  | cons r rs ih =>
    intro fuel blockOff read b hok hT hsz hf
    cases fuel with
    | zero => omega
    | succ f =>
      by_cases hdone : size ≤ b.length
      · refine ⟨b.length, hdone, by omega, ?_⟩
        simp [readMetaMore, hdone]
      · rw [metaTable_cons] at hT
        obtain ⟨hT1, hT2⟩ := holdsAt_append _ _ _ _ hT
        have hr := hok r (List.mem_cons_self ..)
        have hblk := readMetaBlock_written c nc img _ r hr hT1
        have := ih f (blockOff + read) (encodeMetaBlock c nc r).length (b ++ r)
          (fun x hx => hok x (List.mem_cons_of_mem _ hx))
          (by simpa [Nat.add_assoc] using hT2)
          (by simp only [List.flatten_cons, List.length_append] at hsz ⊢; omega)
          (by simp only [List.length_append]; have := hr.1; constructor <;> omega)
        obtain ⟨n, h1, h2, h3⟩ := this
        refine ⟨n, h1, by simp only [List.flatten_cons, List.length_append] at h2 ⊢; omega, ?_⟩
        have hne : ¬ r.length = 0 := by have := hr.1; omega
        simp only [readMetaMore, hdone, if_false, hblk, hne]
        simpa using h3

/-- **readMetadata across blocks.**  If the device shows, from `first + blockOff` on, the encoded
    metadata blocks `cur :: rest` (each 1..8192 bytes before compression), then asking for `size`
    bytes from offset `byteOff` of the first block returns a prefix, at least `size` bytes long, of
    the uncompressed stream from that position on — however many blocks that takes. -/
theorem readMetadata_spec (c : Codec) (nc : Bool) (img : Dev) (first blockOff byteOff size : Nat) (cur : Bytes)
    (rest : List Bytes) (hok : ∀ x ∈ cur :: rest, BlockOK x)
    (hT : HoldsAt img (first + blockOff) (metaTable c nc (cur :: rest)))
    (ho : byteOff ≤ cur.length) (hsz : size ≤ ((cur :: rest).flatten.drop byteOff).length) :
    ∃ n, size ≤ n ∧ n ≤ ((cur :: rest).flatten.drop byteOff).length ∧
      readMetadata c img first blockOff byteOff size = some (((cur :: rest).flatten.drop byteOff).take n) := by
  rw [metaTable_cons] at hT
  obtain ⟨hT1, hT2⟩ := holdsAt_append _ _ _ _ hT
  have hblk := readMetaBlock_written c nc img _ cur (hok cur (List.mem_cons_self ..)) hT1
  have hS : (cur :: rest).flatten.drop byteOff = cur.drop byteOff ++ rest.flatten := by
    simp only [List.flatten_cons]
    rw [List.drop_append_of_le_length ho]
  rw [hS] at hsz ⊢
  have := readMetaMore_spec c nc img first size rest (size + 1) blockOff (encodeMetaBlock c nc cur).length (cur.drop byteOff)
    (fun x hx => hok x (List.mem_cons_of_mem _ hx)) (by simpa [Nat.add_assoc] using hT2)
    (by simpa using hsz) (by constructor <;> omega)
  obtain ⟨n, h1, h2, h3⟩ := this
  refine ⟨n, h1, by simpa using h2, ?_⟩
  unfold readMetadata
  simp only [hblk]
  rw [if_neg (by omega)]
  exact h3

/-! ### `getInode` through `readMetadata` -/

/-- length of the fixed part of a body -/
def IBody.fixed : IBody → Nat
  | .basicDir .. => 16 | .extDir .. => 24 | .basicFile .. => 16 | .extFile .. => 40 | .basicSymlink .. => 8
theorem inode_size_eq (i : Inode) : i.size = 16 + i.body.fixed + i.body.var := by
  cases i with
  | mk h b => cases b <;> simp [Inode.size, IBody.fixed, IBody.var] <;> omega

theorem typeSize_body (b : IBody) : 16 + b.fixed ≤ typeSize b.typ ∧ typeSize b.typ ≤ 16 + b.fixed + 1 := by
  cases b <;> simp [IBody.fixed, IBody.typ, typeSize]

theorem encodeBody_length (b : IBody) : (encodeBody b).length = b.fixed + b.var := by
  cases b <;> simp [encodeBody, IBody.fixed, IBody.var, encodeBlks_length] <;> omega

theorem take_drop_take (X : Bytes) (m a k : Nat) (h : a + k ≤ m) : ((X.take m).drop a).take k = (X.drop a).take k := by
  rw [List.drop_take, List.take_take, Nat.min_eq_left (by omega)]

theorem drop_leEnc_append (k v n : Nat) (R : Bytes) (h : k ≤ n) : (leEnc k v ++ R).drop n = R.drop (n - k) := by
  rw [List.drop_append, List.drop_eq_nil_of_le (by simpa using h)]; simp

theorem take_leEnc_append (k v : Nat) (R : Bytes) : (leEnc k v ++ R).take k = leEnc k v := by
  rw [List.take_append_of_le_length (by simp)]; exact List.take_of_length_le (by simp)

theorem bodyExtra_spec (bs : Nat) (body : IBody) (hwf : body.WF bs) (rest : Bytes) (m : Nat) (hm1 : body.fixed ≤ m)
    (hm2 : m ≤ (encodeBody body ++ rest).length) :
    bodyExtra bs body.typ ((encodeBody body ++ rest).take m) = some (if m - body.fixed ≥ body.var then 0 else body.var) := by
  have hlen : ((encodeBody body ++ rest).take m).length = m := by rw [List.length_take]; exact Nat.min_eq_left hm2
  cases body with
  | basicDir sb links fs off par =>
    simp only [IBody.fixed] at hm1
    simp only [IBody.typ, bodyExtra, hlen, IBody.fixed, IBody.var]
    simp; omega
  | extDir links fs sb par off xa =>
    simp only [IBody.fixed] at hm1
    simp only [IBody.typ, bodyExtra, hlen, IBody.fixed, IBody.var]
    have : ¬ m < 24 := by omega
    rw [take_drop_take _ m 16 2 (by omega)]
    simp [this, encodeBody, leDec, leEnc]
  | basicFile st fr fo fs bl =>
    simp only [IBody.fixed] at hm1
    obtain ⟨h1, h2, h3, h4, _, h6⟩ := hwf
    simp only [IBody.typ, bodyExtra, hlen, IBody.fixed, IBody.var]
    have : ¬ m < 16 := by omega
    rw [take_drop_take _ m 12 4 (by omega), take_drop_take _ m 4 4 (by omega)]
    simp [this, encodeBody, drop_leEnc_append, e4 _ h2, e4 _ h4, ← h6]
  | extFile st fs sp links fr fo xa bl =>
    simp only [IBody.fixed] at hm1
    obtain ⟨h1, h2, h3, h4, h5, h6, h7, _, h9⟩ := hwf
    simp only [IBody.typ, bodyExtra, hlen, IBody.fixed, IBody.var]
    have : ¬ m < 40 := by omega
    rw [take_drop_take _ m 8 8 (by omega), take_drop_take _ m 28 4 (by omega)]
    simp [this, encodeBody, drop_leEnc_append, e8 _ h2, e4 _ h5, ← h9]
  | basicSymlink links t =>
    simp only [IBody.fixed] at hm1
    obtain ⟨h1, h2⟩ := hwf
    simp only [IBody.typ, bodyExtra, hlen, IBody.fixed, IBody.var]
    have : ¬ m < 8 := by omega
    rw [take_drop_take _ m 4 4 (by omega)]
    simp [this, encodeBody, e4 _ h2]

theorem encodeInode_split (i : Inode) : ∃ h : Bytes, h.length = 14 ∧ encodeInode i = leEnc 2 i.body.typ ++ (h ++ encodeBody i.body) := by
  refine ⟨leEnc 2 i.hdr.mode ++ (leEnc 2 i.hdr.uid ++ (leEnc 2 i.hdr.gid ++ (leEnc 4 i.hdr.mtime ++ leEnc 4 i.hdr.index))), by simp, ?_⟩
  simp [encodeInode]

/-- **getInode finds the inode**: whatever type the directory entry announced (any of the 14), the
    read / re-read / re-read-with-extra sequence of `getInode` ends with the inode that is encoded
    at the reference, provided `readMetadata` answers from the stream there and the stream holds
    as many bytes as `getInode` asks for -/
theorem getInodeM_spec (c : Codec) (img : Dev) (tbl bs blockOff byteOff typ : Nat) (i : Inode) (rest : Bytes)
    (hwf : i.WF bs) (htyp : 16 ≤ typeSize typ) (hts : typeSize typ ≤ (encodeInode i ++ rest).length)
    (hask : i.ask ≤ (encodeInode i ++ rest).length)
    (RM : ReadsFrom c img tbl blockOff byteOff (encodeInode i ++ rest)) :
    getInodeM c img tbl bs blockOff byteOff typ = some i := by
  obtain ⟨hd, hdl, hsplit⟩ := encodeInode_split i
  have hsz := inode_size_eq i
  have hel := encodeInode_length i
  have hts2 := typeSize_body i.body
  have hSlen : (encodeInode i ++ rest).length = i.size + rest.length := by simp [hel]
  -- first read
  obtain ⟨n0, hn0, hn0', h0⟩ := RM (typeSize typ) hts
  have take2 : ∀ n, 2 ≤ n → ((encodeInode i ++ rest).take n).take 2 = leEnc 2 i.body.typ := by
    intro n hn
    rw [List.take_take, Nat.min_eq_left hn, hsplit, List.append_assoc, take_leEnc_append]
  have drop16 : ∀ n, ((encodeInode i ++ rest).take n).drop 16 = (encodeBody i.body ++ rest).take (n - 16) := by
    intro n
    rw [List.drop_take, hsplit]
    congr 1
    rw [List.append_assoc, drop_leEnc_append _ _ _ _ (by omega), List.append_assoc, List.drop_append_of_le_length (by omega),
      List.drop_of_length_le (by omega)]
    simp
  have htypdec : leDec (leEnc 2 i.body.typ) = i.body.typ := e2 _ (body_typ_lt i.body)
  have sizeEq : (if i.body.typ = typ then typeSize typ else typeSize i.body.typ) = typeSize i.body.typ := by
    split
    · rename_i h; rw [h]
    · rfl
  have haskle : typeSize i.body.typ ≤ i.ask := by simp [Inode.ask]
  -- second read (only if the type differs and more is needed)
  have step1 : ∃ n1, typeSize i.body.typ ≤ n1 ∧ n1 ≤ (encodeInode i ++ rest).length ∧
      (if i.body.typ ≠ typ ∧ typeSize i.body.typ > ((encodeInode i ++ rest).take n0).length
        then readMetadata c img tbl blockOff byteOff (typeSize i.body.typ) else some ((encodeInode i ++ rest).take n0)) =
        some ((encodeInode i ++ rest).take n1) := by
    have hl0 : ((encodeInode i ++ rest).take n0).length = n0 := by rw [List.length_take]; exact Nat.min_eq_left hn0'
    rw [hl0]
    by_cases hcond : i.body.typ ≠ typ ∧ typeSize i.body.typ > n0
    · obtain ⟨n1, a, b, h1⟩ := RM (typeSize i.body.typ) (by omega)
      exact ⟨n1, a, b, by rw [if_pos hcond]; exact h1⟩
    · refine ⟨n0, ?_, hn0', by rw [if_neg hcond]⟩
      by_cases ht : i.body.typ = typ
      · rw [ht]; exact hn0
      · have : ¬ typeSize i.body.typ > n0 := fun h => hcond ⟨ht, h⟩
        omega
  obtain ⟨n1, hn1, hn1', h1⟩ := step1
  -- extra
  have hbe := bodyExtra_spec bs i.body hwf.2.2.2.2.2 rest (n1 - 16) (by omega)
    (by rw [List.length_append, encodeBody_length]; omega)
  have step2 : ∃ n2, i.size ≤ n2 ∧ n2 ≤ (encodeInode i ++ rest).length ∧
      (if (if n1 - 16 - i.body.fixed ≥ i.body.var then 0 else i.body.var) > 0
        then readMetadata c img tbl blockOff byteOff (typeSize i.body.typ + (if n1 - 16 - i.body.fixed ≥ i.body.var then 0 else i.body.var))
        else some ((encodeInode i ++ rest).take n1)) = some ((encodeInode i ++ rest).take n2) := by
    by_cases hen : n1 - 16 - i.body.fixed ≥ i.body.var
    · exact ⟨n1, by omega, hn1', by simp [hen]⟩
    · simp only [hen, if_false]
      have hpos : i.body.var > 0 := by omega
      obtain ⟨n2, a, b, h2⟩ := RM (typeSize i.body.typ + i.body.var) hask
      exact ⟨n2, by omega, b, by rw [if_pos hpos]; exact h2⟩
  obtain ⟨n2, hn2, hn2', h2⟩ := step2
  have hfin : decodeInode bs ((encodeInode i ++ rest).take n2) = some (i, rest.take (n2 - i.size)) := by
    rw [List.take_append, List.take_of_length_le (by omega), hel]
    exact decode_encodeInode bs i _ hwf
  have hl0 : ¬ ((encodeInode i ++ rest).take n0).length < 16 := by
    rw [List.length_take, Nat.min_eq_left hn0']; omega
  unfold getInodeM
  simp only [h0, hl0, if_false, take2 n0 (by omega), htypdec, sizeEq, h1, drop16, hbe, h2, hfin]
  rfl

/-! ### `getDirectory`, and the walk -/

theorem getDirM_spec (c : Codec) (img : Dev) (tbl blockOff byteOff : Nat) (es : List DEnt) (rest : Bytes)
    (hwf : ∀ e ∈ es, e.WF 0) (hrest : 3 ≤ rest.length) (RM : ReadsFrom c img tbl blockOff byteOff (encodeListing 0 es ++ rest)) :
    getDirM c img tbl blockOff byteOff ((encodeListing 0 es).length + 3) = some es := by
  obtain ⟨n, h1, h2, h3⟩ := RM ((encodeListing 0 es).length + 3) (by simp only [List.length_append]; omega)
  unfold getDirM
  simp only [h3]
  rw [List.take_take, Nat.min_eq_left h1, List.take_append, List.take_of_length_le (by omega)]
  have hlen : es.length ≤ (encodeListing 0 es).length := encodeDir_length_ge 0 _ _ (Nat.le_refl _)
  exact decode_encodeDir_tail 0 (by decide) _ (by rw [List.length_take]; omega) _ _ _ (Nat.le_refl _) (by omega) hwf

theorem dirAsk_isSome (b : IBody) : (dirAsk b).isSome = (listingRef b).isSome := by cases b <;> rfl

/-- **the reader walks the image**: if the image shows the tree to `readMetadata` (`ImgShows`), the
    walk that `ReadDir` / `hydrateDirectoryEntries` / `ReadFile` perform below a directory inode
    returns exactly the depth-first list of the tree: path, decoded inode, owner ids looked up in
    the id table, file bytes -/
theorem imgWalk_walk (c : Codec) (img : Dev) (o : Opened) (t : STree) (a : Nat → Attr) (hs : ImgShows c img o t a) :
    ∀ (fuel : Nat) (pre : List Bytes) (d : Nat), d < t.n → t.isDir d = true → t.Fits fuel d →
      imgWalk c img o fuel pre (t.ino d) = some (t.walkS a fuel pre d) := by
  intro fuel
  induction fuel with
  | zero => intro pre d _ _ hf; exact hf.elim
  | succ fuel ih =>
    intro pre d hd hdir hfit
    have kidsLemma : ∀ ks : List Nat, (∀ k ∈ ks, k ∈ t.kids d) →
        imgEnts c img o (fun p i => imgWalk c img o fuel p i) pre (ks.map t.dent) =
          some (ks.flatMap fun k => t.sent a pre k :: (if t.isDir k then t.walkS a fuel (pre ++ [t.name k]) k else [])) := by
      intro ks
      induction ks with
      | nil => intro _; rfl
      | cons k ks ihk =>
        intro hsub
        have hck : k ∈ t.kids d := hsub k (List.mem_cons_self ..)
        have hcn : k < t.n := hs.closed d hd k hck
        have hrest := ihk (fun x hx => hsub x (List.mem_cons_of_mem _ hx))
        obtain ⟨rest, hRM, hask, hts⟩ := hs.inode k hcn
        have hget : getInodeM c img o.inodeStart o.bs (t.dent k).startBlock (t.dent k).offset (t.dent k).typ = some (t.ino k) :=
          getInodeM_spec c img _ _ _ _ _ (t.ino k) rest (hs.inodeWF k hcn) (hs.entWF k hcn).2 hts hask hRM
        have hhyd : hydrate c img o (pre ++ [(t.dent k).name]) (t.ino k) = some (t.sent a pre k) := by
          simp [hydrate, (hs.owner k hcn).1, (hs.owner k hcn).2, hs.content k hcn, STree.sent, STree.dent]
        simp only [List.map_cons, imgEnts, hget, hhyd, hrest, List.flatMap_cons]
        cases hcd : t.isDir k with
        | true =>
          have hsubdir := ih (pre ++ [t.name k]) k hcn hcd (hfit k hck hcd)
          have : (listingRef (t.ino k).body).isSome = true := hcd
          simp [this, STree.dent, hsubdir]
        | false =>
          have : (listingRef (t.ino k).body).isSome = false := hcd
          simp [this]
    have hsome : (dirAsk (t.ino d).body).isSome = true := by rw [dirAsk_isSome]; exact hdir
    obtain ⟨⟨sb, off, sz⟩, hl⟩ := Option.isSome_iff_exists.1 hsome
    obtain ⟨rest, hRM, hsz, hr3⟩ := hs.listing d hd sb off sz hl
    have hwf : ∀ e ∈ (t.kids d).map t.dent, e.WF 0 := by
      intro e he
      obtain ⟨k, hk, rfl⟩ := List.mem_map.1 he
      exact (hs.entWF k (hs.closed d hd k hk)).1
    have hdir2 := getDirM_spec c img o.dirStart sb off _ rest hwf hr3 hRM
    rw [← hsz] at hdir2
    rw [imgWalk, hl]
    simp only [hdir2]
    rw [kidsLemma (t.kids d) (fun k hk => hk)]
    rfl

/-! ### from a table on the device to `ReadsFrom` -/

theorem metaTable_append (c : Codec) (nc : Bool) (x y : List Bytes) :
    metaTable c nc (x ++ y) = metaTable c nc x ++ metaTable c nc y := by simp [metaTable]

theorem holdsAt_table_drop (c : Codec) (nc : Bool) (img : Dev) (tbl : Nat) (blocks : List Bytes) (k : Nat)
    (h : HoldsAt img tbl (metaTable c nc blocks)) :
    HoldsAt img (tbl + metaOff c nc blocks k) (metaTable c nc (blocks.drop k)) := by
  have : metaTable c nc blocks = metaTable c nc (blocks.take k) ++ metaTable c nc (blocks.drop k) := by
    rw [← metaTable_append, List.take_append_drop]
  rw [this] at h
  exact (holdsAt_append _ _ _ _ h).2

/-- **references resolve on the device**: a table of encoded metadata blocks stands at `tbl`; the
    reference (byte offset of block `k` inside the table, offset `off` inside the uncompressed
    block) makes `readMetadata` answer from the uncompressed stream of blocks `k, k+1, …` at `off` -/
theorem readsFrom_of_table (c : Codec) (nc : Bool) (img : Dev) (tbl : Nat) (blocks : List Bytes)
    (hok : ∀ x ∈ blocks, BlockOK x) (hT : HoldsAt img tbl (metaTable c nc blocks)) (k off : Nat) (hk : k < blocks.length)
    (ho : off ≤ (blocks.getD k []).length) :
    ReadsFrom c img tbl (metaOff c nc blocks k) off ((blocks.drop k).flatten.drop off) := by
  intro size hsize
  have hd : blocks.drop k = blocks.getD k [] :: blocks.drop (k + 1) := by
    have : blocks.getD k [] = blocks[k] := by simp [List.getD_eq_getElem?_getD, hk]
    rw [this]; exact List.drop_eq_getElem_cons hk
  have hT2 := holdsAt_table_drop c nc img tbl blocks k hT
  rw [hd] at hT2 hsize ⊢
  exact readMetadata_spec c nc img tbl _ off size _ _
    (by intro x hx; apply hok x; have : x ∈ blocks.drop k := by rw [hd]; exact hx
        exact List.mem_of_mem_drop this) hT2 ho hsize

/-- the table offset of block `k` is what `writeInodes` records in `blockOffsets`
    (`Model/Sqfs/Meta.lean`, the input of `translateInodeLocations`) -/
theorem metaOff_blockOffsets (c : Codec) (nc : Bool) (blocks : List Bytes) (pos : Nat) (k : Nat) (hk : k < blocks.length) :
    (blockOffsets (blocks.map fun b => (storeBlock c nc b).payload.length) pos).getD k 0 = pos + metaOff c nc blocks k := by
  induction blocks generalizing pos k with
  | nil => simp at hk
  | cons b r ih =>
    cases k with
    | zero => simp [blockOffsets, metaOff, metaTable]
    | succ k =>
      simp only [List.map_cons, blockOffsets, List.getD_cons_succ]
      rw [ih (pos + (storeBlock c nc b).payload.length + 2) k (by simpa using hk)]
      simp only [metaOff, List.take_succ_cons, metaTable_cons, List.length_append, encodeMetaBlock_eq, encStored_length]
      omega

/-! ### lookup tables: fragment table and id table -/

theorem flatten_fixed_get (k : Nat) : ∀ (l : List Bytes) (i : Nat), (∀ x ∈ l, x.length = k) → i < l.length →
    (l.flatten.drop (k * i)).take k = l.getD i [] := by
  intro l
  induction l with
  | nil => intro i _ hi; simp at hi
  | cons x r ih =>
    intro i hx hi
    have hxl := hx x (List.mem_cons_self ..)
    cases i with
    | zero => simp [hxl]
    | succ i =>
      simp only [List.flatten_cons, List.getD_cons_succ]
      rw [List.drop_append, List.drop_eq_nil_of_le (by rw [hxl, Nat.mul_succ]; omega), List.nil_append, hxl]
      have : k * (i + 1) - k = k * i := by rw [Nat.mul_succ]; omega
      rw [this]
      exact ih i (fun y hy => hx y (List.mem_cons_of_mem _ hy)) (by simpa using hi)

theorem flatten_fixed_length (k : Nat) (l : List Bytes) (h : ∀ x ∈ l, x.length = k) : l.flatten.length = k * l.length := by
  induction l with
  | nil => simp
  | cons x r ih =>
    simp only [List.flatten_cons, List.length_append, List.length_cons]
    rw [ih (fun y hy => h y (List.mem_cons_of_mem _ hy)), h x (List.mem_cons_self ..), Nat.mul_succ]; omega

theorem lookupIndex_length (c : Codec) (nc : Bool) (loc : Nat) (blocks : List Bytes) :
    (lookupIndex c nc loc blocks).length = 8 * blocks.length := by
  unfold lookupIndex
  rw [flatten_fixed_length 8 _ (by intro x hx; obtain ⟨k, _, rfl⟩ := List.mem_map.1 hx; simp)]
  simp

theorem metaOff_le (c : Codec) (nc : Bool) (blocks : List Bytes) (k : Nat) :
    metaOff c nc blocks k ≤ (metaTable c nc blocks).length := by
  have : metaTable c nc blocks = metaTable c nc (blocks.take k) ++ metaTable c nc (blocks.drop k) := by
    rw [← metaTable_append, List.take_append_drop]
  rw [this, metaOff]; simp

/-- **a lookup table reads back**: behind an index of pointers as the writers lay it down,
    `readLookup` returns the uncompressed blocks joined together -/
theorem readLookup_written (c : Codec) (nc : Bool) (img : Dev) (loc idx : Nat) (blocks : List Bytes)
    (hok : ∀ x ∈ blocks, BlockOK x) (hT : HoldsAt img loc (metaTable c nc blocks))
    (hI : HoldsAt img idx (lookupIndex c nc loc blocks)) (h64 : loc + (metaTable c nc blocks).length < 2 ^ 64) :
    readLookup c img idx blocks.length 0 = blocks.flatten := by
  have gen : ∀ m i, i + m = blocks.length → readLookup c img idx m i = (blocks.drop i).flatten := by
    intro m
    induction m with
    | zero => intro i hi; simp [readLookup, List.drop_eq_nil_of_le (show blocks.length ≤ i by omega)]
    | succ m ih =>
      intro i hi
      have hil : i < blocks.length := by omega
      have hptr : readAt img (idx + 8 * i) 8 = leEnc 8 (loc + metaOff c nc blocks i) := by
        rw [holdsAt_sub img idx _ hI (8 * i) 8 (by rw [lookupIndex_length]; omega)]
        unfold lookupIndex
        rw [flatten_fixed_get 8 _ i (by intro x hx; obtain ⟨k, _, rfl⟩ := List.mem_map.1 hx; simp) (by simpa using hil)]
        simp [List.getD_eq_getElem?_getD, hil]
      have hd : blocks.drop i = blocks.getD i [] :: blocks.drop (i + 1) := by
        have : blocks.getD i [] = blocks[i] := by simp [List.getD_eq_getElem?_getD, hil]
        rw [this]; exact List.drop_eq_getElem_cons hil
      have hT2 := holdsAt_table_drop c nc img loc blocks i hT
      rw [hd, metaTable_cons] at hT2
      have hmem : blocks.getD i [] ∈ blocks := getD_mem blocks i [] hil
      have hblk := readMetaBlock_written c nc img _ _ (hok _ hmem) (holdsAt_append _ _ _ _ hT2).1
      have hle := metaOff_le c nc blocks i
      simp only [readLookup, hptr, e8 _ (show loc + metaOff c nc blocks i < 2 ^ 64 by omega), hblk]
      rw [ih (i + 1) (by omega), hd]
      simp
  simpa using gen blocks.length 0 (by simp)

theorem chunksOf_ok (n : Nat) (hn : 0 < n) : ∀ (f : Nat) (s : Bytes), ∀ x ∈ chunksOf n f s, 0 < x.length ∧ x.length ≤ n := by
  intro f
  induction f with
  | zero => intro s x hx; simp [chunksOf] at hx
  | succ f ih =>
    intro s x hx
    simp only [chunksOf] at hx
    split at hx
    · simp at hx
    · rename_i he
      rcases List.mem_cons.1 hx with rfl | h
      · cases s with
        | nil => simp at he
        | cons a r => simp; omega
      · exact ih _ x h

theorem chunksOf_length (n : Nat) (hn : 0 < n) : ∀ (f : Nat) (s : Bytes), s.length ≤ f →
    (chunksOf n f s).length = (s.length + n - 1) / n := by
  intro f
  induction f with
  | zero =>
    intro s hs
    have : s = [] := List.eq_nil_of_length_eq_zero (by omega)
    subst this
    simp [chunksOf]
    exact (Nat.div_eq_of_lt (by omega)).symm
  | succ f ih =>
    intro s hs
    simp only [chunksOf]
    split
    · rename_i he
      have : s = [] := by simpa using he
      subst this
      simp
      exact (Nat.div_eq_of_lt (by omega)).symm
    · rename_i he
      have hl : 0 < s.length := by
        cases s with
        | nil => simp at he
        | cons _ _ => simp
      simp only [List.length_cons]
      rw [ih (s.drop n) (by simp; omega)]
      simp only [List.length_drop]
      by_cases hsn : s.length ≤ n
      · have h1 : (s.length - n + n - 1) / n = 0 := Nat.div_eq_of_lt (by omega)
        have h2 : (s.length + n - 1) / n = 1 := by
          apply Nat.div_eq_of_lt_le <;> omega
        omega
      · have : s.length + n - 1 = (s.length - n + n - 1) + n := by omega
        rw [this, Nat.add_div_right _ hn]

theorem metaChunks_flatten (s : Bytes) : (metaChunks s).flatten = s := by
  have := chunksOf_drop_flatten metaBlock (by decide) 0 s.length s (Nat.le_refl _)
  simpa [metaChunks] using this

theorem metaChunks_ok (s : Bytes) : ∀ x ∈ metaChunks s, BlockOK x :=
  fun x hx => chunksOf_ok metaBlock (by decide) _ _ x hx

theorem cutN_flatten (n : Nat) (hn : 0 < n) : ∀ (l : List Bytes) (f : Nat), (∀ x ∈ l, x.length = n) → l.length ≤ f →
    cutN n f l.flatten = some l := by
  intro l
  induction l with
  | nil => intro f _ _; cases f <;> simp [cutN]
  | cons x r ih =>
    intro f hx hf
    cases f with
    | zero => simp at hf
    | succ f =>
      have hxl := hx x (List.mem_cons_self ..)
      have hne : ¬ (x ++ r.flatten).isEmpty = true := by
        cases x with
        | nil => simp at hxl; omega
        | cons _ _ => simp
      have hlt : ¬ (x ++ r.flatten).length < n := by simp [hxl]
      have hih := ih f (fun y hy => hx y (List.mem_cons_of_mem _ hy)) (by simpa using hf)
      simp only [List.flatten_cons, cutN, hne, hlt, if_false, List.drop_left' hxl, hih, List.take_left' hxl]
      simp

def FragEnt.WF (f : FragEnt) : Prop := f.start < 2 ^ 64 ∧ f.size < 2 ^ 24

theorem decode_encodeFragEnt (f : FragEnt) (h : f.WF) : decodeFragEnt (encodeFragEnt f) = f := by
  obtain ⟨h1, h2⟩ := h
  have hw : f.size + (if f.compressed then 0 else 2 ^ 24) < 2 ^ 32 := by split <;> omega
  cases f with
  | mk st sz cp =>
    simp only [decodeFragEnt, encodeFragEnt, take_leEnc_append, drop_leEnc_append _ _ 8 _ (Nat.le_refl _), Nat.sub_self,
      List.drop_zero, e8 _ h1, e4 _ hw]
    cases cp
    · simp at h2 ⊢
      constructor <;> omega
    · simp at h2 ⊢
      constructor
      · omega
      · rw [Nat.div_eq_of_lt h2]

theorem fragStream_length (ents : List FragEnt) : (fragStream ents).length = 16 * ents.length := by
  induction ents with
  | nil => rfl
  | cons e r ih =>
    simp only [fragStream, List.map_cons, List.flatten_cons, List.length_append, List.length_cons] at ih ⊢
    rw [ih]; simp [encodeFragEnt]; omega

/-- **the fragment table reads back**: metadata blocks holding the 16-byte entries at `loc`, the
    index of pointers at `fragStart` (what `writeFragmentTable` lays down) — `readFragmentTable`
    with the superblock's count returns exactly the entries -/
theorem readFragTable_written (c : Codec) (nc : Bool) (img : Dev) (loc fragStart : Nat) (ents : List FragEnt)
    (hwf : ∀ e ∈ ents, e.WF) (hT : HoldsAt img loc (metaTable c nc (metaChunks (fragStream ents))))
    (hI : HoldsAt img fragStart (lookupIndex c nc loc (metaChunks (fragStream ents))))
    (h64 : loc + (metaTable c nc (metaChunks (fragStream ents))).length < 2 ^ 64) :
    readFragTable c img fragStart ents.length = some ents := by
  unfold readFragTable
  by_cases h0 : ents.length = 0
  · have : ents = [] := List.eq_nil_of_length_eq_zero h0
    simp [this]
  · have hcount : ents.length / 512 + (if ents.length % 512 > 0 then 1 else 0) = (metaChunks (fragStream ents)).length := by
      rw [metaChunks, chunksOf_length metaBlock (by decide) _ _ (Nat.le_refl _), fragStream_length]
      simp only [metaBlock]
      split <;> omega
    rw [if_neg h0, hcount, readLookup_written c nc img loc fragStart _ (metaChunks_ok _) hT hI h64, metaChunks_flatten]
    have := cutN_flatten 16 (by decide) (ents.map encodeFragEnt) (fragStream ents).length
      (by intro x hx; obtain ⟨e, _, rfl⟩ := List.mem_map.1 hx; simp [encodeFragEnt])
      (by rw [fragStream_length]; simp; omega)
    simp only [fragStream] at this ⊢
    simp only [this, Option.map_some, List.map_map]
    congr 1
    conv => rhs; rw [← List.map_id ents]
    apply List.map_congr_left
    intro e he
    exact decode_encodeFragEnt e (hwf e he)

theorem idStream_length (ids : List Nat) : (idStream ids).length = 4 * ids.length := by
  induction ids with
  | nil => rfl
  | cons e r ih =>
    simp only [idStream, List.map_cons, List.flatten_cons, List.length_append, List.length_cons] at ih ⊢
    rw [ih]; simp; omega

theorem parseIds_stream : ∀ (ids : List Nat) (f : Nat), (∀ x ∈ ids, x < 2 ^ 32) → ids.length < f →
    parseIds f (idStream ids) = ids := by
  intro ids
  induction ids with
  | nil => intro f _ hf; cases f <;> simp [parseIds, idStream]
  | cons x r ih =>
    intro f hx hf
    cases f with
    | zero => simp at hf
    | succ f =>
      have := ih f (fun y hy => hx y (List.mem_cons_of_mem _ hy)) (by simpa using hf)
      simp only [idStream, List.map_cons, List.flatten_cons] at this ⊢
      simp only [parseIds]
      rw [if_neg (by simp)]
      rw [take_leEnc_append, drop_leEnc_append _ _ 4 _ (Nat.le_refl _), e4 _ (hx x (List.mem_cons_self ..))]
      simp [this]

/-- **the id table reads back**, for any number of ids -/
theorem readIdTable_written (c : Codec) (nc : Bool) (img : Dev) (loc idStart : Nat) (ids : List Nat)
    (hwf : ∀ x ∈ ids, x < 2 ^ 32)
    (hT : HoldsAt img loc (metaTable c nc (metaChunks (idStream ids))))
    (hI : HoldsAt img idStart (lookupIndex c nc loc (metaChunks (idStream ids))))
    (h64 : loc + (metaTable c nc (metaChunks (idStream ids))).length < 2 ^ 64) :
    readIdTable c img idStart ids.length = ids := by
  unfold readIdTable
  by_cases h0 : ids.length = 0
  · have : ids = [] := List.eq_nil_of_length_eq_zero h0
    simp [this]
  · have hcount : idBlocks ids.length = (metaChunks (idStream ids)).length := by
      rw [metaChunks, chunksOf_length metaBlock (by decide) _ _ (Nat.le_refl _), idStream_length]
      simp only [metaBlock, idBlocks]
      omega
    rw [if_neg h0, hcount, readLookup_written c nc img loc idStart _ (metaChunks_ok _) hT hI h64, metaChunks_flatten]
    exact parseIds_stream ids _ hwf (by rw [idStream_length]; omega)

/-- 16385 ids need nine metadata blocks, and nine are read (the uint16 arithmetic of the code before
    fix 0ff62c2 gave one) -/
theorem id_blocks_16385 : idBlocks 16385 = 9 ∧ ((16385 * 4) % 65536 + 65535) % 65536 / 8192 + 1 = 1 := by decide

/-- the number of index pointers `readFragmentTable` takes for `n` fragments is the number of
    metadata blocks `writeFragmentTable` cut for them: ⌈16·n / 8192⌉ = ⌈n / 512⌉ -/
theorem frag_block_count (ents : List FragEnt) :
    ents.length / 512 + (if ents.length % 512 > 0 then 1 else 0) = (metaChunks (fragStream ents)).length ∧
    (metaChunks (fragStream ents)).length = (16 * ents.length + 8191) / 8192 := by
  rw [metaChunks, chunksOf_length metaBlock (by decide) _ _ (Nat.le_refl _), fragStream_length]
  simp only [metaBlock]
  constructor
  · split <;> omega
  · rfl

/-- … and for n ≥ 1 ids `readUidsGids`' count is the number of blocks `writeIDTable` cut -/
theorem id_block_count (ids : List Nat) (h0 : 0 < ids.length) :
    idBlocks ids.length = (metaChunks (idStream ids)).length ∧
    (metaChunks (idStream ids)).length = (4 * ids.length + 8191) / 8192 := by
  rw [metaChunks, chunksOf_length metaBlock (by decide) _ _ (Nat.le_refl _), idStream_length]
  simp only [metaBlock, idBlocks]
  constructor
  · omega
  · rfl

end Diskfs.Sqfs
