/-
  The inductive invariant of the N-thread machine of Model/Lru.lean and its preservation by every
  step of every thread (hence by every schedule).
-/
import DiskfsModel.Proofs.LruCache
namespace Diskfs.Lru

/-! ### what a program counter implies -/

/-- the thread holds `l.mu` -/
def holdsCache : Pc → Bool
  | .gFind .. | .gLockBlock .. | .gUnlockCache .. | .sSet _ | .sUnlock _ => true
  | _ => false

/-- the thread holds `block.mu` of this block -/
def holdsBlock : Pc → Option Nat
  | .gUnlockCache _ _ b | .gCheck _ _ b | .gFetch _ _ b | .gStore _ _ b _ | .gUnlockBlock _ _ b _ => some b
  | _ => none

/-- the block a thread inside `get pos` refers to, with `pos` -/
def pcRef : Pc → Option (Pos × Nat)
  | .gLockBlock p _ b | .gUnlockCache p _ b | .gCheck p _ b | .gFetch p _ b | .gStore p _ b _
  | .gUnlockBlock p _ b _ => some (p, b)
  | _ => none

/-- the operation in progress -/
def curOp : Pc → Option Op
  | .idle => none
  | .gFind p ok | .gLockBlock p ok _ | .gUnlockCache p ok _ | .gCheck p ok _ | .gFetch p ok _
  | .gStore p ok _ _ | .gUnlockBlock p ok _ _ => some (.get p ok)
  | .sSet n | .sUnlock n => some (.setMax n)

/-- a return value is right: a `get pos` returns the disk's data for `pos`, or — only if its own
    fetch was attempted and failed — the error; `setMaxBlocks` returns nothing. -/
def retOk (disk : Pos → Data) : Op → Ret → Prop
  | .get p ok, r => r.value = some (disk p) ∨ (ok = false ∧ r = .err)
  | .setMax _, r => r = .unit

/-- data a thread carries in its program counter is right -/
def pcOk (disk : Pos → Data) : Pc → Prop
  | .gStore p _ _ d => d = disk p
  | .gUnlockBlock p ok _ r => retOk disk (.get p ok) r
  | _ => True

structure Inv (disk : Pos → Data) (s : Sys) : Prop where
  cinv : CacheInv s.c
  size : (s.c.cache.length : Int) ≤ max 1 s.maxBlocks
  nopanic : s.panicked = false
  cpos : ∀ r ∈ s.c.cache, ∃ blk : Block, s.blocks[r.2]? = some blk ∧ blk.pos = r.1
  cown1 : ∀ (t : Tid) (th : Thread), s.threads[t]? = some th → holdsCache th.pc = true → s.cacheOwner = some t
  cown2 : ∀ t : Tid, s.cacheOwner = some t → ∃ th : Thread, s.threads[t]? = some th ∧ holdsCache th.pc = true
  bown1 : ∀ (t : Tid) (th : Thread) (b : Nat), s.threads[t]? = some th → holdsBlock th.pc = some b →
    ∃ blk : Block, s.blocks[b]? = some blk ∧ blk.owner = some t
  bown2 : ∀ (b : Nat) (blk : Block) (t : Tid), s.blocks[b]? = some blk → blk.owner = some t →
    ∃ th : Thread, s.threads[t]? = some th ∧ holdsBlock th.pc = some b
  tref : ∀ (t : Tid) (th : Thread) (p : Pos) (b : Nat), s.threads[t]? = some th → pcRef th.pc = some (p, b) →
    ∃ blk : Block, s.blocks[b]? = some blk ∧ blk.pos = p
  dcorr : ∀ (b : Nat) (blk : Block) (d : Data), s.blocks[b]? = some blk → blk.data = some d → d = disk blk.pos
  tok : ∀ (t : Tid) (th : Thread), s.threads[t]? = some th →
    pcOk disk th.pc ∧ ∀ x ∈ th.rets, retOk disk x.1 x.2

/-! ### list-update helpers -/

theorem get_set_cases {α} {l : List α} {i j : Nat} {a b : α} (h : (l.set i a)[j]? = some b) :
    (j = i ∧ b = a) ∨ (j ≠ i ∧ l[j]? = some b) := by
  rw [List.getElem?_set] at h
  by_cases e : i = j
  · subst e
    simp only [if_true] at h
    split at h
    · exact Or.inl ⟨rfl, (Option.some.inj h).symm⟩
    · cases h
  · simp only [e, if_false] at h
    exact Or.inr ⟨fun e' => e e'.symm, h⟩

theorem get_set_self {α} {l : List α} {i : Nat} {a x : α} (h : l[i]? = some x) : (l.set i a)[i]? = some a := by
  have : i < l.length := by
    rcases List.getElem?_eq_some_iff.1 h with ⟨hi, _⟩; exact hi
  exact List.getElem?_set_self this

theorem get_set_other {α} {l : List α} {i j : Nat} {a : α} (h : j ≠ i) : (l.set i a)[j]? = l[j]? :=
  List.getElem?_set_ne (fun e => h e.symm)

theorem get_append_cases {α} {l : List α} {j : Nat} {a b : α} (h : (l ++ [a])[j]? = some b) :
    l[j]? = some b ∨ (j = l.length ∧ b = a) := by
  rw [List.getElem?_append] at h
  split at h
  · exact Or.inl h
  · rename_i hlt
    right
    have hj : j - l.length = 0 := by
      cases hjl : j - l.length with
      | zero => rfl
      | succ k => rw [hjl] at h; simp at h
    rw [hj] at h
    simp at h
    exact ⟨by omega, h.symm⟩

theorem get_append_old {α} {l : List α} {j : Nat} {a b : α} (h : l[j]? = some b) : (l ++ [a])[j]? = some b := by
  rcases List.getElem?_eq_some_iff.1 h with ⟨hi, _⟩
  rw [List.getElem?_append_left hi]; exact h

theorem get_append_new {α} {l : List α} {a : α} : (l ++ [a])[l.length]? = some a := by
  rw [List.getElem?_append_right (Nat.le_refl _)]; simp

@[simp] theorem setThread_c (s : Sys) (t th) : (setThread s t th).c = s.c := rfl
@[simp] theorem setThread_maxBlocks (s : Sys) (t th) : (setThread s t th).maxBlocks = s.maxBlocks := rfl
@[simp] theorem setThread_cacheOwner (s : Sys) (t th) : (setThread s t th).cacheOwner = s.cacheOwner := rfl
@[simp] theorem setThread_blocks (s : Sys) (t th) : (setThread s t th).blocks = s.blocks := rfl
@[simp] theorem setThread_panicked (s : Sys) (t th) : (setThread s t th).panicked = s.panicked := rfl
@[simp] theorem setThread_threads (s : Sys) (t th) : (setThread s t th).threads = s.threads.set t th := rfl
@[simp] theorem setBlock_c (s : Sys) (b blk) : (setBlock s b blk).c = s.c := rfl
@[simp] theorem setBlock_maxBlocks (s : Sys) (b blk) : (setBlock s b blk).maxBlocks = s.maxBlocks := rfl
@[simp] theorem setBlock_cacheOwner (s : Sys) (b blk) : (setBlock s b blk).cacheOwner = s.cacheOwner := rfl
@[simp] theorem setBlock_blocks (s : Sys) (b blk) : (setBlock s b blk).blocks = s.blocks.set b blk := rfl
@[simp] theorem setBlock_panicked (s : Sys) (b blk) : (setBlock s b blk).panicked = s.panicked := rfl
@[simp] theorem setBlock_threads (s : Sys) (b blk) : (setBlock s b blk).threads = s.threads := rfl

/-! ### a generic preservation lemma

  Every step has the shape: thread `t` moves from `th` to `th1`; the shared components change to
  `c1, mb1, co1, bl1`.  The obligations below are what each case has to supply. -/

theorem Inv.update {disk : Pos → Data} {s : Sys} (h : Inv disk s) {t : Tid} {th th1 : Thread}
    (ht : s.threads[t]? = some th)
    {c1 : Cache} {mb1 : Int} {co1 : Option Tid} {bl1 : List Block}
    (hcinv : CacheInv c1)
    (hsize : (c1.cache.length : Int) ≤ max 1 mb1)
    (hcpos : ∀ r ∈ c1.cache, ∃ blk : Block, bl1[r.2]? = some blk ∧ blk.pos = r.1)
    -- cache lock
    (hco_self : holdsCache th1.pc = true → co1 = some t)
    (hco_other : ∀ (t' : Tid) (th' : Thread), t' ≠ t → s.threads[t']? = some th' → holdsCache th'.pc = true → co1 = some t')
    (hco2 : ∀ t', co1 = some t' → (t' = t ∧ holdsCache th1.pc = true) ∨ (t' ≠ t ∧ s.cacheOwner = some t'))
    -- block locks
    (hbo_self : ∀ b, holdsBlock th1.pc = some b → ∃ blk : Block, bl1[b]? = some blk ∧ blk.owner = some t)
    (hbo_other : ∀ (t' : Tid) (th' : Thread) (b : Nat), t' ≠ t → s.threads[t']? = some th' → holdsBlock th'.pc = some b →
      ∃ blk : Block, bl1[b]? = some blk ∧ blk.owner = some t')
    (hbo2 : ∀ (b : Nat) (blk : Block) (t' : Tid), bl1[b]? = some blk → blk.owner = some t' →
      (t' = t ∧ holdsBlock th1.pc = some b) ∨
      (t' ≠ t ∧ ∃ blk0 : Block, s.blocks[b]? = some blk0 ∧ blk0.owner = some t'))
    -- references
    (href_self : ∀ p b, pcRef th1.pc = some (p, b) → ∃ blk : Block, bl1[b]? = some blk ∧ blk.pos = p)
    (hext : ∀ (b : Nat) (blk : Block), s.blocks[b]? = some blk → ∃ blk' : Block, bl1[b]? = some blk' ∧ blk'.pos = blk.pos)
    -- data
    (hdcorr : ∀ (b : Nat) (blk : Block) (d : Data), bl1[b]? = some blk → blk.data = some d → d = disk blk.pos)
    (htok : pcOk disk th1.pc ∧ ∀ x ∈ th1.rets, retOk disk x.1 x.2) :
    Inv disk (setThread { s with c := c1, maxBlocks := mb1, cacheOwner := co1, blocks := bl1 } t th1) := by
  refine ⟨hcinv, hsize, h.nopanic, hcpos, ?_, ?_, ?_, ?_, ?_, hdcorr, ?_⟩
  · intro t' th' hg hc
    rcases get_set_cases hg with ⟨rfl, rfl⟩ | ⟨hne, hg'⟩
    · exact hco_self hc
    · exact hco_other t' th' hne hg' hc
  · intro t' hc
    rcases hco2 t' hc with ⟨rfl, hh⟩ | ⟨hne, hold⟩
    · exact ⟨th1, get_set_self ht, hh⟩
    · obtain ⟨th', hg, hh⟩ := h.cown2 t' hold
      exact ⟨th', by simpa [get_set_other hne] using hg, hh⟩
  · intro t' th' b hg hb
    rcases get_set_cases hg with ⟨rfl, rfl⟩ | ⟨hne, hg'⟩
    · exact hbo_self b hb
    · exact hbo_other t' th' b hne hg' hb
  · intro b blk t' hg ho
    rcases hbo2 b blk t' hg ho with ⟨rfl, hh⟩ | ⟨hne, blk0, hg0, ho0⟩
    · exact ⟨th1, get_set_self ht, hh⟩
    · obtain ⟨th', hg', hh⟩ := h.bown2 b blk0 t' hg0 ho0
      exact ⟨th', by simpa [get_set_other hne] using hg', hh⟩
  · intro t' th' p b hg hr
    rcases get_set_cases hg with ⟨rfl, rfl⟩ | ⟨_, hg'⟩
    · exact href_self p b hr
    · obtain ⟨blk, hb, hp⟩ := h.tref t' th' p b hg' hr
      obtain ⟨blk', hb', hp'⟩ := hext b blk hb
      exact ⟨blk', hb', hp'.trans hp⟩
  · intro t' th' hg
    rcases get_set_cases hg with ⟨rfl, rfl⟩ | ⟨_, hg'⟩
    · exact htok
    · exact h.tok t' th' hg'

/-! obligations about the cache lock, in the three ways a step can treat it -/

theorem Inv.co_lock {disk : Pos → Data} {s : Sys} (h : Inv disk s) {t : Tid} {pc1 : Pc}
    (hnone : s.cacheOwner = none) (hheld : holdsCache pc1 = true) :
    (holdsCache pc1 = true → some t = some t) ∧
    (∀ (t' : Tid) (th' : Thread), t' ≠ t → s.threads[t']? = some th' → holdsCache th'.pc = true → some t = some t') ∧
    (∀ t', some t = some t' → (t' = t ∧ holdsCache pc1 = true) ∨ (t' ≠ t ∧ s.cacheOwner = some t')) := by
  refine ⟨fun _ => rfl, fun t' th' _ hg hc => ?_, fun t' e => Or.inl ⟨(Option.some.inj e).symm, hheld⟩⟩
  have := h.cown1 t' th' hg hc
  rw [hnone] at this; cases this

theorem Inv.co_unlock {disk : Pos → Data} {s : Sys} (h : Inv disk s) {t : Tid} {th : Thread} {pc1 : Pc}
    (ht : s.threads[t]? = some th) (hheld : holdsCache th.pc = true) (hrel : holdsCache pc1 = false) :
    (holdsCache pc1 = true → (none : Option Tid) = some t) ∧
    (∀ (t' : Tid) (th' : Thread), t' ≠ t → s.threads[t']? = some th' → holdsCache th'.pc = true → (none : Option Tid) = some t') ∧
    (∀ t', (none : Option Tid) = some t' → (t' = t ∧ holdsCache pc1 = true) ∨ (t' ≠ t ∧ s.cacheOwner = some t')) := by
  refine ⟨fun e => (by rw [hrel] at e; cases e), fun t' th' hne hg hc => ?_, fun t' e => (by cases e)⟩
  have h1 := h.cown1 t' th' hg hc
  have h2 := h.cown1 t th ht hheld
  rw [h1] at h2
  exact absurd (Option.some.inj h2) hne

theorem Inv.co_same {disk : Pos → Data} {s : Sys} (h : Inv disk s) {t : Tid} {th : Thread} {pc1 : Pc}
    (ht : s.threads[t]? = some th) (hsame : holdsCache pc1 = holdsCache th.pc) :
    (holdsCache pc1 = true → s.cacheOwner = some t) ∧
    (∀ (t' : Tid) (th' : Thread), t' ≠ t → s.threads[t']? = some th' → holdsCache th'.pc = true → s.cacheOwner = some t') ∧
    (∀ t', s.cacheOwner = some t' → (t' = t ∧ holdsCache pc1 = true) ∨ (t' ≠ t ∧ s.cacheOwner = some t')) := by
  refine ⟨fun e => h.cown1 t th ht (hsame ▸ e), fun t' th' _ hg hc => h.cown1 t' th' hg hc, fun t' e => ?_⟩
  by_cases hne : t' = t
  · subst hne
    obtain ⟨th0, hg0, hc0⟩ := h.cown2 t' e
    rw [ht] at hg0; cases hg0
    exact Or.inl ⟨rfl, hsame ▸ hc0⟩
  · exact Or.inr ⟨hne, e⟩

/-- a step that leaves the block store alone and neither takes nor releases a block lock -/
theorem Inv.update_keep {disk : Pos → Data} {s : Sys} (h : Inv disk s) {t : Tid} {th th1 : Thread}
    (ht : s.threads[t]? = some th)
    {c1 : Cache} {mb1 : Int} {co1 : Option Tid}
    (hcinv : CacheInv c1)
    (hsize : (c1.cache.length : Int) ≤ max 1 mb1)
    (hcsub : ∀ r ∈ c1.cache, r ∈ s.c.cache)
    (hco : (holdsCache th1.pc = true → co1 = some t) ∧
      (∀ (t' : Tid) (th' : Thread), t' ≠ t → s.threads[t']? = some th' → holdsCache th'.pc = true → co1 = some t') ∧
      (∀ t', co1 = some t' → (t' = t ∧ holdsCache th1.pc = true) ∨ (t' ≠ t ∧ s.cacheOwner = some t')))
    (hhb : holdsBlock th1.pc = holdsBlock th.pc)
    (href : ∀ p b, pcRef th1.pc = some (p, b) → ∃ blk : Block, s.blocks[b]? = some blk ∧ blk.pos = p)
    (htok : pcOk disk th1.pc ∧ ∀ x ∈ th1.rets, retOk disk x.1 x.2) :
    Inv disk (setThread { s with c := c1, maxBlocks := mb1, cacheOwner := co1 } t th1) := by
  refine Inv.update (bl1 := s.blocks) h ht hcinv hsize (fun r hr => h.cpos r (hcsub r hr)) hco.1 hco.2.1 hco.2.2
    (fun b hb => h.bown1 t th b ht (hhb ▸ hb)) (fun t' th' b _ hg hb => h.bown1 t' th' b hg hb)
    (fun b blk t' hg ho => ?_) href (fun b blk hb => ⟨blk, hb, rfl⟩) h.dcorr htok
  by_cases hne : t' = t
  · subst hne
    obtain ⟨th0, hg0, hb0⟩ := h.bown2 b blk t' hg ho
    rw [ht] at hg0; cases hg0
    exact Or.inl ⟨rfl, hhb ▸ hb0⟩
  · exact Or.inr ⟨hne, blk, hg, ho⟩

/-! ### every step of every thread keeps the invariant -/

theorem step_inv {disk : Pos → Data} {slack : Nat} {s s' : Sys} {t : Tid} (hs : 1 ≤ slack)
    (h : Inv disk s) (hstep : step disk slack s t = some s') : Inv disk s' := by
  unfold step at hstep
  rw [if_neg (by rw [h.nopanic]; exact Bool.false_ne_true)] at hstep
  cases ht : s.threads[t]? with
  | none => simp [ht] at hstep
  | some th =>
    simp only [ht] at hstep
    obtain ⟨prog, pc, rets⟩ := th
    have htok := h.tok t _ ht
    cases pc with
    | idle =>
      simp only at hstep
      cases prog with
      | nil => simp at hstep
      | cons op rest =>
        simp only at hstep
        split at hstep
        · rename_i hco
          cases Option.some.inj hstep
          have hnone : s.cacheOwner = none := by simpa using hco
          cases op with
          | get p ok =>
            exact Inv.update_keep h ht h.cinv h.size (fun r hr => hr) (h.co_lock (pc1 := .gFind p ok) hnone rfl) rfl
              (fun _ _ hr => by cases hr) ⟨trivial, htok.2⟩
          | setMax n =>
            exact Inv.update_keep h ht h.cinv h.size (fun r hr => hr) (h.co_lock (pc1 := .sSet n) hnone rfl) rfl
              (fun _ _ hr => by cases hr) ⟨trivial, htok.2⟩
        · cases hstep
    | gUnlockCache p ok b =>
      simp only at hstep
      cases Option.some.inj hstep
      exact Inv.update_keep h ht h.cinv h.size (fun r hr => hr) (h.co_unlock (pc1 := .gCheck p ok b) ht rfl rfl) rfl
        (fun p' b' hr => h.tref t _ p' b' ht hr) ⟨trivial, htok.2⟩
    | gCheck p ok b =>
      simp only at hstep
      split at hstep
      · rename_i d hd
        cases Option.some.inj hstep
        refine Inv.update_keep h ht h.cinv h.size (fun r hr => hr) (h.co_same (pc1 := .gUnlockBlock p ok b (.hit d)) ht rfl) rfl
          (fun p' b' hr => h.tref t _ p' b' ht hr) ⟨?_, htok.2⟩
        obtain ⟨blk, hb, hp⟩ := h.tref t _ p b ht rfl
        rw [hb] at hd
        have hd' : blk.data = some d := by simpa using hd
        have := h.dcorr b blk d hb hd'
        exact Or.inl (by simp [Ret.value, this, hp])
      · cases Option.some.inj hstep
        exact Inv.update_keep h ht h.cinv h.size (fun r hr => hr) (h.co_same (pc1 := .gFetch p ok b) ht rfl) rfl
          (fun p' b' hr => h.tref t _ p' b' ht hr) ⟨trivial, htok.2⟩
    | gFetch p ok b =>
      simp only at hstep
      split at hstep
      · cases Option.some.inj hstep
        exact Inv.update_keep h ht h.cinv h.size (fun r hr => hr) (h.co_same (pc1 := .gStore p ok b (disk p)) ht rfl) rfl
          (fun p' b' hr => h.tref t _ p' b' ht hr) ⟨rfl, htok.2⟩
      · rename_i hok
        cases Option.some.inj hstep
        exact Inv.update_keep h ht h.cinv h.size (fun r hr => hr) (h.co_same (pc1 := .gUnlockBlock p ok b .err) ht rfl) rfl
          (fun p' b' hr => h.tref t _ p' b' ht hr) ⟨Or.inr ⟨by simpa using hok, rfl⟩, htok.2⟩
    | sSet n =>
      simp only at hstep
      obtain ⟨c', hrun, hinv, hc, hsub, _⟩ := trim_spec n s.c h.cinv
      rw [hrun] at hstep
      cases Option.some.inj hstep
      refine Inv.update_keep h ht hinv ?_ hsub (h.co_same (pc1 := .sUnlock n) ht rfl) rfl
        (fun _ _ hr => by cases hr) ⟨trivial, htok.2⟩
      rcases trimCond_false hc with h1 | h1 <;> omega
    | sUnlock n =>
      simp only at hstep
      cases Option.some.inj hstep
      refine Inv.update_keep h ht h.cinv h.size (fun r hr => hr) (h.co_unlock (pc1 := .idle) ht rfl rfl) rfl
        (fun _ _ hr => by cases hr) ⟨trivial, fun x hx => ?_⟩
      rcases List.mem_append.1 hx with hx | hx
      · exact htok.2 x hx
      · rw [List.mem_singleton.1 hx]; rfl
    | gLockBlock p ok b =>
      simp only at hstep
      cases hb : s.blocks[b]? with
      | none => simp [hb] at hstep
      | some blk =>
        simp only [hb] at hstep
        split at hstep
        · rename_i hfree
          cases Option.some.inj hstep
          have hown : blk.owner = none := by simpa using hfree
          have hext : ∀ (b' : Nat) (blk' : Block), s.blocks[b']? = some blk' →
              ∃ blk'' : Block, (s.blocks.set b { blk with owner := some t })[b']? = some blk'' ∧ blk''.pos = blk'.pos := by
            intro b' blk' hb'
            by_cases e : b' = b
            · subst e; rw [hb] at hb'; cases hb'
              exact ⟨_, get_set_self hb, rfl⟩
            · exact ⟨blk', by rw [get_set_other e]; exact hb', rfl⟩
          refine Inv.update (bl1 := s.blocks.set b { blk with owner := some t }) h ht h.cinv h.size ?_
            (h.co_same (pc1 := .gUnlockCache p ok b) ht rfl).1 (h.co_same (pc1 := .gUnlockCache p ok b) ht rfl).2.1
            (h.co_same (pc1 := .gUnlockCache p ok b) ht rfl).2.2 ?_ ?_ ?_ ?_ hext ?_ ⟨trivial, htok.2⟩
          · intro r hr
            obtain ⟨blk', hb', hp⟩ := h.cpos r hr
            obtain ⟨blk'', hb'', hp'⟩ := hext _ _ hb'
            exact ⟨blk'', hb'', hp'.trans hp⟩
          · intro b' hb'
            cases hb'
            exact ⟨_, get_set_self hb, rfl⟩
          · intro t' th' b' hne hg hbl
            obtain ⟨blk0, hb0, ho0⟩ := h.bown1 t' th' b' hg hbl
            by_cases e : b' = b
            · subst e; rw [hb] at hb0; cases hb0; rw [hown] at ho0; cases ho0
            · exact ⟨blk0, by rw [get_set_other e]; exact hb0, ho0⟩
          · intro b' blk' t' hg ho
            rcases get_set_cases hg with ⟨rfl, rfl⟩ | ⟨hne, hg'⟩
            · exact Or.inl ⟨(Option.some.inj ho).symm, rfl⟩
            · by_cases e : t' = t
              · subst e
                obtain ⟨th0, hg0, hb0⟩ := h.bown2 b' blk' t' hg' ho
                rw [ht] at hg0; cases hg0; cases hb0
              · exact Or.inr ⟨e, blk', hg', ho⟩
          · intro p' b' hr
            cases hr
            obtain ⟨blk', hb', hp⟩ := h.tref t _ p b ht rfl
            rw [hb] at hb'; cases hb'
            exact ⟨_, get_set_self hb, hp⟩
          · intro b' blk' d hg hd
            rcases get_set_cases hg with ⟨rfl, rfl⟩ | ⟨_, hg'⟩
            · exact h.dcorr b' blk d hb hd
            · exact h.dcorr b' blk' d hg' hd
        · cases hstep
    | gStore p ok b d =>
      simp only at hstep
      obtain ⟨blk, hb, hown⟩ := h.bown1 t _ b ht rfl
      simp only [hb] at hstep
      cases Option.some.inj hstep
      have hpos : blk.pos = p := by
        obtain ⟨blk', hb', hp⟩ := h.tref t _ p b ht rfl
        rw [hb] at hb'; cases hb'; exact hp
      have hext : ∀ (b' : Nat) (blk' : Block), s.blocks[b']? = some blk' →
          ∃ blk'' : Block, (s.blocks.set b { blk with data := some d })[b']? = some blk'' ∧ blk''.pos = blk'.pos := by
        intro b' blk' hb'
        by_cases e : b' = b
        · subst e; rw [hb] at hb'; cases hb'
          exact ⟨_, get_set_self hb, rfl⟩
        · exact ⟨blk', by rw [get_set_other e]; exact hb', rfl⟩
      refine Inv.update (bl1 := s.blocks.set b { blk with data := some d }) h ht h.cinv h.size ?_
        (h.co_same (pc1 := .gUnlockBlock p ok b (.miss d)) ht rfl).1 (h.co_same (pc1 := .gUnlockBlock p ok b (.miss d)) ht rfl).2.1
        (h.co_same (pc1 := .gUnlockBlock p ok b (.miss d)) ht rfl).2.2 ?_ ?_ ?_ ?_ hext ?_ ⟨?_, htok.2⟩
      · intro r hr
        obtain ⟨blk', hb', hp⟩ := h.cpos r hr
        obtain ⟨blk'', hb'', hp'⟩ := hext _ _ hb'
        exact ⟨blk'', hb'', hp'.trans hp⟩
      · intro b' hb'
        cases hb'
        exact ⟨_, get_set_self hb, hown⟩
      · intro t' th' b' hne hg hbl
        obtain ⟨blk0, hb0, ho0⟩ := h.bown1 t' th' b' hg hbl
        by_cases e : b' = b
        · subst e; rw [hb] at hb0; cases hb0
          exact ⟨_, get_set_self hb, ho0⟩
        · exact ⟨blk0, by rw [get_set_other e]; exact hb0, ho0⟩
      · intro b' blk' t' hg ho
        rcases get_set_cases hg with ⟨rfl, rfl⟩ | ⟨hne, hg'⟩
        · have ho' : blk.owner = some t' := ho
          rw [hown] at ho'
          exact Or.inl ⟨(Option.some.inj ho').symm, rfl⟩
        · by_cases e : t' = t
          · subst e
            obtain ⟨th0, hg0, hb0⟩ := h.bown2 b' blk' t' hg' ho
            rw [ht] at hg0; cases hg0; cases hb0
            exact absurd rfl hne
          · exact Or.inr ⟨e, blk', hg', ho⟩
      · intro p' b' hr
        cases hr
        exact ⟨_, get_set_self hb, hpos⟩
      · intro b' blk' d' hg hd
        rcases get_set_cases hg with ⟨rfl, rfl⟩ | ⟨_, hg'⟩
        · have : d' = d := (Option.some.inj hd).symm
          rw [this, show d = disk p from htok.1]
          exact congrArg disk hpos.symm
        · exact h.dcorr b' blk' d' hg' hd
      · exact Or.inl (by simp [Ret.value, show d = disk p from htok.1])
    | gUnlockBlock p ok b r =>
      simp only at hstep
      obtain ⟨blk, hb, hown⟩ := h.bown1 t _ b ht rfl
      simp only [hb] at hstep
      cases Option.some.inj hstep
      have hext : ∀ (b' : Nat) (blk' : Block), s.blocks[b']? = some blk' →
          ∃ blk'' : Block, (s.blocks.set b { blk with owner := none })[b']? = some blk'' ∧ blk''.pos = blk'.pos := by
        intro b' blk' hb'
        by_cases e : b' = b
        · subst e; rw [hb] at hb'; cases hb'
          exact ⟨_, get_set_self hb, rfl⟩
        · exact ⟨blk', by rw [get_set_other e]; exact hb', rfl⟩
      refine Inv.update (bl1 := s.blocks.set b { blk with owner := none }) h ht h.cinv h.size ?_
        (h.co_same (pc1 := .idle) ht rfl).1 (h.co_same (pc1 := .idle) ht rfl).2.1
        (h.co_same (pc1 := .idle) ht rfl).2.2 ?_ ?_ ?_ ?_ hext ?_ ⟨trivial, ?_⟩
      · intro r hr
        obtain ⟨blk', hb', hp⟩ := h.cpos r hr
        obtain ⟨blk'', hb'', hp'⟩ := hext _ _ hb'
        exact ⟨blk'', hb'', hp'.trans hp⟩
      · intro b' hb'
        cases hb'
      · intro t' th' b' hne hg hbl
        obtain ⟨blk0, hb0, ho0⟩ := h.bown1 t' th' b' hg hbl
        by_cases e : b' = b
        · subst e; rw [hb] at hb0; cases hb0
          rw [hown] at ho0
          exact absurd (Option.some.inj ho0).symm hne
        · exact ⟨blk0, by rw [get_set_other e]; exact hb0, ho0⟩
      · intro b' blk' t' hg ho
        rcases get_set_cases hg with ⟨rfl, rfl⟩ | ⟨hne, hg'⟩
        · cases ho
        · by_cases e : t' = t
          · subst e
            obtain ⟨th0, hg0, hb0⟩ := h.bown2 b' blk' t' hg' ho
            rw [ht] at hg0; cases hg0; cases hb0
            exact absurd rfl hne
          · exact Or.inr ⟨e, blk', hg', ho⟩
      · intro p' b' hr
        cases hr
      · intro b' blk' d' hg hd
        rcases get_set_cases hg with ⟨rfl, rfl⟩ | ⟨_, hg'⟩
        · exact h.dcorr b' blk d' hb hd
        · exact h.dcorr b' blk' d' hg' hd
      · intro x hx
        rcases List.mem_append.1 hx with hx | hx
        · exact htok.2 x hx
        · rw [List.mem_singleton.1 hx]; exact htok.1
    | gFind p ok =>
      simp only at hstep
      obtain ⟨c', r, isNew, hfa, hinv, hrp, hrmem, hsub, hnew, hold⟩ :=
        findOrAdd_spec slack s.maxBlocks s.c p s.blocks.length h.cinv
      rw [hfa] at hstep
      simp only at hstep
      cases Option.some.inj hstep
      cases isNew with
      | false =>
        obtain ⟨hrc, hceq⟩ := hold rfl
        refine Inv.update_keep h ht hinv (hceq ▸ h.size) (fun x hx => hceq ▸ hx)
          (h.co_same (pc1 := .gLockBlock p ok r.2) ht rfl) rfl (fun p' b' hr => ?_) ⟨trivial, htok.2⟩
        cases hr
        obtain ⟨blk, hb, hp⟩ := h.cpos r hrc
        exact ⟨blk, hb, hp.trans hrp⟩
      | true =>
        obtain ⟨hreq, hlen⟩ := hnew rfl
        subst hreq
        simp only [if_true]
        have hext : ∀ (b' : Nat) (blk' : Block), s.blocks[b']? = some blk' →
            ∃ blk'' : Block, (s.blocks ++ [(⟨p, none, none⟩ : Block)])[b']? = some blk'' ∧ blk''.pos = blk'.pos :=
          fun b' blk' hb' => ⟨blk', get_append_old hb', rfl⟩
        refine Inv.update (bl1 := s.blocks ++ [(⟨p, none, none⟩ : Block)]) h ht hinv ?_ ?_
          (h.co_same (pc1 := .gLockBlock p ok s.blocks.length) ht rfl).1
          (h.co_same (pc1 := .gLockBlock p ok s.blocks.length) ht rfl).2.1
          (h.co_same (pc1 := .gLockBlock p ok s.blocks.length) ht rfl).2.2 ?_ ?_ ?_ ?_ hext ?_ ⟨trivial, htok.2⟩
        · rcases hlen with h1 | h1 <;> omega
        · intro x hx
          rcases hsub x hx with rfl | hx'
          · exact ⟨_, get_append_new, rfl⟩
          · obtain ⟨blk', hb', hp⟩ := h.cpos x hx'
            exact ⟨blk', get_append_old hb', hp⟩
        · intro b' hb'
          cases hb'
        · intro t' th' b' _ hg hbl
          obtain ⟨blk0, hb0, ho0⟩ := h.bown1 t' th' b' hg hbl
          exact ⟨blk0, get_append_old hb0, ho0⟩
        · intro b' blk' t' hg ho
          rcases get_append_cases hg with hg' | ⟨_, rfl⟩
          · by_cases e : t' = t
            · subst e
              obtain ⟨th0, hg0, hb0⟩ := h.bown2 b' blk' t' hg' ho
              rw [ht] at hg0; cases hg0; cases hb0
            · exact Or.inr ⟨e, blk', hg', ho⟩
          · cases ho
        · intro p' b' hr
          cases hr
          exact ⟨_, get_append_new, rfl⟩
        · intro b' blk' d hg hd
          rcases get_append_cases hg with hg' | ⟨_, rfl⟩
          · exact h.dcorr b' blk' d hg' hd
          · cases hd

theorem init_inv (disk : Pos → Data) (maxBlocks : Int) (progs : List (List Op)) : Inv disk (init maxBlocks progs) := by
  have hth : ∀ (t : Tid) (th : Thread), (init maxBlocks progs).threads[t]? = some th → th.pc = .idle ∧ th.rets = [] := by
    intro t th hg
    simp only [init, List.getElem?_map] at hg
    cases hp : progs[t]? with
    | none => simp [hp] at hg
    | some p => simp [hp] at hg; subst hg; exact ⟨rfl, rfl⟩
  refine ⟨⟨by simp [init], by simp [init], fun r => by simp [init]⟩, ?_, rfl, fun r hr => by simp [init] at hr, ?_, ?_, ?_, ?_, ?_, ?_, ?_⟩
  · simp only [init, List.length_nil]; omega
  · intro t th hg hc; rw [(hth t th hg).1] at hc; cases hc
  · intro t hc; cases hc
  · intro t th b hg hb; rw [(hth t th hg).1] at hb; cases hb
  · intro b blk t hg; simp [init] at hg
  · intro t th p b hg hr; rw [(hth t th hg).1] at hr; cases hr
  · intro b blk d hg; simp [init] at hg
  · intro t th hg
    obtain ⟨h1, h2⟩ := hth t th hg
    rw [h1, h2]
    exact ⟨trivial, fun x hx => by cases hx⟩

theorem run_inv {disk : Pos → Data} {slack : Nat} (hs : 1 ≤ slack) :
    ∀ (sched : List Tid) (s : Sys), Inv disk s → Inv disk (run disk slack s sched)
  | [], _, h => h
  | t :: sched, s, h => by
    simp only [run, List.foldl_cons]
    cases hst : step disk slack s t with
    | none => exact run_inv hs sched s h
    | some s' => exact run_inv hs sched s' (step_inv hs h hst)

end Diskfs.Lru
