/-
  Entry-array round trip: the array `toPartitionArrayBytes` assembles (sparse, unordered indices → slots)
  decodes to the used partitions in slot order.  Helper lemmas for Props/C02.lean.
-/
import DiskfsModel.Proofs.GptTable
set_option linter.unusedSimpArgs false
set_option linter.unusedVariables false
namespace Diskfs.Gpt

/-- the partition (if any) that slot `i` (0-based) of the array holds -/
def slotPart (ps : List Part) (i : Nat) : Option Part :=
  (ps.find? (fun q => q.index == i + 1)).bind fun p => if allZero p.typ then none else some p

/-- what reading back yields for the partition list `Write` was left with: slot order, unused entries dropped -/
def normParts (ps : List Part) (n : Nat) : List Part := (List.range n).filterMap (slotPart ps)

/-- an entry that reads back exactly: unused, or well formed with the size a reader derives -/
def EntryExact (lss : Nat) (p : Part) : Prop :=
  allZero p.typ = true ∨ (EntryWF p ∧ p.size = sizeOf p.start p.end_ lss)

theorem bind_ok_inv {α β} (x : Res α) (f : α → Res β) (b : β) (h : (x >>= f) = .ok b) :
    ∃ a, x = .ok a ∧ f a = .ok b := by
  cases x with
  | ok a => exact ⟨a, rfl, h⟩
  | err e => exact absurd h (by intro h'; cases h')
  | panic s => exact absurd h (by intro h'; cases h')

theorem padTo_self (b : Bytes) (n : Nat) (h : b.length = n) : padTo n b = b := by
  simp [padTo, h, zeros]

theorem slotBytes_spec (c : Cfg) (ps : List Part) (lss i : Nat) (hex : ∀ p ∈ ps, EntryExact lss p) (s : Bytes)
    (h : slotBytes c ps 128 i = .ok s) :
    s.length = 128 ∧ entryDec (i + 1) s lss = slotPart ps i := by
  unfold slotBytes at h
  unfold slotPart
  cases hf : ps.find? (fun q => q.index == i + 1) with
  | none =>
    rw [hf] at h
    simp only [Res.ok.injEq] at h
    subst h
    exact ⟨by simp, by simpa using entryDec_zeros (i + 1) lss⟩
  | some p =>
    rw [hf] at h
    simp only at h
    obtain ⟨e, he, hs⟩ := bind_ok_inv _ _ _ h
    simp only [Res.pure_eq, Res.ok.injEq] at hs
    have hp : p ∈ ps := List.mem_of_find?_eq_some hf
    have hidx : p.index = i + 1 := by
      have := List.find?_some hf
      simpa using this
    rcases hex p hp with hu | ⟨hwf, hsz⟩
    · -- unused entry: 128 zero bytes
      have : e = zeros 128 := by
        unfold entryEnc at he
        simp only [hu, if_true, Res.ok.injEq] at he
        exact he.symm
      subst this
      subst hs
      have e1 : (zeros 128).take 128 = zeros 128 := List.take_of_length_le (by simp)
      rw [e1, padTo_self _ _ (by simp)]
      simp only [Option.bind_some, hu, if_true]
      exact ⟨by simp, entryDec_zeros (i + 1) lss⟩
    · obtain ⟨b, hb, hlen, hdec⟩ := entryDec_entryEnc c p (i + 1) lss hwf
      rw [hb] at he
      simp only [Res.ok.injEq] at he
      subst he
      subst hs
      have e1 : b.take 128 = b := List.take_of_length_le (by omega)
      rw [e1, padTo_self _ _ hlen]
      refine ⟨hlen, ?_⟩
      rw [hdec]
      simp only [Option.bind_some, hwf.used, Bool.false_eq_true, if_false]
      congr 1
      cases p
      simp only [sizeOf] at hsz
      simp_all [sizeOf]

theorem chunk128_cons (s rest : Bytes) (n : Nat) (h : s.length = 128) :
    chunk128 (n + 1) (s ++ rest) = s :: chunk128 n rest := by
  simp only [chunk128]
  rw [List.take_left' h, List.drop_left' h]

/-- slots `i0, i0+1, …` of the assembled array decode to the partitions with those indices, in order -/
theorem decodeFrom_slotsFrom (c : Cfg) (ps : List Part) (lss : Nat) (hex : ∀ p ∈ ps, EntryExact lss p) :
    ∀ (n i0 : Nat) (b : Bytes), slotsFrom c ps 128 (List.range' i0 n) = .ok b →
      b.length = 128 * n ∧ decodeFrom lss i0 (chunk128 n b) = (List.range' i0 n).filterMap (slotPart ps) := by
  intro n
  induction n with
  | zero =>
    intro i0 b h
    simp only [List.range'_zero, slotsFrom, Res.ok.injEq] at h
    subst h
    simp [chunk128, decodeFrom]
  | succ n ih =>
    intro i0 b h
    rw [List.range'_succ] at h ⊢
    simp only [slotsFrom] at h
    obtain ⟨s, hs, h2⟩ := bind_ok_inv _ _ _ h
    obtain ⟨rest, hrest, h3⟩ := bind_ok_inv _ _ _ h2
    simp only [Res.pure_eq, Res.ok.injEq] at h3
    subst h3
    obtain ⟨hlen, hdec⟩ := slotBytes_spec c ps lss i0 hex s hs
    obtain ⟨hl2, hd2⟩ := ih (i0 + 1) rest hrest
    refine ⟨by simp [hlen, hl2]; omega, ?_⟩
    rw [chunk128_cons s rest n hlen]
    simp only [decodeFrom, List.filterMap_cons]
    rw [hdec]
    cases slotPart ps i0 with
    | none => simpa using hd2
    | some p => simpa using hd2

/-- the array `toPartitionArrayBytes` builds for 128 slots of 128 bytes decodes to `normParts` -/
theorem decodeArr_slots (c : Cfg) (ps : List Part) (lss : Nat) (hex : ∀ p ∈ ps, EntryExact lss p) (b : Bytes)
    (h : slotsFrom c ps 128 (List.range 128) = .ok b) :
    b.length = 16384 ∧ decodeArr b lss = normParts ps 128 := by
  rw [List.range_eq_range'] at h
  obtain ⟨hl, hd⟩ := decodeFrom_slotsFrom c ps lss hex 128 0 b h
  refine ⟨by omega, ?_⟩
  unfold decodeArr normParts
  rw [hl, List.range_eq_range']
  have : 128 * 128 / 128 = 128 := by decide
  rw [this]
  exact hd

/-! ### what initParts (the loop calling initEntry) leaves -/

theorem initParts_spec (bs n : Nat) (hbs : 0 < bs) :
    ∀ (l acc ps : List Part), initParts bs n l acc = some ps →
      (∀ p ∈ l, allZero p.typ = true ∨ (EntryWF p ∧ p.size < two64)) →
      (∀ q ∈ acc, EntryExact bs q) → ∀ q ∈ ps, EntryExact bs q := by
  intro l
  induction l with
  | nil =>
    intro acc ps h _ hacc q hq
    simp only [initParts, Option.some.injEq] at h
    subst h
    exact hacc q (by simpa using hq)
  | cons p l ih =>
    intro acc ps h hl hacc
    simp only [initParts] at h
    cases hi : initEntry p bs with
    | none => rw [hi] at h; simp at h
    | some p' =>
      rw [hi] at h
      simp only at h
      split at h
      · simp at h
      · split at h
        · simp at h
        · apply ih (p' :: acc) ps h (fun x hx => hl x (List.mem_cons_of_mem _ hx))
          intro q hq
          simp only [List.mem_cons] at hq
          rcases hq with hq | hq
          · subst hq
            rcases hl p (List.mem_cons_self ..) with hu | ⟨hwf, hz⟩
            · left
              have : q = p := by
                unfold initEntry at hi
                simp [hu] at hi
                exact hi.symm
              rw [this]; exact hu
            · right
              obtain ⟨hidx, hst, hty, hgu, hat, hnm⟩ := initEntry_fields p q bs hi
              obtain ⟨_, hend, hsz⟩ := initEntry_consistent p q bs hbs hwf.used hwf.start_lt hwf.end_lt hz hi
              exact ⟨⟨hty ▸ hwf.typ_len, hgu ▸ hwf.guid_len, hty ▸ hwf.used, hst ▸ hwf.start_lt, hend, hat ▸ hwf.attrs_lt,
                hnm ▸ hwf.runes, hnm ▸ hwf.units⟩, hsz⟩
          · exact hacc q hq

end Diskfs.Gpt
