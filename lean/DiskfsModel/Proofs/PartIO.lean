import DiskfsModel.Model.PartIO
namespace Diskfs

theorem readAt_append (d : Dev) (off a b : Nat) :
    readAt d off (a + b) = readAt d off a ++ readAt d (off + a) b := by
  apply List.ext_getElem
  · simp
  · intro i h1 h2
    simp only [readAt, List.getElem_map, List.getElem_range, List.getElem_append]
    split
    · simp
    · rename_i h
      simp at h
      simp only [List.length_map, List.length_range]
      congr 1; omega

theorem applyWrs_append (d : Dev) (ws : List Wr) (w : Wr) :
    applyWrs d (ws ++ [w]) = applyWr (applyWrs d ws) w := by
  simp [applyWrs, List.foldl_append]

namespace PartIO

def InRange (start size : Nat) (w : Wr) : Prop := start ≤ w.off ∧ w.off + w.data.length ≤ start + size

theorem writeLoop_in_range (start size : Nat) (cs : List Bytes) (total : Nat) (ws : List Wr)
    (hws : ∀ w ∈ ws, InRange start size w) :
    ∀ w ∈ (writeLoop start size cs total ws).ws, InRange start size w := by
  induction cs generalizing total ws with
  | nil => simpa [writeLoop] using hws
  | cons c cs ih =>
    unfold writeLoop
    split
    · simpa using hws
    · split
      · apply ih
        intro w hw
        simp only [List.mem_append, List.mem_singleton] at hw
        rcases hw with hw | hw
        · exact hws w hw
        · subst hw; simp only [InRange]; omega
      · exact ih _ _ hws

/-- total only grows, and the result total is what was consumed -/
theorem writeLoop_ok_iff (start size : Nat) (cs : List Bytes) (total : Nat) (ws : List Wr) :
    (writeLoop start size cs total ws).ok = true ↔ total + (cs.map List.length).sum = size := by
  induction cs generalizing total ws with
  | nil => simp [writeLoop]
  | cons c cs ih =>
    unfold writeLoop
    split
    · simp; omega
    · split
      · rw [ih]; simp; omega
      · rw [ih]; simp; omega

theorem writeLoop_total (start size : Nat) (cs : List Bytes) (total : Nat) (ws : List Wr)
    (h : (writeLoop start size cs total ws).ok = true) :
    (writeLoop start size cs total ws).total = size := by
  induction cs generalizing total ws with
  | nil => simpa [writeLoop] using h
  | cons c cs ih =>
    unfold writeLoop at h ⊢
    split
    · rename_i hc; simp [hc] at h
    · rename_i hc
      simp only [hc, if_false] at h
      split
      · rename_i hp; simp only [hp, if_true] at h; exact ih _ _ h
      · rename_i hp; simp only [hp, if_false] at h; exact ih _ _ h

/-- as long as the supplied bytes fit, the partition's leading bytes are the concatenation of the chunks -/
theorem writeLoop_effect_le (d : Dev) (start size : Nat) (cs : List Bytes) (total : Nat) (ws : List Wr)
    (pre : Bytes) (hpre : readAt (applyWrs d ws) start total = pre) (hlen : pre.length = total)
    (h : total + (cs.map List.length).sum ≤ size) :
    readAt (applyWrs d (writeLoop start size cs total ws).ws) start (total + (cs.map List.length).sum)
      = pre ++ cs.flatten := by
  induction cs generalizing total ws pre with
  | nil => simp [writeLoop, hpre]
  | cons c cs ih =>
    simp only [List.map_cons, List.sum_cons] at h
    unfold writeLoop
    have hc : ¬ (c.length + total > size) := by omega
    simp only [hc, if_false]
    split
    · have := ih (total + c.length) (ws ++ [⟨start + total, c⟩]) (pre ++ c) ?_ (by simp [hlen]) (by omega)
      · simpa [Nat.add_assoc] using this
      · rw [readAt_append, applyWrs_append]
        congr 1
        · rw [readAt_applyWr_disjoint]
          · exact hpre
          · left; simp
        · exact readAt_applyWr_same (applyWrs d ws) ⟨start + total, c⟩
    · rename_i hp
      have hc0 : c = [] := by
        cases c with
        | nil => rfl
        | cons _ _ => simp at hp
      subst hc0
      simpa using ih total ws pre hpre hlen (by simpa using h)

theorem readLoop_spec_aux (d : Dev) (devSize start size pss : Nat)
    (hdev : start + size ≤ devSize) (hpss : 0 < pss) :
    ∀ (k total : Nat) (acc : Bytes), size - total ≤ k → total ≤ size →
      readLoop d devSize start size pss total acc = (acc ++ readAt d (start + total) (size - total), size) := by
  intro k
  induction k with
  | zero =>
    intro total acc hk ht
    unfold readLoop
    have h0 : size - total = 0 := by omega
    have h1 : total = size := by omega
    simp [h1, readAt]
  | succ k ih =>
    intro total acc hk ht
    unfold readLoop
    simp only
    have hn : min (min pss (size - total)) (devSize - (start + total)) = min pss (size - total) := by omega
    rw [hn]
    by_cases hdone : total + min pss (size - total) ≥ size
    · have h3 : min pss (size - total) = size - total := by omega
      simp only [h3]
      have h2 : total + (size - total) = size := by omega
      simp [h2]
    · have hne : ¬ (min pss (size - total) < min pss (size - total) ∨ total + min pss (size - total) ≥ size ∨ min pss (size - total) = 0) := by
        omega
      rw [if_neg hne]
      rw [ih (total + min pss (size - total))
            (acc ++ readAt d (start + total) (min pss (size - total))) (by omega) (by omega)]
      have hsplit : size - total = min pss (size - total) + (size - (total + min pss (size - total))) := by omega
      conv => rhs; rw [hsplit, readAt_append]
      simp [Nat.add_assoc]

theorem readLoop_spec (d : Dev) (devSize start size pss : Nat) (total : Nat) (acc : Bytes)
    (hdev : start + size ≤ devSize) (hpss : 0 < pss) (ht : total ≤ size) :
    readLoop d devSize start size pss total acc = (acc ++ readAt d (start + total) (size - total), size) :=
  readLoop_spec_aux d devSize start size pss hdev hpss (size - total) total acc (Nat.le_refl _) ht

/-- every ReadAt request lies inside the partition, none is longer than the chunk size, and
    together they cover exactly the bytes that remain -/
theorem readReqs_spec_aux (devSize start size pss : Nat)
    (hdev : start + size ≤ devSize) (hpss : 0 < pss) :
    ∀ (k total : Nat) (acc : List (Nat × Nat)), size - total ≤ k → total ≤ size →
      ∃ ext : List (Nat × Nat), readReqs devSize start size pss total acc = acc ++ ext ∧
        (∀ r ∈ ext, start + total ≤ r.1 ∧ r.1 + r.2 ≤ start + size ∧ r.2 ≤ pss) ∧
        (ext.map (·.2)).sum = size - total := by
  intro k
  induction k with
  | zero =>
    intro total acc hk ht
    have h1 : total = size := by omega
    refine ⟨[(start + total, 0)], ?_, ?_, ?_⟩
    · unfold readReqs; simp [h1]
    · intro r hr; simp at hr; subst hr; simp; omega
    · simp [h1]
  | succ k ih =>
    intro total acc hk ht
    unfold readReqs
    simp only
    have hn : min (min pss (size - total)) (devSize - (start + total)) = min pss (size - total) := by omega
    rw [hn]
    by_cases hdone : total + min pss (size - total) ≥ size
    · refine ⟨[(start + total, min pss (size - total))], ?_, ?_, ?_⟩
      · simp [hdone]
      · intro r hr; simp at hr; subst hr; simp; omega
      · simp; omega
    · have hne : ¬ (min pss (size - total) < min pss (size - total) ∨ total + min pss (size - total) ≥ size ∨ min pss (size - total) = 0) := by
        omega
      rw [if_neg hne]
      obtain ⟨ext, he, hin, hsum⟩ := ih (total + min pss (size - total))
        (acc ++ [(start + total, min pss (size - total))]) (by omega) (by omega)
      refine ⟨(start + total, min pss (size - total)) :: ext, ?_, ?_, ?_⟩
      · rw [he]; simp
      · intro r hr
        simp only [List.mem_cons] at hr
        rcases hr with hr | hr
        · subst hr; simp; omega
        · have := hin r hr; omega
      · simp only [List.map_cons, List.sum_cons, hsum]; omega

end PartIO
end Diskfs
