/-
  Proofs about the ownership layer (Model/Ext4/Own.lean): single-bit lemmas of the block bitmaps, Remove of a file
  that owns its blocks, allocation, and the invariant `OwnInv` along every history (`own_inv`, `own_inv_history`).
-/
import DiskfsModel.Model.Ext4.Own
import DiskfsModel.Proofs.Ext4Alloc
namespace Diskfs.Ext4.Alloc

/-! ### single bits -/

theorem allAre_one (v : Bool) : ∀ (b : Bits) (p : Nat), allAre v b p 1 = (b[p]? == some v)
  | [], p => by simp [allAre]
  | x :: xs, 0 => by simp [allAre]
  | x :: xs, p + 1 => by simp [allAre, allAre_one v xs p]

theorem clearRun_one_get : ∀ (b : Bits) (p q : Nat),
    (clearRun b p 1)[q]? = if q = p then b[q]?.map (fun _ => false) else b[q]?
  | [], p, q => by simp [clearRun]
  | x :: xs, 0, q => by
    cases q with
    | zero => simp [clearRun]
    | succ q =>
      cases xs <;> simp [clearRun]
  | x :: xs, p + 1, q => by
    cases q with
    | zero => simp [clearRun]
    | succ q => simp [clearRun, clearRun_one_get xs p q]

theorem setRun_one_get : ∀ (b : Bits) (p q : Nat),
    (setRun b p 1)[q]? = if q = p then b[q]?.map (fun _ => true) else b[q]?
  | [], p, q => by simp [setRun]
  | x :: xs, 0, q => by
    cases q with
    | zero => simp [setRun]
    | succ q =>
      cases xs <;> simp [setRun]
  | x :: xs, p + 1, q => by
    cases q with
    | zero => simp [setRun]
    | succ q => simp [setRun, setRun_one_get xs p q]

theorem blockMarked_eq (geo : Geom) (s : Acc) (b : Nat) :
    blockMarked geo s b = (decide (geo.fdb ≤ b) && (bitOf geo s b == some true)) := by
  unfold blockMarked bitOf runUsed
  cases s.groups[(b - geo.fdb) / geo.bpg]? with
  | none => simp
  | some g => simp [allAre_one]

/-- two blocks with the same group and bit are the same block -/
theorem block_coords_inj (geo : Geom) (b b' : Nat) (h1 : geo.fdb ≤ b) (h2 : geo.fdb ≤ b')
    (hg : (b - geo.fdb) / geo.bpg = (b' - geo.fdb) / geo.bpg) (hp : (b - geo.fdb) % geo.bpg = (b' - geo.fdb) % geo.bpg) :
    b = b' := by
  have e1 := Nat.div_add_mod (b - geo.fdb) geo.bpg
  have e2 := Nat.div_add_mod (b' - geo.fdb) geo.bpg
  rw [hg, hp] at e1
  omega

/-- releasing block `b`: its bit is cleared, every other block's bit is untouched -/
theorem bitOf_freeBlock (geo : Geom) (s : Acc) (b b' : Nat) (h1 : geo.fdb ≤ b) (h2 : geo.fdb ≤ b') :
    bitOf geo (freeBlock true geo s b) b' =
      if b' = b then (bitOf geo s b').map (fun _ => false) else bitOf geo s b' := by
  have hidx : (b - geo.fdb) - geo.bpg * ((b - geo.fdb) / geo.bpg) = (b - geo.fdb) % geo.bpg := by
    rw [Nat.mod_def]
  simp only [bitOf, freeBlock, if_true, hidx, modifyAt_getElem?]
  by_cases hg : (b' - geo.fdb) / geo.bpg = (b - geo.fdb) / geo.bpg
  · rw [if_pos hg]
    cases hgr : s.groups[(b' - geo.fdb) / geo.bpg]? with
    | none =>
      simp only [Option.map_none]
      split <;> rfl
    | some g =>
      simp only [Option.map_some, clearRun_one_get]
      by_cases hp : (b' - geo.fdb) % geo.bpg = (b - geo.fdb) % geo.bpg
      · have : b' = b := block_coords_inj geo b' b h2 h1 hg hp
        simp [this]
      · have : b' ≠ b := fun h => hp (by rw [h])
        simp [hp, this]
  · rw [if_neg hg]
    have : b' ≠ b := fun h => hg (by rw [h])
    simp [this]


theorem bitOf_freeBlocks (geo : Geom) : ∀ (blocks : List Nat) (s : Acc) (b' : Nat), (∀ b ∈ blocks, geo.fdb ≤ b) →
    geo.fdb ≤ b' →
    bitOf geo (blocks.foldl (freeBlock true geo) s) b' =
      if b' ∈ blocks then (bitOf geo s b').map (fun _ => false) else bitOf geo s b' := by
  intro blocks
  induction blocks with
  | nil => intro s b' _ _; simp
  | cons b bs ih =>
    intro s b' hge h2
    simp only [List.foldl_cons]
    rw [ih (freeBlock true geo s b) b' (fun x hx => hge x (by simp [hx])) h2,
      bitOf_freeBlock geo s b b' (hge b (by simp)) h2]
    by_cases h1 : b' = b
    · subst h1
      by_cases h3 : b' ∈ bs <;> simp [h3]
    · by_cases h3 : b' ∈ bs <;> simp [h1, h3]

/-- a change of the groups that leaves every block bitmap alone does not move any block's bit -/
theorem bitOf_modifyAt (geo : Geom) (s s' : Acc) (i : Nat) (f : Group → Group) (hf : ∀ g, (f g).bbm = g.bbm)
    (hs : s'.groups = modifyAt s.groups i f) (b : Nat) : bitOf geo s' b = bitOf geo s b := by
  simp only [bitOf, hs, modifyAt_getElem?]
  by_cases h : (b - geo.fdb) / geo.bpg = i
  · rw [if_pos h]
    cases s.groups[(b - geo.fdb) / geo.bpg]? with
    | none => rfl
    | some g => simp [hf]
  · rw [if_neg h]

theorem blockMarked_modifyAt (geo : Geom) (s s' : Acc) (i : Nat) (f : Group → Group) (hf : ∀ g, (f g).bbm = g.bbm)
    (hs : s'.groups = modifyAt s.groups i f) (b : Nat) : blockMarked geo s' b = blockMarked geo s b := by
  rw [blockMarked_eq, blockMarked_eq, bitOf_modifyAt geo s s' i f hf hs b]

theorem bitOf_removeInode (geo : Geom) (s : Acc) (ino : Nat) (blocks : List Nat) (b512 : Nat) (isDir : Bool) (b' : Nat)
    (hge : ∀ b ∈ blocks, geo.fdb ≤ b) (h2 : geo.fdb ≤ b') :
    bitOf geo (removeInode true geo s ino blocks b512 isDir) b' =
      if b' ∈ blocks then (bitOf geo s b').map (fun _ => false) else bitOf geo s b' := by
  rw [← bitOf_freeBlocks geo blocks s b' hge h2]
  simp only [removeInode, if_true]
  refine bitOf_modifyAt geo _ _ _ _ ?_ rfl b'
  intro g; rfl

/-- pairwise distinct blocks that are each marked pass the machine's guard (which releases them one by one) -/
theorem blocksMarked_of_pointwise (geo : Geom) : ∀ (blocks : List Nat) (s : Acc), blocks.Nodup →
    (∀ b ∈ blocks, blockMarked geo s b = true) → blocksMarked geo s blocks = true := by
  intro blocks
  induction blocks with
  | nil => intro s _ _; rfl
  | cons b bs ih =>
    intro s hnd hm
    have hb := hm b (by simp)
    simp only [blocksMarked, Bool.and_eq_true, hb, true_and]
    have hnd' := List.nodup_cons.mp hnd
    apply ih _ hnd'.2
    intro x hx
    have hxm := hm x (by simp [hx])
    rw [blockMarked_eq] at hxm hb ⊢
    simp only [Bool.and_eq_true, decide_eq_true_eq] at hxm hb ⊢
    refine ⟨hxm.1, ?_⟩
    rw [bitOf_freeBlock geo s b x hb.1 hxm.1]
    have : x ≠ b := fun h => hnd'.1 (h ▸ hx)
    simp [this, hxm.2]

/-- Remove of a file that OWNS its blocks - pairwise distinct, each marked - and whose inode is marked: the machine
    accepts it, `counters = bitmaps` survives, the file's blocks are free afterwards and every other block keeps its
    state (so every other file still owns what it owned) -/
theorem removeOp_owned (geo : Geom) (s : Acc) (ino : Nat) (blocks : List Nat) (isDir : Bool) (h : AccInv s)
    (hnd : blocks.Nodup) (hm : ∀ b ∈ blocks, blockMarked geo s b = true) (hi : inodeMarked geo s ino = true) :
    removeOp geo s ino blocks isDir = .ok (removeInode true geo s ino blocks 0 isDir) ∧
    AccInv (removeInode true geo s ino blocks 0 isDir) ∧
    (removeInode true geo s ino blocks 0 isDir).sbFreeBlocks = s.sbFreeBlocks + blocks.length ∧
    (∀ b ∈ blocks, blockMarked geo (removeInode true geo s ino blocks 0 isDir) b = false) ∧
    (∀ b', b' ∉ blocks → blockMarked geo (removeInode true geo s ino blocks 0 isDir) b' = blockMarked geo s b') := by
  have hg := blocksMarked_of_pointwise geo blocks s hnd hm
  have hge : ∀ b ∈ blocks, geo.fdb ≤ b := by
    intro b hb
    have := hm b hb
    simp only [blockMarked, Bool.and_eq_true, decide_eq_true_eq] at this
    exact this.1
  refine ⟨by simp [removeOp, hg, hi], removeInode_fixed_inv geo s ino blocks 0 isDir h hg hi, ?_, ?_, ?_⟩
  · have hsb : ∀ (bs : List Nat) (t : Acc), (bs.foldl (freeBlock true geo) t).sbFreeBlocks = t.sbFreeBlocks := by
      intro bs
      induction bs with
      | nil => intro t; rfl
      | cons b bs ih => intro t; simp only [List.foldl_cons]; rw [ih]; rfl
    simp only [removeInode, if_true, hsb]
  · intro b hb
    rw [blockMarked_eq, bitOf_removeInode geo s ino blocks 0 isDir b hge (hge b hb)]
    simp only [hb, if_true]
    cases bitOf geo s b <;> simp
  · intro b' hb'
    rw [blockMarked_eq, blockMarked_eq]
    by_cases h2 : geo.fdb ≤ b'
    · rw [bitOf_removeInode geo s ino blocks 0 isDir b' hge h2]
      simp [hb']
    · simp [h2]


/-! ### allocation: the blocks of the runs become marked, nothing else changes -/

theorem setRun_get : ∀ (b : Bits) (p c q : Nat),
    (setRun b p c)[q]? = if p ≤ q ∧ q < p + c then b[q]?.map (fun _ => true) else b[q]?
  | [], p, c, q => by simp [setRun]
  | x :: xs, 0, 0, q => by simp [setRun]
  | x :: xs, 0, c + 1, q => by
    cases q with
    | zero => simp [setRun]
    | succ q =>
      simp only [setRun, List.getElem?_cons_succ, setRun_get xs 0 c q]
      have : (0 ≤ q + 1 ∧ q + 1 < 0 + (c + 1)) ↔ (0 ≤ q ∧ q < 0 + c) := by omega
      simp only [this]
  | x :: xs, p + 1, c, q => by
    cases q with
    | zero =>
      simp [setRun]
    | succ q =>
      simp only [setRun, List.getElem?_cons_succ, setRun_get xs p c q]
      have : (p + 1 ≤ q + 1 ∧ q + 1 < p + 1 + c) ↔ (p ≤ q ∧ q < p + c) := by omega
      simp only [this]

theorem mem_runBlocks (geo : Geom) (r : Run) (hb : 0 < geo.bpg) (hpc : r.2.1 + r.2.2 ≤ geo.bpg) (b : Nat) :
    b ∈ runBlocks geo r ↔
      geo.fdb ≤ b ∧ (b - geo.fdb) / geo.bpg = r.1 ∧ r.2.1 ≤ (b - geo.fdb) % geo.bpg ∧ (b - geo.fdb) % geo.bpg < r.2.1 + r.2.2 := by
  obtain ⟨g, p, c⟩ := r
  simp only [runBlocks, List.mem_range'_1] at hpc ⊢
  constructor
  · rintro ⟨h1, h2⟩
    have e : b - geo.fdb = geo.bpg * g + (b - geo.fdb - geo.bpg * g) := by
      have : geo.bpg * g = g * geo.bpg := Nat.mul_comm _ _
      omega
    have hlt : b - geo.fdb - geo.bpg * g < geo.bpg := by
      have : geo.bpg * g = g * geo.bpg := Nat.mul_comm _ _
      omega
    have hd : (b - geo.fdb) / geo.bpg = g := by
      rw [e, Nat.mul_add_div hb, Nat.div_eq_of_lt hlt]; rfl
    have hm : (b - geo.fdb) % geo.bpg = b - geo.fdb - geo.bpg * g := by
      rw [e, Nat.mul_add_mod, Nat.mod_eq_of_lt hlt]
      omega
    have : geo.bpg * g = g * geo.bpg := Nat.mul_comm _ _
    refine ⟨by omega, hd, by omega, by omega⟩
  · rintro ⟨h1, h2, h3, h4⟩
    have e := Nat.div_add_mod (b - geo.fdb) geo.bpg
    rw [h2] at e
    have : geo.bpg * g = g * geo.bpg := Nat.mul_comm _ _
    omega

theorem bitOf_markRun (geo : Geom) (s : Acc) (r : Run) (b' : Nat) :
    bitOf geo (markRun s r) b' =
      if (b' - geo.fdb) / geo.bpg = r.1 ∧ r.2.1 ≤ (b' - geo.fdb) % geo.bpg ∧ (b' - geo.fdb) % geo.bpg < r.2.1 + r.2.2
      then (bitOf geo s b').map (fun _ => true) else bitOf geo s b' := by
  simp only [bitOf, markRun, modifyAt_getElem?]
  by_cases hg : (b' - geo.fdb) / geo.bpg = r.1
  · rw [if_pos hg]
    cases hgr : s.groups[(b' - geo.fdb) / geo.bpg]? with
    | none => simp
    | some g =>
      simp only [Option.map_some, setRun_get, hg, true_and]
  · rw [if_neg hg]
    simp [hg]

/-- one run of free bits: after marking, its blocks are marked, every other block keeps its bit; before, its
    blocks were unmarked -/
theorem markRun_blocks (geo : Geom) (s : Acc) (r : Run) (hw : WF geo s) (hf : runFree s r = true) :
    (∀ b', geo.fdb ≤ b' → bitOf geo (markRun s r) b' = if b' ∈ runBlocks geo r then some true else bitOf geo s b') ∧
    (∀ b ∈ runBlocks geo r, bitOf geo s b = some false) ∧ WF geo (markRun s r) := by
  obtain ⟨g, p, c⟩ := r
  unfold runFree at hf
  simp only at hf
  cases hgr : s.groups[g]? with
  | none => simp [hgr] at hf
  | some grp =>
    simp only [hgr] at hf
    have hlen : grp.bbm.length ≤ geo.bpg := hw.2 grp (mem_of_getElem? hgr)
    have hwf' : WF geo (markRun s (g, p, c)) := by
      refine ⟨hw.1, ?_⟩
      intro g' hg'
      rcases modifyAt_mem _ _ _ _ hg' with h | ⟨g0, _, h2⟩
      · exact hw.2 g' h
      · subst h2
        simp only [setRun_length]
        rw [hgr] at *
        rename_i h1
        cases h1
        exact hlen
    cases c with
    | zero =>
      refine ⟨?_, by simp [runBlocks], hwf'⟩
      intro b' _
      rw [bitOf_markRun]
      have : ¬ ((b' - geo.fdb) / geo.bpg = g ∧ p ≤ (b' - geo.fdb) % geo.bpg ∧ (b' - geo.fdb) % geo.bpg < p + 0) := by omega
      rw [if_neg this]
      simp [runBlocks]
    | succ c =>
      obtain ⟨hpc, hbits⟩ := allAre_spec false grp.bbm p (c + 1) (by omega) hf
      have hpc' : p + (c + 1) ≤ geo.bpg := by omega
      have hmem := mem_runBlocks geo (g, p, c + 1) hw.1 hpc'
      refine ⟨?_, ?_, hwf'⟩
      · intro b' h2
        rw [bitOf_markRun]
        by_cases hin : b' ∈ runBlocks geo (g, p, c + 1)
        · have hc := (hmem b').mp hin
          have hbit : bitOf geo s b' = some false := by
            simp only [bitOf, hc.2.1, hgr]
            exact hbits _ hc.2.2.1 hc.2.2.2
          simp [hin, hc.2.1, hc.2.2.1, hc.2.2.2, hbit]
        · have : ¬ ((b' - geo.fdb) / geo.bpg = g ∧ p ≤ (b' - geo.fdb) % geo.bpg ∧ (b' - geo.fdb) % geo.bpg < p + (c + 1)) := by
            intro hh
            exact hin ((hmem b').mpr ⟨h2, hh.1, hh.2.1, hh.2.2⟩)
          simp [hin, this]
      · intro b hb
        have hc := (hmem b).mp hb
        simp only [bitOf, hc.2.1, hgr]
        exact hbits _ hc.2.2.1 hc.2.2.2


theorem runBlocks_ge (geo : Geom) (r : Run) : ∀ b ∈ runBlocks geo r, geo.fdb ≤ b := by
  intro b hb
  simp only [runBlocks, List.mem_range'_1] at hb
  omega

theorem flatMap_runBlocks_ge (geo : Geom) (rs : List Run) : ∀ b ∈ rs.flatMap (runBlocks geo), geo.fdb ≤ b := by
  intro b hb
  obtain ⟨r, _, hr⟩ := List.mem_flatMap.mp hb
  exact runBlocks_ge geo r b hr

/-- the runs of one allocateExtents answer, marked one after the other: their blocks are pairwise distinct, were
    all unmarked, are all marked afterwards, and no other block changed -/
theorem markRuns_blocks (geo : Geom) : ∀ (rs : List Run) (s : Acc), WF geo s → runsOK s rs = true →
    (∀ b', geo.fdb ≤ b' → bitOf geo (rs.foldl markRun s) b' =
        if b' ∈ rs.flatMap (runBlocks geo) then some true else bitOf geo s b') ∧
    (rs.flatMap (runBlocks geo)).Nodup ∧ (∀ b ∈ rs.flatMap (runBlocks geo), bitOf geo s b = some false) ∧
    WF geo (rs.foldl markRun s) := by
  intro rs
  induction rs with
  | nil => intro s hw _; exact ⟨by simp, by simp, by simp, hw⟩
  | cons r rs ih =>
    intro s hw hok
    simp only [runsOK, Bool.and_eq_true] at hok
    obtain ⟨a1, a2, hw1⟩ := markRun_blocks geo s r hw hok.1
    obtain ⟨b1, b2, b3, hw2⟩ := ih (markRun s r) hw1 hok.2
    have hdisj : ∀ x, x ∈ runBlocks geo r → x ∈ rs.flatMap (runBlocks geo) → False := by
      intro x hx1 hx2
      have h1 := a1 x (runBlocks_ge geo r x hx1)
      rw [if_pos hx1] at h1
      have h2 := b3 x hx2
      rw [h1] at h2
      cases h2
    simp only [List.foldl_cons, List.flatMap_cons, List.mem_append]
    refine ⟨?_, ?_, ?_, hw2⟩
    · intro b' h2
      rw [b1 b' h2]
      by_cases hin : b' ∈ rs.flatMap (runBlocks geo)
      · simp [hin]
      · rw [if_neg hin, a1 b' h2]
        by_cases hin1 : b' ∈ runBlocks geo r <;> simp [hin, hin1]
    · rw [List.nodup_append]
      refine ⟨List.nodup_range' (step := 1) (by omega), b2, ?_⟩
      intro x hx1 y hy2 hxy
      subst hxy
      exact hdisj x hx1 hy2
    · intro b hb
      rcases hb with hb | hb
      · exact a2 b hb
      · have h1 := b3 b hb
        rw [a1 b (flatMap_runBlocks_ge geo rs b hb), if_neg (fun h => hdisj b h hb)] at h1
        exact h1

/-! ### ownership: which file owns which marked block -/

theorem getElem?_split {α : Type} (l : List α) (i : Nat) (x : α) (h : l[i]? = some x) :
    ∃ l1 l2, l = l1 ++ x :: l2 ∧ l1.length = i := by
  have hlt := (List.getElem?_eq_some_iff.mp h).1
  refine ⟨l.take i, l.drop (i + 1), ?_, by simp; omega⟩
  have h2 : l.drop i = x :: l.drop (i + 1) := by
    rw [List.drop_eq_getElem_cons hlt]
    congr
    exact (List.getElem?_eq_some_iff.mp h).2
  rw [← h2, List.take_append_drop]


theorem eraseIdx_mid {α : Type} (l1 l2 : List α) (x : α) : (l1 ++ x :: l2).eraseIdx l1.length = l1 ++ l2 := by
  induction l1 with
  | nil => rfl
  | cons a l ih => simp only [List.cons_append, List.length_cons, List.eraseIdx_cons_succ, ih]

theorem clearRun_length : ∀ (b : Bits) (p c : Nat), (clearRun b p c).length = b.length := by
  intro b
  induction b with
  | nil => intro p c; simp [clearRun]
  | cons x xs ih =>
    intro p c
    cases p with
    | zero => cases c with
      | zero => simp [clearRun]
      | succ c => simp [clearRun, ih]
    | succ p => simp [clearRun, ih]

theorem WF_modifyAt (geo : Geom) (s s' : Acc) (i : Nat) (f : Group → Group) (hw : WF geo s)
    (hf : ∀ g, (f g).bbm.length = g.bbm.length) (hs : s'.groups = modifyAt s.groups i f) : WF geo s' := by
  refine ⟨hw.1, ?_⟩
  intro g' hg'
  rw [hs] at hg'
  rcases modifyAt_mem _ _ _ _ hg' with h | ⟨g0, h1, h2⟩
  · exact hw.2 g' h
  · subst h2
    rw [hf]
    exact hw.2 g0 (mem_of_getElem? h1)

theorem WF_freeBlocks (geo : Geom) : ∀ (blocks : List Nat) (s : Acc), WF geo s →
    WF geo (blocks.foldl (freeBlock true geo) s) := by
  intro blocks
  induction blocks with
  | nil => intro s h; exact h
  | cons b bs ih =>
    intro s h
    simp only [List.foldl_cons]
    apply ih
    exact WF_modifyAt geo s _ _ _ h (fun g => by simp [clearRun_length]) rfl

theorem WF_removeInode (geo : Geom) (s : Acc) (ino : Nat) (blocks : List Nat) (b512 : Nat) (isDir : Bool)
    (hw : WF geo s) : WF geo (removeInode true geo s ino blocks b512 isDir) := by
  simp only [removeInode, if_true]
  refine WF_modifyAt geo _ _ _ _ (WF_freeBlocks geo blocks s hw) ?_ rfl
  intro g; rfl

theorem bitOf_groups (geo : Geom) (s s' : Acc) (h : s'.groups = s.groups) (b : Nat) : bitOf geo s' b = bitOf geo s b := by
  simp only [bitOf, h]

theorem length_flatMap_runBlocks (geo : Geom) (rs : List Run) :
    (rs.flatMap (runBlocks geo)).length = (rs.map (·.2.2)).sum := by
  induction rs with
  | nil => rfl
  | cons r rs ih => simp [List.flatMap_cons, runBlocks, ih]

theorem ownedBlocks_split (acc : Acc) (l1 l2 : List FileRec) (f : FileRec) :
    ownedBlocks ⟨acc, l1 ++ f :: l2⟩ = l1.flatMap (·.blocks) ++ (f.blocks ++ l2.flatMap (·.blocks)) := by
  simp [ownedBlocks]

/-- own_inv: every operation of the ownership machine - create, a file growing by the blocks of one allocateExtents
    answer (data blocks of a write or node blocks of its extent tree), Remove - carried out or refused, keeps
    `counters = bitmaps` AND ownership: no block belongs to two files, every owned block is marked, i_blocks counts
    the owned blocks -/
theorem own_inv (geo : Geom) (o : Own) (op : OOp) (h : OwnInv geo o) : OwnInv geo (ostep geo o op) := by
  obtain ⟨hacc, hw, hnd, hm, hib⟩ := h
  cases op with
  | create ino isDir =>
    simp only [ostep]
    have hinv := allocInode_inv o.acc isDir hacc
    unfold allocInode at hinv ⊢
    cases hp : pickInode o.acc.groups 0 with
    | none => exact ⟨hacc, hw, hnd, hm, hib⟩
    | some q =>
      obtain ⟨gi, p⟩ := q
      simp only [hp, Res.state] at hinv ⊢
      refine ⟨hinv, ?_, ?_, ?_, ?_⟩
      · refine WF_modifyAt geo o.acc _ gi _ hw ?_ rfl
        intro g; rfl
      · simpa [ownedBlocks] using hnd
      · intro b hb
        have hb' : b ∈ ownedBlocks o := by simpa [ownedBlocks] using hb
        refine (blockMarked_modifyAt geo o.acc _ gi _ ?_ rfl b).trans (hm b hb')
        intro g; rfl
      · intro f hf
        rcases List.mem_append.mp hf with hf | hf
        · exact hib f hf
        · simp only [List.mem_singleton] at hf
          subst hf; rfl
  | grow i n runs =>
    simp only [ostep]
    cases hfi : o.files[i]? with
    | none => exact ⟨hacc, hw, hnd, hm, hib⟩
    | some f =>
      have hinv := allocExtents_inv o.acc n (some runs) hacc
      unfold allocExtents at hinv ⊢
      by_cases hfree : o.acc.sbFreeBlocks < n
      · simp only [hfree, if_true]
        exact ⟨hacc, hw, hnd, hm, hib⟩
      · simp only [hfree, if_false] at hinv ⊢
        by_cases hok : (runsOK o.acc runs && (runs.map (·.2.2)).sum == n) = true
        · simp only [hok, if_true, Res.state] at hinv ⊢
          simp only [Bool.and_eq_true, beq_iff_eq] at hok
          obtain ⟨m1, m2, m3, m4⟩ := markRuns_blocks geo runs o.acc hw hok.1
          obtain ⟨l1, l2, hl, hlen⟩ := getElem?_split o.files i f hfi
          have hset : o.files.set i { f with blocks := f.blocks ++ runs.flatMap (runBlocks geo), iblocks := f.iblocks + n } =
              l1 ++ { f with blocks := f.blocks ++ runs.flatMap (runBlocks geo), iblocks := f.iblocks + n } :: l2 := by
            rw [hl, ← hlen]; simp
          rw [hset]
          have hold : ownedBlocks o = l1.flatMap (·.blocks) ++ (f.blocks ++ l2.flatMap (·.blocks)) := by
            have := ownedBlocks_split o.acc l1 l2 f
            rw [← hl] at this
            exact this
          have hbit : ∀ b', geo.fdb ≤ b' → bitOf geo { runs.foldl markRun o.acc with
              sbFreeBlocks := (runs.foldl markRun o.acc).sbFreeBlocks - n } b' =
              if b' ∈ runs.flatMap (runBlocks geo) then some true else bitOf geo o.acc b' := by
            intro b' hb'
            exact (bitOf_groups geo (runs.foldl markRun o.acc) _ rfl b').trans (m1 b' hb')
          have hperm : (ownedBlocks ⟨{ runs.foldl markRun o.acc with sbFreeBlocks := (runs.foldl markRun o.acc).sbFreeBlocks - n },
              l1 ++ { f with blocks := f.blocks ++ runs.flatMap (runBlocks geo), iblocks := f.iblocks + n } :: l2⟩).Perm
              (ownedBlocks o ++ runs.flatMap (runBlocks geo)) := by
            rw [ownedBlocks_split, hold]
            simp only [List.append_assoc]
            exact List.Perm.append_left _ (List.Perm.append_left _ List.perm_append_comm)
          have hdis : ∀ x, x ∈ ownedBlocks o → x ∈ runs.flatMap (runBlocks geo) → False := by
            intro x hx1 hx2
            have h1 := hm x hx1
            rw [blockMarked_eq] at h1
            simp only [Bool.and_eq_true, beq_iff_eq] at h1
            have h2 := m3 x hx2
            rw [h1.2] at h2
            cases h2
          refine ⟨hinv, ⟨hw.1, m4.2⟩, ?_, ?_, ?_⟩
          · rw [hperm.nodup_iff, List.nodup_append]
            exact ⟨hnd, m2, fun x hx1 y hy2 hxy => hdis x hx1 (hxy ▸ hy2)⟩
          · intro b hb
            rcases List.mem_append.mp (hperm.mem_iff.mp hb) with hb1 | hb2
            · have h1 := hm b hb1
              rw [blockMarked_eq] at h1 ⊢
              simp only [Bool.and_eq_true, decide_eq_true_eq, beq_iff_eq] at h1 ⊢
              refine ⟨h1.1, ?_⟩
              rw [hbit b h1.1]
              split
              · rfl
              · exact h1.2
            · have hge := flatMap_runBlocks_ge geo runs b hb2
              rw [blockMarked_eq]
              simp only [Bool.and_eq_true, decide_eq_true_eq, beq_iff_eq]
              refine ⟨hge, ?_⟩
              rw [hbit b hge, if_pos hb2]
          · intro f' hf'
            rcases List.mem_append.mp hf' with hf1 | hf2
            · exact hib f' (by rw [hl]; simp [hf1])
            · rcases List.mem_cons.mp hf2 with rfl | hf3
              · simp only [List.length_append, length_flatMap_runBlocks, hok.2]
                rw [hib f (by rw [hl]; simp)]
              · exact hib f' (by rw [hl]; simp [hf3])
        · simp only [hok, Bool.false_eq_true, if_false]
          exact ⟨hacc, hw, hnd, hm, hib⟩
  | remove i isDir =>
    simp only [ostep]
    cases hfi : o.files[i]? with
    | none => exact ⟨hacc, hw, hnd, hm, hib⟩
    | some f =>
      simp only
      obtain ⟨l1, l2, hl, hlen⟩ := getElem?_split o.files i f hfi
      have hold : ownedBlocks o = l1.flatMap (·.blocks) ++ (f.blocks ++ l2.flatMap (·.blocks)) := by
        have := ownedBlocks_split o.acc l1 l2 f
        rw [← hl] at this
        exact this
      cases hr : removeOp geo o.acc f.ino f.blocks isDir with
      | refused _ => exact ⟨hacc, hw, hnd, hm, hib⟩
      | ok acc' =>
        have hguard : inodeMarked geo o.acc f.ino = true := by
          unfold removeOp at hr
          split at hr
          · rename_i hg
            simp only [Bool.and_eq_true] at hg
            exact hg.2
          · cases hr
        rw [hold] at hnd hm
        have hfnd : f.blocks.Nodup := (List.nodup_append.mp (List.nodup_append.mp hnd).2.1).1
        have hfm : ∀ b ∈ f.blocks, blockMarked geo o.acc b = true := fun b hb => hm b (by simp [hb])
        obtain ⟨r1, r2, _, _, r5⟩ := removeOp_owned geo o.acc f.ino f.blocks isDir hacc hfnd hfm hguard
        rw [r1] at hr
        cases hr
        have herase : o.files.eraseIdx i = l1 ++ l2 := by
          rw [hl, ← hlen]; exact eraseIdx_mid l1 l2 f
        rw [herase]
        have hsub : ∀ b, b ∈ ownedBlocks ⟨removeInode true geo o.acc f.ino f.blocks 0 isDir, l1 ++ l2⟩ →
            (b ∈ l1.flatMap (·.blocks) ∨ b ∈ l2.flatMap (·.blocks)) := by
          intro b hb
          simpa [ownedBlocks] using hb
        refine ⟨r2, WF_removeInode geo o.acc f.ino f.blocks 0 isDir hw, ?_, ?_, ?_⟩
        · have : ownedBlocks ⟨removeInode true geo o.acc f.ino f.blocks 0 isDir, l1 ++ l2⟩ =
              l1.flatMap (·.blocks) ++ l2.flatMap (·.blocks) := by simp [ownedBlocks]
          rw [this, List.nodup_append]
          obtain ⟨n1, n2, n3⟩ := List.nodup_append.mp hnd
          obtain ⟨_, n4, _⟩ := List.nodup_append.mp n2
          exact ⟨n1, n4, fun x hx1 y hy2 hxy => n3 x hx1 y (by simp [hy2]) hxy⟩
        · intro b hb
          have hnotf : b ∉ f.blocks := by
            intro hbf
            obtain ⟨n1, n2, n3⟩ := List.nodup_append.mp hnd
            obtain ⟨_, _, n5⟩ := List.nodup_append.mp n2
            rcases hsub b hb with h1 | h2
            · exact n3 b h1 b (by simp [hbf]) rfl
            · exact n5 b hbf b h2 rfl
          rw [r5 b hnotf]
          rcases hsub b hb with h1 | h2
          · exact hm b (by simp [h1])
          · exact hm b (by simp [h2])
        · intro f' hf'
          rcases List.mem_append.mp hf' with hf1 | hf2
          · exact hib f' (by rw [hl]; simp [hf1])
          · exact hib f' (by rw [hl]; simp [hf2])

theorem own_inv_history (geo : Geom) (ops : List OOp) (o : Own) (h : OwnInv geo o) :
    OwnInv geo (ops.foldl (ostep geo) o) := by
  induction ops generalizing o with
  | nil => exact h
  | cons op ops ih => exact ih _ (own_inv geo o op h)

/-- with ownership, Remove's guard on the blocks always passes: the machine refuses a Remove only when the inode
    itself is not marked -/
theorem remove_accepted (geo : Geom) (o : Own) (i : Nat) (f : FileRec) (isDir : Bool) (h : OwnInv geo o)
    (hf : o.files[i]? = some f) (hi : inodeMarked geo o.acc f.ino = true) :
    removeOp geo o.acc f.ino f.blocks isDir = .ok (removeInode true geo o.acc f.ino f.blocks 0 isDir) ∧
    (removeInode true geo o.acc f.ino f.blocks 0 isDir).sbFreeBlocks = o.acc.sbFreeBlocks + f.iblocks := by
  obtain ⟨hacc, _, hnd, hm, hib⟩ := h
  obtain ⟨l1, l2, hl, _⟩ := getElem?_split o.files i f hf
  have hold : ownedBlocks o = l1.flatMap (·.blocks) ++ (f.blocks ++ l2.flatMap (·.blocks)) := by
    have := ownedBlocks_split o.acc l1 l2 f
    rw [← hl] at this
    exact this
  rw [hold] at hnd hm
  have hfnd : f.blocks.Nodup := (List.nodup_append.mp (List.nodup_append.mp hnd).2.1).1
  have hfm : ∀ b ∈ f.blocks, blockMarked geo o.acc b = true := fun b hb => hm b (by simp [hb])
  obtain ⟨r1, _, r3, _, _⟩ := removeOp_owned geo o.acc f.ino f.blocks isDir hacc hfnd hfm hi
  exact ⟨r1, by rw [r3, hib f (by rw [hl]; simp)]⟩


end Diskfs.Ext4.Alloc
