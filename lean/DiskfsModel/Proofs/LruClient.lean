/-
  Adaptive clients of the cache (Model/LruFile.lean) on the N-thread machine.

  The machine's threads run static programs.  A client decides its next call from what the
  earlier ones returned; its static program is `Client.ops disk` = the calls it makes when it runs
  alone.  `feed_ops` shows that this is no restriction: whenever a thread's returned calls are a
  prefix of `c.ops disk` and every return value is right (`retOk`, the machine's `data_correct`),
  following the client along the values it ACTUALLY received leads to a client whose own calls are
  exactly the rest of the static program, and whose final answer is the lone reader's answer.
-/
import DiskfsModel.Proofs.LruLive
import DiskfsModel.Model.LruFile
namespace Diskfs.Lru

theorem Client.ops_nil_iff {ρ} (disk : Pos → Data) (c : Client ρ) : c.ops disk = [] ↔ ∃ r, c = .done r := by
  cases c with
  | done r => simp [Client.ops]
  | get pos k => simp [Client.ops]
  | setMax n k => simp [Client.ops]

theorem Client.feed_ops {ρ} (disk : Pos → Data) :
    ∀ (rets : List (Op × Ret)) (c : Client ρ) (rest : List Op),
      rets.map Prod.fst ++ rest = c.ops disk → (∀ x ∈ rets, retOk disk x.1 x.2) →
      ∃ c', c.feed rets = some c' ∧ c'.ops disk = rest ∧ c'.result disk = c.result disk
  | [], c, rest, h, _ => ⟨c, by cases c <;> rfl, by simpa using h.symm, rfl⟩
  | (op, r) :: rets, c, rest, h, hok => by
    have hr := hok (op, r) (List.mem_cons_self ..)
    have hok' : ∀ x ∈ rets, retOk disk x.1 x.2 := fun x hx => hok x (List.mem_cons_of_mem _ hx)
    cases c with
    | done r0 => simp [Client.ops] at h
    | get pos k =>
      simp only [List.map_cons, List.cons_append, Client.ops, List.cons.injEq] at h
      obtain ⟨hop, htl⟩ := h
      subst hop
      have hv : r.value = some (disk pos) := by
        rcases hr with hr | ⟨hf, _⟩
        · exact hr
        · cases hf
      obtain ⟨c', hf, ho, hres⟩ := Client.feed_ops disk rets (k (some (disk pos))) rest htl hok'
      exact ⟨c', by simp [Client.feed, hv, hf], ho, by simp [Client.result, hres]⟩
    | setMax n k =>
      simp only [List.map_cons, List.cons_append, Client.ops, List.cons.injEq] at h
      obtain ⟨hop, htl⟩ := h
      subst hop
      obtain ⟨c', hf, ho, hres⟩ := Client.feed_ops disk rets k rest htl hok'
      exact ⟨c', by simp [Client.feed, hf], ho, by simp [Client.result, hres]⟩

/-- programs of clients never contain a failing fetch -/
theorem Client.ops_fetchOk {ρ} (disk : Pos → Data) : ∀ (c : Client ρ), ∀ op ∈ c.ops disk, ∀ pos, op ≠ .get pos false
  | .done _, op, h, _ => by simp [Client.ops] at h
  | .get p k, op, h, pos => by
    simp only [Client.ops, List.mem_cons] at h
    rcases h with rfl | h
    · intro e; cases e
    · exact Client.ops_fetchOk disk (k (some (disk p))) op h pos
  | .setMax n k, op, h, pos => by
    simp only [Client.ops, List.mem_cons] at h
    rcases h with rfl | h
    · intro e; cases e
    · exact Client.ops_fetchOk disk k op h pos

/-- In a state satisfying the invariant whose threads' whole programs are the clients' lone-reader
    programs: every thread's client, fed with what its calls really returned so far, is a client whose
    calls are exactly the call in progress and the calls still to come — the static program IS the
    adaptive behaviour — and whose final answer is the lone reader's. -/
theorem clients_follow {ρ} {disk : Pos → Data} {s : Sys} (h : Inv disk s) (cs : List (Client ρ))
    (hall : s.threads.map Thread.all = cs.map (Client.ops disk)) (t : Tid) (th : Thread) (c : Client ρ)
    (ht : s.threads[t]? = some th) (hc : cs[t]? = some c) :
    ∃ c', c.feed th.rets = some c' ∧ c'.ops disk = (curOp th.pc).toList ++ th.prog ∧
      c'.result disk = c.result disk := by
  have h1 : (s.threads.map Thread.all)[t]? = some th.all := by rw [List.getElem?_map, ht]; rfl
  have h2 : (cs.map (Client.ops disk))[t]? = some (c.ops disk) := by rw [List.getElem?_map, hc]; rfl
  rw [hall, h2] at h1
  have hall' : th.rets.map Prod.fst ++ ((curOp th.pc).toList ++ th.prog) = c.ops disk := by
    have := Option.some.inj h1
    rw [this, Thread.all, List.append_assoc]
  exact Client.feed_ops disk th.rets c _ hall' (h.tok t th ht).2

/-! ### fair schedules finish -/

/-- a round is a stretch of the schedule in which every thread gets at least one turn -/
def FairRound (n : Nat) (round : List Tid) : Prop := ∀ t, t < n → t ∈ round

theorem run_append (disk : Pos → Data) (slack : Nat) (s : Sys) (a b : List Tid) :
    run disk slack s (a ++ b) = run disk slack (run disk slack s a) b := by
  simp [run, List.foldl_append]

theorem run_threads_length {disk : Pos → Data} {slack : Nat} (hs : 1 ≤ slack) :
    ∀ (sched : List Tid) (s : Sys), Inv disk s → (run disk slack s sched).threads.length = s.threads.length := by
  intro sched s h
  have := congrArg List.length (run_all hs sched s h)
  simpa using this

/-- a schedule on which nothing moves leaves the state alone -/
theorem run_no_moves {disk : Pos → Data} {slack : Nat} :
    ∀ (sched : List Tid) (s : Sys), moves disk slack s sched = 0 → run disk slack s sched = s ∧
      ∀ t ∈ sched, step disk slack s t = none
  | [], s, _ => ⟨rfl, fun _ h => by cases h⟩
  | t :: sched, s, hm => by
    simp only [moves] at hm
    cases hst : step disk slack s t with
    | some s' => rw [hst] at hm; simp at hm
    | none =>
      rw [hst] at hm
      obtain ⟨h1, h2⟩ := run_no_moves sched s hm
      refine ⟨by simp only [run, List.foldl_cons, hst, Option.getD_none]; exact h1, ?_⟩
      intro u hu
      rcases List.mem_cons.1 hu with rfl | hu
      · exact hst
      · exact h2 u hu

/-- in a fair round somebody moves, unless everybody has finished -/
theorem round_moves {disk : Pos → Data} {slack : Nat} {s : Sys} (h : Inv disk s) (round : List Tid)
    (hf : FairRound s.threads.length round) (hnd : allDone s = false) : 0 < moves disk slack s round := by
  rcases Nat.eq_zero_or_pos (moves disk slack s round) with h0 | hp
  · obtain ⟨_, hnone⟩ := run_no_moves round s h0
    obtain ⟨t, ht⟩ := no_deadlock_inv (slack := slack) h hnd
    have hlt : t < s.threads.length := by
      obtain ⟨s', hs'⟩ := Option.isSome_iff_exists.1 ht
      obtain ⟨th, _, hth, _⟩ := step_thread h hs'
      rcases List.getElem?_eq_some_iff.1 hth with ⟨hi, _⟩; exact hi
    rw [hnone t (hf t hlt)] at ht
    cases ht
  · exact hp

theorem allDone_stays {disk : Pos → Data} {slack : Nat} {s : Sys} (h : Inv disk s) (hd : allDone s = true) :
    ∀ sched : List Tid, run disk slack s sched = s
  | [] => rfl
  | t :: sched => by
    have hst : step disk slack s t = none := by
      cases hst : step disk slack s t with
      | none => rfl
      | some s' =>
        obtain ⟨th, th1, hth, _, hlt, _⟩ := step_thread h hst
        have hm : th ∈ s.threads := List.mem_of_getElem? hth
        have hdone := List.all_eq_true.1 hd th hm
        simp only [Thread.done, Bool.and_eq_true, beq_iff_eq, List.isEmpty_iff] at hdone
        -- a finished thread cannot move: idle with an empty program
        unfold step at hst
        rw [if_neg (by rw [h.nopanic]; exact Bool.false_ne_true)] at hst
        obtain ⟨prog, pc, rets⟩ := th
        simp only at hdone
        obtain ⟨rfl, rfl⟩ := hdone
        simp [hth] at hst
    simp only [run, List.foldl_cons, hst, Option.getD_none]
    exact allDone_stays h hd sched

/-- after `k` fair rounds the measure has dropped by at least `k`, or everybody has finished -/
theorem fair_rounds {disk : Pos → Data} {slack : Nat} (hs : 1 ≤ slack) :
    ∀ (rounds : List (List Tid)) (s : Sys), Inv disk s → (∀ r ∈ rounds, FairRound s.threads.length r) →
      allDone (run disk slack s rounds.flatten) = true ∨
        measure (run disk slack s rounds.flatten) + rounds.length ≤ measure s
  | [], s, _, _ => Or.inr (by simp [run])
  | r :: rounds, s, h, hf => by
    simp only [List.flatten_cons, run_append]
    have hi1 := run_inv hs r s h
    have hlen := run_threads_length hs r s h
    have hf' : ∀ r' ∈ rounds, FairRound (run disk slack s r).threads.length r' := by
      intro r' hr'; rw [hlen]; exact hf r' (List.mem_cons_of_mem _ hr')
    cases hd : allDone s with
    | true =>
      left
      rw [← run_append, allDone_stays h hd]
      exact hd
    | false =>
      have hmv := round_moves (slack := slack) h r (hf r (List.mem_cons_self ..)) hd
      have hb := moves_bounded hs r s h
      rcases fair_rounds hs rounds (run disk slack s r) hi1 hf' with hdone | hle
      · exact Or.inl hdone
      · right
        simp only [List.length_cons]
        omega

theorem sum_zero_mem : ∀ (l : List Nat), l.sum = 0 → ∀ x ∈ l, x = 0
  | [], _, x, h => by cases h
  | a :: l, hs, x, h => by
    simp only [List.sum_cons] at hs
    rcases List.mem_cons.1 h with rfl | h
    · omega
    · exact sum_zero_mem l (by omega) x h

theorem allDone_of_measure_zero {s : Sys} (h : measure s = 0) : allDone s = true := by
  simp only [allDone, List.all_eq_true]
  intro th hth
  have h0 : th.measure = 0 := sum_zero_mem _ h _ (List.mem_map_of_mem hth)
  obtain ⟨prog, pc, rets⟩ := th
  simp only [Thread.measure] at h0
  have hp : prog = [] := List.eq_nil_of_length_eq_zero (by omega)
  have hr : pcRank pc = 0 := by omega
  cases pc <;> simp [pcRank] at hr
  simp [Thread.done, hp]

/-- enough fair rounds finish everybody: `measure s` rounds suffice -/
theorem fair_completion {disk : Pos → Data} {slack : Nat} (hs : 1 ≤ slack) (rounds : List (List Tid)) (s : Sys)
    (h : Inv disk s) (hf : ∀ r ∈ rounds, FairRound s.threads.length r) (hk : measure s ≤ rounds.length) :
    allDone (run disk slack s rounds.flatten) = true := by
  rcases fair_rounds hs rounds s h hf with hd | hle
  · exact hd
  · exact allDone_of_measure_zero (by omega)

/-! ### which reads go through the cache -/

/-- one `File.Read` makes no cache call at all, or exactly one — a get of the file's fragment block —
    before it continues -/
theorem readC_ops {ρ} (disk : Pos → Data) (im : Image) (f : FileD) (h : HSt) (n : Nat) (k : HRes → HSt → Client ρ) :
    (∃ r h', (readC im f h n k).ops disk = (k r h').ops disk) ∨
      ∃ pos foff r h', f.frag = some (pos, foff) ∧ (readC im f h n k).ops disk = .get pos true :: (k r h').ops disk := by
  unfold readC
  by_cases hsz : f.size ≤ h.off
  · simp only [hsz, if_true]; exact Or.inl ⟨_, _, rfl⟩
  · simp only [hsz, if_false]
    by_cases hp : (readPre im f h n).2 = true
    · simp only [hp, if_true]
      cases hf : f.frag with
      | none => exact Or.inl ⟨_, _, rfl⟩
      | some pf =>
        obtain ⟨pos, foff⟩ := pf
        exact Or.inr ⟨pos, foff, (readFrag im f n h foff (readPre im f h n).1 (some (disk pos))).1,
          (readFrag im f n h foff (readPre im f h n).1 (some (disk pos))).2, rfl, by simp only [Client.ops]⟩
    · simp only [hp]; exact Or.inl ⟨_, _, rfl⟩

/-- which reads go through the LRU: every cache call of a handle — whatever its program — is a get of
    ITS file's fragment block or a `setMaxBlocks` from `SetCacheSize`; data blocks never pass through
    the cache -/
theorem handleC_ops (disk : Pos → Data) (im : Image) (f : FileD) :
    ∀ (ops : List HOp) (h : HSt) (acc : List HRes), ∀ op ∈ (handleC im f h ops acc).ops disk,
      (∃ pos foff, f.frag = some (pos, foff) ∧ op = .get pos true) ∨ ∃ c, op = .setMax (cacheBlocks f.bs c)
  | [], h, acc, op, hop => by simp [handleC, Client.ops] at hop
  | .read n :: ops, h, acc, op, hop => by
    simp only [handleC] at hop
    rcases readC_ops disk im f h n (fun r h' => handleC im f h' ops (r :: acc)) with ⟨r, h', he⟩ | ⟨pos, foff, r, h', hf, he⟩
    · rw [he] at hop; exact handleC_ops disk im f ops h' (r :: acc) op hop
    · rw [he] at hop
      rcases List.mem_cons.1 hop with rfl | hop
      · exact Or.inl ⟨pos, foff, hf, rfl⟩
      · exact handleC_ops disk im f ops h' (r :: acc) op hop
  | .seek w o :: ops, h, acc, op, hop => by
    simp only [handleC] at hop
    exact handleC_ops disk im f ops _ _ op hop
  | .setCache c :: ops, h, acc, op, hop => by
    simp only [handleC, Client.ops] at hop
    rcases List.mem_cons.1 hop with rfl | hop
    · exact Or.inr ⟨c, rfl⟩
    · exact handleC_ops disk im f ops _ _ op hop

end Diskfs.Lru
