/-
  Helper lemmas for C11 (Props/C11.lean).
-/
import DiskfsModel.Model.ReadOnly
namespace Diskfs.ReadOnly

theorem writable_ro (s : Storage) (h : s.ro = true) : s.writable = none := by
  simp [Storage.writable, h]

/-- without a writer nothing is emitted, whatever the payload -/
theorem needWriter_ro (s : Storage) (h : s.ro = true) (p : List Wr) : needWriter s p = ⟨.err, []⟩ := by
  simp [needWriter, writable_ro s h]

theorem step_ro_writes (c : Cfg) (s : Storage) (h : s.ro = true) (k : FsKind) (fin : Bool) (ss : Nat) (op : Op)
    (p : List Wr) : (step c s k fin ss op p).writes = [] := by
  unfold step
  have hw := writable_ro s h
  repeat' split
  all_goals simp_all [needWriter]

theorem applyWrs_nil (d : Dev) : applyWrs d [] = d := rfl

end Diskfs.ReadOnly
