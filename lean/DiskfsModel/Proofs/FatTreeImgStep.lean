/-
  The hypotheses of `reopen_image` along histories: every call whose names are carried
  faithfully by the entry codec and whose writes stay below 4 GiB keeps `kidsImgOk`
  (every name of the tree is `NameOk`, every size fits the 32-bit field).
  Same shape as Proofs/FatTreeFit.lean: the leaves of each call, then the path walk.
  Core Lean only.
-/
import DiskfsModel.Proofs.FatTreeImg
namespace Diskfs.Fat

section imgstep
variable {eqn : Spec.Name → Spec.Name → Bool} {X : ImgParams} {g : TGeom} {fuel : Nat}

theorem kfind_mem {ks : List TNode} {n : Spec.Name} {t : TNode} (h : kfind eqn ks n = some t) : t ∈ ks := by
  unfold kfind at h
  exact List.mem_of_find?_eq_some h

theorem imgOk_rename {t : TNode} {n : Spec.Name} (h : t.ImgOk X g) (hn : NameOk X g n) : (t.rename n).ImgOk X g := by
  cases t with
  | file n' c sz => rw [imgOk_file] at h; simp only [TNode.rename]; rw [imgOk_file]; exact ⟨hn, h.2⟩
  | dir n' c ks => rw [imgOk_dir] at h; simp only [TNode.rename]; rw [imgOk_dir]; exact ⟨hn, h.2⟩

theorem kidsImgOk_append {ks : List TNode} {x : TNode} (h : kidsImgOk X g ks) (hx : x.ImgOk X g) :
    kidsImgOk X g (ks ++ [x]) := by
  rw [kidsImgOk_iff] at h ⊢
  intro t ht
  rcases List.mem_append.1 ht with ht | ht
  · exact h t ht
  · rw [List.mem_singleton] at ht; subst ht; exact hx

theorem kidsImgOk_kset {ks : List TNode} {n : Spec.Name} {x : TNode}
    (h : kidsImgOk X g ks) (hx : x.ImgOk X g) : kidsImgOk X g (kset eqn ks n x) := by
  rw [kidsImgOk_iff] at h ⊢
  intro t ht
  unfold kset at ht
  obtain ⟨u, hu, rfl⟩ := List.mem_map.1 ht
  split
  · exact hx
  · exact h u hu

theorem kidsImgOk_kerase {ks : List TNode} {n : Spec.Name} (h : kidsImgOk X g ks) :
    kidsImgOk X g (kerase eqn ks n) := by
  rw [kidsImgOk_iff] at h ⊢
  intro t ht
  exact h t (List.mem_filter.1 ht).1

theorem kidsImgOk_krename {ks : List TNode} {o n : Spec.Name} (h : kidsImgOk X g ks) (hn : NameOk X g n) :
    kidsImgOk X g (krename eqn ks o n) := by
  rw [kidsImgOk_iff] at h ⊢
  intro t ht
  unfold krename at ht
  obtain ⟨u, hu, rfl⟩ := List.mem_map.1 ht
  split
  · exact imgOk_rename (h u hu) hn
  · exact h u hu

/-- the file found under a name keeps its (faithful) name; its new size is below 4 GiB -/
theorem imgOk_found_file {ks : List TNode} {n fn : Spec.Name} {fc c' : List Nat} {size sz' : Nat}
    (h : kidsImgOk X g ks) (hf : kfind eqn ks n = some (.file fn fc size))
    (hsz : size < 4294967296 → sz' < 4294967296) : (TNode.file fn c' sz').ImgOk X g := by
  have := (kidsImgOk_iff X g ks).1 h _ (kfind_mem hf)
  rw [imgOk_file] at this ⊢
  exact ⟨this.1, hsz this.2⟩

def ImgStepOk (X : ImgParams) (g : TGeom) (f : Nat → DirSt → DirSt × TRes) : Prop :=
  ∀ (base : Nat) (s : DirSt), kidsImgOk X g s.kids → kidsImgOk X g (f base s).1.kids

theorem dstep_imgok (op : TOp) (hop : OpOk X g op) : ImgStepOk X g (dstep eqn g fuel op) := by
  intro base s hkids
  cases op with
  | mkdir d n img img2 =>
    have hn : NameOk X g n := hop
    simp only [dstep]
    generalize hr : dMkdir eqn g fuel n img img2 base s = r
    unfold dMkdir at hr
    dsimp only at hr
    (repeat' split at hr) <;> subst hr <;> first
      | exact hkids
      | exact kidsImgOk_append hkids (by rw [imgOk_dir]; exact ⟨hn, kidsImgOk_nil X g⟩)
  | create d n img =>
    have hn : NameOk X g n := hop
    simp only [dstep]
    generalize hr : dCreate eqn g fuel n img base s = r
    unfold dCreate at hr
    dsimp only at hr
    (repeat' split at hr) <;> subst hr <;> first
      | exact hkids
      | exact kidsImgOk_append hkids (by rw [imgOk_file]; exact ⟨hn, by decide⟩)
  | writeAt d n off data img =>
    have hn : off + data.length < 4294967296 := hop
    simp only [dstep]
    generalize hr : dWrite eqn g fuel n off data img base s = r
    unfold dWrite at hr
    dsimp only at hr
    (repeat' split at hr) <;> subst hr <;> first
      | exact hkids
      | exact kidsImgOk_kset hkids (imgOk_found_file hkids (by assumption) (fun hs => Nat.max_lt.2 ⟨hs, hn⟩))
  | truncate d n img =>
    simp only [dstep]
    generalize hr : dTrunc eqn g fuel n img base s = r
    unfold dTrunc at hr
    dsimp only at hr
    (repeat' split at hr) <;> subst hr <;> first
      | exact hkids
      | exact kidsImgOk_kset hkids (imgOk_found_file hkids (by assumption) (fun _ => by decide))
  | remove d n img =>
    simp only [dstep]
    generalize hr : dRemove eqn g fuel n img base s = r
    unfold dRemove at hr
    dsimp only at hr
    (repeat' split at hr) <;> subst hr <;> first
      | exact hkids
      | exact kidsImgOk_kerase hkids
  | rename d o n img =>
    have hn : NameOk X g n := hop
    simp only [dstep]
    generalize hr : dRename eqn g fuel o n img base s = r
    unfold dRename at hr
    dsimp only at hr
    (repeat' split at hr) <;> subst hr <;> first
      | exact hkids
      | exact kidsImgOk_krename hkids hn
      | exact kidsImgOk_krename (kidsImgOk_kerase hkids) hn

/-- the path walk -/
theorem atDirT_imgok {f : Nat → DirSt → DirSt × TRes} (hf : ImgStepOk X g f) (path : List Spec.Name) :
    ImgStepOk X g (fun base s => atDirT eqn f path base s) := by
  induction path with
  | nil => intro base s h; simp only [atDirT]; exact hf base s h
  | cons n path ih =>
    intro base s h
    simp only [atDirT]
    split
    · rename_i nm c ks hfd
      have hchild := (kidsImgOk_iff X g s.kids).1 h _ (kfind_mem hfd)
      rw [imgOk_dir] at hchild
      have IH := ih 2 ⟨s.m, s.d, c, ks⟩ hchild.2
      simp only at IH
      generalize atDirT eqn f path 2 ⟨s.m, s.d, c, ks⟩ = r at IH ⊢
      by_cases hok : r.2 = .ok
      · simp only [hok, if_true]
        exact kidsImgOk_kset h (by rw [imgOk_dir]; exact ⟨hchild.1, IH⟩)
      · simp only [hok, if_false]
        exact h
    · exact h
    · exact h

theorem tstep_imgok (s : DirSt) (op : TOp) (hop : OpOk X g op) (h : kidsImgOk X g s.kids) :
    kidsImgOk X g (tstep eqn g fuel s op).1.kids :=
  atDirT_imgok (dstep_imgok (eqn := eqn) (fuel := fuel) op hop) op.dir g.rootBase s h

theorem trun_imgok (ops : List TOp) (s : DirSt) (hops : ∀ op ∈ ops, OpOk X g op) (h : kidsImgOk X g s.kids) :
    kidsImgOk X g (trun eqn g fuel s ops).kids := by
  induction ops generalizing s with
  | nil => exact h
  | cons op rest ih =>
    simp only [trun, List.foldl_cons]
    exact ih _ (fun o ho => hops o (List.mem_cons_of_mem _ ho)) (tstep_imgok s op (hops op List.mem_cons_self) h)

end imgstep

/-! ### non-vacuity: the volume `exTree2` (Proofs/FatTreeFit.lean) with a volume label, names spelled
    with a one-slot long name, all date/time words zero -/

def exX : ImgParams :=
  { enc := fun n => ⟨n, [], n, 0⟩, stamp := fun _ => ⟨0, 0, 0, 0, 0, 0⟩, dotMeta := ⟨0, 0, 0, 0, 0, 0⟩,
    rootPre := [{ short := [76], ext := [], long := [], attr := 8, lcase := 0, cTime := 0, cDate := 0, aDate := 0,
                  mTime := 0, mDate := 0, cluster := 0, size := 0 }],
    rootPar := 0 }

theorem exX_ok : ImgParamsOk exX exTGeom2 :=
  ⟨by decide, by decide, by decide, by decide, by decide, by decide⟩

theorem exTree2_imgok : kidsImgOk exX exTGeom2 exTree2.kids := by
  show kidsImgOk exX exTGeom2 [.dir [66] [3, 4] [.file [65] [2] 3]]
  rw [kidsImgOk_cons, imgOk_dir, kidsImgOk_cons, imgOk_file]
  exact ⟨⟨by decide, ⟨by decide, by decide⟩, kidsImgOk_nil _ _⟩, kidsImgOk_nil _ _⟩

theorem exTree2_depth : kidsDepth exTree2.kids ≤ 2 := by
  show kidsDepth [.dir [66] [3, 4] [.file [65] [2] 3]] ≤ 2
  rw [kidsDepth_cons, depth_dir, kidsDepth_cons, TNode.depth, kidsDepth_nil]
  decide

end Diskfs.Fat
