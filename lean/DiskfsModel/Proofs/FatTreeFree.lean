/-
  Layer E for a tree of directories, fourth part: free-space accounting.
    inv_free_count   under the cluster-map invariant the free clusters are exactly the data
                     area minus the clusters the owners hold
    tree_free_count  … for the tree model after every history: no cluster is ever leaked, so
                     space given back by Remove / truncation / directory shrinking is there to be
                     used again, without limit
  Core Lean only.
-/
import DiskfsModel.Proofs.FatTreeStep
namespace Diskfs.Fat

theorem inv_free_count {k lim m} {O : List (List Nat)} (h : Inv k lim m O) :
    freeCount lim m + O.flatten.length = lim - 2 := by
  unfold freeCount
  have hsum := List.length_eq_countP_add_countP (fun i => decide (m i = 0)) (l := List.range' 2 (lim - 2))
  rw [List.length_range', List.countP_eq_length_filter, List.countP_eq_length_filter] at hsum
  have hperm : List.Perm ((List.range' 2 (lim - 2)).filter (fun i => !decide (m i = 0))) O.flatten := by
    rw [List.perm_ext_iff_of_nodup ((List.nodup_range' (step := 1)).sublist List.filter_sublist) h.nodup]
    intro c
    rw [List.mem_filter]
    constructor
    · rintro ⟨hr, hm⟩
      have hr' := mem_range2.1 hr
      exact (h.used_iff c hr'.1 hr'.2).1 (by simpa using hm)
    · intro hc
      obtain ⟨o, ho, hco⟩ := List.mem_flatten.1 hc
      have hr := chainOk_mem (h.chains o ho) c hco
      exact ⟨mem_range2.2 hr, by simpa using (h.used_iff c hr.1 hr.2).2 hc⟩
  have hnot : (fun a => decide ¬decide (m a = 0) = true) = (fun i => !decide (m i = 0)) := by
    funext a; simp
  rw [hnot] at hsum
  rw [← hperm.length_eq]
  omega

section
variable {eqn : Spec.Name → Spec.Name → Bool} {g : TGeom} {fuel : Nat}

/-- the clusters the tree owns: the root directory's chain and every file's and directory's -/
def ownedClusters (s : DirSt) : List Nat := (chainOwner s.chain ++ kidsOwners s.kids).flatten

theorem tinv_free_count {s : DirSt} (h : TInv eqn g s) :
    freeCount g.f.lim s.m + (ownedClusters s).length = g.f.lim - 2 :=
  inv_free_count h.table

/-- after every history the free clusters are exactly those the tree does not own -/
theorem trun_free_count (he : EqnOk eqn) (hg : TGeomOk g) (hfuel : g.f.lim - 2 ≤ fuel) (ops : List TOp)
    (s : DirSt) (h : TInv eqn g s) :
    freeCount g.f.lim (trun eqn g fuel s ops).m + (ownedClusters (trun eqn g fuel s ops)).length
      = g.f.lim - 2 :=
  tinv_free_count (trun_inv he hg hfuel ops s h)

end

/-- on the example volume: 8 data clusters, 3 owned, 5 free -/
example : freeCount exTGeom.f.lim exTree.m = 5 ∧ (ownedClusters exTree).length = 3 := by decide

end Diskfs.Fat
