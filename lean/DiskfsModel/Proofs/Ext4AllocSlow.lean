/-
  Lemmas about allocateExtents' block-allocation policy (Model/Ext4/AllocSlow.lean): whatever order the sort
  leaves the pieces in, the extents handed out are free, pairwise disjoint, inside their groups and exactly as
  many as asked for; the slow path gives up only when too few blocks are free (or more than 65535 are asked for).
-/
import DiskfsModel.Model.Ext4.AllocSlow
import DiskfsModel.Proofs.Ext4Alloc
namespace Diskfs.Ext4.Alloc

/-! ### pointwise views of allAre / setRun -/

theorem allAre_of_pointwise (v : Bool) : ∀ (b : Bits) (p c : Nat),
    (∀ i, p ≤ i → i < p + c → b[i]? = some v) → allAre v b p c = true := by
  intro b
  induction b with
  | nil =>
    intro p c h
    cases c with
    | zero => simp [allAre]
    | succ c => have := h p (Nat.le_refl _) (by omega); simp at this
  | cons x xs ih =>
    intro p c h
    cases c with
    | zero => simp [allAre]
    | succ c =>
      cases p with
      | zero =>
        have h0 := h 0 (Nat.le_refl _) (by omega)
        simp only [List.getElem?_cons_zero, Option.some.injEq] at h0
        simp only [allAre, h0, beq_self_eq_true, Bool.true_and]
        exact ih 0 c (fun i hi1 hi2 => by
          have := h (i + 1) (by omega) (by omega)
          simpa using this)
      | succ p =>
        simp only [allAre]
        exact ih p (c + 1) (fun i hi1 hi2 => by
          have := h (i + 1) (by omega) (by omega)
          simpa using this)

theorem setRun_getElem? : ∀ (b : Bits) (p c i : Nat),
    (setRun b p c)[i]? = if p ≤ i ∧ i < p + c then (b[i]?).map (fun _ => true) else b[i]? := by
  intro b
  induction b with
  | nil => intro p c i; simp [setRun]
  | cons x xs ih =>
    intro p c i
    cases p with
    | zero =>
      cases c with
      | zero => simp [setRun]
      | succ c =>
        cases i with
        | zero => simp [setRun]
        | succ i =>
          simp only [setRun, List.getElem?_cons_succ, ih 0 c i]
          have : (0 ≤ i ∧ i < 0 + c) ↔ (0 ≤ i + 1 ∧ i + 1 < 0 + (c + 1)) := by omega
          simp only [this]
    | succ p =>
      cases i with
      | zero => simp [setRun]
      | succ i =>
        simp only [setRun, List.getElem?_cons_succ, ih p c i]
        have : (p ≤ i ∧ i < p + c) ↔ (p + 1 ≤ i + 1 ∧ i + 1 < p + 1 + c) := by omega
        simp only [this]

/-! ### the bit-level FreeList -/

theorem drop_cons_step {b : Bits} {pos : Nat} {x : Bool} {xs : Bits} (h : b.drop pos = x :: xs) :
    b[pos]? = some x ∧ b.drop (pos + 1) = xs := by
  have h1 : b[pos]? = some x := by
    have := congrArg (fun l => l[0]?) h
    simpa [List.getElem?_drop] using this
  have h2 : b.drop (pos + 1) = xs := by
    have := congrArg (fun l => l.drop 1) h
    simpa [List.drop_drop, Nat.add_comm] using this
  exact ⟨h1, h2⟩

/-- every run FreeList reports is made of clear bits, the runs are listed in order with at least one set bit
    between two of them, and together they have as many bits as the bitmap has clear ones -/
theorem freeRunsAux_spec (b : Bits) : ∀ (xs : Bits) (pos : Nat) (cur : Option (Nat × Nat)),
    b.drop pos = xs →
    (∀ p c, cur = some (p, c) → 0 < c ∧ p + c = pos ∧ ∀ i, p ≤ i → i < pos → b[i]? = some false) →
    (∀ r ∈ freeRunsAux xs pos cur, 0 < r.2 ∧ ∀ i, r.1 ≤ i → i < r.1 + r.2 → b[i]? = some false) ∧
    (∀ r ∈ freeRunsAux xs pos cur, (match cur with | some (p, _) => p | none => pos) ≤ r.1) ∧
    (freeRunsAux xs pos cur).Pairwise (fun a c => a.1 + a.2 < c.1) ∧
    ((freeRunsAux xs pos cur).map (·.2)).sum = (match cur with | some (_, c) => c | none => 0) + countFree xs := by
  intro xs
  induction xs with
  | nil =>
    intro pos cur _ hcur
    cases cur with
    | none => simp [freeRunsAux, countFree]
    | some r =>
      obtain ⟨p, c⟩ := r
      obtain ⟨hc, hpc, hbits⟩ := hcur p c rfl
      simp only [freeRunsAux, List.mem_singleton, forall_eq, List.pairwise_cons, List.not_mem_nil,
        false_imp_iff, implies_true, List.Pairwise.nil, and_self, List.map_cons, List.map_nil,
        List.sum_cons, List.sum_nil, countFree, List.count_nil, Nat.add_zero, Nat.le_refl, and_true]
      exact ⟨hc, fun i h1 h2 => hbits i h1 (by omega)⟩
  | cons x xs ih =>
    intro pos cur hdrop hcur
    obtain ⟨hx, hdrop'⟩ := drop_cons_step hdrop
    cases x with
    | false =>
      cases cur with
      | none =>
        have hcur' : ∀ p c, some (pos, 1) = some (p, c) →
            0 < c ∧ p + c = pos + 1 ∧ ∀ i, p ≤ i → i < pos + 1 → b[i]? = some false := by
          intro p c h
          cases h
          refine ⟨by omega, rfl, ?_⟩
          intro i h1 h2
          have : i = pos := by omega
          subst this
          exact hx
        obtain ⟨h1, h2, h3, h4⟩ := ih (pos + 1) (some (pos, 1)) hdrop' hcur'
        dsimp only at h2 h4
        simp only [freeRunsAux, countFree_cons, if_true]
        exact ⟨h1, fun r hr => h2 r hr, h3, by rw [h4]; omega⟩
      | some r =>
        obtain ⟨p, c⟩ := r
        obtain ⟨hc, hpc, hbits⟩ := hcur p c rfl
        have hcur' : ∀ p' c', some (p, c + 1) = some (p', c') →
            0 < c' ∧ p' + c' = pos + 1 ∧ ∀ i, p' ≤ i → i < pos + 1 → b[i]? = some false := by
          intro p' c' h
          cases h
          refine ⟨by omega, by omega, ?_⟩
          intro i h1 h2
          by_cases hi : i < pos
          · exact hbits i h1 hi
          · have : i = pos := by omega
            subst this
            exact hx
        obtain ⟨h1, h2, h3, h4⟩ := ih (pos + 1) (some (p, c + 1)) hdrop' hcur'
        dsimp only at h2 h4
        simp only [freeRunsAux, countFree_cons, if_true]
        exact ⟨h1, h2, h3, by rw [h4]; omega⟩
    | true =>
      cases cur with
      | none =>
        have := ih (pos + 1) none hdrop' (by intro p c h; cases h)
        simp only [freeRunsAux, countFree_cons]
        obtain ⟨h1, h2, h3, h4⟩ := this
        refine ⟨h1, fun r hr => ?_, h3, by rw [h4]; simp⟩
        have := h2 r hr
        simp only at this ⊢
        omega
      | some r =>
        obtain ⟨p, c⟩ := r
        obtain ⟨hc, hpc, hbits⟩ := hcur p c rfl
        have := ih (pos + 1) none hdrop' (by intro p c h; cases h)
        obtain ⟨h1, h2, h3, h4⟩ := this
        simp only [freeRunsAux, countFree_cons]
        refine ⟨?_, ?_, ?_, ?_⟩
        · intro r hr
          simp only [List.mem_cons] at hr
          rcases hr with hr | hr
          · subst hr; exact ⟨hc, fun i h1 h2 => hbits i h1 (by simp only at h2; omega)⟩
          · exact h1 r hr
        · intro r hr
          simp only [List.mem_cons] at hr
          rcases hr with hr | hr
          · subst hr; exact Nat.le_refl _
          · have := h2 r hr
            simp only at this ⊢
            omega
        · refine List.pairwise_cons.2 ⟨fun r hr => ?_, h3⟩
          have := h2 r hr
          simp only at this ⊢
          omega
        · simp only [List.map_cons, List.sum_cons, h4]
          simp

theorem freeRuns_spec (b : Bits) :
    (∀ r ∈ freeRuns b, 0 < r.2 ∧ ∀ i, r.1 ≤ i → i < r.1 + r.2 → b[i]? = some false) ∧
    (freeRuns b).Pairwise (fun a c => a.1 + a.2 < c.1) ∧
    ((freeRuns b).map (·.2)).sum = countFree b := by
  obtain ⟨h1, _, h3, h4⟩ := freeRunsAux_spec b b 0 none (by simp) (by intro p c h; cases h)
  exact ⟨h1, h3, by simpa [freeRuns] using h4⟩

/-! ### pieces -/


/-- a piece of clear bits of `b` -/
def Piece (b : Bits) (c : Nat × Nat) : Prop := 0 < c.2 ∧ ∀ i, c.1 ≤ i → i < c.1 + c.2 → b[i]? = some false

/-- two pieces share no bit -/
def Disj (a c : Nat × Nat) : Prop := a.1 + a.2 ≤ c.1 ∨ c.1 + c.2 ≤ a.1

theorem chunksF_spec : ∀ (fuel start len : Nat), len ≤ fuel →
    (∀ c ∈ chunksF fuel start len, 0 < c.2 ∧ start ≤ c.1 ∧ c.1 + c.2 ≤ start + len) ∧
    (chunksF fuel start len).Pairwise (fun a c => a.1 + a.2 ≤ c.1) ∧
    ((chunksF fuel start len).map (·.2)).sum = len := by
  intro fuel
  induction fuel with
  | zero => intro start len h; have : len = 0 := by omega
            subst this; simp [chunksF]
  | succ fuel ih =>
    intro start len h
    by_cases hl : len = 0
    · subst hl; simp [chunksF]
    · simp only [chunksF, hl, if_false]
      generalize hm : min len maxBlocksPerExtent = m
      have hmpos : 0 < m := by rw [← hm]; simp only [maxBlocksPerExtent]; omega
      have hmle : m ≤ len := by rw [← hm]; exact Nat.min_le_left _ _
      obtain ⟨h1, h2, h3⟩ := ih (start + m) (len - m) (by omega)
      refine ⟨?_, ?_, ?_⟩
      · intro c hc
        simp only [List.mem_cons] at hc
        rcases hc with hc | hc
        · subst hc; simp only; omega
        · have := h1 c hc; omega
      · refine List.pairwise_cons.2 ⟨fun c hc => ?_, h2⟩
        have := h1 c hc
        simp only; omega
      · simp only [List.map_cons, List.sum_cons, h3]; omega

theorem cands_of_runs (b : Bits) : ∀ (rs : List (Nat × Nat)), (∀ r ∈ rs, Piece b r) →
    rs.Pairwise (fun a c => a.1 + a.2 < c.1) →
    (∀ c ∈ rs.flatMap (fun r => chunks r.1 r.2), Piece b c ∧ ∃ r ∈ rs, r.1 ≤ c.1 ∧ c.1 + c.2 ≤ r.1 + r.2) ∧
    (rs.flatMap (fun r => chunks r.1 r.2)).Pairwise (fun a c => a.1 + a.2 ≤ c.1) ∧
    ((rs.flatMap (fun r => chunks r.1 r.2)).map (·.2)).sum = (rs.map (·.2)).sum := by
  intro rs
  induction rs with
  | nil => intro _ _; simp
  | cons r rs ih =>
    intro hp hpw
    obtain ⟨hr, hrest⟩ := List.pairwise_cons.1 hpw
    obtain ⟨i1, i2, i3⟩ := ih (fun r' hr' => hp r' (List.mem_cons_of_mem _ hr')) hrest
    obtain ⟨c1, c2, c3⟩ := chunksF_spec r.2 r.1 r.2 (Nat.le_refl _)
    have hpr := hp r (List.mem_cons_self ..)
    simp only [List.flatMap_cons]
    refine ⟨?_, ?_, ?_⟩
    · intro c hc
      rcases List.mem_append.1 hc with hc | hc
      · have := c1 c hc
        refine ⟨⟨this.1, fun i h1 h2 => hpr.2 i (by omega) (by omega)⟩, r, List.mem_cons_self .., this.2.1, this.2.2⟩
      · obtain ⟨hpc, r', hr', hb⟩ := i1 c hc
        exact ⟨hpc, r', List.mem_cons_of_mem _ hr', hb⟩
    · refine List.pairwise_append.2 ⟨c2, i2, fun a ha c hc => ?_⟩
      have ha' := c1 a ha
      obtain ⟨_, r', hr', hb⟩ := i1 c hc
      have := hr r' hr'
      omega
    · simp only [List.map_append, List.sum_append, List.map_cons, List.sum_cons, i3]
      have : ((chunks r.1 r.2).map (·.2)).sum = r.2 := c3
      rw [this]

theorem candidates_spec (b : Bits) :
    (∀ c ∈ candidates b, Piece b c) ∧ (candidates b).Pairwise Disj ∧
    ((candidates b).map (·.2)).sum = countFree b := by
  obtain ⟨f1, f2, f3⟩ := freeRuns_spec b
  obtain ⟨c1, c2, c3⟩ := cands_of_runs b (freeRuns b) f1 f2
  exact ⟨fun c hc => (c1 c hc).1, c2.imp (fun h => Or.inl h), by rw [← f3]; exact c3⟩

theorem takeCands_spec (b : Bits) : ∀ (cs : List (Nat × Nat)) (extra : Nat),
    (∀ c ∈ cs, Piece b c) → cs.Pairwise Disj →
    (∀ p ∈ (takeCands cs extra).1, Piece b p ∧ ∃ c ∈ cs, p.1 = c.1 ∧ p.2 ≤ c.2) ∧
    (takeCands cs extra).1.Pairwise Disj ∧
    (((takeCands cs extra).1.map (·.2)).sum + (takeCands cs extra).2 = extra) ∧
    (0 < (takeCands cs extra).2 → (((takeCands cs extra).1.map (·.2)).sum = (cs.map (·.2)).sum)) := by
  intro cs
  induction cs with
  | nil => intro extra _ _; simp [takeCands]
  | cons c cs ih =>
    intro extra hp hpw
    obtain ⟨hc, hrest⟩ := List.pairwise_cons.1 hpw
    by_cases he : extra = 0
    · subst he; simp [takeCands]
    · simp only [takeCands, he, if_false]
      generalize ht : (if c.2 ≥ extra then extra else c.2) = t
      have hpc := hp c (List.mem_cons_self ..)
      have htpos : 0 < t := by
        rw [← ht]; split
        · omega
        · exact hpc.1
      have htle : t ≤ c.2 := by rw [← ht]; split <;> omega
      have htex : t ≤ extra := by rw [← ht]; split <;> omega
      obtain ⟨i1, i2, i3, i4⟩ := ih (extra - t) (fun c' hc' => hp c' (List.mem_cons_of_mem _ hc')) hrest
      refine ⟨?_, ?_, ?_, ?_⟩
      · intro p hp'
        simp only [List.mem_cons] at hp'
        rcases hp' with hp' | hp'
        · subst hp'
          exact ⟨⟨htpos, fun i h1 h2 => hpc.2 i h1 (by simp only at h2; omega)⟩, c, List.mem_cons_self .., rfl, htle⟩
        · obtain ⟨hpp, c', hc', hb⟩ := i1 p hp'
          exact ⟨hpp, c', List.mem_cons_of_mem _ hc', hb⟩
      · refine List.pairwise_cons.2 ⟨fun p hp' => ?_, i2⟩
        obtain ⟨hpp, c', hc', hb⟩ := i1 p hp'
        have := hc c' hc'
        unfold Disj at this ⊢
        simp only
        omega
      · simp only [List.map_cons, List.sum_cons]; omega
      · intro hpos
        have := i4 hpos
        simp only [List.map_cons, List.sum_cons, this]
        -- blocks are still needed after this piece, so it was taken whole
        have : t = c.2 := by
          by_cases hge : c.2 ≥ extra
          · have hte : t = extra := by rw [← ht, if_pos hge]
            exfalso; omega
          · rw [← ht, if_neg hge]
        omega


/-! ### the loop over the groups -/


/-- two extents share no block -/
def RunDisj (a c : Run) : Prop := a.1 ≠ c.1 ∨ a.2.1 + a.2.2 ≤ c.2.1 ∨ c.2.1 + c.2.2 ≤ a.2.1

/-- an extent made of clear bits of its group's bitmap -/
def GoodRunB (all : List Bits) (r : Run) : Prop := ∃ b, all[r.1]? = some b ∧ Piece b (r.2.1, r.2.2)

theorem totalFree_cons (b : Bits) (bs : List Bits) : totalFree (b :: bs) = countFree b + totalFree bs := by
  simp [totalFree]

theorem drop_cons_stepB {all : List Bits} {g : Nat} {b : Bits} {bs : List Bits} (h : all.drop g = b :: bs) :
    all[g]? = some b ∧ all.drop (g + 1) = bs := by
  have h1 : all[g]? = some b := by
    have := congrArg (fun l => l[0]?) h
    simpa [List.getElem?_drop] using this
  have h2 : all.drop (g + 1) = bs := by
    have := congrArg (fun l => l.drop 1) h
    simpa [List.drop_drop, Nat.add_comm] using this
  exact ⟨h1, h2⟩

theorem slowGroups_spec (order : Nat → List (Nat × Nat) → List (Nat × Nat))
    (horder : ∀ g l, (order g l).Perm l) (all : List Bits) :
    ∀ (bs : List Bits) (g extra : Nat), all.drop g = bs →
      (extra ≤ maxUint16 → slowGroups order bs g extra ≠ none) ∧
      ∀ rs e, slowGroups order bs g extra = some (rs, e) →
        (∀ r ∈ rs, g ≤ r.1 ∧ GoodRunB all r) ∧ rs.Pairwise RunDisj ∧
        (rs.map (·.2.2)).sum + e = extra ∧ (0 < e → (rs.map (·.2.2)).sum = totalFree bs) := by
  intro bs
  induction bs with
  | nil =>
    intro g extra _
    refine ⟨by simp [slowGroups], ?_⟩
    intro rs e h
    simp only [slowGroups, Option.some.injEq, Prod.mk.injEq] at h
    obtain ⟨h1, h2⟩ := h
    subst h1; subst h2
    simp [totalFree]
  | cons b bs ih =>
    intro g extra hdrop
    obtain ⟨hget, hdrop'⟩ := drop_cons_stepB hdrop
    by_cases he : extra = 0
    · subst he
      refine ⟨by simp [slowGroups], ?_⟩
      intro rs e h
      simp only [slowGroups, if_true, Option.some.injEq, Prod.mk.injEq] at h
      obtain ⟨h1, h2⟩ := h
      subst h1; subst h2
      simp
    · by_cases hbig : extra > maxUint16
      · refine ⟨fun h => by omega, ?_⟩
        intro rs e h
        simp [slowGroups, he, hbig] at h
      · -- the pieces of this group, in the order the sort left them
        obtain ⟨c1, c2, c3⟩ := candidates_spec b
        have hperm := horder g (candidates b)
        have p1 : ∀ c ∈ order g (candidates b), Piece b c := fun c hc => c1 c (hperm.mem_iff.1 hc)
        have p2 : (order g (candidates b)).Pairwise Disj :=
          (hperm.pairwise_iff (fun {a c} (h : Disj a c) => (Or.symm h : Disj c a))).2 c2
        have p3 : ((order g (candidates b)).map (·.2)).sum = countFree b := by
          rw [← c3]; exact (hperm.map _).sum_nat
        obtain ⟨t1, t2, t3, t4⟩ := takeCands_spec b (order g (candidates b)) extra p1 p2
        generalize htk : takeCands (order g (candidates b)) extra = tk at t1 t2 t3 t4
        obtain ⟨ihn, ihs⟩ := ih (g + 1) tk.2 hdrop'
        have hunf : slowGroups order (b :: bs) g extra =
            match slowGroups order bs (g + 1) tk.2 with
            | none => none
            | some (rs, e) => some (tk.1.map (fun p => (g, p.1, p.2)) ++ rs, e) := by
          simp only [slowGroups, he, hbig, if_false, htk]
          rfl
        refine ⟨fun hle => ?_, ?_⟩
        · rw [hunf]
          have := ihn (by omega)
          cases hsg : slowGroups order bs (g + 1) tk.2 with
          | none => exact absurd hsg this
          | some v => simp
        · intro rs e h
          rw [hunf] at h
          cases hsg : slowGroups order bs (g + 1) tk.2 with
          | none => rw [hsg] at h; cases h
          | some v =>
            obtain ⟨rs', e'⟩ := v
            rw [hsg] at h
            simp only [Option.some.injEq, Prod.mk.injEq] at h
            obtain ⟨h1, h2⟩ := h
            subst h1; subst h2
            obtain ⟨s1, s2, s3, s4⟩ := ihs rs' e' hsg
            have hsum : ((tk.1.map (fun p => ((g, p.1, p.2) : Run)) ++ rs').map (·.2.2)).sum =
                (tk.1.map (·.2)).sum + (rs'.map (·.2.2)).sum := by
              simp [List.map_append, List.sum_append, List.map_map, Function.comp_def]
            refine ⟨?_, ?_, ?_, ?_⟩
            · intro r hr
              rcases List.mem_append.1 hr with hr | hr
              · obtain ⟨p, hp, rfl⟩ := List.mem_map.1 hr
                exact ⟨Nat.le_refl _, b, hget, (t1 p hp).1⟩
              · have := s1 r hr
                exact ⟨by omega, this.2⟩
            · refine List.pairwise_append.2 ⟨?_, s2, ?_⟩
              · rw [List.pairwise_map]
                exact t2.imp (fun h => Or.inr h)
              · intro a ha c hc
                obtain ⟨p, _, rfl⟩ := List.mem_map.1 ha
                have := (s1 c hc).1
                left; simp only; omega
            · rw [hsum]; omega
            · intro hpos
              rw [hsum, totalFree_cons, ← p3, s4 hpos]
              have := t4 (by omega)
              omega

/-! ### the policy against the accounting state -/


/-- an extent made of clear bits of its group's block bitmap in state `s` -/
def GoodRun (s : Acc) (r : Run) : Prop := ∃ g, s.groups[r.1]? = some g ∧ Piece g.bbm (r.2.1, r.2.2)

theorem goodRun_of_B (s : Acc) (r : Run) (h : GoodRunB (s.groups.map (·.bbm)) r) : GoodRun s r := by
  obtain ⟨b, hb, hp⟩ := h
  rw [List.getElem?_map] at hb
  cases hg : s.groups[r.1]? with
  | none => rw [hg] at hb; cases hb
  | some g =>
    rw [hg] at hb
    simp only [Option.map_some, Option.some.injEq] at hb
    exact ⟨g, hg, by rw [hb]; exact hp⟩

theorem runFree_of_good (s : Acc) (r : Run) (h : GoodRun s r) : runFree s r = true := by
  obtain ⟨g, hg, _, hp⟩ := h
  simp only [runFree, hg]
  exact allAre_of_pointwise false g.bbm r.2.1 r.2.2 hp

/-- marking one extent leaves every extent that shares no block with it free -/
theorem goodRun_markRun (s : Acc) (r r' : Run) (h' : GoodRun s r') (hd : RunDisj r r') : GoodRun (markRun s r) r' := by
  obtain ⟨g, hg, hpos, hp⟩ := h'
  simp only [GoodRun, markRun, modifyAt_getElem?]
  by_cases hj : r'.1 = r.1
  · simp only [hj, if_true]
    rw [← hj, hg]
    refine ⟨_, rfl, hpos, ?_⟩
    intro i h1 h2
    simp only [setRun_getElem?]
    have hdd : r.2.1 + r.2.2 ≤ r'.2.1 ∨ r'.2.1 + r'.2.2 ≤ r.2.1 := by
      rcases hd with h | h
      · exact absurd hj.symm h
      · exact h
    rw [if_neg (by simp only at h1 h2; omega)]
    exact hp i h1 h2
  · simp only [hj, if_false]
    exact ⟨g, hg, hpos, hp⟩

theorem runsOK_of_good : ∀ (rs : List Run) (s : Acc), (∀ r ∈ rs, GoodRun s r) → rs.Pairwise RunDisj →
    runsOK s rs = true := by
  intro rs
  induction rs with
  | nil => intro s _ _; rfl
  | cons r rs ih =>
    intro s hg hpw
    obtain ⟨hr, hrest⟩ := List.pairwise_cons.1 hpw
    simp only [runsOK, Bool.and_eq_true]
    refine ⟨runFree_of_good s r (hg r (List.mem_cons_self ..)), ih (markRun s r) ?_ hrest⟩
    intro r' hr'
    exact goodRun_markRun s r r' (hg r' (List.mem_cons_of_mem _ hr')) (hr r' hr')

/-- the block-allocation policy of allocateExtents, for every order the sort may leave the pieces in -/
theorem allocPolicy_spec (order : Nat → List (Nat × Nat) → List (Nat × Nat))
    (horder : ∀ g l, (order g l).Perm l) (s : Acc) (n : Nat) (hn : 0 < n) :
    (∀ rs, allocPolicy order (s.groups.map (·.bbm)) n = some rs →
      (∀ r ∈ rs, GoodRun s r) ∧ rs.Pairwise RunDisj ∧ (rs.map (·.2.2)).sum = n ∧ runsOK s rs = true) ∧
    (allocPolicy order (s.groups.map (·.bbm)) n = none →
      maxUint16 < n ∨ totalFree (s.groups.map (·.bbm)) < n) := by
  have hslow := slowGroups_spec order horder (s.groups.map (·.bbm)) (s.groups.map (·.bbm)) 0 n (by simp)
  obtain ⟨hnn, hsome⟩ := hslow
  have key : ∀ rs, slowAlloc order (s.groups.map (·.bbm)) n = some rs →
      (∀ r ∈ rs, GoodRun s r) ∧ rs.Pairwise RunDisj ∧ (rs.map (·.2.2)).sum = n := by
    intro rs h
    unfold slowAlloc at h
    split at h
    · rename_i rs' heq
      cases h
      obtain ⟨s1, s2, s3, _⟩ := hsome rs 0 heq
      exact ⟨fun r hr => goodRun_of_B s r (s1 r hr).2, s2, by omega⟩
    · cases h
  have keyNone : slowAlloc order (s.groups.map (·.bbm)) n = none →
      maxUint16 < n ∨ totalFree (s.groups.map (·.bbm)) < n := by
    intro h
    unfold slowAlloc at h
    cases hsg : slowGroups order (s.groups.map (·.bbm)) 0 n with
    | none =>
      left
      rcases Nat.lt_or_ge maxUint16 n with h1 | h1
      · exact h1
      · exact absurd hsg (hnn h1)
    | some v =>
      obtain ⟨rs, e⟩ := v
      rw [hsg] at h
      cases e with
      | zero => simp at h
      | succ e =>
        right
        obtain ⟨_, _, s3, s4⟩ := hsome rs (e + 1) hsg
        have := s4 (by omega)
        omega
  constructor
  · intro rs h
    unfold allocPolicy at h
    split at h
    · rename_i g p heq
      cases h
      split at heq
      · obtain ⟨bm, hget, hlen, hbits⟩ := fastPick_spec (s.groups.map (·.bbm)) n g p hn heq
        have hgood : GoodRun s (g, p, n) := goodRun_of_B s (g, p, n) ⟨bm, hget, hn, hbits⟩
        refine ⟨?_, by simp, by simp, ?_⟩
        · intro r hr; simp only [List.mem_singleton] at hr; subst hr; exact hgood
        · simp only [runsOK, Bool.and_true]; exact runFree_of_good s _ hgood
      · cases heq
    · obtain ⟨k1, k2, k3⟩ := key rs h
      exact ⟨k1, k2, k3, runsOK_of_good rs s k1 k2⟩
  · intro h
    unfold allocPolicy at h
    split at h
    · cases h
    · exact keyNone h


/-- the driver's order is a permutation (a merge sort) -/
theorem hintOrder_perm (hint : Nat → List Nat) (g : Nat) (l : List (Nat × Nat)) : (hintOrder hint g l).Perm l :=
  List.mergeSort_perm l _

end Diskfs.Ext4.Alloc
