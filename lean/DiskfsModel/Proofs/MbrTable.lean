/-
  MBR whole table: what mbr.Table.Write puts on ANY prior device reads back through mbr.Read as the
  four slots, filled by position.  Helper for Props/C02.lean.
-/
import DiskfsModel.Proofs.MbrCodec
import DiskfsModel.Proofs.GptRobust
set_option linter.unusedSimpArgs false
set_option linter.unusedVariables false
namespace Diskfs.Mbr
open Diskfs.Gpt

/-- what can be stored in a slot: a type byte, 32-bit start / size, six CHS bytes -/
structure PartWF (p : Part) : Prop where
  typ : p.typ < 256
  start : p.start < two32
  size : p.size < two32
  chs : p.chs.length = 6

def emptyPart (i : Nat) : Part :=
  { index := i, bootable := false, typ := 0, start := 0, size := 0, chs := [0, 0, 0, 0, 0, 0] }

/-- the four slots as they read back: by position in the list, index = position + 1, missing entries empty -/
def normSlot (ps : List Part) (i : Nat) : Part :=
  match ps[i]? with
  | some p => { p with index := i + 1 }
  | none => emptyPart (i + 1)

def slotEnc (ps : List Part) (i : Nat) : Bytes :=
  match ps[i]? with
  | some p => entryEnc p
  | none => emptySlot

theorem slotEnc_length (ps : List Part) (i : Nat) : (slotEnc ps i).length = 16 := by
  unfold slotEnc
  split
  · exact entryEnc_length _
  · simp [emptySlot]

theorem entryDec_empty (i : Nat) : entryDec i emptySlot = some (emptyPart i) := by
  simp [entryDec, emptySlot, zeros, emptyPart, slice, leDec]

theorem entryDec_slotEnc (ps : List Part) (i : Nat) (hwf : ∀ p ∈ ps, PartWF p) :
    entryDec (i + 1) (slotEnc ps i) = some (normSlot ps i) := by
  unfold slotEnc normSlot
  cases h : ps[i]? with
  | none => simpa using entryDec_empty (i + 1)
  | some p =>
    have hp : p ∈ ps := List.mem_of_getElem? h
    have w := hwf p hp
    simpa using entryDec_entryEnc p (i + 1) w.typ w.start w.size w.chs

theorem tableEnc_eq (ps : List Part) :
    tableEnc ps = slotEnc ps 0 ++ (slotEnc ps 1 ++ (slotEnc ps 2 ++ (slotEnc ps 3 ++ [0x55, 0xaa]))) := by
  simp only [tableEnc, slotEnc, List.range, List.range.loop, List.flatMap_cons, List.flatMap_nil, List.append_assoc,
    List.append_nil]
  rfl

/-- MBR whole table, over ANY prior device content: mbr.Read returns the four slots by position -/
theorem read_write (d : Dev) (ps : List Part) (devSize : Nat) (hdev : 512 ≤ devSize) (hwf : ∀ p ∈ ps, PartWF p) :
    (read (applyWrs d (write ps)) devSize).1 = some [normSlot ps 0, normSlot ps 1, normSlot ps 2, normSlot ps 3] := by
  have l0 := slotEnc_length ps 0
  have l1 := slotEnc_length ps 1
  have l2 := slotEnc_length ps 2
  have l3 := slotEnc_length ps 3
  have hlen : (tableEnc ps).length = 66 := by rw [tableEnc_eq]; simp [l0, l1, l2, l3]
  have hdevb : readAt (applyWrs d (write ps)) 0 512 = readAt d 0 446 ++ tableEnc ps := by
    have hw : applyWrs d (write ps) = applyWr d ⟨446, tableEnc ps⟩ := rfl
    rw [hw]
    have e := readAt_append (applyWr d ⟨446, tableEnc ps⟩) 0 446 66
    have h1 : readAt (applyWr d ⟨446, tableEnc ps⟩) 0 446 = readAt d 0 446 :=
      readAt_applyWr_disjoint d ⟨446, tableEnc ps⟩ 0 446 (Or.inl (Nat.le_refl _))
    have h2 : readAt (applyWr d ⟨446, tableEnc ps⟩) 446 (tableEnc ps).length = tableEnc ps :=
      readAt_applyWr_same d ⟨446, tableEnc ps⟩
    rw [hlen] at h2
    rw [Nat.zero_add, h1, h2] at e
    exact e
  unfold read
  have hn : ¬ devSize < 512 := by omega
  simp only [hn, if_false]
  rw [hdevb, tableEnc_eq]
  have la : (readAt d 0 446).length = 446 := by simp
  have s510 : slice (readAt d 0 446 ++ (slotEnc ps 0 ++ (slotEnc ps 1 ++ (slotEnc ps 2 ++ (slotEnc ps 3 ++ [0x55, 0xaa]))))) 510 512
      = [0x55, 0xaa] := by
    simp [slice_append_skip, slice_all, la, l0, l1, l2, l3]
  rw [s510]
  simp only [ne_eq, not_true_eq_false, if_false]
  have e0 : slice (readAt d 0 446 ++ (slotEnc ps 0 ++ (slotEnc ps 1 ++ (slotEnc ps 2 ++ (slotEnc ps 3 ++ [0x55, 0xaa])))))
      (446 + 0 * 16) (446 + 0 * 16 + 16) = slotEnc ps 0 := by
    simp [slice_append_skip, slice_append_hit, la, l0, l1, l2, l3]
  have e1 : slice (readAt d 0 446 ++ (slotEnc ps 0 ++ (slotEnc ps 1 ++ (slotEnc ps 2 ++ (slotEnc ps 3 ++ [0x55, 0xaa])))))
      (446 + 1 * 16) (446 + 1 * 16 + 16) = slotEnc ps 1 := by
    simp [slice_append_skip, slice_append_hit, la, l0, l1, l2, l3]
  have e2 : slice (readAt d 0 446 ++ (slotEnc ps 0 ++ (slotEnc ps 1 ++ (slotEnc ps 2 ++ (slotEnc ps 3 ++ [0x55, 0xaa])))))
      (446 + 2 * 16) (446 + 2 * 16 + 16) = slotEnc ps 2 := by
    simp [slice_append_skip, slice_append_hit, la, l0, l1, l2, l3]
  have e3 : slice (readAt d 0 446 ++ (slotEnc ps 0 ++ (slotEnc ps 1 ++ (slotEnc ps 2 ++ (slotEnc ps 3 ++ [0x55, 0xaa])))))
      (446 + 3 * 16) (446 + 3 * 16 + 16) = slotEnc ps 3 := by
    simp [slice_append_skip, slice_append_hit, la, l0, l1, l2, l3]
  simp only [slotsDec, e0, e1, e2, e3]
  rw [entryDec_slotEnc ps 0 hwf, entryDec_slotEnc ps 1 hwf, entryDec_slotEnc ps 2 hwf, entryDec_slotEnc ps 3 hwf]

/-- the write touches bytes 446..511 only: boot code, disk signature and everything after the first
    512 bytes keep their prior content -/
theorem write_frame (d : Dev) (ps : List Part) (i : Nat) (hi : i < 446 ∨ 512 ≤ i) :
    applyWrs d (write ps) i = d i := by
  have l0 := slotEnc_length ps 0
  have l1 := slotEnc_length ps 1
  have l2 := slotEnc_length ps 2
  have l3 := slotEnc_length ps 3
  have hlen : (tableEnc ps).length = 66 := by rw [tableEnc_eq]; simp [l0, l1, l2, l3]
  apply applyWrs_frame
  intro w hw
  simp only [write, List.mem_singleton] at hw
  subst hw
  simp only [hlen]
  omega

end Diskfs.Mbr
