/-
  The operational side of one directory rewrite: `writeDirectoryEntries` of the tree model, handed
  an image that fills the directory's (new) chain exactly, leaves the chain reading as that image
  (the fixed root: its region).  With `image` (Model/Fat/TreeImg.lean) this says that the rewrite of
  a directory with the serialisation of its child list establishes what `image` holds for it.
  Core Lean only.
-/
import DiskfsModel.Proofs.FatTreeImg
namespace Diskfs.Fat

/-- the device after `writeDirectoryEntries`: one piece of the image per cluster of the new chain -/
theorem writeDir_dev {g : TGeom} {fuel : Nat} {m : CMap} {d : Dev} {chain : List Nat} {base : Nat}
    {ks : List TNode} {img : Bytes} {w : WD} (hw : writeDir g fuel m d chain base ks img = .ok w) :
    (chain ≠ [] → w.d = applyWrs d (dirWrs g.f.io w.chain img)) ∧
    (chain = [] → w.d = applyWrs d [⟨g.rootOff, img.take (32 * g.rootCap)⟩]) := by
  cases chain with
  | nil =>
    simp only [writeDir] at hw
    split at hw
    · simp only [Except.ok.injEq] at hw
      subst hw
      exact ⟨fun hh => absurd rfl hh, fun _ => rfl⟩
    · cases hw
  | cons c cs =>
    refine ⟨fun _ => ?_, fun hh => by cases hh⟩
    simp only [writeDir] at hw
    split at hw
    · cases hw
    · split at hw
      · simp only [Except.ok.injEq] at hw
        subst hw
        rfl
      · split at hw
        · cases hw
        · simp only [Except.ok.injEq] at hw
          subst hw
          rfl

/-- **dir_rewrite_holds_image**: after `writeDirectoryEntries` the directory's chain reads as the
    image it was handed (when the image fills the chain: `entriesToBytes` pads to whole clusters and
    the chain is sized for it), the fixed root region as the fixed-size image -/
theorem writeDir_holds_image {g : TGeom} {fuel : Nat} {m : CMap} {d : Dev} {chain : List Nat} {base : Nat}
    {ks : List TNode} {img : Bytes} {w : WD} {R : List (List Nat)}
    (hg : TGeomOk g) (hfuel : g.f.lim - 2 ≤ fuel)
    (h : Inv g.f.kind g.f.lim m (chainOwner chain ++ R))
    (hw : writeDir g fuel m d chain base ks img = .ok w) :
    (chain ≠ [] → img.length = w.chain.length * g.f.io.bpc → chainBytes w.d g.f.io w.chain = img) ∧
    (chain = [] → img.length = 32 * g.rootCap → readAt w.d g.rootOff (32 * g.rootCap) = img) := by
  obtain ⟨hinv, hroot, _, _⟩ := writeDir_ok hg hfuel h hw
  obtain ⟨hd1, hd2⟩ := writeDir_dev hw
  constructor
  · intro hne hlen
    have hwne : w.chain ≠ [] := fun e => hne (hroot.1 e)
    rw [chainOwner_of_ne hwne] at hinv
    have hnd : w.chain.Nodup := by
      have := hinv.nodup
      rw [List.singleton_append, List.flatten_cons] at this
      exact (List.nodup_append.1 this).1
    have h2 : ∀ c ∈ w.chain, 2 ≤ c := inv_ge2 hinv List.mem_cons_self
    rw [hd1 hne]
    exact dirWrs_bytes g.f.io hg.bpc w.chain img d hnd h2 hlen
  · intro hnil hlen
    rw [hd2 hnil]
    have htk : img.take (32 * g.rootCap) = img := by rw [← hlen, List.take_length]
    rw [htk]
    simp only [applyWrs, List.foldl_cons, List.foldl_nil]
    have := readAt_applyWr_same d ⟨g.rootOff, img⟩
    simp only [hlen] at this
    exact this

end Diskfs.Fat
