/-
  Helper lemmas for the squashfs id-table-blocks and inode-type theorems of Props/C19.lean.
-/
import DiskfsModel.Model.MetaSqfs
import DiskfsModel.Proofs.MetaRR
namespace Diskfs.Meta

theorem chunks_take_flatten (n : Nat) (hn : 0 < n) : ∀ (f : Nat) (l : List Nat) (k : Nat), l.length ≤ f →
    ((chunks n f l).take k).flatten = l.take (k * n) := by
  intro f
  induction f with
  | zero =>
    intro l k h
    have : l = [] := List.length_eq_zero_iff.1 (by omega)
    subst this; simp [chunks]
  | succ f ih =>
    intro l k h
    simp only [chunks]
    split
    · rename_i he; simp [List.isEmpty_iff.1 he]
    · rename_i hne
      cases k with
      | zero => simp
      | succ k =>
        have hl : 0 < l.length := by
          cases l with
          | nil => simp at hne
          | cons _ _ => simp
        simp only [List.take_succ_cons, List.flatten_cons]
        rw [ih (l.drop n) k (by simp; omega)]
        have : (k + 1) * n = n + k * n := by rw [Nat.add_mul, Nat.one_mul, Nat.add_comm]
        rw [this, List.take_add]

theorem readIds_take (widen : Bool) (ids : List Nat) (count : Nat) (h : count % 65536 ≠ 0) :
    readIds widen count (idBlocksWr ids) = ids.take (idBlocksRd widen (count % 65536) * 2048) := by
  unfold readIds idBlocksWr
  rw [if_neg h, chunks_take_flatten 2048 (by decide) ids.length ids _ (Nat.le_refl _)]

theorem idBlocks_enough (widen : Bool) (n : Nat) (h0 : 0 < n) (h1 : n < 65536) (hw : widen = true ∨ n ≤ 16384) :
    n ≤ idBlocksRd widen n * 2048 := by
  unfold idBlocksRd
  rcases hw with hw | hw
  · subst hw; simp only [if_true]; omega
  · cases widen
    · simp only [Bool.false_eq_true, if_false]; omega
    · simp only [if_true]; omega

theorem idtable_blocks_roundtrip_aux (widen : Bool) (ids : List Nat) (h0 : 0 < ids.length) (h1 : ids.length < 65536)
    (hw : widen = true ∨ ids.length ≤ 16384) : readIds widen ids.length (idBlocksWr ids) = ids := by
  have hm : ids.length % 65536 = ids.length := Nat.mod_eq_of_lt h1
  rw [readIds_take widen ids ids.length (by omega), hm]
  exact List.take_of_length_le (idBlocks_enough widen ids.length h0 h1 hw)

/-! ### the other inode types -/

theorem sl (pre x post : Bytes) (a b : Nat) (ha : a = pre.length) (hb : b = pre.length + x.length) :
    slice (pre ++ (x ++ post)) a b = x := slice_mid pre x post a b ha hb

theorem sl0 (x post : Bytes) (b : Nat) (hb : b = x.length) : slice (x ++ post) 0 b = x := by
  subst hb; simp [slice]

theorem w2 (n : Nat) (h : n < 2 ^ 16) : leDec (leEnc 2 n) = n := leDec_leEnc_of_lt 2 n (by simpa using h)
theorem w4 (n : Nat) (h : n < 2 ^ 32) : leDec (leEnc 4 n) = n := leDec_leEnc_of_lt 4 n (by simpa using h)

theorem decXBody_enc (typ : Nat) (b : XBody) (rest : Bytes) (hf : b.fits typ = true) (h : b.WF) :
    decXBody typ (encXBody b ++ rest) = some (b, rest) := by
  cases b with
  | lnk links t xa =>
    obtain ⟨h1, h2, h3⟩ := h
    have ht : typ = 10 := by simpa [XBody.fits] using hf
    subst ht
    have e : encXBody (.lnk links t xa) ++ rest = leEnc 4 links ++ (leEnc 4 t.length ++ (t ++ (leEnc 4 xa ++ rest))) := by
      simp [encXBody]
    have hlen : (encXBody (.lnk links t xa) ++ rest).length = 8 + (t.length + 4) + rest.length := by
      rw [e]; simp; omega
    have s0 : slice (encXBody (.lnk links t xa) ++ rest) 0 4 = leEnc 4 links := by rw [e]; exact sl0 _ _ _ (by simp)
    have s1 : slice (encXBody (.lnk links t xa) ++ rest) 4 8 = leEnc 4 t.length := by
      rw [e]; exact sl _ _ _ _ _ (by simp) (by simp)
    have s2 : slice (encXBody (.lnk links t xa) ++ rest) 8 (8 + t.length) = t := by
      rw [e, ← List.append_assoc]; exact sl _ _ _ _ _ (by simp) (by simp)
    have s3 : slice (encXBody (.lnk links t xa) ++ rest) (8 + t.length) (8 + t.length + 4) = leEnc 4 xa := by
      rw [e, ← List.append_assoc, ← List.append_assoc]; exact sl _ _ _ _ _ (by simp; omega) (by simp; omega)
    have s4 : (encXBody (.lnk links t xa) ++ rest).drop (8 + t.length + 4) = rest := by
      rw [e, ← List.append_assoc, ← List.append_assoc, ← List.append_assoc]
      exact List.drop_left' (by simp; omega)
    simp only [decXBody, if_true]
    rw [if_neg (by omega), s1, w4 _ h2, if_neg (by omega), s0, s2, s3, s4, w4 _ h1, w4 _ h3]
  | dev links w =>
    obtain ⟨h1, h2⟩ := h
    have ht : typ = 4 ∨ typ = 5 := by simpa [XBody.fits] using hf
    have e : encXBody (.dev links w) ++ rest = leEnc 4 links ++ (leEnc 4 w ++ rest) := by simp [encXBody]
    have s0 : slice (encXBody (.dev links w) ++ rest) 0 4 = leEnc 4 links := by rw [e]; exact sl0 _ _ _ (by simp)
    have s1 : slice (encXBody (.dev links w) ++ rest) 4 8 = leEnc 4 w := by rw [e]; exact sl _ _ _ _ _ (by simp) (by simp)
    have s2 : (encXBody (.dev links w) ++ rest).drop 8 = rest := by
      rw [e, ← List.append_assoc]; exact List.drop_left' (by simp)
    have hlen : (encXBody (.dev links w) ++ rest).length = 8 + rest.length := by rw [e]; simp; omega
    simp only [decXBody]
    rw [if_neg (by omega), if_pos ht, if_neg (by omega), s0, s1, s2, w4 _ h1, w4 _ h2]
  | devx links w xa =>
    obtain ⟨h1, h2, h3⟩ := h
    have ht : typ = 11 ∨ typ = 12 := by simpa [XBody.fits] using hf
    have e : encXBody (.devx links w xa) ++ rest = leEnc 4 links ++ (leEnc 4 w ++ (leEnc 4 xa ++ rest)) := by simp [encXBody]
    have s0 : slice (encXBody (.devx links w xa) ++ rest) 0 4 = leEnc 4 links := by rw [e]; exact sl0 _ _ _ (by simp)
    have s1 : slice (encXBody (.devx links w xa) ++ rest) 4 8 = leEnc 4 w := by rw [e]; exact sl _ _ _ _ _ (by simp) (by simp)
    have s2 : slice (encXBody (.devx links w xa) ++ rest) 8 12 = leEnc 4 xa := by
      rw [e, ← List.append_assoc]; exact sl _ _ _ _ _ (by simp) (by simp)
    have s3 : (encXBody (.devx links w xa) ++ rest).drop 12 = rest := by
      rw [e, ← List.append_assoc, ← List.append_assoc]; exact List.drop_left' (by simp)
    have hlen : (encXBody (.devx links w xa) ++ rest).length = 12 + rest.length := by rw [e]; simp <;> omega
    simp only [decXBody]
    rw [if_neg (by omega), if_neg (by omega), if_pos ht, if_neg (by omega), s0, s1, s2, s3, w4 _ h1, w4 _ h2, w4 _ h3]
  | ipc links =>
    have h1 : links < 2 ^ 32 := h
    have ht : typ = 6 ∨ typ = 7 := by simpa [XBody.fits] using hf
    have e : encXBody (.ipc links) ++ rest = leEnc 4 links ++ rest := by simp [encXBody]
    have s0 : slice (encXBody (.ipc links) ++ rest) 0 4 = leEnc 4 links := by rw [e]; exact sl0 _ _ _ (by simp)
    have s1 : (encXBody (.ipc links) ++ rest).drop 4 = rest := by rw [e]; exact List.drop_left' (by simp)
    have hlen : (encXBody (.ipc links) ++ rest).length = 4 + rest.length := by rw [e]; simp
    simp only [decXBody]
    rw [if_neg (by omega), if_neg (by omega), if_neg (by omega), if_pos ht, if_neg (by omega), s0, s1, w4 _ h1]
  | ipcx links xa =>
    obtain ⟨h1, h2⟩ := h
    have ht : typ = 13 ∨ typ = 14 := by simpa [XBody.fits] using hf
    have e : encXBody (.ipcx links xa) ++ rest = leEnc 4 links ++ (leEnc 4 xa ++ rest) := by simp [encXBody]
    have s0 : slice (encXBody (.ipcx links xa) ++ rest) 0 4 = leEnc 4 links := by rw [e]; exact sl0 _ _ _ (by simp)
    have s1 : slice (encXBody (.ipcx links xa) ++ rest) 4 8 = leEnc 4 xa := by rw [e]; exact sl _ _ _ _ _ (by simp) (by simp)
    have s2 : (encXBody (.ipcx links xa) ++ rest).drop 8 = rest := by
      rw [e, ← List.append_assoc]; exact List.drop_left' (by simp)
    have hlen : (encXBody (.ipcx links xa) ++ rest).length = 8 + rest.length := by rw [e]; simp; omega
    simp only [decXBody]
    rw [if_neg (by omega), if_neg (by omega), if_neg (by omega), if_neg (by omega), if_pos ht, if_neg (by omega),
      s0, s1, s2, w4 _ h1, w4 _ h2]

theorem decX_encX (h : XHdr) (b : XBody) (rest : Bytes) (hh : h.WF) (hf : b.fits h.typ = true) (hb : b.WF) :
    decX (encX h b ++ rest) = some (h, b, rest) := by
  obtain ⟨h1, h2, h3, h4, h5, h6⟩ := hh
  have e : encX h b ++ rest = leEnc 2 h.typ ++ (leEnc 2 h.mode ++ (leEnc 2 h.uid ++ (leEnc 2 h.gid ++ (leEnc 4 h.mtime ++
      (leEnc 4 h.index ++ (encXBody b ++ rest)))))) := by simp [encX]
  have hlen : 16 ≤ (encX h b ++ rest).length := by rw [e]; simp; omega
  have s0 : slice (encX h b ++ rest) 0 2 = leEnc 2 h.typ := by rw [e]; exact sl0 _ _ _ (by simp)
  have s1 : slice (encX h b ++ rest) 2 4 = leEnc 2 h.mode := by rw [e]; exact sl _ _ _ _ _ (by simp) (by simp)
  have s2 : slice (encX h b ++ rest) 4 6 = leEnc 2 h.uid := by
    rw [e, ← List.append_assoc]; exact sl _ _ _ _ _ (by simp) (by simp)
  have s3 : slice (encX h b ++ rest) 6 8 = leEnc 2 h.gid := by
    rw [e, ← List.append_assoc, ← List.append_assoc]; exact sl _ _ _ _ _ (by simp) (by simp)
  have s4 : slice (encX h b ++ rest) 8 12 = leEnc 4 h.mtime := by
    rw [e, ← List.append_assoc, ← List.append_assoc, ← List.append_assoc]; exact sl _ _ _ _ _ (by simp) (by simp)
  have s5 : slice (encX h b ++ rest) 12 16 = leEnc 4 h.index := by
    rw [e, ← List.append_assoc, ← List.append_assoc, ← List.append_assoc, ← List.append_assoc]
    exact sl _ _ _ _ _ (by simp) (by simp)
  have s6 : (encX h b ++ rest).drop 16 = encXBody b ++ rest := by
    rw [e, ← List.append_assoc, ← List.append_assoc, ← List.append_assoc, ← List.append_assoc, ← List.append_assoc]
    exact List.drop_left' (by simp)
  unfold decX
  rw [if_neg (by omega)]
  simp only [s0, s1, s2, s3, s4, s5, s6, w2 _ h1, w2 _ h2, w2 _ h3, w2 _ h4, w4 _ h5, w4 _ h6,
    decXBody_enc h.typ b rest hf hb]

end Diskfs.Meta
