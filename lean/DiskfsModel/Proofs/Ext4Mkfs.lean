/-
  Lemmas about the ext4 mkfs layout arithmetic (Model/Ext4/Mkfs.lean).
-/
import DiskfsModel.Model.Ext4.Mkfs
namespace Diskfs.Ext4.Mkfs

theorem ceilDiv_spec (a b : Nat) (hb : 0 < b) (hq : 0 < ceilDiv a b) :
    (ceilDiv a b - 1) * b < a ∧ a ≤ ceilDiv a b * b := by
  unfold ceilDiv at *
  have h1 : (a + b - 1) / b * b ≤ a + b - 1 := Nat.div_mul_le_self _ _
  have h2 : a + b - 1 < ((a + b - 1) / b + 1) * b := by
    have := Nat.lt_div_mul_add (a := a + b - 1) (b := b) hb
    rw [Nat.add_mul]; omega
  rw [Nat.add_mul] at h2
  generalize hq' : (a + b - 1) / b = q at *
  have h3 : (q - 1) * b = q * b - b := by
    rw [Nat.sub_mul]; simp
  have h4 : b ≤ q * b := Nat.le_mul_of_pos_left b hq
  constructor
  · rw [h3]; omega
  · omega

theorem flexOwner_le (l : Layout) (g : Nat) : flexOwner l g ≤ g := Nat.div_mul_le_self _ _

theorem flexOwner_idem (l : Layout) (g : Nat) (hf : 0 < l.flexSize) :
    flexOwner l (flexOwner l g) = flexOwner l g := by
  unfold flexOwner
  rw [Nat.mul_div_cancel _ hf]

theorem sub_flexOwner_lt (l : Layout) (g : Nat) (hf : 0 < l.flexSize) : g - flexOwner l g < l.flexSize := by
  unfold flexOwner
  have h1 := Nat.div_add_mod g l.flexSize
  have h2 := Nat.mod_lt g hf
  rw [Nat.mul_comm] at h1
  omega

/-- two groups of the same flex group get disjoint, ordered metadata slots -/
theorem flex_slots_ordered (l : Layout) (g1 g2 : Nat) (ho : flexOwner l g1 = flexOwner l g2) (hlt : g1 < g2) :
    metaBase l true g1 + perGroupMeta l ≤ metaBase l true g2 := by
  unfold metaBase
  simp only [if_true, ← ho]
  have h1 := flexOwner_le l g1
  have : (g1 - flexOwner l g1 + 1) * perGroupMeta l ≤ (g2 - flexOwner l g1) * perGroupMeta l :=
    Nat.mul_le_mul_right _ (by omega)
  rw [Nat.add_mul] at this
  omega

theorem groupStart_mono (l : Layout) (g1 g2 : Nat) (h : g1 < g2) : groupStart l g1 + l.bpg ≤ groupStart l g2 := by
  unfold groupStart
  have : (g1 + 1) * l.bpg ≤ g2 * l.bpg := Nat.mul_le_mul_right _ (by omega)
  rw [Nat.add_mul] at this
  omega

theorem blocksInGroup_le (l : Layout) (g : Nat) : blocksInGroup l g ≤ l.bpg := Nat.min_le_left _ _

/-- with flex_bg: the metadata slot of group g lies behind the superblock / GDT copy of its flex owner and
    inside the owner's block group -/
theorem flex_slot_inside (l : Layout) (hf : 0 < l.flexSize) (hfit : Fits l true) (g : Nat) (hg : g < l.groups) :
    groupStart l (flexOwner l g) + metaBlocks l (flexOwner l g) ≤ metaBase l true g ∧
    metaBase l true g + perGroupMeta l ≤ groupStart l (flexOwner l g) + blocksInGroup l (flexOwner l g) := by
  have ho := flexOwner_le l g
  have hfo := hfit (flexOwner l g) (by omega)
  simp only [if_true] at hfo
  have hfo := hfo (flexOwner_idem l g hf).symm
  have hk : g - flexOwner l g + 1 ≤ groupsInFlex l (flexOwner l g) := by
    unfold groupsInFlex
    have := sub_flexOwner_lt l g hf
    omega
  have : (g - flexOwner l g + 1) * perGroupMeta l ≤ groupsInFlex l (flexOwner l g) * perGroupMeta l :=
    Nat.mul_le_mul_right _ hk
  rw [Nat.add_mul] at this
  unfold metaBase
  simp only [if_true]
  constructor <;> omega

end Diskfs.Ext4.Mkfs
