/-
  The path walk of Model/Ext4/PathWalk.lean finds what the plain tree says: for every directory structure on disk
  that represents a tree (every directory's entries are ".", ".." and its children, in any order of children) and
  every path whose components are none of ".", "..": the walk reaches exactly the directory the tree lookup
  reaches, and `getEntryAndParent` returns exactly the child entry the tree has under that name.
-/
import DiskfsModel.Model.Ext4.PathWalk
namespace Diskfs.Ext4.PathWalk
open Diskfs

def dots (self parent : Nat) : List DEntry := [⟨[46], self, 2⟩, ⟨[46, 46], parent, 2⟩]

def entryOf (k : Bytes × Tree) : DEntry := ⟨k.1, k.2.ino, k.2.ftype⟩

def entriesOf (kids : List (Bytes × Tree)) : List DEntry := kids.map entryOf

/-- the directories on disk represent the tree `t` whose parent directory is `parent` -/
def Represents (dirs : Dirs) : Nat → Tree → Prop
  | _, .file _ => True
  | _, .link _ => True
  | parent, .dir ino kids => dirs ino = some (dots ino parent ++ entriesOf kids) ∧ repKids dirs ino kids
where repKids (dirs : Dirs) (self : Nat) : List (Bytes × Tree) → Prop
  | [] => True
  | (_, t) :: ks => Represents dirs self t ∧ repKids dirs self ks

theorem repKids_mem {dirs : Dirs} {self : Nat} {kids : List (Bytes × Tree)} (h : Represents.repKids dirs self kids)
    {k : Bytes × Tree} (hk : k ∈ kids) : Represents dirs self k.2 := by
  induction kids with
  | nil => cases hk
  | cons q qs ih =>
    obtain ⟨n, t⟩ := q
    rcases List.mem_cons.mp hk with rfl | hk'
    · exact h.1
    · exact ih h.2 hk'

/-- a component the io/fs path rules allow below the root -/
def validComp (c : Bytes) : Prop := c ≠ [46] ∧ c ≠ [46, 46]

/-- tree lookup that also tells the parent directory's inode number -/
def walkSpec : Nat → Tree → List Bytes → Option (Nat × Tree)
  | p, t, [] => some (p, t)
  | _, .dir ino kids, c :: cs =>
    match kids.find? (fun k => k.1 == c) with
    | some k => walkSpec ino k.2 cs
    | none => none
  | _, .file _, _ :: _ => none
  | _, .link _, _ :: _ => none

theorem walkSpec_specLookup : ∀ (cs : List Bytes) (p : Nat) (t : Tree), (walkSpec p t cs).map (·.2) = specLookup t cs
  | [], p, t => by simp [walkSpec, specLookup]
  | c :: cs, p, .file _ => by simp [walkSpec, specLookup]
  | c :: cs, p, .link _ => by simp [walkSpec, specLookup]
  | c :: cs, p, .dir ino kids => by
    simp only [walkSpec, specLookup]
    cases kids.find? (fun k => k.1 == c) with
    | none => rfl
    | some k => exact walkSpec_specLookup cs ino k.2

def Walk.isDir? : Walk → Option (Nat × List DEntry)
  | .dir i es => some (i, es)
  | _ => none

/-- what the walk should reach: the directory the tree lookup reaches, with its entries as they are on disk -/
def reached : Option (Nat × Tree) → Option (Nat × List DEntry)
  | some (p, .dir ino kids) => some (ino, dots ino p ++ entriesOf kids)
  | _ => none

theorem find_entries (p ino : Nat) (kids : List (Bytes × Tree)) (c : Bytes) (hc : validComp c) :
    (dots ino p ++ entriesOf kids).find? (fun e => e.name == c) = (kids.find? (fun k => k.1 == c)).map entryOf := by
  have h1 : (([46] : Bytes) == c) = false := by
    rw [beq_eq_false_iff_ne]; exact fun h => hc.1 h.symm
  have h2 : (([46, 46] : Bytes) == c) = false := by
    rw [beq_eq_false_iff_ne]; exact fun h => hc.2 h.symm
  simp only [dots, List.cons_append, List.nil_append, List.find?_cons, h1, h2, entriesOf]
  induction kids with
  | nil => rfl
  | cons k ks ih =>
    simp only [List.map_cons, List.find?_cons, entryOf]
    cases (k.1 == c) with
    | true => rfl
    | false => exact ih

theorem walk_spec (dirs : Dirs) : ∀ (cs : List Bytes) (p ino : Nat) (kids : List (Bytes × Tree)) (i : Nat),
    Represents dirs p (.dir ino kids) → (∀ c ∈ cs, validComp c) →
    (walk dirs ino (dots ino p ++ entriesOf kids) cs i).isDir? = reached (walkSpec p (.dir ino kids) cs)
  | [], p, ino, kids, i, _, _ => by simp [walk, Walk.isDir?, walkSpec, reached]
  | c :: cs, p, ino, kids, i, hrep, hv => by
    have hc := hv c (by simp)
    simp only [walk, walkSpec, find_entries p ino kids c hc]
    cases hf : kids.find? (fun k => k.1 == c) with
    | none => simp [Walk.isDir?, reached]
    | some k =>
      have hk : k ∈ kids := List.mem_of_find?_eq_some hf
      have hrk := repKids_mem hrep.2 hk
      obtain ⟨nm, t⟩ := k
      simp only [Option.map_some, entryOf]
      cases t with
      | file j =>
        simp only [Tree.ftype, Tree.ino]
        cases cs <;> simp [Walk.isDir?, reached, walkSpec]
      | link j =>
        simp only [Tree.ftype, Tree.ino]
        cases cs <;> simp [Walk.isDir?, reached, walkSpec]
      | dir j kids' =>
        simp only [Tree.ftype, Tree.ino, ne_eq, not_true_eq_false, if_false, hrk.1]
        exact walk_spec dirs cs ino j kids' (i + 1) hrk (fun c' hc' => hv c' (by simp [hc']))

/-- getEntryAndParent against the tree: the entry of the child the tree has under `base` in the directory the
    parent components lead to; absent when that directory has no such child; no parent when the tree lookup of the
    parent components does not end in a directory -/
theorem lookup_spec (dirs : Dirs) (kids : List (Bytes × Tree)) (parent : List Bytes) (base : Bytes)
    (hrep : Represents dirs 2 (.dir 2 kids)) (hv : ∀ c ∈ parent, validComp c) (hb : validComp base) :
    lookup dirs parent base =
      match specLookup (.dir 2 kids) parent with
      | some (.dir _ ks) =>
        (match ks.find? (fun k => k.1 == base) with
          | some k => .entry (entryOf k)
          | none => .absent)
      | _ => .noParent := by
  have hw := walk_spec dirs parent 2 2 kids 0 hrep hv
  have hs := walkSpec_specLookup parent 2 (.dir 2 kids)
  simp only [lookup, readDir, hrep.1]
  rw [← hs]
  generalize walk dirs 2 (dots 2 2 ++ entriesOf kids) parent 0 = w at hw ⊢
  generalize walkSpec 2 (Tree.dir 2 kids) parent = r at hw ⊢
  cases r with
  | none =>
    simp only [reached] at hw
    cases w <;> simp_all [Walk.isDir?]
  | some q =>
    obtain ⟨p', t⟩ := q
    cases t with
    | file j => simp only [reached] at hw; cases w <;> simp_all [Walk.isDir?]
    | link j => simp only [reached] at hw; cases w <;> simp_all [Walk.isDir?]
    | dir j ks =>
      simp only [reached] at hw
      cases w with
      | dir i es =>
        simp only [Walk.isDir?, Option.some.injEq, Prod.mk.injEq] at hw
        obtain ⟨rfl, rfl⟩ := hw
        simp only [Option.map_some, find_entries p' i ks base hb]
        cases ks.find? (fun k => k.1 == base) <;> rfl
      | notFound _ => simp [Walk.isDir?] at hw
      | notDir _ => simp [Walk.isDir?] at hw
      | readErr _ => simp [Walk.isDir?] at hw

end Diskfs.Ext4.PathWalk
