/-
  Helper lemmas for the full FAT32 probe theorem of Props/C12.lean: what the bytes of the boot
  sector, the FSInfo sector and the two FAT copies are after fat32.Create's write list over arbitrary
  stale content, and what fat32.Read makes of them.
-/
import DiskfsModel.Model.DetectFat32
import DiskfsModel.Proofs.Detect
set_option linter.unusedSimpArgs false
namespace Diskfs.Detect

theorem allBelow_iff (n : Nat) (p : Nat → Bool) : allBelow n p = true ↔ ∀ j, j < n → p j = true := by
  induction n with
  | zero => simp [allBelow]
  | succ n ih =>
    simp only [allBelow]
    constructor
    · intro h j hj
      by_cases hp : p n = true
      · rw [if_pos hp] at h
        rcases Nat.lt_succ_iff_lt_or_eq.1 hj with h' | h'
        · exact ih.1 h j h'
        · rw [h']; exact hp
      · rw [if_neg hp] at h; cases h
    · intro h
      rw [if_pos (h n (Nat.lt_succ_self n))]
      exact ih.2 (fun j hj => h j (Nat.lt_succ_of_lt hj))

/-- the last write that covers position `i` decides the byte there -/
theorem applyWrs_last_hit (d : Dev) (pre post : List Wr) (w : Wr) (i : Nat)
    (h1 : w.off ≤ i) (h2 : i < w.off + w.data.length)
    (hpost : ∀ v ∈ post, i < v.off ∨ v.off + v.data.length ≤ i) :
    applyWrs d (pre ++ [w] ++ post) i = w.data.getD (i - w.off) 0 := by
  unfold applyWrs
  rw [List.foldl_append, List.foldl_append]
  have := applyWrs_frame (List.foldl applyWr (List.foldl applyWr d pre) [w]) post i hpost
  simp only [applyWrs] at this
  rw [this]
  simp only [List.foldl_cons, List.foldl_nil]
  exact applyWr_hit _ _ _ h1 h2

/-! ### geometries fat32.Create decides on -/

/-- sectors per cluster as Create derives them from a cluster size in bytes -/
def spcFrom (cb bs : Nat) : Nat := if (cb / bs) % 256 = 0 then 1 else (cb / bs) % 256

/-- decidable well-formedness of the regenerated cluster-size table: every entry gives a
    sectors-per-cluster value CheckGeometry accepts, at both sector sizes -/
def Params.wf32 (P : Params) : Bool :=
  P.cb32.all (fun p => spcOk (spcFrom p.2 512) && spcOk (spcFrom p.2 4096)) &&
  spcOk (spcFrom P.cb32d 512) && spcOk (spcFrom P.cb32d 4096)

structure Layout32OK (L : Layout32) (size : Nat) : Prop where
  bps_ok : L.bps = 512 ∨ L.bps = 4096
  spc_ok : spcOk L.spc = true
  spf_pos : 0 < L.spf
  spf_lt : L.spf < 65536
  total_lt : L.total < two32
  fits : 32 + 2 * L.spf < L.total
  total_size : L.total * L.bps ≤ size
  min_size : 32 * L.bps ≤ size

theorem lookup_spcFrom (P : Params) (h : P.wf32 = true) (size bs : Nat) (hbs : bs = 512 ∨ bs = 4096) :
    spcOk (spcFrom (lookupSpc P.cb32 P.cb32d size) bs) = true := by
  simp only [Params.wf32, Bool.and_eq_true, List.all_eq_true] at h
  unfold lookupSpc
  split
  · rename_i p hp
    have := h.1.1 p (List.mem_of_find?_eq_some hp)
    rcases hbs with rfl | rfl
    · exact this.1
    · exact this.2
  · rcases hbs with rfl | rfl
    · exact h.1.2
    · exact h.2

theorem layout32_ok (P : Params) (hP : P.wf32 = true) (size bs0 : Nat) (L : Layout32)
    (h : layout32 P size bs0 = some L) :
    Layout32OK L size ∧ size ≤ P.f32Max ∧ (bs0 = 0 ∨ bs0 = 512 ∨ bs0 = 4096) ∧
      L.bps = (if bs0 = 0 then 512 else bs0) := by
  unfold layout32 at h
  simp only at h
  split at h
  · cases h
  rename_i hb
  split at h
  · cases h
  rename_i hmax
  split at h
  · cases h
  rename_i hmin
  split at h
  · cases h
  rename_i hfit
  split at h
  · cases h
  split at h
  · cases h
  split at h
  · cases h
  rename_i hspf
  simp only [Option.some.injEq] at h
  subst h
  have hb' : bs0 = 0 ∨ bs0 = 512 ∨ bs0 = 4096 := by
    simp at hb
    omega
  have hbps : (mkLayout32 P size bs0).bps = (if bs0 = 0 then 512 else bs0) := rfl
  have hbpsv : (mkLayout32 P size bs0).bps = 512 ∨ (mkLayout32 P size bs0).bps = 4096 := by
    rw [hbps]; rcases hb' with rfl | rfl | rfl <;> simp
  have hspc : (mkLayout32 P size bs0).spc = spcFrom (lookupSpc P.cb32 P.cb32d size) (mkLayout32 P size bs0).bps := rfl
  have htot : (mkLayout32 P size bs0).total = (size / (mkLayout32 P size bs0).bps) % two32 := rfl
  refine ⟨⟨hbpsv, ?_, ?_, ?_, ?_, ?_, ?_, ?_⟩, by omega, hb', hbps⟩
  · rw [hspc]; exact lookup_spcFrom P hP size _ hbpsv
  · omega
  · exact Nat.mod_lt _ (by decide)
  · rw [htot]; exact Nat.mod_lt _ (by decide)
  · omega
  · rw [htot]
    have h1 : size / (mkLayout32 P size bs0).bps % two32 ≤ size / (mkLayout32 P size bs0).bps := Nat.mod_le _ _
    have h2 := Nat.div_mul_le_self size (mkLayout32 P size bs0).bps
    exact Nat.le_trans (Nat.mul_le_mul_right _ h1) h2
  · omega

/-! ### the device after Create's write list -/

section Writes
variable (stale : Dev) (L : Layout32) (serial : Nat) (label : List Nat) (fat rootDir : Bytes)

/-- both FAT copies are written with this payload -/
def fatPayload (L : Layout32) (fat : Bytes) : Bytes :=
  fat.take (L.spf * L.bps) ++ zeros (L.spf * L.bps - fat.length)

theorem fatPayload_length : (fatPayload L fat).length = L.spf * L.bps := by
  simp [fatPayload]; omega

/-- sector 0 is the boot sector with the final label, whatever the range held before -/
theorem create32_sector0 (i : Nat) (hi : i < L.bps) (hb : 0 < L.bps) :
    applyWrs stale (createWrs32 L serial label fat rootDir) i = bootFat32 L serial label i := by
  have hsplit : createWrs32 L serial label fat rootDir =
      (createWrs32 L serial label fat rootDir).take 7 ++ [⟨0, sectorBytes (bootFat32 L serial label) L.bps⟩] ++
      (createWrs32 L serial label fat rootDir).drop 8 := by
    simp [createWrs32]
  rw [hsplit, applyWrs_last_hit _ _ _ _ i (Nat.zero_le _) (by simp [sectorBytes_length]; exact hi)]
  · simp [sectorBytes, hi]
  · intro v hv
    simp [createWrs32] at hv
    rcases hv with rfl | rfl <;> simp only <;> omega

/-- sector 1 is the FSInfo sector -/
theorem create32_fsis (i : Nat) (hi : i < L.bps) (hb : 0 < L.bps) :
    applyWrs stale (createWrs32 L serial label fat rootDir) (L.bps + i) = fsisFat32 i := by
  have hsplit : createWrs32 L serial label fat rootDir =
      (createWrs32 L serial label fat rootDir).take 4 ++ [⟨L.bps, sectorBytes fsisFat32 L.bps⟩] ++
      (createWrs32 L serial label fat rootDir).drop 5 := by
    simp [createWrs32]
  rw [hsplit, applyWrs_last_hit _ _ _ _ (L.bps + i) (by simp) (by simp [sectorBytes_length]; exact hi)]
  · simp [sectorBytes, hi]
  · intro v hv
    simp [createWrs32] at hv
    rcases hv with rfl | rfl | rfl | rfl | rfl <;> simp only [sectorBytes_length] <;> omega

/-- the first FAT copy holds the payload -/
theorem create32_fat1 (j : Nat) (hj : j < L.spf * L.bps) (hb : 0 < L.bps) :
    applyWrs stale (createWrs32 L serial label fat rootDir) (32 * L.bps + j) = (fatPayload L fat).getD j 0 := by
  have hsplit : createWrs32 L serial label fat rootDir =
      (createWrs32 L serial label fat rootDir).take 2 ++ [⟨32 * L.bps, fatPayload L fat⟩] ++
      (createWrs32 L serial label fat rootDir).drop 3 := by
    simp [createWrs32, fatPayload]
  rw [hsplit, applyWrs_last_hit _ _ _ _ (32 * L.bps + j) (by simp) (by simp only [fatPayload_length]; omega)]
  · simp
  · intro v hv
    simp [createWrs32] at hv
    rcases hv with rfl | rfl | rfl | rfl | rfl | rfl | rfl <;> simp only [sectorBytes_length] <;> omega

/-- … and so does the second -/
theorem create32_fat2 (j : Nat) (hj : j < L.spf * L.bps) (hb : 0 < L.bps) :
    applyWrs stale (createWrs32 L serial label fat rootDir) (32 * L.bps + L.spf * L.bps + j) =
      (fatPayload L fat).getD j 0 := by
  have hsplit : createWrs32 L serial label fat rootDir =
      (createWrs32 L serial label fat rootDir).take 3 ++ [⟨32 * L.bps + L.spf * L.bps, fatPayload L fat⟩] ++
      (createWrs32 L serial label fat rootDir).drop 4 := by
    simp [createWrs32, fatPayload]
  rw [hsplit, applyWrs_last_hit _ _ _ _ (32 * L.bps + L.spf * L.bps + j) (by simp) (by simp only [fatPayload_length]; omega)]
  · simp
  · intro v hv
    simp [createWrs32] at hv
    rcases hv with rfl | rfl | rfl | rfl | rfl | rfl <;> simp only [sectorBytes_length] <;> omega

end Writes

/-! ### fat32.Read on those bytes -/

section OnBoot32
variable (L : Layout32) (serial : Nat) (label : List Nat) (rd : Dev)
variable (hrd : ∀ i, i < 512 → rd i = bootFat32 L serial label i)
include hrd

theorem boot32_u8 (i : Nat) (hi : i < 512) : u8 rd i = (bootFat32 L serial label i).toNat := by
  simp [u8, hrd i hi]

theorem boot32_bps (h : L.bps < 65536) : u16 rd 11 = L.bps := by
  simp [u16, boot32_u8 L serial label rd hrd, bootFat32, byteOf_toNat]; omega

theorem boot32_spc (h : L.spc < 256) : u8 rd 13 = L.spc := by
  simp [boot32_u8 L serial label rd hrd, bootFat32, byteOf_toNat]; omega

theorem boot32_reserved : u16 rd 14 = 32 := by
  simp [u16, boot32_u8 L serial label rd hrd, bootFat32]

theorem boot32_nfats : u8 rd 16 = 2 := by
  simp [boot32_u8 L serial label rd hrd, bootFat32]

theorem boot32_rootEnts : u16 rd 17 = 0 := by
  simp [u16, boot32_u8 L serial label rd hrd, bootFat32]

theorem boot32_total (h : L.total < two32) : u32 rd 32 = L.total := by
  unfold two32 at h
  simp [u32, u16, boot32_u8 L serial label rd hrd, bootFat32, byteOf_toNat]; omega

theorem boot32_spf (h : L.spf < 65536) : u32 rd 36 = L.spf := by
  simp [u32, u16, boot32_u8 L serial label rd hrd, bootFat32, byteOf_toNat]; omega

theorem boot32_version : u16 rd 42 = 0 := by
  simp [u16, boot32_u8 L serial label rd hrd, bootFat32]

theorem boot32_fsi : u16 rd 48 = 1 := by
  simp [u16, boot32_u8 L serial label rd hrd, bootFat32]

theorem boot32_extsig : u8 rd 66 = 0x29 := by
  simp [boot32_u8 L serial label rd hrd, bootFat32]

theorem boot32_sig : bootSigOk rd = true := by
  simp [bootSigOk, boot32_u8 L serial label rd hrd, bootFat32]

theorem boot32_magic0 : u32 rd 0 ≠ 0x73717368 := by
  simp [u32, u16, boot32_u8 L serial label rd hrd, bootFat32, strByte, oemName, byteOf_toNat]

end OnBoot32

theorem fsis_ok (rd : Dev) (off : Nat) (h : ∀ i, i < 512 → rd (off + i) = fsisFat32 i) : fsisOk rd off = true := by
  have e : ∀ i, i < 512 → u8 rd (off + i) = (fsisFat32 i).toNat := fun i hi => by simp [u8, h i hi]
  have e0 := e 0 (by omega)
  rw [Nat.add_zero] at e0
  simp [fsisOk, u32be, e0, e 1, e 2, e 3, e 484, e 485, e 486, e 487, e 508, e 509, e 510, e 511,
    Nat.add_assoc, fsisFat32]

/-- squashfs.Read refuses a FAT32 boot sector -/
theorem sqfs_rejects_boot32 (L : Layout32) (serial : Nat) (label : List Nat) (rd : Dev)
    (hrd : ∀ i, i < 512 → rd i = bootFat32 L serial label i) (avail bs : Nat) (deep : Verdict) :
    verdictSqfs rd avail bs deep = .reject := by
  unfold verdictSqfs
  have := boot32_magic0 L serial label rd hrd
  repeat' split
  all_goals first | rfl | simp_all

/-- fat32.Read, whole, on a volume holding what Create wrote: boot sector in sector 0, FSInfo sector in
    sector 1, the same payload in both FAT copies -/
theorem fat32_on_created (P : Params) (L : Layout32) (serial : Nat) (label : List Nat) (rd : Dev)
    (size avail bs : Nat) (ok : Layout32OK L size) (hmax : size ≤ P.f32Max) (hav : size ≤ avail)
    (hbs : bs = 0 ∨ bs = 512 ∨ bs = 4096)
    (hrd : ∀ i, i < 512 → rd i = bootFat32 L serial label i)
    (hfs : ∀ i, i < 512 → rd (L.bps + i) = fsisFat32 i)
    (D : Bytes)
    (hf1 : ∀ j, j < L.spf * L.bps → rd (32 * L.bps + j) = D.getD j 0)
    (hf2 : ∀ j, j < L.spf * L.bps → rd (32 * L.bps + L.spf * L.bps + j) = D.getD j 0) :
    verdictFat32Full P rd size avail bs = .accept := by
  obtain ⟨hbps, hspc, hspf0, hspf, htot, hfit, hts, hmin⟩ := ok
  have hbpslt : L.bps < 65536 := by rcases hbps with h | h <;> omega
  have hbpspos : 0 < L.bps := by rcases hbps with h | h <;> omega
  have hspcr := spcOk_range L.spc hspc
  have e_bps := boot32_bps L serial label rd hrd hbpslt
  have e_spc := boot32_spc L serial label rd hrd hspcr.2
  have e_res := boot32_reserved L serial label rd hrd
  have e_nf := boot32_nfats L serial label rd hrd
  have e_tot := boot32_total L serial label rd hrd htot
  have e_spf := boot32_spf L serial label rd hrd hspf
  have e_ver := boot32_version L serial label rd hrd
  have e_fsi := boot32_fsi L serial label rd hrd
  have e_ext := boot32_extsig L serial label rd hrd
  have e_sig := boot32_sig L serial label rd hrd
  -- sizes: everything Create wrote lies inside the volume, hence inside the device
  have hprod : L.spf * L.bps < 268435456 := by
    have := Nat.mul_lt_mul'' hspf hbpslt
    rcases hbps with h | h <;> rw [h] at this ⊢ <;> omega
  have hfatpos : 512 ≤ L.spf * L.bps := by
    have := Nat.mul_le_mul hspf0 (show 512 ≤ L.bps by rcases hbps with h | h <;> omega)
    omega
  have hmeta : (32 + 2 * L.spf) * L.bps < L.total * L.bps := Nat.mul_lt_mul_of_pos_right hfit hbpspos
  have hmexp : (32 + 2 * L.spf) * L.bps = 32 * L.bps + 2 * (L.spf * L.bps) := by
    rw [Nat.add_mul, Nat.mul_assoc]
  have hvalid : validBps L.bps = true := by rcases hbps with h | h <;> simp [validBps, h]
  have hgeo : checkGeometry L.bps L.spc 32 2 L.spf 0 L.total size = true := by
    have hso := hspc
    simp only [spcOk] at hso
    have hm : metaSectors L.bps 32 2 L.spf 0 = 32 + 2 * L.spf := by
      simp [metaSectors]
      exact Or.inr (by omega)
    have hb4 : (L.bps == 512 || L.bps == 1024 || L.bps == 2048 || L.bps == 4096) = true := by
      rcases hbps with h | h <;> simp [h]
    simp only [checkGeometry, hm, hso, hb4]
    simp
    exact ⟨⟨by omega, Or.inr hfit⟩, Or.inr (by omega)⟩
  have hfsis : fsisOk rd (1 * L.bps) = true := by
    rw [Nat.one_mul]; exact fsis_ok rd L.bps hfs
  have hfatsz : (L.spf * L.bps) % two32 = L.spf * L.bps := Nat.mod_eq_of_lt (by unfold two32; omega)
  -- the deep part: both copies equal
  have hdeep : fat32Deep rd avail = .accept := by
    unfold fat32Deep
    simp only [e_bps, e_spf, e_res, hfatsz]
    have : fatCopiesEqual rd avail (32 * L.bps) (32 * L.bps + L.spf * L.bps) (L.spf * L.bps) = true := by
      unfold fatCopiesEqual
      rw [allBelow_iff]
      intro j hj
      have hjlt : j < L.spf * L.bps := Nat.lt_of_lt_of_le hj (Nat.div_mul_le_self _ _)
      have a1 : 32 * L.bps + j < avail := by omega
      have a2 : 32 * L.bps + L.spf * L.bps + j < avail := by omega
      simp only [fatBuf1, fatBuf2, if_pos a1, if_pos a2, hf1 j hjlt, hf2 j hjlt, beq_self_eq_true]
    rw [this]; rfl
  unfold verdictFat32Full verdictFat32
  rw [hdeep]
  have hb1 : (bs == 0 || bs == 512 || bs == 4096) = true := by rcases hbs with h | h | h <;> simp [h]
  have hsz2 : ¬ size < bs * 4 := by rcases hbs with h | h | h <;> rcases hbps with h' | h' <;> omega
  have hr0 : readOk avail 0 4096 = true := by
    simp [readOk]; rcases hbps with h' | h' <;> omega
  have hr1 : readOk avail (1 * L.bps) 512 = true := by
    simp [readOk]; rcases hbps with h' | h' <;> omega
  simp only [e_bps, e_spc, e_res, e_nf, e_tot, e_spf, e_ver, e_fsi, e_ext, e_sig, hb1, hvalid, hgeo, hfsis, hr0, hr1,
    hfatsz, extSigOk]
  have hmax' : ¬ size > P.f32Max := by omega
  have h8 : ¬ L.spf * L.bps < 8 := by omega
  simp [hmax', hsz2, h8]

end Diskfs.Detect
