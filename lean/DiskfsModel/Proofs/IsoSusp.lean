import DiskfsModel.Model.Iso.Susp
import DiskfsModel.Proofs.IsoCodec
import DiskfsModel.Proofs.GptCodec
namespace Diskfs.Iso

/-! ### UCS-2 -/

theorem ucs2_dec_enc (cps : List Nat) (h : ∀ c ∈ cps, c < 65536 ∧ ¬ (55296 ≤ c ∧ c ≤ 57343)) :
    ucs2Dec (ucs2Enc cps) = cps := by
  induction cps with
  | nil => rfl
  | cons c cs ih =>
    obtain ⟨hc, hs⟩ := h c (List.mem_cons_self ..)
    have ih' := ih (fun x hx => h x (List.mem_cons_of_mem _ hx))
    have e : ucs2Enc (c :: cs) = UInt8.ofNat (c / 256) :: UInt8.ofNat c :: ucs2Enc cs := by
      simp [ucs2Enc]
    rw [e, ucs2Dec, ih']
    have h1 : (UInt8.ofNat (c / 256)).toNat = c / 256 := by
      simp only [UInt8.toNat_ofNat']; omega
    have h2 : (UInt8.ofNat c).toNat = c % 256 := by
      simp only [UInt8.toNat_ofNat']
    rw [h1, h2]
    have : c / 256 * 256 + c % 256 = c := by omega
    rw [this, ucs2Rune, if_neg hs]

/-! ### UTF-16 (the repaired Joliet codec) -/

theorem be16Units_be16Bytes (us : List Nat) (h : ∀ u ∈ us, u < 65536) : be16Units (be16Bytes us) = us := by
  induction us with
  | nil => rfl
  | cons u us ih =>
    have hu := h u (List.mem_cons_self ..)
    have ih' := ih (fun x hx => h x (List.mem_cons_of_mem _ hx))
    have e : be16Bytes (u :: us) = UInt8.ofNat (u / 256) :: UInt8.ofNat u :: be16Bytes us := by
      simp [be16Bytes]
    rw [e, be16Units, ih']
    have h1 : (UInt8.ofNat (u / 256)).toNat = u / 256 := by
      simp only [UInt8.toNat_ofNat']; omega
    have h2 : (UInt8.ofNat u).toNat = u % 256 := by
      simp only [UInt8.toNat_ofNat']
    rw [h1, h2]
    have : u / 256 * 256 + u % 256 = u := by omega
    rw [this]

/-- every unit `utf16.Encode` produces has 16 bits, whatever the rune -/
theorem utf16EncRune_lt (r u : Nat) (hu : u ∈ Gpt.utf16EncRune r) : u < 65536 := by
  unfold Gpt.utf16EncRune at hu
  split at hu
  · rename_i hc
    simp only [Bool.or_eq_true, Bool.and_eq_true, decide_eq_true_eq] at hc
    simp only [List.mem_singleton] at hu
    omega
  · split at hu
    · simp only [List.mem_cons, List.not_mem_nil, or_false] at hu
      omega
    · simp only [List.mem_singleton] at hu
      omega

theorem utf16Enc_lt (rs : List Nat) : ∀ u ∈ Gpt.utf16Enc rs, u < 65536 := by
  intro u hu
  simp only [Gpt.utf16Enc, List.mem_flatMap] at hu
  obtain ⟨r, _, hr⟩ := hu
  exact utf16EncRune_lt r u hr

/-- the repaired codec gives every sequence of Unicode scalar values back, surrogate pairs included -/
theorem joliet_utf16_dec_enc (cps : List Nat) (h : ∀ c ∈ cps, Gpt.validRune c = true) :
    jolietDec true (jolietEnc true cps) = cps := by
  simp only [jolietDec, jolietEnc, if_true]
  rw [be16Units_be16Bytes _ (utf16Enc_lt cps)]
  exact Gpt.utf16_roundtrip cps h

/-! ### entries of an area -/

/-- an entry carries its own length (4..255) in byte 2 -/
def EntOK (e : Bytes) : Prop := 4 ≤ e.length ∧ e.length < 256 ∧ (e.getD 2 0).toNat = e.length

theorem getD_append_left (a b : Bytes) (i : Nat) (h : i < a.length) : (a ++ b).getD i 0 = a.getD i 0 := by
  simp [List.getD_eq_getElem?_getD, List.getElem?_append_left h]

/-- splitting the concatenation of well-formed entries, followed by a tail that ends the loop (fewer
    than 4 bytes, or a length byte below 4: padding), returns the entries -/
theorem suspSplit_flatten (es : List Bytes) (tail : Bytes) (hes : ∀ e ∈ es, EntOK e)
    (ht : tail.length ≤ 3 ∨ (tail.getD 2 0).toNat < 4) :
    ∀ fuel, es.length ≤ fuel → suspSplit fuel (es.flatten ++ tail) = some es := by
  induction es with
  | nil =>
    intro fuel _
    cases fuel with
    | zero => rfl
    | succ f =>
      simp only [List.flatten_nil, List.nil_append, suspSplit]
      rcases ht with ht | ht
      · rw [if_pos ht]
      · by_cases h3 : tail.length ≤ 3
        · rw [if_pos h3]
        · rw [if_neg h3, if_pos ht]
  | cons e es ih =>
    intro fuel hf
    cases fuel with
    | zero => simp at hf
    | succ f =>
      obtain ⟨h4, h256, hl⟩ := hes e (List.mem_cons_self ..)
      have hget : ((e :: es).flatten ++ tail).getD 2 0 = e.getD 2 0 := by
        simp only [List.flatten_cons, List.append_assoc]
        exact getD_append_left e _ 2 (by omega)
      have hlen : ((e :: es).flatten ++ tail).length = e.length + (es.flatten ++ tail).length := by
        simp [List.flatten_cons, List.append_assoc]
      simp only [suspSplit, hget, hl]
      rw [if_neg (by omega), if_neg (by omega), if_neg (by omega)]
      have hd : ((e :: es).flatten ++ tail).drop e.length = es.flatten ++ tail := by
        simp [List.flatten_cons, List.append_assoc]
      have htk : ((e :: es).flatten ++ tail).take e.length = e := by
        simp [List.flatten_cons, List.append_assoc]
      rw [hd, htk, ih (fun x hx => hes x (List.mem_cons_of_mem _ hx)) f (by simp at hf; omega)]
      rfl

/-! ### NM -/

theorem ofNat_toNat_lt (n : Nat) (h : n < 256) : (UInt8.ofNat n).toNat = n := by
  simp only [UInt8.toNat_ofNat']; omega

theorem nmEntry_ok (c : Bool) (part : Bytes) (h : part.length ≤ nmMax) : EntOK (nmEntry c part) := by
  unfold nmMax at h
  refine ⟨by simp [nmEntry], by simp [nmEntry]; omega, ?_⟩
  simp only [nmEntry, List.cons_append, List.getD_cons_succ, List.getD_cons_zero, List.length_cons, List.length_append,
    List.length_nil]
  rw [ofNat_toNat_lt _ (by omega)]
  omega

theorem parseEnt_nmEntry (c : Bool) (part : Bytes) (h : part.length ≤ nmMax) :
    parseEnt (nmEntry c part) = some (.nm c false false part) := by
  have hok := nmEntry_ok c part h
  unfold nmMax at h
  have h2 : (nmEntry c part).getD 2 0 = UInt8.ofNat (5 + part.length) := by simp [nmEntry]
  have hlen : (nmEntry c part).length = 5 + part.length := by simp [nmEntry]; omega
  have htake : (nmEntry c part).take 2 = [78, 77] := by simp [nmEntry]
  unfold parseEnt
  rw [if_pos htake]
  unfold parseNM
  have c1 : ¬ (((nmEntry c part).getD 2 0).toNat ≠ (nmEntry c part).length ∨ (nmEntry c part).length < 5 ∨
      (nmEntry c part).getD 3 0 ≠ 1) := by
    rw [h2, hlen, ofNat_toNat_lt _ (by omega)]
    simp [nmEntry]
  rw [if_neg c1]
  have h4 : (nmEntry c part).getD 4 0 = (if c then 1 else 0) := by simp [nmEntry]
  have hdrop : (nmEntry c part).drop 5 = part := by simp [nmEntry]
  rw [h4, hdrop]
  cases c <;> simp [bit]

theorem nmEntries_ok : ∀ (f : Nat) (n : Bytes), ∀ e ∈ nmEntries f n, EntOK e := by
  intro f
  induction f with
  | zero => intro n e he; simp [nmEntries] at he
  | succ f ih =>
    intro n e he
    unfold nmEntries at he
    split at he
    · simp at he
    · split at he
      · simp only [List.mem_cons] at he
        rcases he with rfl | he
        · exact nmEntry_ok true _ (by simp [nmMax]; omega)
        · exact ih _ e he
      · simp only [List.mem_singleton] at he
        subst he
        exact nmEntry_ok false n (by omega)

/-- parsing the NM entries of a name and everything behind them: the reader's filename is the name,
    whatever follows (GetFilename stops at the first NM entry that is not continued) -/
theorem getFilename_nmEntries : ∀ (f : Nat) (n : Bytes), n ≠ [] → n.length ≤ f →
    ∃ ps, parseAll (nmEntries f n) = some ps ∧ ∀ rest, getFilename (ps ++ rest) = some n := by
  intro f
  induction f with
  | zero => intro n hn hl; exact absurd (List.eq_nil_of_length_eq_zero (by omega)) hn
  | succ f ih =>
    intro n hn hl
    have hne : n.isEmpty = false := by cases n <;> simp_all
    unfold nmEntries
    simp only [hne, Bool.false_eq_true, if_false]
    by_cases hlong : n.length > nmMax
    · rw [if_pos hlong]
      have hdn : n.drop nmMax ≠ [] := by
        intro h
        have := congrArg List.length h
        simp at this; omega
      obtain ⟨ps, hps, hget⟩ := ih (n.drop nmMax) hdn (by simp [nmMax]; unfold nmMax at hlong; omega)
      refine ⟨.nm true false false (n.take nmMax) :: ps, ?_, ?_⟩
      · have hp := parseEnt_nmEntry true (n.take nmMax) (by rw [List.length_take]; exact Nat.min_le_left _ _)
        simp only [parseAll, hp, hps]
      · intro rest
        simp only [List.cons_append, getFilename, if_true, hget rest, List.take_append_drop]
    · rw [if_neg hlong]
      refine ⟨[.nm false false false n], ?_, ?_⟩
      · simp only [parseAll, parseEnt_nmEntry false n (by omega)]
      · intro rest
        simp [getFilename]

/-- **NM round trip**: the NM entries `rockRidgeName.Bytes` makes of ANY non-empty name (one entry up
    to 249 bytes, several flagged "continued" beyond), parsed back by `parseDirectoryEntryExtensions`
    with padding or a shorter tail behind them, give `GetFilename` = the name -/
theorem nm_area_roundtrip (name tail : Bytes) (hn : name ≠ []) (ht : tail.length ≤ 3 ∨ (tail.getD 2 0).toNat < 4) :
    ∃ ps, suspSplit (nmBytes name ++ tail).length (nmBytes name ++ tail) = some (nmEntries name.length name) ∧
      parseAll (nmEntries name.length name) = some ps ∧ getFilename ps = some name := by
  obtain ⟨ps, hps, hget⟩ := getFilename_nmEntries name.length name hn (Nat.le_refl _)
  refine ⟨ps, ?_, hps, by simpa using hget []⟩
  have hok := nmEntries_ok name.length name
  have hcount : (nmEntries name.length name).length ≤ (nmBytes name ++ tail).length := by
    have : ∀ (l : List Bytes), (∀ e ∈ l, EntOK e) → l.length ≤ l.flatten.length := by
      intro l hl
      induction l with
      | nil => simp
      | cons x xs ih =>
        have := (hl x (List.mem_cons_self ..)).1
        have := ih (fun y hy => hl y (List.mem_cons_of_mem _ hy))
        simp only [List.flatten_cons, List.length_append, List.length_cons]
        omega
    have := this _ hok
    simp only [nmBytes, List.length_append]
    omega
  exact suspSplit_flatten _ tail hok ht _ hcount

/-! ### the repaired placement rule keeps every area inside its room -/

theorem sumLen_cons (e : Bytes) (es : List Bytes) : sumLen (e :: es) = e.length + sumLen es := by
  simp [sumLen]

theorem sumLen_flatten (l : List Bytes) : l.flatten.length = sumLen l := by
  induction l with
  | nil => rfl
  | cons x xs ih => simp [sumLen_cons, ih]

/-- what `fitPrefix true` guarantees -/
theorem fitPrefix_reserve (maxSize : Nat) : ∀ (es : List Bytes) (used : Nat),
    es = (fitPrefix true maxSize es used).1 ++ (fitPrefix true maxSize es used).2 ∧
    (used + sumLen es ≤ maxSize → (fitPrefix true maxSize es used).2 = []) ∧
    ((fitPrefix true maxSize es used).2 = [] → used ≤ maxSize → used + sumLen (fitPrefix true maxSize es used).1 ≤ maxSize) ∧
    ((fitPrefix true maxSize es used).2 ≠ [] → (fitPrefix true maxSize es used).1 ≠ [] →
      used + sumLen (fitPrefix true maxSize es used).1 + ceSize ≤ maxSize) := by
  intro es
  induction es with
  | nil => intro used; simp [fitPrefix, sumLen]
  | cons e es ih =>
    intro used
    by_cases hover : used + sumLen (e :: es) > maxSize ∧ used + e.length + ceSize > maxSize
    · have hfp : fitPrefix true maxSize (e :: es) used = ([], e :: es) := by
        simp only [fitPrefix, if_true]; rw [if_pos hover]
      rw [hfp]
      refine ⟨rfl, ?_, ?_, ?_⟩
      · intro h; omega
      · intro h; simp at h
      · intro _ h; simp at h
    · have hfp : fitPrefix true maxSize (e :: es) used =
          ((fitPrefix true maxSize es (used + e.length)).1.cons e, (fitPrefix true maxSize es (used + e.length)).2) := by
        simp only [fitPrefix, if_true]; rw [if_neg hover]
      obtain ⟨i1, i2, i3, i4⟩ := ih (used + e.length)
      rw [hfp]
      simp only [sumLen_cons] at hover ⊢
      refine ⟨by simp only [List.cons_append]; rw [← i1], ?_, ?_, ?_⟩
      · intro h; exact i2 (by omega)
      · intro h hu
        have hue : used + e.length ≤ maxSize := by
          rcases Nat.lt_or_ge maxSize (used + (e.length + sumLen es)) with h1 | h1
          · have : ¬ (used + e.length + ceSize > maxSize) := fun h2 => hover ⟨h1, h2⟩
            omega
          · omega
        have := i3 h hue
        omega
      · intro hne _
        by_cases h1 : (fitPrefix true maxSize es (used + e.length)).1 = []
        · -- e is the last one that stayed: it was accepted because the CE entry still fits behind it
          rw [h1]
          simp only [sumLen, List.map_nil, List.sum_nil, Nat.add_zero]
          rcases Nat.lt_or_ge maxSize (used + (e.length + sumLen es)) with h2 | h2
          · have : ¬ (used + e.length + ceSize > maxSize) := fun h3 => hover ⟨h2, h3⟩
            omega
          · exact absurd (i2 (by omega)) hne
        · have := i4 hne h1
          omega

/-- **with the repaired rule no area outgrows its room**: the record's area is at most `maxSize` bytes
    and every continuation area at most one block (the CE entry included) -/
theorem assemble_reserve_fits (bs : Nat) (hbs : ceSize ≤ bs) : ∀ (fuel : Nat) (exts : List Bytes) (maxSize : Nat) (ce : List Nat)
    (areas : List Bytes), ceSize ≤ maxSize → assemble true bs fuel exts maxSize ce = some areas →
    ∃ a rest, areas = a :: rest ∧ a.length ≤ maxSize ∧ ∀ x ∈ rest, x.length ≤ bs := by
  intro fuel
  induction fuel with
  | zero => intro exts maxSize ce areas _ h; simp [assemble] at h
  | succ f ih =>
    intro exts maxSize ce areas hmax h
    obtain ⟨i1, i2, i3, i4⟩ := fitPrefix_reserve maxSize exts 0
    unfold assemble at h
    generalize hfp : fitPrefix true maxSize exts 0 = fp at h i1 i2 i3 i4
    obtain ⟨fit, rest⟩ := fp
    simp only at i1 i2 i3 i4
    cases rest with
    | nil =>
      simp only [Option.some.injEq] at h
      subst h
      refine ⟨fit.flatten, [], rfl, ?_, by simp⟩
      have := i3 rfl (Nat.zero_le _)
      rw [sumLen_flatten]; omega
    | cons e rest =>
      simp only [↓reduceIte] at h
      by_cases hbig : sumLen fit = 0 ∧ (sumLen (e :: rest) > bs ∧ e.length + ceSize > bs)
      · rw [if_pos hbig] at h; simp at h
      · rw [if_neg hbig] at h
        cases ce with
        | nil => simp at h
        | cons c ce' =>
          simp only at h
          cases hrec : assemble true bs f (e :: rest) bs ce' with
          | none => rw [hrec] at h; simp at h
          | some cont =>
            rw [hrec] at h
            obtain ⟨a, more, hcont, ha, hmore⟩ := ih (e :: rest) bs ce' cont hbs hrec
            subst hcont
            simp only [Option.some.injEq] at h
            subst h
            refine ⟨_, _, rfl, ?_, ?_⟩
            · simp only [List.length_append, sumLen_flatten]
              have hce : (ceEntry c 0 a.length).length = ceSize := by simp [ceEntry, both32, ceSize]
              rw [hce]
              by_cases hf : fit = []
              · subst hf; simp [sumLen]; exact hmax
              · have := i4 (by simp) hf
                omega
            · intro x hx
              simp only [List.mem_cons] at hx
              rcases hx with rfl | hx
              · exact ha
              · exact hmore x hx

end Diskfs.Iso
