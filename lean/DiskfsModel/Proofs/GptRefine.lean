/-
  C09, refinement of the flat byte-level model to the record level (Proofs/GptCrash.lean).

  * `toDisk`: a flat device seen as the record of the five regions `Table.Write` touches, sector by
    sector (`S := Bytes`, one logical sector; arrays of n = 16384/lss sectors).
  * `flatReader`: the record-level `Reader` instantiated with the REAL decoders of the model —
    `readHeader` (readGPTHeader) for both headers, `crc` over the joined array, `decodeArr` for the parts.
  * `read_refines`: `Gpt.read` on the flat device = the record reader on `toDisk` (for devices whose
    header sectors, when they validate, describe the geometry this library writes).
  * torn writes: a sector subset of an in-flight write applied to the flat device is, sector by
    sector, new where kept and old elsewhere (`torn_read`, `torn_miss`, `torn_single`).
-/
import DiskfsModel.Proofs.GptCrash
import DiskfsModel.Proofs.GptValid
set_option linter.unusedSimpArgs false
set_option linter.unusedVariables false
namespace Diskfs.Gpt

/-! ### torn writes on the flat device -/

theorem torn_count (lss n : Nat) (hl : 0 < lss) : (n * lss + lss - 1) / lss = n := by
  have e : n * lss + lss - 1 = (lss - 1) + lss * n := by rw [Nat.mul_comm]; omega
  rw [e, Nat.add_mul_div_left _ _ hl, Nat.div_eq_of_lt (by omega), Nat.zero_add]

/-- the `i`-th sector-sized piece of a write -/
def piece (lss : Nat) (w : Wr) (i : Nat) : Wr := ⟨w.off + i * lss, (w.data.drop (i * lss)).take lss⟩

theorem tornPieces_eq (lss : Nat) (w : Wr) (keep : Nat → Bool) :
    tornPieces lss w keep = (List.range ((w.data.length + lss - 1) / lss)).filterMap
      fun i => if keep i then some (piece lss w i) else none := rfl

theorem piece_length (lss n : Nat) (w : Wr) (hlen : w.data.length = n * lss) (i : Nat) (hi : i < n) :
    (piece lss w i).data.length = lss := by
  simp only [piece, List.length_take, List.length_drop, hlen]
  have : (i + 1) * lss ≤ n * lss := Nat.mul_le_mul_right _ hi
  rw [Nat.add_mul] at this
  omega

theorem piece_data (lss : Nat) (w : Wr) (i : Nat) : (piece lss w i).data = slice w.data (i * lss) (i * lss + lss) := by
  simp [piece, slice]

theorem mem_tornPieces (lss n : Nat) (hl : 0 < lss) (w : Wr) (hlen : w.data.length = n * lss) (keep : Nat → Bool) (p : Wr) :
    p ∈ tornPieces lss w keep ↔ ∃ i, i < n ∧ keep i = true ∧ p = piece lss w i := by
  rw [tornPieces_eq, hlen, torn_count lss n hl]
  simp only [List.mem_filterMap, List.mem_range]
  constructor
  · rintro ⟨i, hi, h⟩
    by_cases hk : keep i = true
    · simp [hk] at h; exact ⟨i, hi, hk, h.symm⟩
    · simp [hk] at h
  · rintro ⟨i, hi, hk, h⟩
    exact ⟨i, hi, by simp [hk, h]⟩

theorem tornPieces_pairwise (lss n : Nat) (hl : 0 < lss) (w : Wr) (hlen : w.data.length = n * lss) (keep : Nat → Bool) :
    (tornPieces lss w keep).Pairwise Disj := by
  rw [tornPieces_eq, hlen, torn_count lss n hl]
  refine List.Pairwise.filterMap _ ?_ (List.pairwise_lt_range (n := n))
  intro i j hij a ha b hb
  by_cases hki : keep i = true
  · by_cases hkj : keep j = true
    · simp only [hki, hkj, if_true, Option.some.injEq] at ha hb
      subst ha hb
      left
      simp only [piece, List.length_take, List.length_drop]
      have : (i + 1) * lss ≤ j * lss := Nat.mul_le_mul_right _ hij
      rw [Nat.add_mul] at this
      omega
    · simp [hkj] at hb
  · simp [hki] at ha

/-- a range outside the in-flight write is not touched by any of its pieces -/
theorem torn_miss (d : Dev) (lss n : Nat) (hl : 0 < lss) (w : Wr) (hlen : w.data.length = n * lss) (keep : Nat → Bool)
    (off len : Nat) (h : off + len ≤ w.off ∨ w.off + w.data.length ≤ off) :
    readAt (applyWrs d (tornPieces lss w keep)) off len = readAt d off len := by
  apply readAt_applyWrs_disjoint
  intro p hp
  obtain ⟨i, hi, _, rfl⟩ := (mem_tornPieces lss n hl w hlen keep p).1 hp
  rw [piece_length lss n w hlen i hi]
  have : (i + 1) * lss ≤ n * lss := Nat.mul_le_mul_right _ hi
  rw [Nat.add_mul] at this
  simp only [piece]
  omega

/-- sector `i` of the in-flight write's range: new where kept, untouched elsewhere (the record level's `mix`) -/
theorem torn_read (d : Dev) (lss n : Nat) (hl : 0 < lss) (w : Wr) (hlen : w.data.length = n * lss) (keep : Nat → Bool)
    (i : Nat) (hi : i < n) :
    readAt (applyWrs d (tornPieces lss w keep)) (w.off + i * lss) lss =
      if keep i then slice w.data (i * lss) (i * lss + lss) else readAt d (w.off + i * lss) lss := by
  by_cases hk : keep i = true
  · simp only [hk, if_true]
    have hm : piece lss w i ∈ tornPieces lss w keep := (mem_tornPieces lss n hl w hlen keep _).2 ⟨i, hi, hk, rfl⟩
    have := readAt_applyWrs_mem d _ (tornPieces_pairwise lss n hl w hlen keep) _ hm
    rw [piece_length lss n w hlen i hi, piece_data] at this
    exact this
  · simp only [hk, Bool.false_eq_true, if_false]
    apply readAt_applyWrs_disjoint
    intro p hp
    obtain ⟨j, hj, hkj, rfl⟩ := (mem_tornPieces lss n hl w hlen keep p).1 hp
    rw [piece_length lss n w hlen j hj]
    simp only [piece]
    have hne : i ≠ j := by intro e; subst e; exact hk hkj
    rcases Nat.lt_or_gt_of_ne hne with h | h
    · left
      have : (i + 1) * lss ≤ j * lss := Nat.mul_le_mul_right _ h
      rw [Nat.add_mul] at this
      omega
    · right
      have : (j + 1) * lss ≤ i * lss := Nat.mul_le_mul_right _ h
      rw [Nat.add_mul] at this
      omega

/-- a write that fits one sector is atomic: all of it or nothing -/
theorem torn_single (lss : Nat) (w : Wr) (keep : Nat → Bool) (h1 : 0 < w.data.length) (h2 : w.data.length ≤ lss) :
    tornPieces lss w keep = if keep 0 then [w] else [] := by
  have hc : (w.data.length + lss - 1) / lss = 1 := Nat.div_eq_of_lt_le (by omega) (by omega)
  rw [tornPieces_eq, hc]
  have hp : piece lss w 0 = w := by
    cases w
    simp only [piece, Nat.zero_mul, Nat.add_zero, List.drop_zero]
    congr 1
    exact List.take_of_length_le h2
  simp only [List.range_one, List.filterMap_cons, List.filterMap_nil, hp]
  cases keep 0 <;> simp

end Diskfs.Gpt

namespace Diskfs.GptCrash
open Diskfs Diskfs.Gpt

/-! ### the flat device as a record, and the reader instantiated with the real decoders -/

/-- byte offset of the backup array / the backup header on a device of `size` bytes -/
def oBA (size lss : Nat) : Nat := (size / lss - 1 - 16384 / lss) * lss
def oBH (size lss : Nat) : Nat := (size / lss - 1) * lss

def toDisk (d : Dev) (size lss : Nat) : Disk Bytes (16384 / lss) :=
  { mbr := readAt d 0 lss, ph := readAt d lss lss,
    pa := fun i => readAt d (2 * lss + i.val * lss) lss,
    ba := fun i => readAt d (oBA size lss + i.val * lss) lss,
    bh := readAt d (oBH size lss) lss }

/-- the sectors of an array, concatenated -/
def join {n : Nat} (a : Fin n → Bytes) : Bytes :=
  (List.range n).flatMap fun i => if h : i < n then a ⟨i, h⟩ else []

/-- the record-level reader built from the model's real decoders: `readHeader` (signature, revision,
    size, header CRC) plus the geometry the library writes — primary array at LBA 2, backup header saying
    it lives at the last LBA with its array right before it, 128 entries of 128 bytes —, the CRC of the
    16 KiB array, and `decodeArr` for the partition list -/
def flatReader (crc : Bytes → Nat) (size lss : Nat) : Reader Bytes (List Part) (16384 / lss) :=
  { hdrP := fun s => match readHeader crc s with
      | .ok h => if h.arrLBA = 2 ∧ h.count = 128 ∧ h.entSize = 128 then some h.arrCrc else none
      | _ => none,
    hdrB := fun s => match readHeader crc s with
      | .ok h => if h.myLBA = size / lss - 1 ∧ h.arrLBA = size / lss - 1 - 16384 / lss ∧ h.count = 128 ∧ h.entSize = 128
                 then some h.arrCrc else none
      | _ => none,
    crc := fun a => crc (join a),
    parts := fun a => decodeArr (join a) lss }

theorem join_readAt (d : Dev) (off lss n : Nat) :
    join (n := n) (fun i => readAt d (off + i.val * lss) lss) = readAt d off (n * lss) := by
  unfold join
  have : ∀ m, m ≤ n → (List.range m).flatMap (fun i => if h : i < n then readAt d (off + i * lss) lss else [])
      = readAt d off (m * lss) := by
    intro m
    induction m with
    | zero => intro _; simp [readAt]
    | succ m ih =>
      intro hm
      rw [List.range_succ, List.flatMap_append, ih (by omega), Nat.succ_mul, readAt_append]
      simp [show m < n by omega]
  exact this n (Nat.le_refl n)

theorem nsec_mul (lss : Nat) (hl : lss = 512 ∨ lss = 4096) : 16384 / lss * lss = 16384 := by
  rcases hl with h | h <;> subst h <;> rfl

theorem toDisk_pa_join (d : Dev) (size lss : Nat) (hl : lss = 512 ∨ lss = 4096) :
    join (toDisk d size lss).pa = readAt d (2 * lss) 16384 := by
  have := join_readAt d (2 * lss) lss (16384 / lss)
  rw [nsec_mul lss hl] at this
  exact this

theorem toDisk_ba_join (d : Dev) (size lss : Nat) (hl : lss = 512 ∨ lss = 4096) :
    join (toDisk d size lss).ba = readAt d (oBA size lss) 16384 := by
  have := join_readAt d (oBA size lss) lss (16384 / lss)
  rw [nsec_mul lss hl] at this
  exact this

/-! ### gpt.Read on the flat device, step by step -/

/-- what a caller of gpt.Read observes that C09 is about: the partition list and which copy it came from -/
def outOf (r : Res Table) : Out (List Part) :=
  match r with
  | .ok t => .ok t.parts t.backup
  | _ => .err

/-- loadEntries for a 128 × 128 array at LBA `L` inside the device -/
theorem loadEntries_at (c : Cfg) (crc : Bytes → Nat) (dev : Dev) (size lss L : Nat) (tt : Table)
    (hlss : lss = 512 ∨ lss = 4096) (h1 : tt.firstLBA = L) (h2 : tt.arrCount = 128) (h3 : tt.entSize = 128)
    (hfit : L * lss + 16384 ≤ size) (hsz : size < two63) :
    (loadEntries c crc dev size tt lss).1 =
      if tt.arrCrc = crc (readAt dev (L * lss) 16384) then .ok { tt with parts := decodeArr (readAt dev (L * lss) 16384) lss }
      else .err true := by
  have hlpos : 0 < lss := by rcases hlss with h | h <;> omega
  have hL : L ≤ L * lss := Nat.le_mul_of_pos_right _ hlpos
  unfold loadEntries
  rw [h1, h2, h3]
  have hst : toI64 (toI64 ((L : Nat) : Int) * (lss : Int)) = ((L * lss : Nat) : Int) := by
    rw [toI64_of_lt _ (by omega), toI64_mul_nat _ _ (by omega)]
  have hsz' : toI64 (((128 : Nat) : Int) * ((128 : Nat) : Int)) = 16384 := by
    simp [toI64, two64, two63]
  simp only [hst, hsz']
  have c1' : (c.arrayBounded && (decide (((L * lss : Nat) : Int) < 0) || decide ((16384 : Int) < 0) ||
      decide ((16384 : Int) > maxArrayBytes) || decide (((L * lss : Nat) : Int) + 16384 > (size : Int)))) = false := by
    have a1 : decide (((L * lss : Nat) : Int) < 0) = false := by simp; omega
    have a2 : decide ((16384 : Int) < 0) = false := by decide
    have a3 : decide ((16384 : Int) > maxArrayBytes) = false := by simp [maxArrayBytes]
    have a4 : decide (((L * lss : Nat) : Int) + 16384 > (size : Int)) = false := by simp; omega
    rw [a1, a2, a3, a4]; simp
  rw [c1']
  simp only [Bool.false_eq_true, if_false]
  have c2 : ¬ ((16384 : Int) < 0 ∨ (16384 : Int) > maxAlloc) := by simp [maxAlloc]
  rw [if_neg c2]
  have c3 : ¬ (((L * lss : Nat) : Int) < 0) := by omega
  rw [if_neg c3]
  have c4 : ¬ (((L * lss : Nat) : Int) ≥ (size : Int) ∨ ((L * lss : Nat) : Int) + 16384 > (size : Int)) := by omega
  rw [if_neg c4]
  have e1 : (((L * lss : Nat) : Int)).toNat = L * lss := Int.toNat_natCast _
  have e2 : ((16384 : Int)).toNat = 16384 := by decide
  rw [e1, e2]
  by_cases hc : tt.arrCrc = crc (readAt dev (L * lss) 16384)
  · simp [hc, readArr]
  · simp [hc]

/-- geometry premise: a sector at LBA 1 that readGPTHeader accepts describes the array this library writes -/
def PStd (crc : Bytes → Nat) (d : Dev) (lss : Nat) : Prop :=
  ∀ h, readHeader crc (readAt d lss lss) = .ok h → h.arrLBA = 2 ∧ h.count = 128 ∧ h.entSize = 128

/-- …and one at the last LBA that says it lives there describes the backup array this library writes -/
def BStd (crc : Bytes → Nat) (d : Dev) (size lss : Nat) : Prop :=
  ∀ h, readHeader crc (readAt d (oBH size lss) lss) = .ok h → h.myLBA = size / lss - 1 →
    h.arrLBA = size / lss - 1 - 16384 / lss ∧ h.count = 128 ∧ h.entSize = 128

theorem readPrimary_fst (c : Cfg) (crc : Bytes → Nat) (d : Dev) (size lss : Nat) (h2 : ¬ size < lss * 2) :
    (Gpt.readPrimary c crc d size lss).1 =
      match readHeader crc (readAt d lss lss) with
      | .ok h => (loadEntries c crc d size
          (tableOfHdr h lss (readPMBR ((readAt d 0 (lss * 2)).take lss) (pmbrSectors c h.altLBA))) lss).1
      | .err _ => .err true
      | .panic s => .panic s := by
  unfold Gpt.readPrimary
  simp only [h2, if_false]
  rw [sl_ok _ lss (lss * 2) _ (by omega) (by simp)]
  simp only
  rw [slice_readAt d 0 (lss * 2) lss (lss * 2) (by omega) (by omega)]
  have e : lss * 2 - lss = lss := by omega
  rw [e, Nat.zero_add]
  cases readHeader crc (readAt d lss lss) <;> rfl

theorem readBackup_fst' (c : Cfg) (crc : Bytes → Nat) (d : Dev) (size lss sec o : Nat)
    (hoff : toI64 ((sec : Int) * (lss : Int)) = ((o : Nat) : Int)) (hfit : o + lss ≤ size) :
    (Gpt.readBackup c crc d size lss sec).1 =
      match readHeader crc (readAt d o lss) with
      | .ok h =>
        if h.myLBA ≠ sec then .err false else
        match (loadEntries c crc d size (tableOfHdr { h with myLBA := h.altLBA, altLBA := h.myLBA } lss
            (if size < lss then false else readPMBR (readAt d 0 lss) (pmbrSectors c h.myLBA))) lss).1 with
        | .ok t => .ok t
        | .err _ => .err false
        | .panic s => .panic s
      | .err _ => .err false
      | .panic s => .panic s := by
  unfold Gpt.readBackup
  simp only [hoff]
  have c1 : ¬ (((o : Nat) : Int) < 0 ∨ ((o : Nat) : Int) + (lss : Int) > (size : Int)) := by omega
  rw [if_neg c1, Int.toNat_natCast]
  cases hrh : readHeader crc (readAt d o lss) with
  | panic s => rfl
  | err e => rfl
  | ok h =>
    simp only
    by_cases hm : h.myLBA = sec
    · simp only [hm, ne_eq, not_true_eq_false, if_false]
      generalize loadEntries c crc d size _ lss = le
      obtain ⟨r, al⟩ := le
      cases r <;> rfl
    · simp only [hm, ne_eq, not_false_eq_true, if_true]

theorem u64sub_one (q : Nat) (h1 : 1 ≤ q) (hq : q < two64) : u64sub q 1 = q - 1 := by
  unfold u64sub
  rw [Nat.mod_eq_of_lt hq, show (1 % two64) = 1 from rfl]
  have e : q + two64 - 1 = (q - 1) + two64 := by omega
  rw [e, Nat.add_mod_right, Nat.mod_eq_of_lt (by omega)]

theorem readBackup_fst (c : Cfg) (crc : Bytes → Nat) (d : Dev) (size lss : Nat) (hl : 0 < lss)
    (h1 : 1 ≤ size / lss) (hsz : size < two63) :
    (Gpt.readBackup c crc d size lss (u64sub (size / lss) 1)).1 =
      match readHeader crc (readAt d (oBH size lss) lss) with
      | .ok h =>
        if h.myLBA ≠ size / lss - 1 then .err false else
        match (loadEntries c crc d size (tableOfHdr { h with myLBA := h.altLBA, altLBA := h.myLBA } lss
            (if size < lss then false else readPMBR (readAt d 0 lss) (pmbrSectors c h.myLBA))) lss).1 with
        | .ok t => .ok t
        | .err _ => .err false
        | .panic s => .panic s
      | .err _ => .err false
      | .panic s => .panic s := by
  have hdl : size / lss ≤ size := Nat.div_le_self _ _
  have hsec : u64sub (size / lss) 1 = size / lss - 1 :=
    u64sub_one _ h1 (by simp only [two64, two63] at *; omega)
  have hmul : size / lss * lss ≤ size := Nat.div_mul_le_self _ _
  have hb : (size / lss - 1) * lss + lss ≤ size := by
    have : (size / lss - 1) * lss + lss = (size / lss - 1 + 1) * lss := by rw [Nat.add_mul, Nat.one_mul]
    rw [this, show size / lss - 1 + 1 = size / lss by omega]
    exact hmul
  have hoff : toI64 (((size / lss - 1 : Nat) : Int) * (lss : Int)) = ((oBH size lss : Nat) : Int) := by
    rw [toI64_mul_nat _ _ (by omega)]; rfl
  rw [hsec]
  exact readBackup_fst' c crc d size lss (size / lss - 1) (oBH size lss) hoff hb

/-- the backup branch of gpt.Read on the flat device is the record-level `readBackup` -/
theorem backup_refines (c : Cfg) (crc : Bytes → Nat) (d : Dev) (size lss : Nat) (hl : lss = 512 ∨ lss = 4096)
    (hmin : (2 * (16384 / lss) + 3) * lss ≤ size) (hsz : size < two63) (hB : BStd crc d size lss) (al : List Int) :
    outOf (backupResult al (Gpt.readBackup c crc d size lss (u64sub (size / lss) 1))).1 =
      GptCrash.readBackup (flatReader crc size lss) (toDisk d size lss) := by
  have hlpos : 0 < lss := by rcases hl with h | h <;> omega
  have hq : 2 * (16384 / lss) + 3 ≤ size / lss := (Nat.le_div_iff_mul_le hlpos).2 hmin
  have hmul : size / lss * lss ≤ size := Nat.div_mul_le_self _ _
  have hp : 16384 / lss * lss = 16384 := nsec_mul lss hl
  have hfit : (size / lss - 1 - 16384 / lss) * lss + 16384 ≤ size := by
    have : (size / lss - 1 - 16384 / lss) * lss + 16384 / lss * lss ≤ size / lss * lss := by
      rw [← Nat.add_mul]; exact Nat.mul_le_mul_right _ (by omega)
    omega
  have hfst : ∀ x : Res Table × List Int, (backupResult al x).1 =
      match x.1 with | .ok t => .ok { t with backup := true } | .err _ => .err false | .panic s => .panic s := by
    intro x; obtain ⟨r, a⟩ := x; cases r <;> rfl
  rw [hfst, readBackup_fst c crc d size lss hlpos (by omega) hsz]
  unfold GptCrash.readBackup
  have hbh : (toDisk d size lss).bh = readAt d (oBH size lss) lss := rfl
  have hnp := readHeader_no_panic crc (readAt d (oBH size lss) lss) (by simp; rcases hl with h | h <;> omega)
  simp only [flatReader, hbh]
  cases hrh : readHeader crc (readAt d (oBH size lss) lss) with
  | panic s => rw [hrh] at hnp; simp [Res.isPanic] at hnp
  | err e => simp [outOf]
  | ok h =>
    simp only
    by_cases hm : h.myLBA = size / lss - 1
    · obtain ⟨g1, g2, g3⟩ := hB h hrh hm
      have hle := loadEntries_at c crc d size lss (size / lss - 1 - 16384 / lss)
        (tableOfHdr { h with myLBA := h.altLBA, altLBA := h.myLBA } lss
          (if size < lss then false else readPMBR (readAt d 0 lss) (pmbrSectors c h.myLBA)))
        hl g1 g2 g3 hfit hsz
      rw [hle]
      simp only [hm, g1, g2, g3, ne_eq, not_true_eq_false, if_false, and_self, if_true, tableOfHdr]
      have hj : join (toDisk d size lss).ba = readAt d ((size / lss - 1 - 16384 / lss) * lss) 16384 := toDisk_ba_join d size lss hl
      simp only [hj]
      by_cases hc : h.arrCrc = crc (readAt d ((size / lss - 1 - 16384 / lss) * lss) 16384)
      · simp [hc, outOf]
      · have hc' : ¬ crc (readAt d ((size / lss - 1 - 16384 / lss) * lss) 16384) = h.arrCrc := fun e => hc e.symm
        simp [hc, hc', outOf]
    · simp [hm, outOf]

/-- REFINEMENT: gpt.Read on the flat device (LBA arithmetic, `readHeader`, `loadEntries`, fallback to the
    backup at the last LBA on a content error) equals the record-level reader instantiated with the
    real decoders, on the record view of the device -/
theorem read_refines (c : Cfg) (crc : Bytes → Nat) (d : Dev) (size lss : Nat) (hl : lss = 512 ∨ lss = 4096)
    (hmin : (2 * (16384 / lss) + 3) * lss ≤ size) (hsz : size < two63)
    (hP : PStd crc d lss) (hB : BStd crc d size lss) :
    outOf (Gpt.read c crc d size lss).1 = GptCrash.read (flatReader crc size lss) (toDisk d size lss) := by
  have hlpos : 0 < lss := by rcases hl with h | h <;> omega
  have hq : 2 * (16384 / lss) + 3 ≤ size / lss := (Nat.le_div_iff_mul_le hlpos).2 hmin
  have hp : 16384 / lss * lss = 16384 := nsec_mul lss hl
  have h2 : ¬ size < lss * 2 := by
    have : 3 * lss ≤ (2 * (16384 / lss) + 3) * lss := Nat.mul_le_mul_right _ (by omega)
    omega
  have hfit : 2 * lss + 16384 ≤ size := by
    have : (2 + 16384 / lss) * lss ≤ (2 * (16384 / lss) + 3) * lss := Nat.mul_le_mul_right _ (by omega)
    rw [Nat.add_mul, hp] at this
    omega
  have hbk := backup_refines c crc d size lss hl hmin hsz hB
  have hnp := readHeader_no_panic crc (readAt d lss lss) (by simp; rcases hl with h | h <;> omega)
  have hp1 := readPrimary_fst c crc d size lss h2
  unfold Gpt.read
  unfold GptCrash.read
  have hph : (toDisk d size lss).ph = readAt d lss lss := rfl
  generalize hrp : Gpt.readPrimary c crc d size lss = rp at hp1
  obtain ⟨r, al⟩ := rp
  simp only at hp1
  cases hrh : readHeader crc (readAt d lss lss) with
  | panic s => rw [hrh] at hnp; simp [Res.isPanic] at hnp
  | err e =>
    rw [hrh] at hp1
    simp only at hp1
    subst hp1
    simp only [h2, if_false, flatReader, hph, hrh]
    exact hbk al
  | ok h =>
    rw [hrh] at hp1
    simp only at hp1
    obtain ⟨g1, g2, g3⟩ := hP h hrh
    have hle := loadEntries_at c crc d size lss 2
      (tableOfHdr h lss (readPMBR ((readAt d 0 (lss * 2)).take lss) (pmbrSectors c h.altLBA))) hl g1 g2 g3 hfit hsz
    rw [hle] at hp1
    have hj : join (toDisk d size lss).pa = readAt d (2 * lss) 16384 := toDisk_pa_join d size lss hl
    simp only [flatReader, hph, hrh, g1, g2, g3, and_self, if_true, hj]
    simp only [tableOfHdr] at hp1
    by_cases hc : h.arrCrc = crc (readAt d (2 * lss) 16384)
    · simp only [hc, if_true] at hp1
      subst hp1
      simp [hc, outOf]
    · simp only [hc, if_false] at hp1
      subst hp1
      have hc' : ¬ crc (readAt d (2 * lss) 16384) = h.arrCrc := fun e => hc e.symm
      simp only [h2, if_false, hc', if_false]
      exact hbk al

end Diskfs.GptCrash
