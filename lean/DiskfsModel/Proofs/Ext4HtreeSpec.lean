/-
  C20 helper lemmas: hash-indexed directories.  What the Go reader's hash-tree walk returns equals, up to order,
  what the SPEC reader's linear rec_len walk returns over the leaf blocks (Props/C20 htree_equals_spec_linear).
-/
import DiskfsModel.Proofs.Ext4DirNow
namespace Diskfs.Ext4.Reader
open Diskfs.Ext4.Spec

/-- on a tiling block the earlier mirror of the entry loop (Model/Ext4/Reader.lean parseEntries, repaired name
    bound) and the mirror of the loop as it is now return the same entries -/
theorem parseEntries_eq_now : ∀ (n : Nat) (r : Bytes), r.length ≤ n → Tiles r →
    ∀ (f1 f2 : Nat), r.length < 12 * f1 → r.length < 12 * f2 →
    parseEntries Cfg.fixed f1 r = parseEntriesNow f2 r := by
  intro n
  induction n with
  | zero =>
    intro r hr _ f1 f2 h1 h2
    have : r = [] := List.eq_nil_of_length_eq_zero (by omega)
    subst this
    cases f1 with
    | zero => simp at h1
    | succ f1 =>
      cases f2 with
      | zero => simp at h2
      | succ f2 => simp [parseEntries, parseEntriesNow]
  | succ n ih =>
    intro r hr ht f1 f2 h1 h2
    cases ht with
    | nil =>
      cases f1 with
      | zero => simp at h1
      | succ f1 =>
        cases f2 with
        | zero => simp at h2
        | succ f2 => simp [parseEntries, parseEntriesNow]
    | cons _ h12 h4 hlen hname rest =>
      cases f1 with
      | zero => omega
      | succ f1 =>
        cases f2 with
        | zero => omega
        | succ f2 =>
          have hne : r.isEmpty = false := by
            cases r with
            | nil => simp at hlen; omega
            | cons _ _ => rfl
          have hl6 : hasLen r 6 = true := (hasLen_iff r 6).2 (by omega)
          have hl12 : hasLen r 12 = true := (hasLen_iff r 12).2 (by omega)
          have hll : hasLen r (le16 r 4) = true := (hasLen_iff r _).2 hlen
          have hlh : hasLen r (8 + u8 r 6) = true := (hasLen_iff r _).2 (by omega)
          have hdl : (r.drop (le16 r 4)).length = r.length - le16 r 4 := by simp
          have ihr := ih (r.drop (le16 r 4)) (by omega) rest f1 f2 (by omega) (by omega)
          rw [parseEntries, parseEntriesNow]
          have hw : Cfg.fixed.dirNameLenWide = true := rfl
          simp only [hne, hl6, hl12, hll, hlh, Bool.false_eq_true, if_false, Bool.not_true, hw, if_true, ihr]
          rw [if_neg (by omega), if_neg (by omega),
            if_neg (by intro h; rcases h with h | h | h <;> first | omega | exact h)]
          cases parseEntriesNow f2 (List.drop (le16 r 4) r) <;> rfl

theorem slice_append_left (a b : Bytes) (lo hi : Nat) (h : hi ≤ a.length) : slice (a ++ b) lo hi = slice a lo hi := by
  unfold slice
  by_cases hl : lo ≤ a.length
  · rw [List.drop_append_of_le_length hl, List.take_append_of_le_length (by simp; omega)]
  · have : hi - lo = 0 := by omega
    simp [this]

theorem le16_append_left (a b : Bytes) (o : Nat) (h : o + 2 ≤ a.length) : le16 (a ++ b) o = le16 a o := by
  unfold le16; rw [slice_append_left a b o (o + 2) h]

theorem le32_append_left (a b : Bytes) (o : Nat) (h : o + 4 ≤ a.length) : le32 (a ++ b) o = le32 a o := by
  unfold le32; rw [slice_append_left a b o (o + 4) h]

theorem u8_append_left (a b : Bytes) (o : Nat) (h : o < a.length) : u8 (a ++ b) o = u8 a o := by
  unfold u8
  simp [List.getD_eq_getElem?_getD, List.getElem?_append_left h]

theorem tiles_append (b : Bytes) (hb : Tiles b) : ∀ (a : Bytes), Tiles a → Tiles (a ++ b) := by
  intro a ha
  induction ha with
  | nil => simpa using hb
  | cons r h12 h4 hlen hname rest ih =>
    have e16 : le16 (r ++ b) 4 = le16 r 4 := le16_append_left r b 4 (by omega)
    have e8 : u8 (r ++ b) 6 = u8 r 6 := u8_append_left r b 6 (by omega)
    refine Tiles.cons _ (by rw [e16]; exact h12) (by rw [e16]; exact h4) (by rw [e16]; simp; omega)
      (by rw [e16, e8]; exact hname) ?_
    rw [e16, List.drop_append_of_le_length hlen]
    exact ih

theorem parse_append (b : Bytes) (esb : List DirEnt) : ∀ (a : Bytes), Tiles a →
    ∀ (f fa fb : Nat), a.length < 12 * fa → fa + fb ≤ f → parseEntriesNow fb b = .ok esb →
    (∀ g, fb ≤ g → parseEntriesNow g b = .ok esb) →
    ∃ esa, parseEntriesNow fa a = .ok esa ∧ parseEntriesNow f (a ++ b) = .ok (esa ++ esb) := by
  intro a ha
  induction ha with
  | nil =>
    intro f fa fb h1 h2 hb hmono
    cases fa with
    | zero => simp at h1
    | succ fa =>
      refine ⟨[], by simp [parseEntriesNow], ?_⟩
      simpa using hmono f (by omega)
  | cons r h12 h4 hlen hname rest ih =>
    intro f fa fb h1 h2 hb hmono
    cases fa with
    | zero => omega
    | succ fa =>
      cases f with
      | zero => omega
      | succ f =>
        have hdl : (r.drop (le16 r 4)).length = r.length - le16 r 4 := by simp
        obtain ⟨esr, hr1, hr2⟩ := ih f fa fb (by omega) (by omega) hb hmono
        have hne : r.isEmpty = false := by
          cases r with
          | nil => simp at hlen; omega
          | cons _ _ => rfl
        have hne2 : (r ++ b).isEmpty = false := by
          cases r with
          | nil => simp at hlen; omega
          | cons _ _ => rfl
        have hl12 : hasLen r 12 = true := (hasLen_iff r 12).2 (by omega)
        have hll : hasLen r (le16 r 4) = true := (hasLen_iff r _).2 hlen
        have hl12' : hasLen (r ++ b) 12 = true := (hasLen_iff _ 12).2 (by simp; omega)
        have hll' : hasLen (r ++ b) (le16 r 4) = true := (hasLen_iff _ _).2 (by simp; omega)
        have e16 : le16 (r ++ b) 4 = le16 r 4 := le16_append_left r b 4 (by omega)
        have e32 : le32 (r ++ b) 0 = le32 r 0 := le32_append_left r b 0 (by omega)
        have e6 : u8 (r ++ b) 6 = u8 r 6 := u8_append_left r b 6 (by omega)
        have e7 : u8 (r ++ b) 7 = u8 r 7 := u8_append_left r b 7 (by omega)
        have esl : slice (r ++ b) 8 (8 + u8 r 6) = slice r 8 (8 + u8 r 6) := slice_append_left r b 8 _ (by omega)
        refine ⟨⟨le32 r 0, u8 r 7, slice r 8 (8 + u8 r 6)⟩ :: esr, ?_, ?_⟩
        · rw [parseEntriesNow]
          simp only [hne, hl12, hll, Bool.false_eq_true, if_false, Bool.not_true, hr1]
          rw [if_neg (by intro h; rcases h with h | h | h <;> first | omega | exact h)]
        · rw [parseEntriesNow]
          simp only [hne2, hl12', e16, hll', e32, e6, e7, esl, Bool.false_eq_true, if_false, Bool.not_true]
          rw [if_neg (by intro h; rcases h with h | h | h <;> first | omega | exact h)]
          rw [List.drop_append_of_le_length hlen, hr2]
          rfl

/-- block `b` of the directory data -/
def dirBlock (bs : Nat) (data : Bytes) (b : Nat) : Bytes := slice data (b * bs) (b * bs + bs)

theorem mapRes_ok_of_forall {α β : Type} (f : α → Res β) (g : α → β) :
    ∀ (xs : List α), (∀ x ∈ xs, f x = .ok (g x)) → mapRes f xs = .ok (xs.map g) := by
  intro xs
  induction xs with
  | nil => intro _; rfl
  | cons x xs ih =>
    intro h
    rw [mapRes, h x (List.mem_cons_self ..), ih (fun y hy => h y (List.mem_cons_of_mem _ hy))]
    rfl

theorem liveEntries_flatten (xss : List (List DirEnt)) :
    liveEntries xss.flatten = (xss.map liveEntries).flatten := by
  induction xss with
  | nil => rfl
  | cons xs xss ih =>
    simp only [List.flatten_cons, List.map_cons]
    rw [← ih]
    simp [liveEntries, List.filter_append]


/-! ### leaves with and without the checksum tail -/

/-- the 12-byte checksum tail of a leaf block as a directory record: inode 0, rec_len 12, no name -/
def CsTail (t : Bytes) : Prop := t.length = 12 ∧ le32 t 0 = 0 ∧ le16 t 4 = 12 ∧ u8 t 6 = 0

/-- what parseDirEntriesLinear parses of a block: with metadata_csum everything in front of the tail -/
def leafBody (csum : Bool) (bs : Nat) (blk : Bytes) : Bytes := if csum then blk.take (bs - 12) else blk

/-- a well-formed leaf: the records tile the block (with metadata_csum: tile the part in front of the tail, and
    the tail is there) -/
def LeafOK (csum : Bool) (bs : Nat) (blk : Bytes) : Prop :=
  if csum then 12 ≤ bs ∧ Tiles (blk.take (bs - 12)) ∧ CsTail (blk.drop (bs - 12)) else Tiles blk

/-- the records of block `b` as the mirror of the loop (as it is now) returns them; [] where it fails -/
def leafEntriesNow (csum : Bool) (bs : Nat) (data : Bytes) (b : Nat) : List DirEnt :=
  match parseEntriesNow (bs / 8 + 2) (leafBody csum bs (dirBlock bs data b)) with
  | .ok es => es
  | _ => []

theorem parseEntriesNow_fuel (r : Bytes) (ht : Tiles r) (f1 f2 : Nat) (h1 : r.length < 12 * f1)
    (h2 : r.length < 12 * f2) : parseEntriesNow f1 r = parseEntriesNow f2 r := by
  rw [← parseEntries_eq_now _ r (Nat.le_refl _) ht (r.length + 1) f1 (by omega) h1,
    ← parseEntries_eq_now _ r (Nat.le_refl _) ht (r.length + 1) f2 (by omega) h2]

theorem csTail_tiles (t : Bytes) (h : CsTail t) : Tiles t := by
  obtain ⟨hl, _, h16, h6⟩ := h
  refine Tiles.cons t (by omega) (by omega) (by omega) (by omega) ?_
  have : t.drop (le16 t 4) = [] := by
    apply List.drop_eq_nil_of_le; omega
  rw [this]; exact Tiles.nil

theorem csTail_parse (t : Bytes) (h : CsTail t) (g : Nat) (hg : 2 ≤ g) :
    parseEntriesNow g t = .ok [⟨0, u8 t 7, []⟩] := by
  obtain ⟨hl, h32, h16, h6⟩ := h
  obtain ⟨g', rfl⟩ : ∃ g', g = g' + 2 := ⟨g - 2, by omega⟩
  have hne : t.isEmpty = false := by
    cases t with
    | nil => simp at hl
    | cons _ _ => rfl
  have hl12 : hasLen t 12 = true := (hasLen_iff t 12).2 (by omega)
  have hd : t.drop 12 = [] := List.drop_eq_nil_of_le (by omega)
  rw [parseEntriesNow]
  simp only [hne, hl12, h16, h6, h32, Bool.false_eq_true, if_false, Bool.not_true, hd]
  rw [if_neg (by intro h; rcases h with h | h | h <;> first | omega | exact h)]
  simp [parseEntriesNow, slice]

/-- a well-formed leaf block: the mirror of the linear parse (tail stripped with metadata_csum) and the SPEC walk
    of the whole block -/
theorem leaf_ok (csum : Bool) (bs : Nat) (data : Bytes) (b : Nat) (hin : b * bs + bs ≤ data.length)
    (ht : LeafOK csum bs (dirBlock bs data b)) :
    leafAt Cfg.fixed csum bs data b = .ok (leafEntriesNow csum bs data b) ∧
    dirWalk bs (bs / 8 + 2) (dirBlock bs data b) 0 [] = .ok (liveEntries (leafEntriesNow csum bs data b)) := by
  have hl : (dirBlock bs data b).length = bs := by
    unfold dirBlock; rw [slice_length _ _ _ (by omega) hin]; omega
  cases csum with
  | false =>
    have ht' : Tiles (dirBlock bs data b) := by simpa [LeafOK] using ht
    obtain ⟨es, h1, h2⟩ := tiles_walk bs _ (dirBlock bs data b) (Nat.le_refl _) ht' (bs / 8 + 2) (bs / 8 + 2) 0 []
      (by omega) (by omega) (by omega)
    have hle : leafEntriesNow false bs data b = es := by
      unfold leafEntriesNow leafBody; simp only [Bool.false_eq_true, if_false]; rw [h1]
    constructor
    · unfold leafAt
      rw [if_neg (by omega)]
      unfold parseLinear
      simp only [Bool.false_eq_true, if_false]
      show parseEntries Cfg.fixed ((dirBlock bs data b).length + 1) (dirBlock bs data b) = _
      rw [parseEntries_eq_now _ _ (Nat.le_refl _) ht' ((dirBlock bs data b).length + 1) (bs / 8 + 2) (by omega)
        (by omega), h1, hle]
    · rw [hle]; simpa using h2
  | true =>
    obtain ⟨h12, htb, htt⟩ : 12 ≤ bs ∧ Tiles ((dirBlock bs data b).take (bs - 12)) ∧
        CsTail ((dirBlock bs data b).drop (bs - 12)) := by simpa [LeafOK] using ht
    generalize hblk : dirBlock bs data b = blk at *
    have hsplit : blk = blk.take (bs - 12) ++ blk.drop (bs - 12) := (List.take_append_drop _ _).symm
    have hbl : (blk.take (bs - 12)).length = bs - 12 := by simp; omega
    -- the mirror: tail stripped, then the loop over the body
    obtain ⟨esa, ha1, ha2⟩ := parse_append (blk.drop (bs - 12)) [⟨0, u8 (blk.drop (bs - 12)) 7, []⟩]
      (blk.take (bs - 12)) htb (bs / 8 + 2) ((bs - 12) / 12 + 1) 2 (by omega) (by omega)
      (csTail_parse _ htt 2 (Nat.le_refl _)) (fun g hg => csTail_parse _ htt g hg)
    rw [← hsplit] at ha2
    have hbody : parseEntriesNow (bs / 8 + 2) (blk.take (bs - 12)) = .ok esa := by
      rw [parseEntriesNow_fuel _ htb (bs / 8 + 2) ((bs - 12) / 12 + 1) (by omega) (by omega), ha1]
    have hle : leafEntriesNow true bs data b = esa := by
      unfold leafEntriesNow leafBody; simp only [if_true]; rw [hblk, hbody]
    -- the SPEC walk over the whole block
    have htw : Tiles blk := by rw [hsplit]; exact tiles_append _ (csTail_tiles _ htt) _ htb
    obtain ⟨es, h1, h2⟩ := tiles_walk bs _ blk (Nat.le_refl _) htw (bs / 8 + 2) (bs / 8 + 2) 0 []
      (by omega) (by omega) (by omega)
    have hes : es = esa ++ [⟨0, u8 (blk.drop (bs - 12)) 7, []⟩] := by
      rw [h1] at ha2; simpa using ha2
    constructor
    · unfold leafAt
      rw [if_neg (by omega)]
      show parseLinear Cfg.fixed true bs (dirBlock bs data b) = _
      rw [hblk]
      unfold parseLinear
      simp only [if_true]
      rw [if_neg (by omega)]
      have hstrip : stripTails (blk.length + 1) bs blk = .ok (blk.take (bs - 12)) := by
        have hne : blk.isEmpty = false := by
          cases blk with
          | nil => simp at hl; omega
          | cons _ _ => rfl
        have hlb : hasLen blk bs = true := (hasLen_iff blk bs).2 (by omega)
        have hd : blk.drop bs = [] := List.drop_eq_nil_of_le (by omega)
        rw [stripTails]
        simp only [hne, hlb, hd, Bool.false_eq_true, if_false, Bool.not_true]
        obtain ⟨k, hk⟩ : ∃ k, blk.length = k + 1 := ⟨blk.length - 1, by omega⟩
        rw [hk, stripTails]
        simp
      rw [hstrip]
      show parseEntries Cfg.fixed ((blk.take (bs - 12)).length + 1) (blk.take (bs - 12)) = _
      rw [parseEntries_eq_now _ _ (Nat.le_refl _) htb _ (bs / 8 + 2) (by omega) (by omega), hbody, hle]
    · rw [hle]
      have : liveEntries es = liveEntries esa := by
        rw [hes]; simp [liveEntries, List.filter_append]
      rw [← this]; simpa using h2

/-- hash tree = linear walk of the leaves: what a successful hash-tree walk returns is, up to order, the
    concatenation over the leaf blocks of the directory of what the SPEC reader's rec_len walk returns for
    each of them — whenever the tree references every leaf block exactly once and the leaves are well formed -/
theorem hashed_eq_spec_leaves (csum : Bool) (bs : Nat) (data : Bytes) (d : Nat) (blks leaves : List Nat)
    (es : List DirEnt) (h : parseHashed Cfg.fixed csum bs data d blks = .ok es)
    (hperm : ∀ L, leafBlocks bs data d blks = .ok L → L.Perm leaves)
    (htile : ∀ b ∈ leaves, b * bs + bs ≤ data.length ∧ LeafOK csum bs (dirBlock bs data b)) :
    (∀ b ∈ leaves, dirWalk bs (bs / 8 + 2) (dirBlock bs data b) 0 [] =
        .ok (liveEntries (leafEntriesNow csum bs data b))) ∧
    (liveEntries es).Perm ((leaves.map fun b => liveEntries (leafEntriesNow csum bs data b)).flatten) := by
  obtain ⟨L, hL, hc⟩ := parseHashed_leaves Cfg.fixed csum bs data d blks es h
  have hp := hperm L hL
  constructor
  · intro b hb
    exact (leaf_ok csum bs data b (htile b hb).1 (htile b hb).2).2
  · have hall : ∀ b ∈ L, leafAt Cfg.fixed csum bs data b = .ok (leafEntriesNow csum bs data b) := by
      intro b hb
      have hb' : b ∈ leaves := hp.mem_iff.1 hb
      exact (leaf_ok csum bs data b (htile b hb').1 (htile b hb').2).1
    have hes : es = (L.map (leafEntriesNow csum bs data)).flatten := by
      unfold concatRes at hc
      rw [mapRes_ok_of_forall _ _ L hall] at hc
      simp only [Res.map, Res.ok.injEq] at hc
      exact hc.symm
    rw [hes, liveEntries_flatten, List.map_map]
    exact (hp.map _).flatten

end Diskfs.Ext4.Reader
