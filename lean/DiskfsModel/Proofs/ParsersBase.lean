/-
  C18 parsers — lemmas about the panic-aware primitives (`slc`, `idx`, `le`, `Out` monad).
-/
import DiskfsModel.Model.Parsers
namespace Diskfs.Parsers

@[simp] theorem bind_ok {α β : Type} (a : α) (f : α → Out β) : (Out.ok a >>= f) = f a := rfl
@[simp] theorem bind_err {α β : Type} (f : α → Out β) : ((Out.err : Out α) >>= f) = .err := rfl
@[simp] theorem bind_panic {α β : Type} (f : α → Out β) : ((Out.panic : Out α) >>= f) = .panic := rfl
@[simp] theorem bind_fuel {α β : Type} (f : α → Out β) : ((Out.fuel : Out α) >>= f) = .fuel := rfl
@[simp] theorem pure_eq {α : Type} (a : α) : (pure a : Out α) = .ok a := rfl

theorem bind_ne_panic {α β : Type} {x : Out α} {f : α → Out β}
    (hx : x ≠ .panic) (hf : ∀ a, x = .ok a → f a ≠ .panic) : (x >>= f) ≠ .panic := by
  cases x with
  | ok a => simpa using hf a rfl
  | err => simp
  | panic => exact absurd rfl hx
  | fuel => simp

theorem bind_ne_fuel {α β : Type} {x : Out α} {f : α → Out β}
    (hx : x ≠ .fuel) (hf : ∀ a, x = .ok a → f a ≠ .fuel) : (x >>= f) ≠ .fuel := by
  cases x with
  | ok a => simpa using hf a rfl
  | err => simp
  | panic => simp
  | fuel => exact absurd rfl hx

theorem slc_ok (s : GS) (lo hi : Nat) (h1 : lo ≤ hi) (h2 : hi ≤ s.buf.length) :
    slc s lo hi = .ok ⟨s.buf.drop lo, hi - lo⟩ := by
  simp [slc, h1, h2]

theorem slc_panic (s : GS) (lo hi : Nat) (h : ¬ (lo ≤ hi ∧ hi ≤ s.buf.length)) :
    slc s lo hi = .panic := by
  simp only [slc, h, if_false]

theorem idx_ok (s : GS) (i : Nat) (h : i < s.len) : idx s i = .ok (s.buf.getD i 0).toNat := by
  simp [idx, h]

theorem le_ok (s : GS) (lo n : Nat) (h : lo + n ≤ s.buf.length) :
    le s lo n = .ok (leDec (GS.bytes ⟨s.buf.drop lo, n⟩)) := by
  have h1 : lo ≤ lo + n := by omega
  simp only [le, slc_ok s lo (lo + n) h1 h, bind_ok, pure_eq, Nat.add_sub_cancel_left]

theorem be_ok (s : GS) (lo n : Nat) (h : lo + n ≤ s.buf.length) :
    be s lo n = .ok (beDec (GS.bytes ⟨s.buf.drop lo, n⟩)) := by
  have h1 : lo ≤ lo + n := by omega
  simp only [be, slc_ok s lo (lo + n) h1 h, bind_ok, pure_eq, Nat.add_sub_cancel_left]

theorem slc_ne_fuel (s : GS) (lo hi : Nat) : slc s lo hi ≠ .fuel := by
  unfold slc; split <;> simp

theorem idx_ne_fuel (s : GS) (i : Nat) : idx s i ≠ .fuel := by
  unfold idx; split <;> simp

theorem le_ne_fuel (s : GS) (lo n : Nat) : le s lo n ≠ .fuel := by
  unfold le
  exact bind_ne_fuel (slc_ne_fuel s lo (lo + n)) (fun a _ => by simp)

theorem getD_drop (l : Bytes) (i j : Nat) : (l.drop i).getD j 0 = l.getD (i + j) 0 := by
  simp [List.getD_eq_getElem?_getD, List.getElem?_drop]

theorem idx_lt (s : GS) (i v : Nat) (h : idx s i = .ok v) : v < 256 := by
  unfold idx at h
  split at h
  · injection h with h; subst h; exact UInt8.toNat_lt _
  · simp at h

theorem idx_ne_panic (s : GS) (i : Nat) (h : i < s.len) : idx s i ≠ .panic := by
  rw [idx_ok s i h]; simp

theorem slc_ne_panic (s : GS) (lo hi : Nat) (h1 : lo ≤ hi) (h2 : hi ≤ s.buf.length) : slc s lo hi ≠ .panic := by
  rw [slc_ok s lo hi h1 h2]; simp

theorem le_ne_panic (s : GS) (lo n : Nat) (h : lo + n ≤ s.buf.length) : le s lo n ≠ .panic := by
  rw [le_ok s lo n h]; simp

theorem be_ne_panic (s : GS) (lo n : Nat) (h : lo + n ≤ s.buf.length) : be s lo n ≠ .panic := by
  rw [be_ok s lo n h]; simp

theorem be_ne_fuel (s : GS) (lo n : Nat) : be s lo n ≠ .fuel := by
  unfold be
  exact bind_ne_fuel (slc_ne_fuel s lo (lo + n)) (fun a _ => by simp)

theorem slc_eq_ok (s : GS) (lo hi : Nat) (t : GS) (h : slc s lo hi = .ok t) :
    t = ⟨s.buf.drop lo, hi - lo⟩ ∧ lo ≤ hi ∧ hi ≤ s.buf.length := by
  unfold slc at h
  split at h
  · injection h with h; rename_i hc; exact ⟨h.symm, hc.1, hc.2⟩
  · simp at h

theorem idx_eq_ok (s : GS) (i v : Nat) (h : idx s i = .ok v) : v = (s.buf.getD i 0).toNat ∧ i < s.len := by
  unfold idx at h
  split at h
  · injection h with h; rename_i hc; exact ⟨h.symm, hc⟩
  · simp at h

theorem ok_ne_panic {α : Type} (a : α) : (Out.ok a) ≠ .panic := by simp
theorem pure_ne_panic {α : Type} (a : α) : (pure a : Out α) ≠ .panic := by simp
theorem err_ne_panic {α : Type} : (Out.err : Out α) ≠ .panic := by simp
theorem ok_ne_fuel {α : Type} (a : α) : (Out.ok a) ≠ .fuel := by simp
theorem pure_ne_fuel {α : Type} (a : α) : (pure a : Out α) ≠ .fuel := by simp
theorem err_ne_fuel {α : Type} : (Out.err : Out α) ≠ .fuel := by simp
theorem panic_ne_fuel {α : Type} : (Out.panic : Out α) ≠ .fuel := by simp

end Diskfs.Parsers
