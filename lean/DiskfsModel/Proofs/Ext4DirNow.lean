/-
  C20 helper lemmas: on a directory block whose rec_len chain tiles it, the mirror of parseDirEntriesLinear's
  loop (as it is now) succeeds and its live entries are exactly what the rec_len walk of the SPEC reader returns.
-/
import DiskfsModel.Model.Ext4.DirNow
import DiskfsModel.Proofs.Ext4Reader
namespace Diskfs.Ext4.Reader
open Diskfs.Ext4.Spec

/-- the rec_len chain of `r` tiles it: every record is at least 12 bytes, a multiple of 4, lies inside the
    data and covers its name; the records follow each other to the very end -/
inductive Tiles : Bytes → Prop
  | nil : Tiles []
  | cons (r : Bytes) (h12 : 12 ≤ le16 r 4) (h4 : le16 r 4 % 4 = 0) (hlen : le16 r 4 ≤ r.length)
      (hname : 8 + u8 r 6 ≤ le16 r 4) (rest : Tiles (r.drop (le16 r 4))) : Tiles r

theorem tiles_walk (bs : Nat) : ∀ (n : Nat) (r : Bytes), r.length ≤ n → Tiles r →
    ∀ (f1 f2 pos : Nat) (acc : List Dirent), r.length < 12 * f1 → r.length < 12 * f2 → pos + r.length = bs →
    ∃ es, parseEntriesNow f1 r = .ok es ∧ dirWalk bs f2 r pos acc = .ok (acc.reverse ++ liveEntries es) := by
  intro n
  induction n with
  | zero =>
    intro r hr _ f1 f2 pos acc h1 h2 hp
    have : r = [] := List.eq_nil_of_length_eq_zero (by omega)
    subst this
    cases f1 with
    | zero => simp at h1
    | succ f1 =>
      cases f2 with
      | zero => simp at h2
      | succ f2 =>
        refine ⟨[], by simp [parseEntriesNow], ?_⟩
        simp only [List.length_nil, Nat.add_zero] at hp
        simp [dirWalk, hp, liveEntries]
  | succ n ih =>
    intro r hr ht f1 f2 pos acc h1 h2 hp
    cases ht with
    | nil =>
      cases f1 with
      | zero => simp at h1
      | succ f1 =>
        cases f2 with
        | zero => simp at h2
        | succ f2 =>
          refine ⟨[], by simp [parseEntriesNow], ?_⟩
          simp only [List.length_nil, Nat.add_zero] at hp
          simp [dirWalk, hp, liveEntries]
    | cons _ h12 h4 hlen hname rest =>
      cases f1 with
      | zero => omega
      | succ f1 =>
        cases f2 with
        | zero => omega
        | succ f2 =>
          have hne : r.isEmpty = false := by
            cases r with
            | nil => simp at hlen; omega
            | cons _ _ => rfl
          have hl12 : hasLen r 12 = true := (hasLen_iff r 12).2 (by omega)
          have hll : hasLen r (le16 r 4) = true := (hasLen_iff r _).2 hlen
          have hdl : (r.drop (le16 r 4)).length = r.length - le16 r 4 := by simp
          obtain ⟨es, hes, hw⟩ := ih (r.drop (le16 r 4)) (by omega) rest f1 f2 (pos + le16 r 4)
            (if le32 r 0 ≠ 0 then ⟨le32 r 0, u8 r 7, slice r 8 (8 + u8 r 6)⟩ :: acc else acc)
            (by omega) (by omega) (by omega)
          refine ⟨⟨le32 r 0, u8 r 7, slice r 8 (8 + u8 r 6)⟩ :: es, ?_, ?_⟩
          · rw [parseEntriesNow]
            simp only [hne, hl12, hll, Bool.false_eq_true, if_false, Bool.not_true, hes]
            rw [if_neg (by intro h; rcases h with h | h | h <;> first | omega | exact h)]
          · rw [dirWalk]
            rw [if_neg (by omega), if_neg (by omega)]
            simp only []
            rw [if_neg (by omega), if_neg (by omega), hw]
            by_cases hz : le32 r 0 = 0
            · simp [hz, liveEntries]
            · simp [hz, liveEntries, toDirent]

end Diskfs.Ext4.Reader
