/-
  Layer E (one directory): the flat FAT filesystem model (Model/Fat/FlatFs.lean) refines the
  plain tree of named byte strings (Spec/Tree.lean).
    fstep_inv      every operation, accepted or refused, keeps `FInv`
    fstep_refines  an accepted operation changes the tree exactly as `Spec.stepDir` says
    fstep_refused  a refused operation changes nothing
    frun_refines   the same along every history (induction over the op list)
    create_refused_iff  ENOSPC characterisation of `create`
  Core Lean only.
-/
import DiskfsModel.Model.Fat.FlatFs
import DiskfsModel.Proofs.FatChain
import DiskfsModel.Proofs.FatFileIO
namespace Diskfs.Fat

/-! ### the invariant does not depend on the order of the owners -/

theorem inv_perm {k lim m} {owners owners' : List (List Nat)} (hp : List.Perm owners owners')
    (h : Inv k lim m owners) : Inv k lim m owners' := by
  have hflat : List.Perm owners.flatten owners'.flatten := hp.flatten
  refine ⟨?_, ?_, ?_⟩
  · intro l hl
    exact h.chains l (hp.mem_iff.2 hl)
  · exact hflat.nodup_iff.1 h.nodup
  · intro c h2 hl
    rw [h.used_iff c h2 hl]
    exact hflat.mem_iff

theorem inv_to_head {k lim m} {pre post : List (List Nat)} {l : List Nat}
    (h : Inv k lim m (pre ++ l :: post)) : Inv k lim m (l :: (pre ++ post)) :=
  inv_perm List.perm_middle h

theorem inv_from_head {k lim m} {pre post : List (List Nat)} {l : List Nat}
    (h : Inv k lim m (l :: (pre ++ post))) : Inv k lim m (pre ++ l :: post) :=
  inv_perm List.perm_middle.symm h

/-! ### cluster counts -/

theorem clusterCount_one {bpc : Nat} (hb : 0 < bpc) : clusterCount bpc 1 = 1 := by
  unfold clusterCount
  by_cases h1 : bpc = 1
  · subst h1; simp
  · have hlt : 1 < bpc := by omega
    rw [Nat.div_eq_of_lt hlt, Nat.mod_eq_of_lt hlt]; simp

theorem clusterCount_zero (bpc : Nat) : clusterCount bpc 0 = 0 := by
  simp [clusterCount]

theorem clusterCount_covers (size bpc : Nat) (hb : 0 < bpc) : size ≤ clusterCount bpc size * bpc := by
  unfold clusterCount
  have := Nat.div_add_mod size bpc
  have hm := Nat.mod_lt size hb
  split
  · rw [Nat.add_mul, Nat.mul_comm]; omega
  · have : size % bpc = 0 := by omega
    rw [Nat.add_zero, Nat.mul_comm]; omega

theorem clusterCount_mono {bpc a b : Nat} (hb : 0 < bpc) (h : a ≤ b) :
    clusterCount bpc a ≤ clusterCount bpc b := by
  -- clusterCount is the ceiling of a / bpc: the least n with a ≤ n * bpc
  have hcb := clusterCount_covers b bpc hb
  have hle : a ≤ clusterCount bpc b * bpc := Nat.le_trans h hcb
  -- and clusterCount a is at most any such n
  unfold clusterCount at hle ⊢
  generalize b / bpc + (if b % bpc > 0 then 1 else 0) = n at hle
  have h1 : a / bpc ≤ n := by
    have := Nat.div_le_div_right (c := bpc) hle
    rwa [Nat.mul_div_cancel _ hb] at this
  split
  · rename_i hpos
    -- a % bpc > 0, so a / bpc < n
    have : a / bpc < n := by
      apply Nat.lt_of_le_of_ne h1
      intro he
      have := Nat.div_add_mod a bpc
      rw [he, Nat.mul_comm] at this
      omega
    omega
  · omega

/-! ### names: a found entry is the only one whose name matches -/

theorem map_ite_of_false {α : Type} (p : α → Bool) (φ : α → α) (l : List α)
    (h : ∀ x ∈ l, p x = false) : l.map (fun x => if p x = true then φ x else x) = l := by
  induction l with
  | nil => rfl
  | cons a l ih =>
    rw [List.map_cons, ih (fun x hx => h x (List.mem_cons_of_mem _ hx)), h a List.mem_cons_self]
    simp

theorem ffind_split {eqn} (he : EqnOk eqn) {files : List FFile} {n : Spec.Name} {f : FFile}
    (hd : files.Pairwise fun a b => eqn a.name b.name = false) (h : ffind eqn files n = some f) :
    ∃ pre post, files = pre ++ f :: post ∧ eqn f.name n = true ∧
      (∀ x ∈ pre, eqn x.name n = false) ∧ (∀ x ∈ post, eqn x.name n = false) := by
  unfold ffind at h
  obtain ⟨hf, pre, post, hsplit, hpre⟩ := List.find?_eq_some_iff_append.1 h
  refine ⟨pre, post, hsplit, hf, ?_, ?_⟩
  · intro x hx; simpa using hpre x hx
  · intro x hx
    rw [hsplit] at hd
    have h1 := (List.pairwise_append.1 hd).2.1
    have hfx := (List.pairwise_cons.1 h1).1 x hx
    cases hxn : eqn x.name n with
    | false => rfl
    | true =>
      have := he.trans _ _ _ hf (he.symm _ _ hxn)
      rw [hfx] at this; cases this

theorem ffind_none {eqn} {files : List FFile} {n : Spec.Name} (h : ffind eqn files n = none) :
    ∀ x ∈ files, eqn x.name n = false := by
  intro x hx
  unfold ffind at h
  have := List.find?_eq_none.1 h x hx
  simpa using this

theorem ffind_mid {eqn} {pre post : List FFile} {f : FFile} {n : Spec.Name}
    (hf : eqn f.name n = true) (hpre : ∀ x ∈ pre, eqn x.name n = false) :
    ffind eqn (pre ++ f :: post) n = some f := by
  unfold ffind
  rw [List.find?_eq_some_iff_append]
  exact ⟨hf, pre, post, rfl, fun x hx => by simp [hpre x hx]⟩

theorem fset_split {eqn} {pre post : List FFile} {f : FFile} (v : FFile) {n : Spec.Name}
    (hf : eqn f.name n = true) (hpre : ∀ x ∈ pre, eqn x.name n = false)
    (hpost : ∀ x ∈ post, eqn x.name n = false) :
    fset eqn (pre ++ f :: post) n v = pre ++ v :: post := by
  unfold fset
  rw [List.map_append, List.map_cons, if_pos hf,
    map_ite_of_false (fun x => eqn x.name n) (fun _ => v) pre hpre,
    map_ite_of_false (fun x => eqn x.name n) (fun _ => v) post hpost]

theorem filter_not_of_false {α : Type} (p : α → Bool) (l : List α) (h : ∀ x ∈ l, p x = false) :
    l.filter (fun x => !(p x)) = l :=
  List.filter_eq_self.2 (fun x hx => by simp [h x hx])

theorem ferase_split {eqn} {pre post : List FFile} {f : FFile} {n : Spec.Name}
    (hf : eqn f.name n = true) (hpre : ∀ x ∈ pre, eqn x.name n = false)
    (hpost : ∀ x ∈ post, eqn x.name n = false) :
    ferase eqn (pre ++ f :: post) n = pre ++ post := by
  unfold ferase
  rw [List.filter_append, List.filter_cons, hf,
    filter_not_of_false (fun x => eqn x.name n) pre hpre,
    filter_not_of_false (fun x => eqn x.name n) post hpost]
  simp

/-! ### the abstraction, entry by entry -/

/-- what `fabs` shows of one entry -/
def fnode (d : Dev) (g : FGeom) (x : FFile) : Spec.Name × Spec.Node :=
  (x.name, Spec.Node.file (fileContent d g.io x.chain x.size))

theorem fabs_eq (g : FGeom) (s : FState) : fabs g s = s.files.map (fnode s.d g) := rfl

theorem lookup_fabs (eqn) (g : FGeom) (s : FState) (n : Spec.Name) :
    Spec.lookup eqn (fabs g s) n =
      (ffind eqn s.files n).map fun f => Spec.Node.file (fileContent s.d g.io f.chain f.size) := by
  unfold Spec.lookup ffind
  rw [fabs_eq, List.find?_map, Option.map_map]
  rfl

theorem erase_fabs (eqn) (g : FGeom) (m m' : CMap) (d : Dev) (files : List FFile) (n : Spec.Name) :
    fabs g ⟨m', d, ferase eqn files n⟩ = Spec.erase eqn (fabs g ⟨m, d, files⟩) n := by
  unfold Spec.erase ferase
  rw [fabs_eq, fabs_eq, List.filter_map]
  rfl

/-- replacing the node under `n` when exactly the middle entry matches -/
theorem replace_split {eqn} (φ : FFile → Spec.Name × Spec.Node) (hφ : ∀ x, (φ x).1 = x.name)
    {pre post : List FFile} {f : FFile} {n : Spec.Name} (v : Spec.Node)
    (hf : eqn f.name n = true) (hpre : ∀ x ∈ pre, eqn x.name n = false)
    (hpost : ∀ x ∈ post, eqn x.name n = false) :
    Spec.replace eqn ((pre ++ f :: post).map φ) n v = pre.map φ ++ (f.name, v) :: post.map φ := by
  unfold Spec.replace
  rw [List.map_append, List.map_cons, List.map_append, List.map_cons, hφ f, if_pos hf]
  have hside : ∀ l : List FFile, (∀ x ∈ l, eqn x.name n = false) →
      (l.map φ).map (fun e => if eqn e.1 n = true then (e.1, v) else e) = l.map φ := by
    intro l hl
    apply map_ite_of_false (fun e : Spec.Name × Spec.Node => eqn e.1 n) (fun e => (e.1, v))
    intro e he
    obtain ⟨x, hx, rfl⟩ := List.mem_map.1 he
    rw [hφ x]; exact hl x hx
  rw [hside pre hpre, hside post hpost]

/-- the renaming map of `Spec.stepDir` when exactly the middle entry matches -/
theorem rename_split {eqn : Spec.Name → Spec.Name → Bool} (φ : FFile → Spec.Name × Spec.Node) (hφ : ∀ x, (φ x).1 = x.name)
    {pre post : List FFile} {f : FFile} {o : Spec.Name} (ψ : Spec.Name × Spec.Node → Spec.Name × Spec.Node)
    (hf : eqn f.name o = true) (hpre : ∀ x ∈ pre, eqn x.name o = false)
    (hpost : ∀ x ∈ post, eqn x.name o = false) :
    ((pre ++ f :: post).map φ).map (fun e => if eqn e.1 o = true then ψ e else e)
      = pre.map φ ++ ψ (φ f) :: post.map φ := by
  rw [List.map_append, List.map_cons, List.map_append, List.map_cons, hφ f, if_pos hf]
  have hside : ∀ l : List FFile, (∀ x ∈ l, eqn x.name o = false) →
      (l.map φ).map (fun e => if eqn e.1 o = true then ψ e else e) = l.map φ := by
    intro l hl
    apply map_ite_of_false (fun e : Spec.Name × Spec.Node => eqn e.1 o) ψ
    intro e he
    obtain ⟨x, hx, rfl⟩ := List.mem_map.1 he
    rw [hφ x]; exact hl x hx
  rw [hside pre hpre, hside post hpost]


theorem ffind_ferase_ne {eqn} (he : EqnOk eqn) {o n : Spec.Name} (hon : eqn o n = false)
    (files : List FFile) : ffind eqn (ferase eqn files n) o = ffind eqn files o := by
  induction files with
  | nil => rfl
  | cons a l ih =>
    unfold ffind ferase at ih ⊢
    cases hao : eqn a.name o with
    | true =>
      have han : eqn a.name n = false := by
        cases han : eqn a.name n with
        | false => rfl
        | true =>
          have := he.trans _ _ _ (he.symm _ _ hao) han
          rw [hon] at this; cases this
      rw [List.filter_cons, han]
      simp only [Bool.not_false, if_true, List.find?_cons, hao]
    | false =>
      rw [List.filter_cons]
      cases han : eqn a.name n with
      | true =>
        simp only [Bool.not_true, Bool.false_eq_true, if_false, List.find?_cons, hao]
        exact ih
      | false =>
        simp only [Bool.not_false, if_true, List.find?_cons, hao]
        exact ih

theorem ffind_ferase_self {eqn} (files : List FFile) (n : Spec.Name) :
    ffind eqn (ferase eqn files n) n = none := by
  unfold ffind ferase
  rw [List.find?_eq_none]
  intro x hx
  have := (List.mem_filter.1 hx).2
  simpa using this

theorem erase_absent {eqn} {g : FGeom} {s : FState} {n : Spec.Name} (h : ffind eqn s.files n = none) :
    Spec.erase eqn (fabs g s) n = fabs g s := by
  have h1 := erase_fabs eqn g s.m s.m s.d s.files n
  have h2 : ferase eqn s.files n = s.files :=
    filter_not_of_false (fun x : FFile => eqn x.name n) s.files (ffind_none h)
  rw [h2] at h1
  exact h1.symm

/-! ### the invariant around one entry in the middle of the list -/

theorem finv_head {eqn g m d} {pre post : List FFile} {f : FFile}
    (h : FInv eqn g ⟨m, d, pre ++ f :: post⟩) :
    Inv g.kind g.lim m (f.chain :: (pre.map (·.chain) ++ post.map (·.chain))) := by
  have := h.table
  simp only [List.map_append, List.map_cons] at this
  exact inv_to_head this

theorem finv_mid_replace {eqn g m d} (m' : CMap) (d' : Dev) {pre post : List FFile} {f : FFile}
    (v : FFile) (h : FInv eqn g ⟨m, d, pre ++ f :: post⟩)
    (hinv : Inv g.kind g.lim m' (v.chain :: (pre.map (·.chain) ++ post.map (·.chain))))
    (hcov : v.chain.length = Nat.max (clusterCount g.io.bpc v.size) 1)
    (hpre : ∀ x ∈ pre, eqn x.name v.name = false) (hpost : ∀ x ∈ post, eqn v.name x.name = false) :
    FInv eqn g ⟨m', d', pre ++ v :: post⟩ := by
  refine ⟨?_, ?_, ?_⟩
  · simp only [List.map_append, List.map_cons]
    exact inv_from_head hinv
  · intro x hx
    rcases List.mem_append.1 hx with hx | hx
    · exact h.covers x (List.mem_append_left _ hx)
    · rcases List.mem_cons.1 hx with rfl | hx
      · exact hcov
      · exact h.covers x (List.mem_append_right _ (List.mem_cons_of_mem _ hx))
  · have hd := h.distinct
    simp only at hd ⊢
    rw [List.pairwise_append] at hd ⊢
    obtain ⟨h1, h2, h3⟩ := hd
    refine ⟨h1, ?_, ?_⟩
    · rw [List.pairwise_cons] at h2 ⊢
      exact ⟨hpost, h2.2⟩
    · intro a ha b hb
      rcases List.mem_cons.1 hb with rfl | hb
      · exact hpre a ha
      · exact h3 a ha b (List.mem_cons_of_mem _ hb)

theorem finv_mid_drop {eqn g m d} (m' : CMap) (d' : Dev) {pre post : List FFile} {f : FFile}
    (h : FInv eqn g ⟨m, d, pre ++ f :: post⟩)
    (hinv : Inv g.kind g.lim m' (pre.map (·.chain) ++ post.map (·.chain))) :
    FInv eqn g ⟨m', d', pre ++ post⟩ := by
  refine ⟨?_, ?_, ?_⟩
  · simp only [List.map_append]
    exact hinv
  · intro x hx
    rcases List.mem_append.1 hx with hx | hx
    · exact h.covers x (List.mem_append_left _ hx)
    · exact h.covers x (List.mem_append_right _ (List.mem_cons_of_mem _ hx))
  · have hd := h.distinct
    simp only at hd ⊢
    exact hd.sublist (List.Sublist.append (List.Sublist.refl _) (List.sublist_cons_self _ _))


/-! ### one file write (the join of allocateSpace-grow and writeH; same statement as
    `C01.file_write_refines`, repeated here so that Props may import this file) -/

theorem writeH_in_chain' (g : IOGeom) (chain : List Nat) (oldSize off : Nat) (p : Bytes) (ws : List Wr)
    (hb : 0 < g.bpc) (h : writeH true g chain oldSize off p = some ws) :
    ∀ w ∈ ws, w.data.length = 0 ∨ ∃ c ∈ chain, InCluster g c w := by
  unfold writeH at h
  by_cases hgt : off > oldSize
  · rw [if_pos ⟨rfl, hgt⟩] at h
    cases ha : writeCore g chain oldSize (zeros (off - oldSize)) with
    | none => simp [ha] at h
    | some a =>
      cases hb' : writeCore g chain off p with
      | none => simp [ha, hb'] at h
      | some b =>
        simp only [ha, hb', Option.some.injEq] at h
        subst h
        intro w hw
        rcases List.mem_append.1 hw with h1 | h1
        · exact writeCore_in_chain g chain oldSize _ a hb ha w h1
        · exact writeCore_in_chain g chain off p b hb hb' w h1
  · rw [if_neg (by intro h'; exact hgt h'.2)] at h
    exact writeCore_in_chain g chain off p ws hb h

theorem file_write_core (d : Dev) (g : IOGeom) (k : Kind) (lim max fuel : Nat) (pick) (m : CMap)
    (l l' : List Nat) (others : List (List Nat)) (oldSize off : Nat) (p : Bytes) (ws : List Wr)
    (h : Inv k lim m (l :: others)) (hp : PickSpec lim pick) (hlim : LimOk k lim) (hmax : lim ≤ max)
    (hb : 0 < g.bpc) (hf : l.length ≤ fuel) (hpl : 0 < p.length)
    (hcov : oldSize ≤ l.length * g.bpc)
    (hgrow : l.length ≤ clusterCount g.bpc (Nat.max oldSize (off + p.length)))
    (hres : (allocateSpace k max g.bpc pick fuel m (Nat.max oldSize (off + p.length)) (l.headD 0)).res = some l')
    (hws : writeH true g l' oldSize off p = some ws) :
    Inv k lim (allocateSpace k max g.bpc pick fuel m (Nat.max oldSize (off + p.length)) (l.headD 0)).m (l' :: others) ∧
    l'.length = clusterCount g.bpc (Nat.max oldSize (off + p.length)) ∧
    fileContent (applyWrs d ws) g l' (Nat.max oldSize (off + p.length)) = Spec.splice (fileContent d g l oldSize) off p ∧
    ∀ o ∈ others, chainBytes (applyWrs d ws) g o = chainBytes d g o := by
  obtain ⟨hinv, hlen, hpre⟩ := alloc_grow_inv h hp hlim hmax hb hf hgrow hres
  have hnd' : (l' ++ others.flatten).Nodup := by have := hinv.nodup; rwa [List.flatten_cons] at this
  obtain ⟨hl'nd, _, hdisj⟩ := List.nodup_append.1 hnd'
  have h2' : ∀ c ∈ l', 2 ≤ c := fun c hc => (chainOk_mem (hinv.chains l' (List.mem_cons_self ..)) c hc).1
  have hnew : Nat.max oldSize (off + p.length) ≤ l'.length * g.bpc := by
    rw [hlen]; exact clusterCount_covers _ _ hb
  have hold' : oldSize ≤ l'.length * g.bpc := Nat.le_trans (Nat.le_max_left ..) hnew
  have hlen' : off + p.length ≤ l'.length * g.bpc := Nat.le_trans (Nat.le_max_right ..) hnew
  refine ⟨hinv, hlen, ?_, ?_⟩
  · rw [writeH_spec_fixed d g l' oldSize off p ws hb hl'nd h2' hold' hlen' hpl hws]
    congr 1
    -- the old contents are the same bytes: `l` is a prefix of `l'`
    have hsplit : l' = l ++ l'.drop l.length := by
      conv => lhs; rw [← List.take_append_drop l.length l', hpre]
    unfold fileContent
    rw [hsplit]
    unfold chainBytes
    rw [List.flatMap_append, List.take_append_of_le_length]
    have := chainBytes_length d g l
    unfold chainBytes at this
    rw [this]; exact hcov
  · intro o ho
    apply chainBytes_other d g l' o ws (writeH_in_chain' g l' oldSize off p ws hb hws) h2'
    · intro c hc
      exact (chainOk_mem (hinv.chains o (List.mem_cons_of_mem _ ho)) c hc).1
    · intro c hc hcl
      exact hdisj c hcl c (List.mem_flatten.2 ⟨o, ho, hc⟩) rfl

/-! ### the operations, one by one -/

section ops
variable {eqn : Spec.Name → Spec.Name → Bool} {g : FGeom} {fuel : Nat}

/-- every owned chain fits the fuel -/
theorem chain_fuel {m d} {pre post : List FFile} {f : FFile} (hfuel : g.lim - 2 ≤ fuel)
    (h : FInv eqn g ⟨m, d, pre ++ f :: post⟩) : f.chain.length ≤ fuel :=
  Nat.le_trans (chain_length_le (finv_head h)) hfuel

/-- create, name absent, allocation succeeded -/
theorem create_core {s : FState} {n : Spec.Name} {l : List Nat}
    (hb : 0 < g.io.bpc) (hlim : LimOk g.kind g.lim) (hmax : g.lim ≤ g.max)
    (h : FInv eqn g s) (hn : ffind eqn s.files n = none)
    (hres : (falloc g fuel s.m 1 0).res = some l) :
    FInv eqn g ⟨(falloc g fuel s.m 1 0).m, s.d, s.files ++ [⟨n, l, 0⟩]⟩ := by
  unfold falloc at hres ⊢
  obtain ⟨hinv, hlen⟩ := alloc_new_inv h.table (firstFit_spec _) hlim hmax hb (by decide) hres
  have hlen1 : l.length = 1 := by
    have := clusterCount_one hb
    unfold clusterCount at this
    rw [hlen, this]
  refine ⟨?_, ?_, ?_⟩
  · simp only [List.map_append, List.map_cons, List.map_nil]
    exact inv_perm (List.perm_append_singleton _ _).symm hinv
  · intro x hx
    rcases List.mem_append.1 hx with hx | hx
    · exact h.covers x hx
    · rw [List.mem_singleton] at hx
      subst hx
      show l.length = Nat.max (clusterCount g.io.bpc 0) 1
      rw [clusterCount_zero, hlen1]; rfl
  · have hd := h.distinct
    simp only at hd ⊢
    rw [List.pairwise_append]
    refine ⟨hd, List.pairwise_singleton _ _, ?_⟩
    intro a ha b hb'
    rw [List.mem_singleton] at hb'
    subst hb'
    exact ffind_none hn a ha

theorem create_abs (g : FGeom) (s : FState) (m' : CMap) (n : Spec.Name) (l : List Nat) :
    fabs g ⟨m', s.d, s.files ++ [⟨n, l, 0⟩]⟩ = fabs g s ++ [(n, Spec.Node.file [])] := by
  rw [fabs_eq, fabs_eq]
  simp [fnode, fileContent]

theorem finv_names {m d} {pre post : List FFile} {f : FFile}
    (h : FInv eqn g ⟨m, d, pre ++ f :: post⟩) :
    (∀ x ∈ pre, eqn x.name f.name = false) ∧ (∀ x ∈ post, eqn f.name x.name = false) := by
  have hd := h.distinct
  simp only at hd
  rw [List.pairwise_append] at hd
  exact ⟨fun x hx => hd.2.2 x hx f List.mem_cons_self, (List.pairwise_cons.1 hd.2.1).1⟩

theorem nat_max_eq (a b : Nat) : Nat.max a b = max a b := rfl

/-- writeAt on an existing file, non-empty payload, allocation and write accepted -/
theorem write_core {s : FState} {n : Spec.Name} {f : FFile} {off : Nat} {data : Bytes}
    {l' : List Nat} {ws : List Wr}
    (hb : 0 < g.io.bpc) (hlim : LimOk g.kind g.lim) (hmax : g.lim ≤ g.max) (hfuel : g.lim - 2 ≤ fuel)
    (he : EqnOk eqn) (h : FInv eqn g s) (hf : ffind eqn s.files n = some f) (hpl : 0 < data.length)
    (hres : (falloc g fuel s.m (Nat.max f.size (off + data.length)) (f.chain.headD 0)).res = some l')
    (hws : writeH true g.io l' f.size off data = some ws) :
    FInv eqn g ⟨(falloc g fuel s.m (Nat.max f.size (off + data.length)) (f.chain.headD 0)).m,
        applyWrs s.d ws, fset eqn s.files n ⟨f.name, l', Nat.max f.size (off + data.length)⟩⟩ ∧
    fabs g ⟨(falloc g fuel s.m (Nat.max f.size (off + data.length)) (f.chain.headD 0)).m,
        applyWrs s.d ws, fset eqn s.files n ⟨f.name, l', Nat.max f.size (off + data.length)⟩⟩
      = Spec.replace eqn (fabs g s) n
          (Spec.Node.file (Spec.splice (fileContent s.d g.io f.chain f.size) off data)) := by
  obtain ⟨pre, post, hsplit, hfn, hpre, hpost⟩ := ffind_split he h.distinct hf
  obtain ⟨m, d, files⟩ := s
  simp only at hsplit hres h ⊢
  subst hsplit
  have hhead := finv_head h
  have hfl := chain_fuel hfuel h
  have hcovf := h.covers f (by simp)
  rw [nat_max_eq] at hcovf
  have hcov : f.size ≤ f.chain.length * g.io.bpc :=
    Nat.le_trans (clusterCount_covers f.size g.io.bpc hb) (Nat.mul_le_mul_right _ (by omega))
  have hm1 := clusterCount_mono (bpc := g.io.bpc) (a := f.size)
    (b := Nat.max f.size (off + data.length)) hb (Nat.le_max_left ..)
  have hm2 := clusterCount_mono (bpc := g.io.bpc) (a := 1)
    (b := Nat.max f.size (off + data.length)) hb
    (by have := Nat.le_max_right f.size (off + data.length); rw [nat_max_eq]; omega)
  rw [clusterCount_one hb] at hm2
  have hgrow : f.chain.length ≤ clusterCount g.io.bpc (Nat.max f.size (off + data.length)) := by
    omega
  unfold falloc at hres ⊢
  obtain ⟨hinv, hlen, hcont, hothers⟩ := file_write_core d g.io g.kind g.lim g.max fuel
    (firstFit g.lim) m f.chain l' _ f.size off data ws hhead (firstFit_spec _) hlim hmax hb hfl hpl
    hcov hgrow hres hws
  obtain ⟨hn1, hn2⟩ := finv_names h
  rw [fset_split _ hfn hpre hpost]
  constructor
  · refine finv_mid_replace _ _ ⟨f.name, l', Nat.max f.size (off + data.length)⟩ h hinv ?_ hn1 hn2
    show l'.length = Nat.max (clusterCount g.io.bpc (Nat.max f.size (off + data.length))) 1
    rw [nat_max_eq _ 1]; omega
  · rw [fabs_eq, fabs_eq]
    simp only
    rw [replace_split (fnode d g) (fun _ => rfl) _ hfn hpre hpost, List.map_append, List.map_cons]
    have hside : ∀ l : List FFile, (∀ x ∈ l, x.chain ∈ pre.map (·.chain) ++ post.map (·.chain)) →
        l.map (fnode (applyWrs d ws) g) = l.map (fnode d g) := by
      intro l hl
      apply List.map_congr_left
      intro x hx
      unfold fnode fileContent
      rw [hothers x.chain (hl x hx)]
    rw [hside pre (fun x hx => List.mem_append_left _ (List.mem_map.2 ⟨x, hx, rfl⟩)),
      hside post (fun x hx => List.mem_append_right _ (List.mem_map.2 ⟨x, hx, rfl⟩))]
    congr 2
    unfold fnode
    simp only
    rw [hcont]

/-- truncating open of an existing non-empty file -/
theorem trunc_core {s : FState} {n : Spec.Name} {f : FFile} {l' : List Nat}
    (hb : 0 < g.io.bpc) (hlim : LimOk g.kind g.lim) (hmax : g.lim ≤ g.max) (hfuel : g.lim - 2 ≤ fuel)
    (he : EqnOk eqn) (h : FInv eqn g s) (hf : ffind eqn s.files n = some f)
    (hres : (falloc g fuel s.m 1 (f.chain.headD 0)).res = some l') :
    FInv eqn g ⟨(falloc g fuel s.m 1 (f.chain.headD 0)).m, s.d,
        fset eqn s.files n ⟨f.name, f.chain.take 1, 0⟩⟩ ∧
    fabs g ⟨(falloc g fuel s.m 1 (f.chain.headD 0)).m, s.d,
        fset eqn s.files n ⟨f.name, f.chain.take 1, 0⟩⟩
      = Spec.replace eqn (fabs g s) n (Spec.Node.file []) := by
  obtain ⟨pre, post, hsplit, hfn, hpre, hpost⟩ := ffind_split he h.distinct hf
  obtain ⟨m, d, files⟩ := s
  simp only at hsplit hres h ⊢
  subst hsplit
  have hhead := finv_head h
  have hfl := chain_fuel hfuel h
  have hcovf := h.covers f (by simp)
  rw [nat_max_eq] at hcovf
  have hc1 : 1 / g.io.bpc + (if 1 % g.io.bpc > 0 then 1 else 0) = 1 := clusterCount_one hb
  obtain ⟨hn1, hn2⟩ := finv_names h
  unfold falloc at hres ⊢
  rw [fset_split _ hfn hpre hpost]
  constructor
  · refine finv_mid_replace _ _ ⟨f.name, f.chain.take 1, 0⟩ h ?_ ?_ hn1 hn2
    · by_cases hlt : 1 < f.chain.length
      · have := (alloc_shrink_inv (pick := firstFit g.lim) (size := 1) hhead hlim hmax hb hfl
          (by rw [hc1]; exact hlt)).2
        rw [hc1] at this
        exact this
      · have hle : f.chain.length ≤ 1 / g.io.bpc + (if 1 % g.io.bpc > 0 then 1 else 0) := by
          rw [hc1]; omega
        obtain ⟨hinv, hlen, hpre'⟩ := alloc_grow_inv hhead (firstFit_spec _) hlim hmax hb hfl hle hres
        rw [hc1] at hlen
        have hl1 : f.chain.length = 1 := by omega
        have : l' = f.chain := by
          rw [← hpre', hl1, ← hlen, List.take_length]
        rw [this] at hinv
        have ht : f.chain.take 1 = f.chain := by rw [← hl1, List.take_length]
        simp only [ht]
        exact hinv
    · show (f.chain.take 1).length = Nat.max (clusterCount g.io.bpc 0) 1
      rw [clusterCount_zero, List.length_take, nat_max_eq]; omega
  · rw [fabs_eq, fabs_eq]
    simp only
    rw [replace_split (fnode d g) (fun _ => rfl) _ hfn hpre hpost, List.map_append, List.map_cons]
    simp [fnode, fileContent]

/-- truncating an empty file changes nothing, and that is what the specification says -/
theorem trunc_empty_abs {s : FState} {n : Spec.Name} {f : FFile}
    (he : EqnOk eqn) (h : FInv eqn g s) (hf : ffind eqn s.files n = some f) (hz : f.size = 0) :
    fabs g s = Spec.replace eqn (fabs g s) n (Spec.Node.file []) := by
  obtain ⟨pre, post, hsplit, hfn, hpre, hpost⟩ := ffind_split he h.distinct hf
  obtain ⟨m, d, files⟩ := s
  simp only at hsplit
  subst hsplit
  rw [fabs_eq]
  simp only
  rw [replace_split (fnode d g) (fun _ => rfl) _ hfn hpre hpost, List.map_append, List.map_cons]
  simp [fnode, fileContent, hz]

/-- remove of an existing file: the chain release is accepted and the invariant holds without it -/
theorem remove_core {s : FState} {n : Spec.Name} {f : FFile}
    (hlim : LimOk g.kind g.lim) (hmax : g.lim ≤ g.max) (hfuel : g.lim - 2 ≤ fuel)
    (he : EqnOk eqn) (h : FInv eqn g s) (hf : ffind eqn s.files n = some f) :
    (freeChain g.kind g.max fuel s.m (f.chain.headD 0)).2 = true ∧
    FInv eqn g ⟨(freeChain g.kind g.max fuel s.m (f.chain.headD 0)).1, s.d, ferase eqn s.files n⟩ := by
  obtain ⟨pre, post, hsplit, hfn, hpre, hpost⟩ := ffind_split he h.distinct hf
  obtain ⟨m, d, files⟩ := s
  simp only at hsplit h ⊢
  subst hsplit
  have hhead := finv_head h
  have hfl := chain_fuel hfuel h
  obtain ⟨h1, h2⟩ := freeChain_inv hhead hlim hmax hfl
  rw [ferase_split hfn hpre hpost]
  exact ⟨h1, finv_mid_drop _ _ h h2⟩

/-- rename where the new name is free (or is another spelling of the old one) -/
theorem rename_core {s : FState} {o n : Spec.Name} {f : FFile}
    (he : EqnOk eqn) (h : FInv eqn g s) (hf : ffind eqn s.files o = some f)
    (hn : eqn o n = true ∨ ffind eqn s.files n = none) :
    FInv eqn g ⟨s.m, s.d, fset eqn s.files o ⟨n, f.chain, f.size⟩⟩ ∧
    ∀ ψ : Spec.Name × Spec.Node → Spec.Name × Spec.Node,
      ψ (fnode s.d g f) = (n, Spec.Node.file (fileContent s.d g.io f.chain f.size)) →
      fabs g ⟨s.m, s.d, fset eqn s.files o ⟨n, f.chain, f.size⟩⟩
        = (fabs g s).map (fun e => if eqn e.1 o = true then ψ e else e) := by
  obtain ⟨pre, post, hsplit, hfn, hpre, hpost⟩ := ffind_split he h.distinct hf
  obtain ⟨m, d, files⟩ := s
  simp only at hsplit h ⊢
  subst hsplit
  have hhead := finv_head h
  have hcovf := h.covers f (by simp)
  rw [fset_split _ hfn hpre hpost]
  -- no other entry is called `n`
  have hother : ∀ x ∈ pre ++ post, eqn x.name n = false := by
    intro x hx
    have hxo : eqn x.name o = false := by
      rcases List.mem_append.1 hx with hx | hx
      · exact hpre x hx
      · exact hpost x hx
    rcases hn with hn | hn
    · cases hxn : eqn x.name n with
      | false => rfl
      | true =>
        have := he.trans _ _ _ hxn (he.symm _ _ hn)
        rw [hxo] at this; cases this
    · apply ffind_none hn x
      rcases List.mem_append.1 hx with hx | hx
      · exact List.mem_append_left _ hx
      · exact List.mem_append_right _ (List.mem_cons_of_mem _ hx)
  constructor
  · refine finv_mid_replace _ _ ⟨n, f.chain, f.size⟩ h hhead hcovf
      (fun x hx => hother x (List.mem_append_left _ hx)) ?_
    intro x hx
    cases hnx : eqn n x.name with
    | false => rfl
    | true =>
      have := he.symm _ _ hnx
      rw [hother x (List.mem_append_right _ hx)] at this; cases this
  · intro ψ hψ
    rw [fabs_eq, fabs_eq]
    simp only
    rw [rename_split (fnode d g) (fun _ => rfl) ψ hfn hpre hpost, List.map_append, List.map_cons, hψ]
    rfl

end ops

/-! ### G3: a refused operation returns the state it was given -/

theorem fstep_refused_eq (eqn : Spec.Name → Spec.Name → Bool) (g : FGeom) (fuel : Nat) (s : FState)
    (op : FOp) (h : (fstep eqn g fuel s op).2 = false) : (fstep eqn g fuel s op).1 = s := by
  generalize hr : fstep eqn g fuel s op = r at h ⊢
  cases op <;> simp only [fstep] at hr <;> (repeat' split at hr) <;> subst hr <;>
    first | rfl | exact absurd h (by simp)

/-! ### G1 + G2, operation by operation -/

/-- what G1 and G2 say about one step -/
def StepOk (eqn : Spec.Name → Spec.Name → Bool) (g : FGeom) (fuel : Nat) (s : FState) (op : FOp) : Prop :=
  FInv eqn g (fstep eqn g fuel s op).1 ∧
  ((fstep eqn g fuel s op).2 = true →
    fabs g (fstep eqn g fuel s op).1 = (Spec.stepDir eqn op.toSpec (fabs g s)).1 ∧
    (Spec.stepDir eqn op.toSpec (fabs g s)).2 = .ok)

section steps
variable {eqn : Spec.Name → Spec.Name → Bool} {g : FGeom} {fuel : Nat}

theorem step_create {s : FState} (n : Spec.Name)
    (hb : 0 < g.io.bpc) (hlim : LimOk g.kind g.lim) (hmax : g.lim ≤ g.max)
    (h : FInv eqn g s) : StepOk eqn g fuel s (.create n) := by
  unfold StepOk
  simp only [fstep, FOp.toSpec, Spec.stepDir, lookup_fabs]
  cases hf : ffind eqn s.files n with
  | some f =>
    simp only [Option.map_some]
    exact ⟨h, fun _ => ⟨trivial, trivial⟩⟩
  | none =>
    simp only [Option.map_none]
    cases hres : (falloc g fuel s.m 1 0).res with
    | none =>
      simp only []
      exact ⟨h, fun hh => by cases hh⟩
    | some l =>
      simp only []
      exact ⟨create_core hb hlim hmax h hf hres, fun _ => ⟨create_abs g s _ n l, trivial⟩⟩

theorem step_writeAt {s : FState} (n : Spec.Name) (off : Nat) (data : Bytes)
    (hb : 0 < g.io.bpc) (hlim : LimOk g.kind g.lim) (hmax : g.lim ≤ g.max) (hfuel : g.lim - 2 ≤ fuel)
    (he : EqnOk eqn) (h : FInv eqn g s) : StepOk eqn g fuel s (.writeAt n off data) := by
  unfold StepOk
  simp only [fstep, FOp.toSpec, Spec.stepDir, lookup_fabs]
  cases hf : ffind eqn s.files n with
  | none =>
    simp only [Option.map_none]
    exact ⟨h, fun hh => by cases hh⟩
  | some f =>
    simp only [Option.map_some]
    by_cases hz : data.length = 0
    · simp only [hz, if_true]
      exact ⟨h, fun _ => ⟨trivial, trivial⟩⟩
    · simp only [hz, if_false]
      cases hres : (falloc g fuel s.m (Nat.max f.size (off + data.length)) (f.chain.headD 0)).res with
      | none =>
        simp only []
        exact ⟨h, fun hh => by cases hh⟩
      | some l' =>
        simp only []
        cases hws : writeH true g.io l' f.size off data with
        | none =>
          simp only []
          exact ⟨h, fun hh => by cases hh⟩
        | some ws =>
          simp only []
          have := write_core hb hlim hmax hfuel he h hf (Nat.pos_of_ne_zero hz) hres hws
          exact ⟨this.1, fun _ => ⟨this.2, trivial⟩⟩

theorem step_truncate {s : FState} (n : Spec.Name)
    (hb : 0 < g.io.bpc) (hlim : LimOk g.kind g.lim) (hmax : g.lim ≤ g.max) (hfuel : g.lim - 2 ≤ fuel)
    (he : EqnOk eqn) (h : FInv eqn g s) : StepOk eqn g fuel s (.truncate n) := by
  unfold StepOk
  simp only [fstep, FOp.toSpec, Spec.stepDir, lookup_fabs]
  cases hf : ffind eqn s.files n with
  | none =>
    simp only [Option.map_none]
    exact ⟨h, fun hh => by cases hh⟩
  | some f =>
    simp only [Option.map_some]
    by_cases hz : f.size = 0
    · simp only [if_pos hz]
      exact ⟨h, fun _ => ⟨trunc_empty_abs he h hf hz, trivial⟩⟩
    · simp only [if_neg hz]
      cases hres : (falloc g fuel s.m 1 (f.chain.headD 0)).res with
      | none =>
        simp only []
        exact ⟨h, fun hh => by cases hh⟩
      | some l' =>
        simp only []
        have := trunc_core hb hlim hmax hfuel he h hf hres
        exact ⟨this.1, fun _ => ⟨this.2, trivial⟩⟩

theorem step_remove {s : FState} (n : Spec.Name)
    (hlim : LimOk g.kind g.lim) (hmax : g.lim ≤ g.max) (hfuel : g.lim - 2 ≤ fuel)
    (he : EqnOk eqn) (h : FInv eqn g s) : StepOk eqn g fuel s (.remove n) := by
  unfold StepOk
  simp only [fstep, FOp.toSpec, Spec.stepDir, lookup_fabs]
  cases hf : ffind eqn s.files n with
  | none =>
    simp only [Option.map_none]
    exact ⟨h, fun hh => by cases hh⟩
  | some f =>
    simp only [Option.map_some]
    obtain ⟨h1, h2⟩ := remove_core hlim hmax hfuel he h hf
    simp only [h1, if_true]
    exact ⟨h2, fun _ => ⟨erase_fabs eqn g s.m _ s.d s.files n, trivial⟩⟩

theorem step_rename {s : FState} (o n : Spec.Name)
    (hlim : LimOk g.kind g.lim) (hmax : g.lim ≤ g.max) (hfuel : g.lim - 2 ≤ fuel)
    (he : EqnOk eqn) (h : FInv eqn g s) : StepOk eqn g fuel s (.rename o n) := by
  unfold StepOk
  simp only [fstep, FOp.toSpec, Spec.stepDir, lookup_fabs]
  cases hf : ffind eqn s.files o with
  | none =>
    simp only [Option.map_none]
    exact ⟨h, fun hh => by cases hh⟩
  | some f =>
    simp only [Option.map_some]
    by_cases hon : eqn o n = true
    · simp only [if_pos hon]
      obtain ⟨h1, h2⟩ := rename_core he h hf (Or.inl hon)
      exact ⟨h1, fun _ => ⟨h2 (fun e => (n, e.2)) rfl, trivial⟩⟩
    · simp only [if_neg hon]
      have hon' : eqn o n = false := by simpa using hon
      cases hfn : ffind eqn s.files n with
      | none =>
        simp only [Option.map_none]
        obtain ⟨h1, h2⟩ := rename_core he h hf (Or.inr hfn)
        rw [erase_absent hfn]
        exact ⟨h1, fun _ => ⟨h2 (fun _ => (n, Spec.Node.file (fileContent s.d g.io f.chain f.size))) rfl,
          trivial⟩⟩
      | some t =>
        simp only [Option.map_some]
        obtain ⟨r1, r2⟩ := remove_core hlim hmax hfuel he h hfn
        simp only [r1, if_true]
        have hf1 : ffind eqn (ferase eqn s.files n) o = some f := by
          rw [ffind_ferase_ne he hon']; exact hf
        obtain ⟨h1, h2⟩ := rename_core (s := ⟨(freeChain g.kind g.max fuel s.m (t.chain.headD 0)).1, s.d,
          ferase eqn s.files n⟩) (n := n) he r2 hf1 (Or.inr (ffind_ferase_self _ _))
        refine ⟨h1, fun _ => ⟨?_, trivial⟩⟩
        rw [h2 (fun _ => (n, Spec.Node.file (fileContent s.d g.io f.chain f.size))) rfl,
          erase_fabs eqn g s.m _ s.d s.files n]

end steps

/-! ### the theorems -/

section main
variable {eqn : Spec.Name → Spec.Name → Bool} {g : FGeom} {fuel : Nat}

theorem step_ok (he : EqnOk eqn) (hb : 0 < g.io.bpc) (hlim : LimOk g.kind g.lim) (hmax : g.lim ≤ g.max)
    (hfuel : g.lim - 2 ≤ fuel) {s : FState} (h : FInv eqn g s) (op : FOp) : StepOk eqn g fuel s op := by
  cases op with
  | create n => exact step_create n hb hlim hmax h
  | writeAt n off data => exact step_writeAt n off data hb hlim hmax hfuel he h
  | truncate n => exact step_truncate n hb hlim hmax hfuel he h
  | remove n => exact step_remove n hlim hmax hfuel he h
  | rename o n => exact step_rename o n hlim hmax hfuel he h

/-- **G1** every operation, accepted or refused, keeps the invariant of the one-directory
    filesystem (sound cluster map, chains as long as the sizes need, names pairwise different). -/
theorem fstep_inv (he : EqnOk eqn) (hb : 0 < g.io.bpc) (hlim : LimOk g.kind g.lim) (hmax : g.lim ≤ g.max)
    (hfuel : g.lim - 2 ≤ fuel) (s : FState) (op : FOp) (h : FInv eqn g s) :
    FInv eqn g (fstep eqn g fuel s op).1 :=
  (step_ok he hb hlim hmax hfuel h op).1

/-- **G2** an accepted operation changes the tree exactly as the specification says: the
    written file's contents are `Spec.splice`, every other file is byte for byte what it was,
    names are as specified, and the specification accepts the call too. -/
theorem fstep_refines (he : EqnOk eqn) (hb : 0 < g.io.bpc) (hlim : LimOk g.kind g.lim)
    (hmax : g.lim ≤ g.max) (hfuel : g.lim - 2 ≤ fuel) (s : FState) (op : FOp) (h : FInv eqn g s)
    (hacc : (fstep eqn g fuel s op).2 = true) :
    fabs g (fstep eqn g fuel s op).1 = (Spec.stepDir eqn op.toSpec (fabs g s)).1 ∧
    (Spec.stepDir eqn op.toSpec (fabs g s)).2 = .ok :=
  (step_ok he hb hlim hmax hfuel h op).2 hacc

/-- `FOp.toSpec` addresses the root directory, so `Spec.step` is `Spec.stepDir` there -/
theorem step_toSpec (eqn : Spec.Name → Spec.Name → Bool) (t : Spec.Tree) (op : FOp) :
    Spec.step eqn t op.toSpec = Spec.stepDir eqn op.toSpec t := by
  cases op <;> rfl

/-- G2 against `Spec.step` -/
theorem fstep_refines_step (he : EqnOk eqn) (hb : 0 < g.io.bpc) (hlim : LimOk g.kind g.lim)
    (hmax : g.lim ≤ g.max) (hfuel : g.lim - 2 ≤ fuel) (s : FState) (op : FOp) (h : FInv eqn g s)
    (hacc : (fstep eqn g fuel s op).2 = true) :
    fabs g (fstep eqn g fuel s op).1 = (Spec.step eqn (fabs g s) op.toSpec).1 ∧
    (Spec.step eqn (fabs g s) op.toSpec).2 = .ok := by
  rw [step_toSpec]
  exact fstep_refines he hb hlim hmax hfuel s op h hacc

/-- **G3** a refused operation (no such file, or no space) leaves every file and the table
    unchanged.  No hypothesis is needed: every refusing branch returns the state it was given. -/
theorem fstep_refused (s : FState) (op : FOp) (hrej : (fstep eqn g fuel s op).2 = false) :
    fabs g (fstep eqn g fuel s op).1 = fabs g s ∧ (fstep eqn g fuel s op).1.m = s.m := by
  rw [fstep_refused_eq eqn g fuel s op hrej]
  exact ⟨rfl, rfl⟩

/-! ### G4: histories -/

/-- replay `ops` on the specification side: an operation the model accepted is applied with
    `Spec.stepDir`, one it refused is skipped -/
def specRun (eqn : Spec.Name → Spec.Name → Bool) (g : FGeom) (fuel : Nat) :
    FState → Spec.Tree → List FOp → Spec.Tree
  | _, t, [] => t
  | s, t, op :: ops =>
    specRun eqn g fuel (fstep eqn g fuel s op).1
      (if (fstep eqn g fuel s op).2 = true then (Spec.stepDir eqn op.toSpec t).1 else t) ops

/-- the invariant holds after every history -/
theorem frun_inv (he : EqnOk eqn) (hb : 0 < g.io.bpc) (hlim : LimOk g.kind g.lim) (hmax : g.lim ≤ g.max)
    (hfuel : g.lim - 2 ≤ fuel) (ops : List FOp) (s : FState) (h : FInv eqn g s) :
    FInv eqn g (frun eqn g fuel s ops) := by
  induction ops generalizing s with
  | nil => exact h
  | cons op rest ih =>
    simp only [frun, List.foldl_cons]
    exact ih _ (fstep_inv he hb hlim hmax hfuel s op h)

/-- **G4** after every history the invariant holds and the tree read back from the volume is
    the specification's tree after the same history (refused calls skipped). -/
theorem frun_refines (he : EqnOk eqn) (hb : 0 < g.io.bpc) (hlim : LimOk g.kind g.lim)
    (hmax : g.lim ≤ g.max) (hfuel : g.lim - 2 ≤ fuel) (ops : List FOp) (s : FState)
    (h : FInv eqn g s) :
    FInv eqn g (frun eqn g fuel s ops) ∧
    fabs g (frun eqn g fuel s ops) = specRun eqn g fuel s (fabs g s) ops := by
  refine ⟨frun_inv he hb hlim hmax hfuel ops s h, ?_⟩
  induction ops generalizing s with
  | nil => rfl
  | cons op rest ih =>
    have h' := fstep_inv he hb hlim hmax hfuel s op h
    have ih' := ih _ h'
    simp only [frun, List.foldl_cons, specRun] at ih' ⊢
    rw [ih']
    cases hacc : (fstep eqn g fuel s op).2 with
    | true =>
      rw [if_pos rfl, (fstep_refines he hb hlim hmax hfuel s op h hacc).1]
    | false =>
      rw [if_neg (by simp), (fstep_refused s op hacc).1]

/-- when no call is refused the history is `Spec.run` -/
theorem specRun_all_accepted (eqn : Spec.Name → Spec.Name → Bool) (g : FGeom) (fuel : Nat) :
    ∀ (ops : List FOp) (s : FState) (t : Spec.Tree),
      (∀ (i : Nat) (hi : i < ops.length),
        (fstep eqn g fuel (frun eqn g fuel s (ops.take i)) ops[i]).2 = true) →
      specRun eqn g fuel s t ops = Spec.run eqn t (ops.map FOp.toSpec)
  | [], _, _, _ => rfl
  | op :: rest, s, t, hall => by
    have h0 : (fstep eqn g fuel s op).2 = true := hall 0 (by simp)
    simp only [specRun, Spec.run, List.map_cons, List.foldl_cons, if_pos h0, step_toSpec]
    apply specRun_all_accepted eqn g fuel rest
    intro i hi
    have := hall (i + 1) (by simpa using hi)
    simpa [frun] using this

/-! ### G5: when `create` is refused -/

/-- **G5** creating a name that does not exist is refused exactly when no cluster is free -/
theorem create_refused_iff (hb : 0 < g.io.bpc) (hlim : LimOk g.kind g.lim) (hmax : g.lim ≤ g.max)
    (s : FState) (n : Spec.Name) (h : FInv eqn g s) (hn : ffind eqn s.files n = none) :
    (fstep eqn g fuel s (.create n)).2 = false ↔ freeCount g.lim s.m < 1 := by
  have hc1 : 1 / g.io.bpc + (if 1 % g.io.bpc > 0 then 1 else 0) = 1 := clusterCount_one hb
  have key := alloc_fails_iff (fuel := fuel) h.table (firstFit_spec g.lim) hlim hmax hb
    (show 0 < 1 by decide)
  rw [hc1] at key
  simp only [fstep, hn]
  unfold falloc
  cases hres : (allocateSpace g.kind g.max g.io.bpc (firstFit g.lim) fuel s.m 1 0).res with
  | none =>
    simp only []
    exact ⟨fun _ => key.1 hres, fun _ => trivial⟩
  | some l =>
    simp only []
    constructor
    · intro hh; cases hh
    · intro hlt
      have := key.2 hlt
      rw [hres] at this; cases this

end main

/-! ### non-vacuity: the hypotheses hold together on a small FAT12 volume -/

def exEqn : Spec.Name → Spec.Name → Bool := fun a b => a == b

theorem exEqn_ok : EqnOk exEqn where
  refl := by intro a; simp [exEqn]
  symm := by intro a b h; simp only [exEqn, beq_iff_eq] at h ⊢; exact h.symm
  trans := by intro a b c h1 h2; simp only [exEqn, beq_iff_eq] at h1 h2 ⊢; exact h1.trans h2

def exGeom : FGeom := ⟨.f12, 10, 10, ⟨0, 0, 4⟩⟩

/-- two files: "A" (3 bytes, cluster 2) and "B" (7 bytes, clusters 3 → 4) on `exTable` -/
def exState : FState := ⟨exTable, fun _ => 0, [⟨[65], [2], 3⟩, ⟨[66], [3, 4], 7⟩]⟩

theorem exState_inv : FInv exEqn exGeom exState where
  table := ex_inv
  covers := by
    intro f hf
    simp only [exState, List.mem_cons, List.mem_nil_iff, or_false] at hf
    rcases hf with rfl | rfl <;> decide
  distinct := by
    simp only [exState, List.pairwise_cons, List.mem_cons, List.mem_nil_iff, or_false,
      forall_eq, List.Pairwise.nil, and_true]
    exact ⟨by decide, fun _ hf => hf.elim⟩

/-- the theorems apply to this volume, for every history -/
example (ops : List FOp) :
    FInv exEqn exGeom (frun exEqn exGeom 8 exState ops) ∧
    fabs exGeom (frun exEqn exGeom 8 exState ops)
      = specRun exEqn exGeom 8 exState (fabs exGeom exState) ops :=
  frun_refines exEqn_ok (by decide) ex_limOk (by decide) (by decide) ops exState exState_inv

/-- an accepted write past the end of "A" (the chain grows by one cluster) -/
example : (fstep exEqn exGeom 8 exState (.writeAt [65] 5 [1, 2])).2 = true := by decide

example :
    (fstep exEqn exGeom 8 exState (.writeAt [65] 5 [1, 2])).1.files.map
      (fun f => (f.name, f.chain,
        fileContent (fstep exEqn exGeom 8 exState (.writeAt [65] 5 [1, 2])).1.d exGeom.io f.chain f.size))
    = [([65], [2, 5], [0, 0, 0, 0, 0, 1, 2]), ([66], [3, 4], [0, 0, 0, 0, 0, 0, 0])] := by
  decide

/-- a file of 29 bytes needs 8 clusters, 5 are free: refused, nothing changes -/
example : (fstep exEqn exGeom 8 exState (.writeAt [65] 27 [1, 2])).2 = false := by decide

end Diskfs.Fat
