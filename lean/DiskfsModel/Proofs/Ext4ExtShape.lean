/-
  The shape of the extent tree after extendExtentTree (Model/Ext4/ExtTree.lean): fan-out bounds and uniform depth.
-/
import DiskfsModel.Proofs.Ext4ExtTree
namespace Diskfs.Ext4.ExtTree
open Diskfs Diskfs.Ext4

/-- a node that lives in a block: `max` is the fan-out of a block, it has at most `max` entries, and every child
    of an index node is one level below it (leaves are at depth 0) -/
def okNode (bs : Nat) : Node → Prop
  | .leaf max _ es => max = nonRootMax bs ∧ es.length ≤ max
  | .index max _ depth ks => max = nonRootMax bs ∧ ks.length ≤ max ∧ okKids bs depth ks
where okKids (bs : Nat) (depth : Nat) : Kids → Prop
  | [] => True
  | (_, c) :: ks => c.depth + 1 = depth ∧ okNode bs c ∧ okKids bs depth ks

/-- the root in the inode: at most `max` entries (4), the nodes below it well-shaped -/
def okRoot (bs : Nat) : Node → Prop
  | .leaf max _ es => es.length ≤ max
  | .index max _ depth ks => ks.length ≤ max ∧ okNode.okKids bs depth ks

theorem okKids_append (bs d : Nat) (a b : Kids) :
    okNode.okKids bs d (a ++ b) ↔ okNode.okKids bs d a ∧ okNode.okKids bs d b := by
  induction a with
  | nil => simp [okNode.okKids]
  | cons p ps ih =>
    obtain ⟨k, c⟩ := p
    simp only [List.cons_append, okNode.okKids, ih]
    constructor
    · rintro ⟨h1, h2, h3, h4⟩; exact ⟨⟨h1, h2, h3⟩, h4⟩
    · rintro ⟨⟨h1, h2, h3⟩, h4⟩; exact ⟨h1, h2, h3, h4⟩

theorem okKids_take_drop (bs d : Nat) (ks : Kids) (n : Nat) (h : okNode.okKids bs d ks) :
    okNode.okKids bs d (ks.take n) ∧ okNode.okKids bs d (ks.drop n) := by
  rw [← List.take_append_drop n ks, okKids_append] at h
  exact h

theorem okKids_getElem (bs d : Nat) (ks : Kids) (i : Nat) (p : Nat × Node) (h : okNode.okKids bs d ks)
    (hg : ks[i]? = some p) : p.2.depth + 1 = d ∧ okNode bs p.2 := by
  induction ks generalizing i with
  | nil => simp at hg
  | cons q qs ih =>
    obtain ⟨k, c⟩ := q
    cases i with
    | zero =>
      simp only [List.getElem?_cons_zero, Option.some.injEq] at hg
      subst hg
      exact ⟨h.1, h.2.1⟩
    | succ i =>
      simp only [List.getElem?_cons_succ] at hg
      exact ih i h.2.2 hg

theorem okKids_set (bs d : Nat) (ks : Kids) (i : Nat) (q : Nat × Node) (h : okNode.okKids bs d ks)
    (hq : q.2.depth + 1 = d ∧ okNode bs q.2) : okNode.okKids bs d (ks.set i q) := by
  rw [List.set_eq_take_append_cons_drop]
  split
  · have := okKids_take_drop bs d ks i h
    have h2 := okKids_take_drop bs d ks (i + 1) h
    rw [okKids_append]
    refine ⟨this.1, ?_⟩
    obtain ⟨k, c⟩ := q
    exact ⟨hq.1, hq.2, h2.2⟩
  · exact h

theorem okKids_replace2 (bs d : Nat) (ks : Kids) (i : Nat) (p q : Nat × Node) (h : okNode.okKids bs d ks)
    (hp : p.2.depth + 1 = d ∧ okNode bs p.2) (hq : q.2.depth + 1 = d ∧ okNode bs q.2) :
    okNode.okKids bs d (ks.take i ++ [p, q] ++ ks.drop (i + 1)) := by
  rw [okKids_append, okKids_append]
  obtain ⟨k1, c1⟩ := p
  obtain ⟨k2, c2⟩ := q
  exact ⟨⟨(okKids_take_drop bs d ks i h).1, ⟨hp.1, hp.2, hq.1, hq.2, trivial⟩⟩, (okKids_take_drop bs d ks (i + 1) h).2⟩

theorem splitLeaf_shape {σ : Type} (fx : Bool) (A : Allocator σ) (s : σ) (bs disk : Nat) (all : List Extent) (a b : Node) (m : Nat) (s' : σ)
    (h : splitLeaf fx A s bs disk all = .ok (a, b, m, s')) :
    okNode bs a ∧ okNode bs b ∧ a.depth = 0 ∧ b.depth = 0 := by
  unfold splitLeaf at h
  simp only at h
  split at h
  · cases h
  · split at h
    · cases h
    · split at h
      · cases h
      · rename_i hnp
        simp only [Res.ok.injEq, Prod.mk.injEq] at h
        obtain ⟨rfl, rfl, _, _⟩ := h
        simp only [okNode, Node.depth, List.length_take, List.length_drop, true_and, and_true]
        omega

/-- createInternalNode over nodes of one depth that live in blocks -/
theorem mkRoot_shape (bs d : Nat) (nodes : List Node) (r : Node) (h : mkRoot nodes = .ok r) (hl : nodes.length ≤ 4)
    (hn : ∀ n ∈ nodes, n.depth = d ∧ okNode bs n) : okRoot bs r := by
  unfold mkRoot at h
  split at h
  · cases h
  · rename_i n0 rest
    simp only at h
    split at h
    · cases h
    · simp only [Res.ok.injEq] at h
      subst h
      simp only [okRoot, List.length_map]
      refine ⟨hl, ?_⟩
      have hd0 : n0.depth = d := (hn n0 (by simp)).1
      rw [hd0]
      generalize (n0 :: rest) = ns at hn
      induction ns with
      | nil => trivial
      | cons n ns ih =>
        simp only [List.map_cons, okNode.okKids]
        exact ⟨by rw [(hn n (by simp)).1], (hn n (by simp)).2, ih (fun x hx => hn x (by simp [hx]))⟩

theorem splitIndex_shape {σ : Type} (A : Allocator σ) (s : σ) (bs depth : Nat) (isRoot : Bool) (kids : Kids) (m : Nat)
    (r : Node) (m' : Nat) (s' : σ) (hk : okNode.okKids bs depth kids)
    (h : splitIndex A s bs depth isRoot kids m = .ok (r, m', s')) : isRoot = true ∧ okRoot bs r := by
  unfold splitIndex at h
  simp only at h
  split at h
  · cases h
  · split at h
    · cases h
    · rename_i hnp
      split at h
      · rename_i hroot
        split at h
        · rename_i r0 hr
          simp only [Res.ok.injEq, Prod.mk.injEq] at h
          obtain ⟨rfl, _, _⟩ := h
          refine ⟨hroot, mkRoot_shape bs depth _ _ hr (by simp) ?_⟩
          have htd := okKids_take_drop bs depth kids (kids.length / 2) hk
          intro n hn
          simp only [List.mem_cons, List.mem_nil_iff, or_false] at hn
          rcases hn with rfl | rfl
          · simp only [Node.depth, okNode, List.length_take, true_and]
            exact ⟨by omega, htd.1⟩
          · simp only [Node.depth, okNode, List.length_drop, true_and]
            exact ⟨by omega, htd.2⟩
        all_goals cases h
      · cases h

theorem extendRootLeaf_shape {σ : Type} (fx : Bool) (A : Allocator σ) (s : σ) (bs max disk : Nat) (exts added : List Extent)
    (t' : Node) (m : Nat) (s' : σ) (h : extendRootLeaf fx A s bs max disk exts added = .ok (t', m, s')) :
    okRoot bs t' := by
  unfold extendRootLeaf at h
  split at h
  · rename_i hfit
    simp only [Res.ok.injEq, Prod.mk.injEq] at h
    obtain ⟨rfl, _, _⟩ := h
    simp only [okRoot, List.length_append]
    exact hfit
  · split at h
    · rename_i hfit
      split at h
      · cases h
      · split at h
        · rename_i r0 hr
          simp only [Res.ok.injEq, Prod.mk.injEq] at h
          obtain ⟨rfl, _, _⟩ := h
          refine mkRoot_shape bs 0 _ _ hr (by simp) ?_
          intro n hn
          simp only [List.mem_cons, List.mem_nil_iff, or_false] at hn
          subst hn
          simp only [Node.depth, okNode, sortFB_length, List.length_append, true_and]
          exact hfit
        all_goals cases h
    · split at h
      · rename_i a b m0 s0 hsp
        have hsh := splitLeaf_shape fx A s bs disk _ a b m0 s0 hsp
        split at h
        · rename_i r0 hr
          simp only [Res.ok.injEq, Prod.mk.injEq] at h
          obtain ⟨rfl, _, _⟩ := h
          refine mkRoot_shape bs 0 _ _ hr (by simp) ?_
          intro n hn
          simp only [List.mem_cons, List.mem_nil_iff, or_false] at hn
          rcases hn with rfl | rfl
          · exact ⟨hsh.2.2.1, hsh.1⟩
          · exact ⟨hsh.2.2.2, hsh.2.1⟩
        all_goals cases h
      all_goals cases h

/-- extendInternalNode: the node comes back with at most `max` well-shaped children one level below it, or - only
    for the root in the inode - as a new root over two index nodes -/
theorem extendIx_shape {σ : Type} (fx : Bool) (A : Allocator σ) (bs : Nat) :
    ∀ (fuel : Nat) (s : σ) (plist : Option (List (Nat × Nat))) (max disk depth : Nat) (kids : Kids) (added : List Extent)
      (t' : Node) (m : Nat) (s' : σ),
    extendIx fx A bs fuel s plist max disk depth kids added = .ok (t', m, s') →
    okNode.okKids bs depth kids →
    (∃ kids', t' = .index max disk depth kids' ∧ kids'.length ≤ max ∧ okNode.okKids bs depth kids') ∨
      (plist.isNone = true ∧ okRoot bs t') := by
  intro fuel
  induction fuel with
  | zero => intro s plist max disk depth kids added t' m s' h; simp [extendIx] at h
  | succ fuel ih =>
    intro s plist max disk depth kids added t' m s' h hk
    cases added with
    | nil => simp [extendIx] at h
    | cons a0 rest =>
    simp only [extendIx] at h
    split at h
    · cases h
    · split at h
      · cases h
      · rename_i idx hidx
        split at h
        · cases h
        · rename_i key cmax cdisk cexts hget
          have hc := okKids_getElem bs depth kids idx _ hk hget
          simp only [Node.depth, okNode] at hc
          split at h
          · cases h
          · split at h
            · rename_i hfit
              split at h
              all_goals try (cases h; done)
              split at h
              · cases h
              · rename_i hlen
                split at h
                all_goals try (cases h; done)
                simp only [Res.ok.injEq, Prod.mk.injEq] at h
                obtain ⟨rfl, _, _⟩ := h
                refine Or.inl ⟨_, rfl, by omega, okKids_set bs depth kids idx _ hk ?_⟩
                simp only [Node.depth, okNode, List.length_append]
                exact ⟨hc.1, hc.2.1, by simpa using hfit⟩
            · split at h
              · cases h
              · split at h
                all_goals try (cases h; done)
                rename_i a b m0 s0 hsp
                have hsh := splitLeaf_shape fx A s bs cdisk _ a b m0 s0 hsp
                split at h
                · cases h
                · split at h
                  · cases h
                  · split at h
                    · rename_i ka kb hka hkb
                      have hk' := okKids_replace2 bs depth kids idx (ka, a) (kb, b) hk
                        ⟨by simp only [hsh.2.2.1]; exact hc.1, hsh.1⟩ ⟨by simp only [hsh.2.2.2]; exact hc.1, hsh.2.1⟩
                      split at h
                      · cases h
                      · split at h
                        · have := splitIndex_shape A _ bs depth _ _ _ _ _ _ hk' h
                          exact Or.inr this
                        · rename_i hlen
                          simp only [Res.ok.injEq, Prod.mk.injEq] at h
                          obtain ⟨rfl, _, _⟩ := h
                          exact Or.inl ⟨_, rfl, by omega, hk'⟩
                    · cases h
        · rename_i key cmax cdisk cdepth ckids hget
          have hc := okKids_getElem bs depth kids idx _ hk hget
          simp only [Node.depth, okNode] at hc
          split at h
          · cases h
          · split at h
            all_goals try (cases h; done)
            rename_i child' m1 s1 hrec
            have hrc := ih _ _ _ _ _ _ _ _ _ _ hrec hc.2.2.2
            split at h
            · cases h
            · rename_i x1 x2 x3 ck'
              split at h
              · cases h
              · split at h
                · cases h
                · rename_i hlen
                  split at h
                  all_goals try (cases h; done)
                  simp only [Res.ok.injEq, Prod.mk.injEq] at h
                  obtain ⟨rfl, _, _⟩ := h
                  rcases hrc with ⟨kids', heq, hl', hok'⟩ | ⟨hnone, _⟩
                  · refine Or.inl ⟨_, rfl, by omega, okKids_set bs depth kids idx _ hk ?_⟩
                    rw [heq]
                    simp only [Node.depth, okNode]
                    exact ⟨hc.1, hc.2.1, hl', hok'⟩
                  · simp at hnone

/-- extendExtentTree keeps the shape: the root has at most `max` entries, every node below it has the fan-out of
    a block and at most that many entries, and all leaves are at the same depth -/
theorem extend_shape {σ : Type} (fx : Bool) (A : Allocator σ) (s : σ) (bs : Nat) (t : Node) (added : List Extent)
    (t' : Node) (m : Nat) (s' : σ) (hr : okRoot bs t)
    (h : extend fx A s bs (some t) added = .ok (t', m, s')) : okRoot bs t' := by
  cases t with
  | leaf max disk exts =>
    simp only [extend] at h
    exact extendRootLeaf_shape fx A s bs max disk exts added t' m s' h
  | index max disk depth kids =>
    simp only [extend] at h
    rcases extendIx_shape fx A bs depth s none max disk depth kids added t' m s' h hr.2 with ⟨kids', rfl, hl, hok⟩ | ⟨_, h2⟩
    · exact ⟨hl, hok⟩
    · exact h2

end Diskfs.Ext4.ExtTree
