/-
  Geometry at mkfs time, PARAMETRIC in the cluster-size tables.

  The three `Create`s pick sectors-per-cluster (FAT12/16) or cluster bytes (FAT32) from a
  size → value table in the source; `vf-fat` regenerates those tables as parameter facts
  (Generated/Fat.lean).  `ClusterTableWF` is a decidable well-formedness predicate on such a table:
    rows `(exclusive size bound, value)`, last row `(0, default)`; bounds positive and strictly
    increasing; values non-decreasing; every value one of the allowed power-of-two cluster sizes
    (FAT12/16: 1…128 sectors; FAT32: 512…32768 bytes, i.e. a power-of-two multiple of the
    512-byte sector), and for FAT32 additionally, per row, that the 16-bit sectors-per-FAT field
    cannot wrap for the largest size the row serves (`row32Ok`).
  The theorems below hold for EVERY table satisfying the predicate — nothing in this file
  mentions a threshold of today's tables — and `decide` discharges the predicate for the
  regenerated tables (Props/C08.lean).  So a harmless edit of a threshold re-proves itself; a
  cluster size that is not a power of two (or not a multiple of the sector size), a table that is
  not monotone, or a FAT32 row whose cluster size is too small for the sizes it serves fails
  `decide`.
-/
import DiskfsModel.Model.Fat.Geom
namespace Diskfs.Fat
set_option linter.unusedSimpArgs false

/-! ### helpers for Go's fixed-width arithmetic -/

theorem u32_of_lt {x : Nat} (h : x < 4294967296) : u32 x = x := by
  unfold u32; exact Nat.mod_eq_of_lt h
theorem u16_of_lt {x : Nat} (h : x < 65536) : u16 x = x := by
  unfold u16; exact Nat.mod_eq_of_lt h
theorem sub32_of_le {a b : Nat} (hb : b ≤ a) (ha : a < 4294967296) : sub32 a b = a - b := by
  unfold sub32; omega

theorem ite_none_eq_some {α : Type} {c : Prop} [Decidable c] {x : Option α} {g : α} :
    (if c then none else x) = some g ↔ ¬ c ∧ x = some g := by
  split <;> simp [*]

theorem u16_lt (x : Nat) : u16 x < 65536 := by unfold u16; omega

/-! ### well-formed cluster-size tables -/

/-- sectors per cluster a FAT12/16 table may assign -/
def spcAllowed : List Nat := [1, 2, 4, 8, 16, 32, 64, 128]
/-- cluster sizes in bytes a FAT32 table may assign -/
def clusterBytesAllowed : List Nat := [512, 1024, 2048, 4096, 8192, 16384, 32768]

def ClusterTableWF (allowed : List Nat) (t : List (Nat × Nat)) : Bool :=
  let vals := t.map (·.2)
  let bounds := (t.dropLast).map (·.1)
  (t.getLast?.map (·.1) == some 0) &&
  t.all (fun r => allowed.contains r.2) &&
  (bounds.zip (bounds.drop 1)).all (fun p => decide (p.1 < p.2)) &&
  (vals.zip (vals.drop 1)).all (fun p => decide (p.1 ≤ p.2)) &&
  bounds.all (fun b => decide (0 < b))

/-- largest size for which FAT32 `Create` is claimed well formed with sector size `bs`
    (512-byte sectors: the uint16 sectors-per-FAT wraps just above 256 GiB — finding
    fat32-geometry-narrow-integers; 4096-byte sectors: `Fat32MaxSize`) -/
def fat32Cap (bs : Nat) : Nat := if bs = 4096 then fat32MaxSize else 274940771839

/-- FAT32 row `(bound, clusterBytes)`: for both sector sizes, the sectors-per-FAT value of the
    largest size the row serves fits the uint16 it is stored in -/
def row32Ok (r : Nat × Nat) : Bool :=
  [512, 4096].all fun bs =>
    let spc0 := r.2 / bs % 256
    let spc := if spc0 = 0 then 1 else spc0
    let d := bs * spc + 8
    let top := if r.1 = 0 then fat32Cap bs else min (r.1 - 1) (fat32Cap bs)
    decide (4 * (top / bs - 32) + 8 * spc + d - 1 < 65536 * d)

def ClusterTableWF32 (t : List (Nat × Nat)) : Bool :=
  ClusterTableWF clusterBytesAllowed t && t.all row32Ok

/-- the row a lookup lands on -/
theorem lookup_row (allowed : List Nat) (t : List (Nat × Nat)) (size : Nat) (h : ClusterTableWF allowed t = true) :
    ∃ r ∈ t, sizeTableLookup t size = r.2 ∧ (r.1 = 0 ∨ size < r.1) ∧ r.2 ∈ allowed := by
  unfold ClusterTableWF at h
  simp only [Bool.and_eq_true, List.all_eq_true, beq_iff_eq, List.contains_eq_mem, decide_eq_true_eq] at h
  obtain ⟨⟨⟨⟨hlast, hvals⟩, _⟩, _⟩, _⟩ := h
  unfold sizeTableLookup
  cases hf : t.find? (fun r => r.1 = 0 || decide (size < r.1)) with
  | some r =>
    have hm := List.mem_of_find?_eq_some hf
    have hp := List.find?_some hf
    simp only [Bool.or_eq_true, decide_eq_true_eq] at hp
    exact ⟨r, hm, rfl, hp, hvals r hm⟩
  | none =>
    exfalso
    rw [List.find?_eq_none] at hf
    cases hl : t.getLast? with
    | none => rw [hl] at hlast; simp at hlast
    | some x =>
      rw [hl] at hlast
      simp only [Option.map_some, Option.some.injEq] at hlast
      have := hf x (List.mem_of_getLast? hl)
      simp [hlast] at this

end Diskfs.Fat
