import DiskfsModel.Model.Sqfs.Regions
namespace Diskfs.Sqfs

/-! ### seqWrites -/

theorem seqWrites_append (pos : Nat) (a b : List Nat) :
    seqWrites pos (a ++ b) = seqWrites pos a ++ seqWrites (pos + a.sum) b := by
  induction a generalizing pos with
  | nil => simp [seqWrites]
  | cons x r ih => simp [seqWrites, ih, Nat.add_assoc]

/-- the writes of a run start at or after `pos`, end at or before `pos + sum`, and follow each other -/
theorem seqWrites_bounds (pos : Nat) (l : List Nat) : ∀ w ∈ seqWrites pos l, pos ≤ w.1 ∧ w.1 + w.2 ≤ pos + l.sum := by
  induction l generalizing pos with
  | nil => simp [seqWrites]
  | cons x r ih =>
    intro w hw
    simp only [seqWrites, List.mem_cons] at hw
    rcases hw with rfl | hw
    · simp
    · have := ih (pos + x) w hw
      simp only [List.sum_cons]; omega

theorem seqWrites_pairwise (pos : Nat) (l : List Nat) :
    (seqWrites pos l).Pairwise (fun a b => a.1 + a.2 ≤ b.1) := by
  induction l generalizing pos with
  | nil => simp [seqWrites]
  | cons x r ih =>
    simp only [seqWrites, List.pairwise_cons]
    refine ⟨?_, ih _⟩
    intro w hw
    exact (seqWrites_bounds (pos + x) r w hw).1

/-- every byte of [pos, pos + sum) lies in some write of the run, and only those -/
theorem seqWrites_cover (pos : Nat) (l : List Nat) (x : Nat) :
    (pos ≤ x ∧ x < pos + l.sum) ↔ ∃ w ∈ seqWrites pos l, w.1 ≤ x ∧ x < w.1 + w.2 := by
  induction l generalizing pos with
  | nil => simp [seqWrites]
  | cons n r ih =>
    simp only [seqWrites, List.sum_cons, List.mem_cons, exists_eq_or_imp]
    rw [← ih (pos + n)]
    omega

/-! ### regions -/

def flatWrites (rs : List Region) : List W := rs.flatMap (fun r => seqWrites r.lo r.lens)

theorem layFrom_tiles (pos : Nat) (g : List (RK × List Nat)) : Tiles pos (layFrom pos g) := by
  induction g generalizing pos with
  | nil => trivial
  | cons a r ih =>
    obtain ⟨k, l⟩ := a
    exact ⟨rfl, ih _⟩

theorem endOf_layFrom (pos : Nat) (g : List (RK × List Nat)) :
    endOf pos (layFrom pos g) = pos + (g.map (fun a => a.2.sum)).sum := by
  induction g generalizing pos with
  | nil => simp [layFrom, endOf]
  | cons a r ih =>
    obtain ⟨k, l⟩ := a
    simp only [layFrom, endOf, Region.hi, Region.len, List.map_cons, List.sum_cons]
    rw [ih]; omega

theorem flatWrites_layFrom (pos : Nat) (g : List (RK × List Nat)) :
    flatWrites (layFrom pos g) = seqWrites pos (g.map (fun a => a.2)).flatten := by
  induction g generalizing pos with
  | nil => simp [layFrom, flatWrites, seqWrites]
  | cons a r ih =>
    obtain ⟨k, l⟩ := a
    have := ih (pos + l.sum)
    simp only [flatWrites] at this
    simp only [layFrom, flatWrites, List.flatMap_cons, List.map_cons, List.flatten_cons, seqWrites_append, this]

theorem endOf_mono (pos : Nat) (rs : List Region) (h : Tiles pos rs) : pos ≤ endOf pos rs := by
  induction rs generalizing pos with
  | nil => simp [endOf]
  | cons r rs ih =>
    obtain ⟨h1, h2⟩ := h
    have := ih _ h2
    simp only [endOf]
    simp only [Region.hi] at this ⊢
    omega

/-- regions that tile from `pos` all lie in [pos, end) -/
theorem tiles_inside (pos : Nat) (rs : List Region) (h : Tiles pos rs) :
    ∀ r ∈ rs, pos ≤ r.lo ∧ r.hi ≤ endOf pos rs := by
  induction rs generalizing pos with
  | nil => simp
  | cons r rs ih =>
    obtain ⟨h1, h2⟩ := h
    intro q hq
    simp only [List.mem_cons] at hq
    simp only [endOf]
    rcases hq with rfl | hq
    · exact ⟨by omega, endOf_mono _ _ h2⟩
    · have := ih _ h2 q hq
      simp only [Region.hi] at this ⊢
      omega

/-- regions that tile are in ascending order and pairwise disjoint -/
theorem tiles_pairwise (pos : Nat) (rs : List Region) (h : Tiles pos rs) :
    rs.Pairwise (fun a b => a.hi ≤ b.lo) := by
  induction rs generalizing pos with
  | nil => simp
  | cons r rs ih =>
    obtain ⟨h1, h2⟩ := h
    simp only [List.pairwise_cons]
    exact ⟨fun q hq => (tiles_inside _ _ h2 q hq).1, ih _ h2⟩

/-! ### the mirror against the specification -/

theorem regions_tile (p : Pieces) : Tiles sbSize (regions p) := layFrom_tiles _ _

theorem finalize_bytesUsed (p : Pieces) : (finalize p).bytesUsed = endOf sbSize (regions p) := by
  unfold regions
  rw [endOf_layFrom]
  cases h : p.exportTbl <;> rcases Nat.eq_zero_or_pos p.opt with ho | ho <;>
    simp [finalize, regionLens, lookupTable, idxLens, h, ho] <;> omega

theorem finalize_writes (p : Pieces) : (finalize p).writes = flatWrites (regions p) ++ [(0, sbSize)] := by
  unfold regions
  rw [flatWrites_layFrom]
  cases h : p.exportTbl <;> rcases Nat.eq_zero_or_pos p.opt with ho | ho <;>
    simp [finalize, regionLens, lookupTable, idxLens, h, ho, seqWrites_append, seqWrites, Nat.add_assoc]

theorem finalize_starts (p : Pieces) :
    (finalize p).inodeStart = startOf .inodeTbl (regions p) ∧
    (finalize p).dirStart = startOf .dirTbl (regions p) ∧
    (finalize p).fragStart = startOf .fragIdx (regions p) ∧
    (finalize p).idStart = startOf .idIdx (regions p) ∧
    (finalize p).exportStart = (if p.exportTbl.isSome then startOf .exportIdx (regions p) else absent64) := by
  cases h : p.exportTbl <;> rcases Nat.eq_zero_or_pos p.opt with ho | ho <;>
    simp [finalize, regions, regionLens, layFrom, startOf, lookupTable, idxLens, h, ho, List.find?] <;> omega

/-! ### chunking -/

theorem chunkGT_sum (l : List Nat) (buf : Nat) : (chunkGT l buf).sum = buf + l.sum := by
  induction l generalizing buf with
  | nil => by_cases h : buf > 0 <;> simp [chunkGT, h]; omega
  | cons s r ih =>
    by_cases h : buf + s > metaMax
    · simp [chunkGT, h, ih]; omega
    · simp [chunkGT, h, ih]; omega

/-- with every item at most 8 KiB (and the buffer not over 8 KiB) every block holds 1..8192 bytes -/
theorem chunkGT_bound (l : List Nat) (buf : Nat) (hb : buf ≤ metaMax) (hl : ∀ s ∈ l, s ≤ metaMax) :
    ∀ c ∈ chunkGT l buf, 0 < c ∧ c ≤ metaMax := by
  induction l generalizing buf with
  | nil =>
    by_cases h : buf > 0 <;> simp [chunkGT, h]
    exact hb
  | cons s r ih =>
    have hs := hl s (by simp)
    have hr : ∀ s ∈ r, s ≤ metaMax := fun x hx => hl x (by simp [hx])
    by_cases h : buf + s > metaMax
    · simp only [chunkGT, h, if_true, List.mem_cons]
      rintro c (rfl | hc)
      · simp [metaMax]
      · exact ih _ (by omega) hr c hc
    · simp only [chunkGT, h, if_false]
      exact ih _ (by omega) hr

/-- all blocks but the last are full -/
theorem chunkGT_full (l : List Nat) (buf : Nat) :
    ∀ c ∈ (chunkGT l buf).dropLast, c = metaMax := by
  induction l generalizing buf with
  | nil => by_cases h : buf > 0 <;> simp [chunkGT, h]
  | cons s r ih =>
    by_cases h : buf + s > metaMax
    · simp only [chunkGT, h, if_true]
      intro c hc
      cases hr : chunkGT r (buf + s - metaMax) with
      | nil => simp [hr] at hc
      | cons y ys =>
        rw [hr, List.dropLast_cons_cons] at hc
        simp only [List.mem_cons] at hc
        rcases hc with rfl | hc
        · rfl
        · exact ih _ c (by rw [hr]; exact hc)
    · simp only [chunkGT, h, if_false]
      exact ih _

theorem chunkGE_sum (e n buf : Nat) : (chunkGE e n buf).sum = buf + n * e := by
  induction n generalizing buf with
  | zero => by_cases h : buf > 0 <;> simp [chunkGE, h]; omega
  | succ n ih =>
    by_cases h : buf + e ≥ metaMax
    · simp [chunkGE, h, ih, Nat.succ_mul]; omega
    · simp [chunkGE, h, ih, Nat.succ_mul]; omega

theorem chunkGE_bound (e n buf : Nat) (hb : buf < metaMax) (he : e ≤ metaMax) :
    ∀ c ∈ chunkGE e n buf, 0 < c ∧ c ≤ metaMax := by
  induction n generalizing buf with
  | zero =>
    by_cases h : buf > 0 <;> simp [chunkGE, h]
    omega
  | succ n ih =>
    by_cases h : buf + e ≥ metaMax
    · simp only [chunkGE, h, if_true, List.mem_cons]
      rintro c (rfl | hc)
      · simp [metaMax]
      · exact ih _ (by omega) c hc
    · simp only [chunkGE, h, if_false]
      exact ih _ (by omega)

/-- entries whose size divides 8 KiB never straddle a block: `k` whole blocks, then the rest -/
theorem chunkGE_exact (e : Nat) (hd : e ∣ metaMax) (n buf : Nat) (hb : buf < metaMax) (hbe : e ∣ buf) :
    chunkGE e n buf = List.replicate ((buf + n * e) / metaMax) metaMax ++
      (if (buf + n * e) % metaMax > 0 then [(buf + n * e) % metaMax] else []) := by
  induction n generalizing buf with
  | zero =>
    have h0 : buf / metaMax = 0 := Nat.div_eq_of_lt hb
    have h1 : buf % metaMax = buf := Nat.mod_eq_of_lt hb
    simp [chunkGE, h0, h1]
  | succ n ih =>
    obtain ⟨q, hq⟩ := hd
    obtain ⟨m, hm⟩ := hbe
    by_cases h : buf + e ≥ metaMax
    · -- buf + e = metaMax exactly
      have hle : buf + e ≤ metaMax := by
        have hlt : e * m < e * q := by rw [← hm, ← hq]; exact hb
        have : m < q := Nat.lt_of_mul_lt_mul_left (a := e) hlt
        calc buf + e = e * (m + 1) := by rw [hm, Nat.mul_add, Nat.mul_one]
          _ ≤ e * q := Nat.mul_le_mul_left e this
          _ = metaMax := hq.symm
      have heq : buf + e = metaMax := by omega
      have hz : buf + e - metaMax = 0 := by omega
      simp only [chunkGE, h, if_true, hz]
      rw [ih 0 (by simp [metaMax]) (Nat.dvd_zero e)]
      have e1 : buf + (n + 1) * e = metaMax + n * e := by rw [Nat.succ_mul]; omega
      have hpos : 0 < metaMax := by simp [metaMax]
      rw [e1, Nat.zero_add, Nat.add_comm metaMax (n * e), Nat.add_div_right _ hpos, Nat.add_mod_right,
        List.replicate_succ, List.cons_append]
    · simp only [chunkGE, h, if_false]
      rw [ih (buf + e) (by omega) ⟨m + 1, by rw [hm, Nat.mul_add, Nat.mul_one]⟩]
      have e1 : buf + e + n * e = buf + (n + 1) * e := by rw [Nat.succ_mul]; omega
      rw [e1]

end Diskfs.Sqfs

namespace Diskfs.Sqfs

/-! ### what is written, byte by byte -/

/-- the lengths of all writes after the superblock, in order -/
def allLens (p : Pieces) : List Nat := ((regionLens p).map (fun a => a.2)).flatten

theorem sum_flatten_nat (l : List (List Nat)) : l.flatten.sum = (l.map List.sum).sum := by
  induction l with
  | nil => rfl
  | cons a r ih => simp [ih]

theorem finalize_writes_seq (p : Pieces) :
    (finalize p).writes = seqWrites sbSize (allLens p) ++ [(0, sbSize)] ∧
    (finalize p).bytesUsed = sbSize + (allLens p).sum := by
  refine ⟨?_, ?_⟩
  · rw [finalize_writes]; unfold regions; rw [flatWrites_layFrom]; rfl
  · rw [finalize_bytesUsed]; unfold regions; rw [endOf_layFrom, allLens, sum_flatten_nat, List.map_map]; rfl

theorem finalize_cover (p : Pieces) (x : Nat) :
    x < (finalize p).bytesUsed ↔ ∃ w ∈ (finalize p).writes, w.1 ≤ x ∧ x < w.1 + w.2 := by
  obtain ⟨hw, hu⟩ := finalize_writes_seq p
  rw [hw, hu]
  have hc := seqWrites_cover sbSize (allLens p) x
  constructor
  · intro h
    by_cases h96 : x < sbSize
    · exact ⟨(0, sbSize), by simp, by simp, by simpa using h96⟩
    · obtain ⟨w, hw1, hw2⟩ := hc.1 ⟨by omega, h⟩
      exact ⟨w, by simp [hw1], hw2⟩
  · rintro ⟨w, hw1, hw2⟩
    simp only [List.mem_append, List.mem_singleton] at hw1
    rcases hw1 with hw1 | rfl
    · exact (hc.2 ⟨w, hw1, hw2⟩).2
    · simp at hw2; omega

theorem finalize_once (p : Pieces) :
    (finalize p).writes.Pairwise (fun a b => a.1 + a.2 ≤ b.1 ∨ b.1 + b.2 ≤ a.1) := by
  rw [(finalize_writes_seq p).1, List.pairwise_append]
  refine ⟨(seqWrites_pairwise _ _).imp (fun h => Or.inl h), by simp, ?_⟩
  intro a ha b hb
  simp only [List.mem_singleton] at hb
  subst hb
  right
  have := (seqWrites_bounds sbSize (allLens p) a ha).1
  simpa using this

end Diskfs.Sqfs

namespace Diskfs.Sqfs

theorem finalize_order (p : Pieces) :
    sbSize ≤ (finalize p).inodeStart ∧ (finalize p).inodeStart ≤ (finalize p).dirStart ∧
    (finalize p).dirStart ≤ (finalize p).fragStart ∧
    (finalize p).fragStart + 8 * p.fragTbl.length ≤ (finalize p).idStart ∧
    (finalize p).idStart + 8 * p.idTbl.length = (finalize p).bytesUsed ∧
    (∀ e, p.exportTbl = some e →
      (finalize p).fragStart + 8 * p.fragTbl.length ≤ (finalize p).exportStart ∧
      (finalize p).exportStart + 8 * e.length ≤ (finalize p).idStart) := by
  cases h : p.exportTbl <;> simp [finalize, lookupTable, h] <;> omega

end Diskfs.Sqfs
