/-
  C09, record level: rewriting a disk that reads ONLY FROM ITS BACKUP COPY (primary left invalid by an
  interrupted earlier Write; gpt.Read returns the table with RecoveredFromBackup set), and rewriting a
  table whose backup copy gpt.Read cannot see (disk grown since it was partitioned).

  * `retry_same_table_atomic`: writing THE SAME table again (the retry the documentation of Read asks for:
    same entry array, same backup header bytes) is atomic — every crash state reads as that table.
  * `degraded_other_table_not_atomic`: writing a DIFFERENT table over such a disk is not: Write destroys the
    only valid copy (the backup) first (finding gpt-rewrite-over-degraded-primary).
  * `primary_first_atomic_over_degraded`: the order primary array → primary header → backup array → backup
    header WOULD be atomic over such a disk (what a repair that lets the order depend on
    RecoveredFromBackup would rely on) — stated for the record, the code does not do this.
  * `grown_rewrite_not_atomic`: if the backup copy Write produces is not where Read's fallback looks (Write
    keeps the header's AlternateLBA), the state "primary array in flight" reads as an error
    (finding gpt-rewrite-grown-disk-no-fallback).
-/
import DiskfsModel.Proofs.GptCrash
namespace Diskfs.GptCrash

/-- the old disk reads only from its backup copy: the backup validates, the primary does not -/
structure OldDegraded {S P : Type} {n : Nat} (R : Reader S P n) (old : Disk S n) : Prop where
  hdrB : R.hdrB old.bh = some (R.crc old.ba)
  prim : R.hdrP old.ph = none ∨ ∃ c, R.hdrP old.ph = some c ∧ R.crc old.pa ≠ c

theorem degraded_reads_backup {S P : Type} {n : Nat} (R : Reader S P n) (old : Disk S n) (h : OldDegraded R old) :
    read R old = .ok (R.parts old.ba) true := by
  rcases h.prim with hp | ⟨c, hp, hc⟩
  · simp [read, readBackup, hp, h.hdrB]
  · simp [read, readBackup, hp, hc, h.hdrB]

theorem mix_same {S : Type} {n : Nat} (keep : Fin n → Bool) (a : Fin n → S) : mix keep a a = a := by
  funext i; simp [mix]

/-- RETRY OF THE SAME TABLE over a disk that reads only from its backup: the new backup array and backup
    header are byte-for-byte the old ones (same table, same geometry), so every crash state of the repaired
    Write reads — from whichever copy — as exactly that table.  Explicit premise `hStale` (CRC32 is not
    collision free): if the stale primary header still validates, no sector mixture of the new and the
    damaged primary array has the CRC it records unless it decodes as the new table. -/
theorem retry_same_table_atomic {S P : Type} {n : Nat} (R : Reader S P n) (old new : Disk S n)
    (hOld : OldDegraded R old) (hNew : NewOk R new) (hba : new.ba = old.ba) (hbh : new.bh = old.bh)
    (hStale : ∀ c, R.hdrP old.ph = some c → ∀ keep : Fin n → Bool,
      R.crc (mix keep new.pa old.pa) = c → R.parts (mix keep new.pa old.pa) = R.parts new.pa)
    (d : Disk S n) (hd : Crash false old new d) :
    (read R d).parts? = some (R.parts old.ba) := by
  have hB := hOld.hdrB
  have hsame : R.parts new.pa = R.parts old.ba := by rw [← hNew.same, hba]
  have hNB : R.hdrB new.bh = some (R.crc old.ba) := by rw [hbh]; exact hB
  cases hd with
  | pmbrFirst m hm hf => simp at hf
  | pmbrLast m hm hf => simp [read, hNew.hdrP, Out.parts?, hsame]
  | backupArray keep =>
    rw [hba, mix_same]
    rcases hOld.prim with hp | ⟨c, hp, hc⟩
    · simp [read, readBackup, hp, hB, Out.parts?]
    · simp [read, readBackup, hp, hc, hB, Out.parts?]
  | backupHeader h hh =>
    have hh' : h = old.bh := by rcases hh with e | e; exact e; rw [e, hbh]
    subst hh'
    rw [hba]
    rcases hOld.prim with hp | ⟨c, hp, hc⟩
    · simp [read, readBackup, hp, hB, Out.parts?]
    · simp [read, readBackup, hp, hc, hB, Out.parts?]
  | primaryArray keep =>
    rw [hba]
    rcases hOld.prim with hp | ⟨c, hp, hc⟩
    · simp [read, readBackup, hp, hNB, Out.parts?]
    · by_cases hm : R.crc (mix keep new.pa old.pa) = c
      · simp [read, hp, hm, Out.parts?, hStale c hp keep hm, hsame]
      · simp [read, readBackup, hp, hm, hNB, Out.parts?]
  | primaryHeader h hh =>
    rcases hh with hh | hh
    · subst hh
      rw [hba]
      rcases hOld.prim with hp | ⟨c, hp, hc⟩
      · simp [read, readBackup, hp, hNB, Out.parts?]
      · by_cases hm : R.crc new.pa = c
        · simp [read, hp, hm, Out.parts?, hsame]
        · simp [read, readBackup, hp, hm, hNB, Out.parts?]
    · subst hh
      simp [read, hNew.hdrP, Out.parts?, hsame]

/-- A DIFFERENT TABLE over a disk that reads only from its backup is NOT atomic with the order Write uses
    (backup side first): with the backup array rewritten and the old backup header still in place — or the
    backup array torn — no valid copy is left (stages 0 and 1 read as an error) -/
theorem degraded_other_table_not_atomic :
    ∃ (R : Reader Nat Nat 1) (old new d : Disk Nat 1),
      OldDegraded R old ∧ NewOk R new ∧ Crash false old new d ∧ read R d = .err := by
  refine ⟨⟨fun s => if s = 0 then none else some s, fun s => if s = 0 then none else some s, fun a => a 0, fun a => a 0⟩,
    ⟨0, 0, fun _ => 1, fun _ => 1, 1⟩, ⟨0, 2, fun _ => 2, fun _ => 2, 2⟩,
    ⟨0, 0, fun _ => 1, fun _ => 2, 1⟩, ⟨rfl, Or.inl rfl⟩, ⟨rfl, rfl, rfl⟩, ?_, ?_⟩
  · have := Crash.backupArray (pmFirst := false) (old := (⟨0, 0, fun _ => 1, fun _ => 1, 1⟩ : Disk Nat 1))
      (new := ⟨0, 2, fun _ => 2, fun _ => 2, 2⟩) (fun _ => true)
    simpa [mix_all] using this
  · simp [read, readBackup]

/-- the order primary array → primary header → backup array → backup header (protective MBR last) -/
inductive CrashPF {S : Type} {n : Nat} (old new : Disk S n) : Disk S n → Prop
  | primaryArray (keep : Fin n → Bool) : CrashPF old new { old with pa := mix keep new.pa old.pa }
  | primaryHeader (h : S) (hh : h = old.ph ∨ h = new.ph) : CrashPF old new { old with pa := new.pa, ph := h }
  | backupArray (keep : Fin n → Bool) :
      CrashPF old new { old with pa := new.pa, ph := new.ph, ba := mix keep new.ba old.ba }
  | backupHeader (h : S) (hh : h = old.bh ∨ h = new.bh) :
      CrashPF old new { new with mbr := old.mbr, bh := h }
  | pmbrLast (m : S) (hm : m = old.mbr ∨ m = new.mbr) : CrashPF old new { new with mbr := m }

/-- FOR THE RECORD (not what the code does): writing the PRIMARY side first over a disk that reads only
    from its backup copy is atomic for ANY new table — the damaged primary stays invalid, or becomes the
    complete new table, while the old backup is still intact.  Premise `hStale` as above. -/
theorem primary_first_atomic_over_degraded {S P : Type} {n : Nat} (R : Reader S P n) (old new : Disk S n)
    (hOld : OldDegraded R old) (hNew : NewOk R new)
    (hStale : ∀ c, R.hdrP old.ph = some c → ∀ keep : Fin n → Bool,
      R.crc (mix keep new.pa old.pa) = c → R.parts (mix keep new.pa old.pa) = R.parts new.pa ∨
        R.parts (mix keep new.pa old.pa) = R.parts old.ba)
    (d : Disk S n) (hd : CrashPF old new d) :
    (read R d).parts? = some (R.parts old.ba) ∨ (read R d).parts? = some (R.parts new.pa) := by
  have hB := hOld.hdrB
  cases hd with
  | primaryArray keep =>
    rcases hOld.prim with hp | ⟨c, hp, hc⟩
    · left; simp [read, readBackup, hp, hB, Out.parts?]
    · by_cases hm : R.crc (mix keep new.pa old.pa) = c
      · rcases hStale c hp keep hm with h | h
        · right; simp [read, hp, hm, Out.parts?, h]
        · left; simp [read, hp, hm, Out.parts?, h]
      · left; simp [read, readBackup, hp, hm, hB, Out.parts?]
  | primaryHeader h hh =>
    rcases hh with hh | hh
    · subst hh
      rcases hOld.prim with hp | ⟨c, hp, hc⟩
      · left; simp [read, readBackup, hp, hB, Out.parts?]
      · by_cases hm : R.crc new.pa = c
        · right; simp [read, hp, hm, Out.parts?]
        · left; simp [read, readBackup, hp, hm, hB, Out.parts?]
    · subst hh; right; simp [read, hNew.hdrP, Out.parts?]
  | backupArray keep => right; simp [read, hNew.hdrP, Out.parts?]
  | backupHeader h hh => right; simp [read, hNew.hdrP, Out.parts?]
  | pmbrLast m hm => right; simp [read, hNew.hdrP, Out.parts?]

/-- GROWN DISK: the table gpt.Read returned on a disk that has grown keeps its old AlternateLBA, so the backup
    copy Write produces is NOT in the sectors Read's fallback looks at (the device's last LBA holds no
    header: `hdrB old.bh = none`, and Write never touches it).  With the primary array in flight the
    disk does not read: neither old nor new. -/
theorem grown_rewrite_not_atomic :
    ∃ (R : Reader Nat Nat 1) (old d : Disk Nat 1) (newPa : Fin 1 → Nat),
      OldOk R old ∧ R.hdrB old.bh = none ∧ d = { old with pa := mix (fun _ => true) newPa old.pa } ∧
      read R old = .ok (R.parts old.pa) false ∧ read R d = .err := by
  refine ⟨⟨fun s => if s = 0 then none else some s, fun s => if s = 0 then none else some s, fun a => a 0, fun a => a 0⟩,
    ⟨0, 1, fun _ => 1, fun _ => 0, 0⟩, ⟨0, 1, fun _ => 2, fun _ => 0, 0⟩, fun _ => 2, ⟨rfl⟩, rfl, ?_, ?_, ?_⟩
  · simp [mix_all]
  · simp [read]
  · simp [read, readBackup]

def v2 (a b : Nat) : Fin 2 → Nat := fun i => if i.val = 0 then a else b

/-- …and worse than an error: while the primary array is in flight the STALE primary header (of the table A
    that was on the disk before the interrupted write) can become valid again — when the sectors of the new
    array that have reached the disk equal A's — and the disk reads, from the primary, as table A: neither the
    old table (B, from the backup) nor the new one -/
theorem degraded_other_table_resurrects_stale_primary :
    ∃ (R : Reader Nat Nat 2) (old new d : Disk Nat 2) (pa : Nat),
      OldDegraded R old ∧ NewOk R new ∧ Crash false old new d ∧ read R d = .ok pa false ∧
      pa ≠ R.parts old.ba ∧ pa ≠ R.parts new.pa := by
  refine ⟨⟨fun s => if s = 0 then none else some s, fun s => if s = 0 then none else some s,
      fun a => a 0 * 10 + a 1, fun a => a 0 * 10 + a 1⟩,
    ⟨0, 11, v2 1 2, v2 2 2, 22⟩, ⟨0, 31, v2 3 1, v2 3 1, 31⟩,
    ⟨0, 11, mix (fun i => decide (i.val = 1)) (v2 3 1) (v2 1 2), v2 3 1, 31⟩, 11,
    ⟨by simp [v2], Or.inr ⟨11, by simp, by simp [v2]⟩⟩, ⟨by simp [v2], by simp [v2], rfl⟩, ?_, ?_, by simp [v2], by simp [v2]⟩
  · exact Crash.primaryArray (pmFirst := false) (old := (⟨0, 11, v2 1 2, v2 2 2, 22⟩ : Disk Nat 2))
      (new := ⟨0, 31, v2 3 1, v2 3 1, 31⟩) (fun i => decide (i.val = 1))
  · simp [read, mix, v2]

end Diskfs.GptCrash
