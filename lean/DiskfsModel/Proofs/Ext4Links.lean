/-
  Lemmas about the ext4 link-count / used-directories bookkeeping (Model/Ext4/Links.lean).
-/
import DiskfsModel.Model.Ext4.Links
namespace Diskfs.Ext4.Links

theorem countP_congr' {l : List Nat} {p q : Nat → Bool} (h : ∀ x ∈ l, p x = q x) : l.countP p = l.countP q := by
  induction l with
  | nil => rfl
  | cons a l ih =>
    simp only [List.countP_cons, h a (List.mem_cons_self ..)]
    rw [ih (fun x hx => h x (List.mem_cons_of_mem _ hx))]

theorem countP_zero' {l : List Nat} {p : Nat → Bool} (h : ∀ x ∈ l, p x = false) : l.countP p = 0 := by
  induction l with
  | nil => rfl
  | cons a l ih =>
    simp only [List.countP_cons, h a (List.mem_cons_self ..)]
    rw [ih (fun x hx => h x (List.mem_cons_of_mem _ hx))]
    simp

/-- removing the one occurrence of `k` lowers a count by one exactly when `k` is counted -/
theorem countP_filter_ne (q : Nat → Bool) (k : Nat) : ∀ (l : List Nat), l.Nodup → k ∈ l →
    (l.filter (· != k)).countP q + (if q k then 1 else 0) = l.countP q := by
  intro l
  induction l with
  | nil => intro _ h; cases h
  | cons a l ih =>
    intro hnd hk
    obtain ⟨ha, hnd'⟩ := List.nodup_cons.1 hnd
    by_cases hak : a = k
    · subst hak
      have hf : l.filter (· != a) = l := by
        apply List.filter_eq_self.2
        intro x hx
        have : x ≠ a := fun h => ha (h ▸ hx)
        simp [this]
      simp only [List.filter_cons, bne_self_eq_false, Bool.false_eq_true, if_false, hf, List.countP_cons]
    · have hk' : k ∈ l := by
        rcases List.mem_cons.1 hk with h | h
        · exact absurd h.symm hak
        · exact h
      have := ih hnd' hk'
      have hne : (a != k) = true := by simp [hak]
      simp only [List.filter_cons, hne, if_true, List.countP_cons]
      omega

theorem mem_filter_ne {l : List Nat} {k n : Nat} : n ∈ l.filter (· != k) ↔ n ∈ l ∧ n ≠ k := by
  simp [List.mem_filter]

@[simp] theorem upd_same (f : Nat → Nat) (k v : Nat) : upd f k v k = v := by simp [upd]
theorem upd_ne (f : Nat → Nat) (k v i : Nat) (h : i ≠ k) : upd f k v i = f i := by simp [upd, h]
@[simp] theorem updB_same (f : Nat → Bool) (k : Nat) (v : Bool) : updB f k v k = v := by simp [updB]
theorem updB_ne (f : Nat → Bool) (k : Nat) (v : Bool) (i : Nat) (h : i ≠ k) : updB f k v i = f i := by simp [updB, h]

theorem mkEntry_inv (s : LState) (p k : Nat) (dir : Bool) (h : LinkInv s) (hg : mkGuard s p k) :
    LinkInv (mkEntry s p k dir) := by
  obtain ⟨hp, hpd, hk⟩ := hg
  have hpk : p ≠ k := fun e => hk (e ▸ hp)
  have hne : ∀ n ∈ s.live, n ≠ k := fun n hn e => hk (e ▸ hn)
  have eIsDir : ∀ n, n ≠ k → (mkEntry s p k dir).isDir n = s.isDir n := fun n hn => updB_ne _ _ _ _ hn
  have eIsDirK : (mkEntry s p k dir).isDir k = dir := updB_same _ _ _
  have eParent : ∀ n, n ≠ k → (mkEntry s p k dir).parent n = s.parent n := fun n hn => upd_ne _ _ _ _ hn
  have eParentK : (mkEntry s p k dir).parent k = p := upd_same _ _ _
  have eLinks : (mkEntry s p k dir).links =
      if dir then upd (upd s.links p (s.links p + 1)) k 2 else upd s.links k 1 := rfl
  have eUsed : (mkEntry s p k dir).usedDirs =
      if dir then upd s.usedDirs (groupOf s k) (s.usedDirs (groupOf s k) + 1) else s.usedDirs := rfl
  -- sub-directory counts after the call
  have hsub : ∀ d, d ≠ k → subdirs (mkEntry s p k dir) d = subdirs s d + (if dir && p == d then 1 else 0) := by
    intro d hd
    show (k :: s.live).countP _ = _
    rw [List.countP_cons]
    have hc : s.live.countP (fun n => (mkEntry s p k dir).isDir n && (mkEntry s p k dir).parent n == d && n != d) =
        s.live.countP (fun n => s.isDir n && s.parent n == d && n != d) :=
      countP_congr' (fun n hn => by rw [eIsDir n (hne n hn), eParent n (hne n hn)])
    rw [hc, eIsDirK, eParentK]
    have hkd : (k != d) = true := by simp [Ne.symm hd]
    rw [hkd, Bool.and_true]
    rfl
  have hsubk : subdirs (mkEntry s p k dir) k = 0 := by
    show (k :: s.live).countP _ = _
    rw [List.countP_cons]
    have hc : s.live.countP (fun n => (mkEntry s p k dir).isDir n && (mkEntry s p k dir).parent n == k && n != k) = 0 := by
      apply countP_zero'
      intro n hn
      have h1 := (h.parentLive n hn).1
      have : s.parent n ≠ k := fun e => hk (e ▸ h1)
      rw [eParent n (hne n hn)]
      simp [this]
    rw [hc]
    simp
  have hdirs : ∀ g, dirsIn (mkEntry s p k dir) g = dirsIn s g + (if dir && groupOf s k == g then 1 else 0) := by
    intro g
    show (k :: s.live).countP _ = _
    rw [List.countP_cons]
    have hc : s.live.countP (fun n => (mkEntry s p k dir).isDir n && groupOf (mkEntry s p k dir) n == g) =
        s.live.countP (fun n => s.isDir n && groupOf s n == g) :=
      countP_congr' (fun n hn => by rw [eIsDir n (hne n hn)]; rfl)
    rw [hc, eIsDirK]
    rfl
  refine ⟨?_, ?_, ?_, ?_, ?_⟩
  · exact List.nodup_cons.2 ⟨hk, h.nodup⟩
  · intro n hn
    have hn' : n = k ∨ n ∈ s.live := List.mem_cons.1 hn
    show (mkEntry s p k dir).parent n ∈ k :: s.live ∧ _
    rcases hn' with hn' | hn'
    · subst hn'
      rw [eParentK, eIsDir p hpk]
      exact ⟨List.mem_cons_of_mem _ hp, hpd⟩
    · have h1 := h.parentLive n hn'
      have h2 : s.parent n ≠ k := fun e => hk (e ▸ h1.1)
      rw [eParent n (hne n hn'), eIsDir _ h2]
      exact ⟨List.mem_cons_of_mem _ h1.1, h1.2⟩
  · intro d hd hdir
    have hd' : d = k ∨ d ∈ s.live := List.mem_cons.1 hd
    by_cases hdk : d = k
    · subst hdk
      rw [hsubk, eLinks]
      rw [eIsDirK] at hdir
      subst hdir
      simp
    · have hd'' : d ∈ s.live := by
        rcases hd' with h1 | h1
        · exact absurd h1 hdk
        · exact h1
      rw [eIsDir d hdk] at hdir
      rw [hsub d hdk, eLinks]
      have hl := h.dirLinks d hd'' hdir
      cases dir with
      | true =>
        simp only [if_true, Bool.true_and]
        rw [upd_ne _ _ _ _ hdk]
        by_cases hpd' : d = p
        · subst hpd'
          simp only [upd_same, beq_self_eq_true, if_true]; omega
        · rw [upd_ne _ _ _ _ hpd']
          have : (p == d) = false := by simp [Ne.symm hpd']
          simp only [this, Bool.false_eq_true, if_false]; omega
      | false =>
        simp only [Bool.false_eq_true, if_false, Bool.false_and]
        rw [upd_ne _ _ _ _ hdk]; omega
  · intro n hn hfile
    have hn' : n = k ∨ n ∈ s.live := List.mem_cons.1 hn
    by_cases hnk : n = k
    · subst hnk
      rw [eIsDirK] at hfile
      subst hfile
      rw [eLinks]; simp
    · have hn'' : n ∈ s.live := by
        rcases hn' with h1 | h1
        · exact absurd h1 hnk
        · exact h1
      rw [eIsDir n hnk] at hfile
      have hnp : n ≠ p := fun e => by rw [e, hpd] at hfile; cases hfile
      have hl := h.fileLinks n hn'' hfile
      rw [eLinks]
      cases dir with
      | true => simp only [if_true]; rw [upd_ne _ _ _ _ hnk, upd_ne _ _ _ _ hnp]; exact hl
      | false => simp only [Bool.false_eq_true, if_false]; rw [upd_ne _ _ _ _ hnk]; exact hl
  · intro g
    rw [hdirs g, eUsed]
    cases dir with
    | true =>
      simp only [if_true, Bool.true_and]
      by_cases hgk : g = groupOf s k
      · subst hgk
        simp only [upd_same, beq_self_eq_true, if_true, h.used]
      · rw [upd_ne _ _ _ _ hgk]
        have : (groupOf s k == g) = false := by simp [Ne.symm hgk]
        simp only [this, Bool.false_eq_true, if_false, h.used, Nat.add_zero]
    | false => simp only [Bool.false_eq_true, if_false, Bool.false_and, h.used, Nat.add_zero]

theorem rmEntry_inv (s : LState) (k : Nat) (h : LinkInv s) (hg : rmGuard s k) : LinkInv (rmEntry s k) := by
  obtain ⟨hk, hroot, hleaf⟩ := hg
  obtain ⟨hp, hpd⟩ := h.parentLive k hk
  have eLinks : (rmEntry s k).links =
      if s.isDir k && decide (s.links (s.parent k) > 0) then upd s.links (s.parent k) (s.links (s.parent k) - 1)
      else s.links := rfl
  have eUsed : (rmEntry s k).usedDirs =
      if s.isDir k then upd s.usedDirs (groupOf s k) (s.usedDirs (groupOf s k) - 1) else s.usedDirs := rfl
  have hsub : ∀ d, d ≠ k → subdirs (rmEntry s k) d + (if s.isDir k && s.parent k == d then 1 else 0) = subdirs s d := by
    intro d hd
    have := countP_filter_ne (fun n => s.isDir n && s.parent n == d && n != d) k s.live h.nodup hk
    have hkd : (k != d) = true := by simp [Ne.symm hd]
    rw [hkd, Bool.and_true] at this
    exact this
  have hdirs : ∀ g, dirsIn (rmEntry s k) g + (if s.isDir k && groupOf s k == g then 1 else 0) = dirsIn s g := by
    intro g
    exact countP_filter_ne (fun n => s.isDir n && groupOf s n == g) k s.live h.nodup hk
  refine ⟨?_, ?_, ?_, ?_, ?_⟩
  · exact h.nodup.filter _
  · intro n hn
    obtain ⟨hn1, hn2⟩ := mem_filter_ne.1 hn
    have h1 := h.parentLive n hn1
    exact ⟨mem_filter_ne.2 ⟨h1.1, hleaf n hn1 hn2⟩, h1.2⟩
  · intro d hd hdir
    obtain ⟨hd1, hd2⟩ := mem_filter_ne.1 hd
    have hdir' : s.isDir d = true := hdir
    have hl := h.dirLinks d hd1 hdir'
    have hs := hsub d hd2
    rw [eLinks]
    cases hkd : s.isDir k with
    | false =>
      simp only [hkd, Bool.false_and, Bool.false_eq_true, if_false, Nat.add_zero] at hs ⊢
      omega
    | true =>
      simp only [hkd, Bool.true_and] at hs
      have hlp := h.dirLinks _ hp hpd
      have hsp := hsub (s.parent k) hroot
      simp only [hkd, Bool.true_and, beq_self_eq_true, if_true] at hsp
      have hpos : s.links (s.parent k) > 0 := by omega
      simp only [Bool.true_and, hpos, decide_true, if_true]
      by_cases hdp : d = s.parent k
      · subst hdp
        simp only [beq_self_eq_true, if_true] at hs
        rw [upd_same]; omega
      · have : (s.parent k == d) = false := by simp [Ne.symm hdp]
        simp only [this, Bool.false_eq_true, if_false, Nat.add_zero] at hs
        rw [upd_ne _ _ _ _ hdp]; omega
  · intro n hn hfile
    obtain ⟨hn1, _⟩ := mem_filter_ne.1 hn
    have hfile' : s.isDir n = false := hfile
    have hl := h.fileLinks n hn1 hfile'
    have hnp : n ≠ s.parent k := fun e => by rw [e, hpd] at hfile'; cases hfile'
    rw [eLinks]
    split
    · rw [upd_ne _ _ _ _ hnp]; exact hl
    · exact hl
  · intro g
    have hd := hdirs g
    rw [eUsed]
    cases hkd : s.isDir k with
    | false =>
      simp only [hkd, Bool.false_and, Bool.false_eq_true, if_false, Nat.add_zero] at hd ⊢
      rw [h.used]; omega
    | true =>
      simp only [hkd, Bool.true_and] at hd
      simp only [if_true]
      by_cases hgk : g = groupOf s k
      · subst hgk
        simp only [beq_self_eq_true, if_true] at hd
        rw [upd_same, h.used]; omega
      · have : (groupOf s k == g) = false := by simp [Ne.symm hgk]
        simp only [this, Bool.false_eq_true, if_false, Nat.add_zero] at hd
        rw [upd_ne _ _ _ _ hgk, h.used]; omega

end Diskfs.Ext4.Links
