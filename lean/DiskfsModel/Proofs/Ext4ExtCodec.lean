/-
  The extent-tree node codec (Model/Ext4/ExtTree.lean: encLeaf / encIndex = toBytes, parseNode = parseExtents):
  a node is 12 + 12*max bytes, fits the block it is written to, and parses back to itself.
-/
import DiskfsModel.Model.Ext4.ExtTree
namespace Diskfs.Ext4.ExtTree
open Diskfs Diskfs.Ext4

theorem slice_skip (a r : Bytes) (lo hi : Nat) (h : a.length ≤ lo) :
    slice (a ++ r) lo hi = slice r (lo - a.length) (hi - a.length) := by
  obtain ⟨k, rfl⟩ := Nat.exists_eq_add_of_le h
  unfold slice
  rw [List.drop_append]
  have e1 : a.length + k - a.length = k := by omega
  have e2 : hi - (a.length + k) = hi - a.length - k := by omega
  rw [e1, e2, List.drop_eq_nil_of_le (by omega : a.length ≤ a.length + k), List.nil_append]

theorem slice_head (m r : Bytes) (hi : Nat) (h : m.length = hi) : slice (m ++ r) 0 hi = m := by
  unfold slice
  simp [← h]

theorem slice_full (m : Bytes) (hi : Nat) (h : m.length = hi) : slice m 0 hi = m := by
  unfold slice
  simp [← h]

theorem encExtent_length (e : Extent) : (encExtent e).length = 12 := by simp [encExtent]
theorem encPtr_length (k d : Nat) : (encPtr k d).length = 12 := by simp [encPtr]
theorem encHeader_length (n m d : Nat) : (encHeader n m d).length = 12 := by simp [encHeader]

theorem flatten12_length {α : Type} (f : α → Bytes) (hf : ∀ a, (f a).length = 12) (l : List α) :
    ((l.map f).flatten).length = 12 * l.length := by
  induction l with
  | nil => rfl
  | cons a l ih => simp [hf a, ih]; omega

theorem encLeaf_length (max : Nat) (es : List Extent) (b : Bytes) (h : encLeaf max es = some b) :
    b.length = 12 + 12 * max := by
  unfold encLeaf at h
  split at h
  · simp only [Option.some.injEq] at h
    subst h
    simp only [List.length_append, encHeader_length, flatten12_length encExtent encExtent_length, zeros_length]
    omega
  · cases h

theorem encIndex_length (max depth : Nat) (ps : List (Nat × Nat)) (b : Bytes) (h : encIndex max depth ps = some b) :
    b.length = 12 + 12 * max := by
  unfold encIndex at h
  split at h
  · simp only [Option.some.injEq] at h
    subst h
    simp only [List.length_append, encHeader_length, flatten12_length (fun p : Nat × Nat => encPtr p.1 p.2) (fun p => encPtr_length p.1 p.2), zeros_length]
    omega
  · cases h

/-- a node with the fan-out of a block (`(bs - 12) / 12` entries) fits the block -/
theorem nonRootMax_fits (bs : Nat) (h : 12 ≤ bs) : 12 + 12 * nonRootMax bs ≤ bs := by
  unfold nonRootMax
  omega

def ExtentOK (e : Extent) : Prop := e.fileBlock < 4294967296 ∧ e.start < 281474976710656 ∧ e.count < 65536
def PtrOK (p : Nat × Nat) : Prop := p.1 < 4294967296 ∧ p.2 < 281474976710656

theorem encExtent_slices (e : Extent) :
    slice (encExtent e) 0 4 = leEnc 4 e.fileBlock ∧ slice (encExtent e) 4 6 = leEnc 2 e.count ∧
    slice (encExtent e) 6 8 = leEnc 2 (e.start / 4294967296 % 65536) ∧
    slice (encExtent e) 8 12 = leEnc 4 (e.start % 4294967296) := by
  unfold encExtent
  simp only [List.append_assoc]
  refine ⟨slice_head _ _ 4 (by simp), ?_, ?_, ?_⟩
  · rw [slice_skip _ _ 4 6 (by simp)]
    simp only [leEnc_length, Nat.reduceSub]
    exact slice_head _ _ 2 (by simp)
  · rw [slice_skip _ _ 6 8 (by simp)]
    simp only [leEnc_length, Nat.reduceSub]
    rw [slice_skip _ _ 2 4 (by simp)]
    simp only [leEnc_length, Nat.reduceSub]
    exact slice_head _ _ 2 (by simp)
  · rw [slice_skip _ _ 8 12 (by simp)]
    simp only [leEnc_length, Nat.reduceSub]
    rw [slice_skip _ _ 4 8 (by simp)]
    simp only [leEnc_length, Nat.reduceSub]
    rw [slice_skip _ _ 2 6 (by simp)]
    simp only [leEnc_length, Nat.reduceSub]
    exact slice_full _ 4 (by simp)

theorem decExtent_encExtent (e : Extent) (h : ExtentOK e) : decExtent (encExtent e) = e := by
  obtain ⟨fb, st, ct⟩ := e
  obtain ⟨h1, h2, h3⟩ := h
  simp only at h1 h2 h3
  have hs := encExtent_slices ⟨fb, st, ct⟩
  simp only at hs
  unfold decExtent
  rw [hs.1, hs.2.1, hs.2.2.1, hs.2.2.2]
  rw [leDec_leEnc_of_lt 4 _ (by omega), leDec_leEnc_of_lt 4 _ (by omega), leDec_leEnc_of_lt 2 _ (by omega), leDec_leEnc_of_lt 2 _ (by omega)]
  simp only [Extent.mk.injEq, true_and, and_true]
  omega

theorem encPtr_slices (k d : Nat) :
    slice (encPtr k d) 0 4 = leEnc 4 k ∧ slice (encPtr k d) 4 8 = leEnc 4 (d % 4294967296) ∧
    slice (encPtr k d) 8 10 = leEnc 2 (d / 4294967296 % 65536) := by
  unfold encPtr
  simp only [List.append_assoc]
  refine ⟨slice_head _ _ 4 (by simp), ?_, ?_⟩
  · rw [slice_skip _ _ 4 8 (by simp)]
    simp only [leEnc_length, Nat.reduceSub]
    exact slice_head _ _ 4 (by simp)
  · rw [slice_skip _ _ 8 10 (by simp)]
    simp only [leEnc_length, Nat.reduceSub]
    rw [slice_skip _ _ 4 6 (by simp)]
    simp only [leEnc_length, Nat.reduceSub]
    exact slice_head _ _ 2 (by simp)

theorem decPtr_encPtr (p : Nat × Nat) (h : PtrOK p) : decPtr (encPtr p.1 p.2) = p := by
  obtain ⟨k, d⟩ := p
  obtain ⟨h1, h2⟩ := h
  simp only at h1 h2
  have hs := encPtr_slices k d
  unfold decPtr
  simp only
  rw [hs.1, hs.2.1, hs.2.2]
  rw [leDec_leEnc_of_lt 4 _ (by omega), leDec_leEnc_of_lt 4 _ (by omega), leDec_leEnc_of_lt 2 _ (by omega)]
  simp only [Prod.mk.injEq, true_and]
  omega

theorem decEntries_enc {α : Type} (enc : α → Bytes) (dec : Bytes → α) (henc : ∀ a, (enc a).length = 12)
    (l : List α) (hrt : ∀ a ∈ l, dec (enc a) = a) (z : Bytes) :
    decEntries dec l.length ((l.map enc).flatten ++ z) = l := by
  induction l with
  | nil => rfl
  | cons a l ih =>
    simp only [List.length_cons, decEntries, List.map_cons, List.flatten_cons, List.append_assoc]
    have h1 : (enc a ++ ((l.map enc).flatten ++ z)).take 12 = enc a := by
      rw [← henc a]; simp
    have h2 : (enc a ++ ((l.map enc).flatten ++ z)).drop 12 = (l.map enc).flatten ++ z := by
      rw [← henc a]; simp
    rw [h1, h2, hrt a (by simp), ih (fun b hb => hrt b (by simp [hb]))]

theorem header_slices (n m d : Nat) (r : Bytes) :
    slice (encHeader n m d ++ r) 0 2 = leEnc 2 0xf30a ∧ slice (encHeader n m d ++ r) 2 4 = leEnc 2 n ∧
    slice (encHeader n m d ++ r) 4 6 = leEnc 2 m ∧ slice (encHeader n m d ++ r) 6 8 = leEnc 2 d ∧
    (encHeader n m d ++ r).drop 12 = r := by
  refine ⟨?_, ?_, ?_, ?_, ?_⟩
  · unfold encHeader
    simp only [List.append_assoc]
    exact slice_head _ _ 2 (by simp)
  · unfold encHeader
    simp only [List.append_assoc]
    rw [slice_skip _ _ 2 4 (by simp)]
    simp only [leEnc_length, Nat.reduceSub]
    exact slice_head _ _ 2 (by simp)
  · unfold encHeader
    simp only [List.append_assoc]
    rw [slice_skip _ _ 4 6 (by simp)]
    simp only [leEnc_length, Nat.reduceSub]
    rw [slice_skip _ _ 2 4 (by simp)]
    simp only [leEnc_length, Nat.reduceSub]
    exact slice_head _ _ 2 (by simp)
  · unfold encHeader
    simp only [List.append_assoc]
    rw [slice_skip _ _ 6 8 (by simp)]
    simp only [leEnc_length, Nat.reduceSub]
    rw [slice_skip _ _ 4 6 (by simp)]
    simp only [leEnc_length, Nat.reduceSub]
    rw [slice_skip _ _ 2 4 (by simp)]
    simp only [leEnc_length, Nat.reduceSub]
    exact slice_head _ _ 2 (by simp)
  · rw [← encHeader_length n m d]
    simp

/-- parseExtents (toBytes leaf) = leaf: every leaf whose fields fit their on-disk widths comes back unchanged -/
theorem parse_encLeaf (max : Nat) (es : List Extent) (h1 : es.length ≤ max) (h2 : 1 ≤ max) (h3 : max < 65536)
    (hes : ∀ e ∈ es, ExtentOK e) :
    ∃ b, encLeaf max es = some b ∧ b.length = 12 + 12 * max ∧ parseNode b = .ok (.leaf max es) := by
  have henc : encLeaf max es = some (encHeader es.length max 0 ++ ((es.map encExtent).flatten ++ zeros (12 * (max - es.length)))) := by
    unfold encLeaf
    rw [if_pos h1, List.append_assoc]
  refine ⟨_, henc, encLeaf_length _ _ _ henc, ?_⟩
  have hlen := encLeaf_length _ _ _ henc
  obtain ⟨s1, s2, s3, s4, s5⟩ := header_slices es.length max 0 ((es.map encExtent).flatten ++ zeros (12 * (max - es.length)))
  unfold parseNode
  rw [if_neg (by omega), s1, s2, s3, s4, s5]
  rw [leDec_leEnc_of_lt 2 _ (by omega), leDec_leEnc_of_lt 2 _ (by omega : es.length < 256 ^ 2),
    leDec_leEnc_of_lt 2 _ (by omega : max < 256 ^ 2), leDec_leEnc_of_lt 2 0 (by omega)]
  simp only [ne_eq, not_true_eq_false, if_false]
  rw [if_neg (by omega)]
  simp only [if_true]
  rw [decEntries_enc encExtent decExtent encExtent_length es (fun e he => decExtent_encExtent e (hes e he))]

/-- parseExtents (toBytes index) = index -/
theorem parse_encIndex (max depth : Nat) (ps : List (Nat × Nat)) (h1 : ps.length ≤ max) (h2 : 1 ≤ max) (h3 : max < 65536)
    (hd : 1 ≤ depth) (hd' : depth < 65536) (hps : ∀ p ∈ ps, PtrOK p) :
    ∃ b, encIndex max depth ps = some b ∧ b.length = 12 + 12 * max ∧ parseNode b = .ok (.index max depth ps) := by
  have henc : encIndex max depth ps = some (encHeader ps.length max depth ++ ((ps.map fun p => encPtr p.1 p.2).flatten ++ zeros (12 * (max - ps.length)))) := by
    unfold encIndex
    rw [if_pos h1, List.append_assoc]
  refine ⟨_, henc, encIndex_length _ _ _ _ henc, ?_⟩
  have hlen := encIndex_length _ _ _ _ henc
  obtain ⟨s1, s2, s3, s4, s5⟩ := header_slices ps.length max depth ((ps.map fun p => encPtr p.1 p.2).flatten ++ zeros (12 * (max - ps.length)))
  unfold parseNode
  rw [if_neg (by omega), s1, s2, s3, s4, s5]
  rw [leDec_leEnc_of_lt 2 _ (by omega), leDec_leEnc_of_lt 2 _ (by omega : ps.length < 256 ^ 2),
    leDec_leEnc_of_lt 2 _ (by omega : max < 256 ^ 2), leDec_leEnc_of_lt 2 depth (by omega)]
  simp only [ne_eq, not_true_eq_false, if_false]
  rw [if_neg (by omega), if_neg (by omega)]
  rw [decEntries_enc (fun p : Nat × Nat => encPtr p.1 p.2) decPtr (fun p => encPtr_length p.1 p.2) ps (fun p hp => decPtr_encPtr p (hps p hp))]

end Diskfs.Ext4.ExtTree
