import DiskfsModel.Model.Iso.SymlinkEnc
import DiskfsModel.Proofs.IsoSusp
namespace Diskfs.Iso

/-! ### the names component records spell -/

/-- a component as `splitPath` delivers it: not empty, no slash, its record fits an entry -/
def CompOK (c : Bytes) : Prop := c ≠ [] ∧ 47 ∉ c ∧ c.length ≤ 248

/-- a name collected so far: empty, "/", or something that does not end with a slash -/
def Good (t : Bytes) : Prop := t = [] ∨ t = [47] ∨ (t ≠ [] ∧ t ≠ [47] ∧ t.getLast? ≠ some 47)

def Normal (t : Bytes) : Prop := t ≠ [] ∧ t ≠ [47] ∧ t.getLast? ≠ some 47

def sfx (rest : List Bytes) : Bytes := (rest.map fun c => 47 :: c).flatten

theorem getLast?_append_ne (a b : Bytes) (hb : b ≠ []) : (a ++ b).getLast? = b.getLast? := by
  rw [List.getLast?_append]
  cases h : b.getLast? with
  | none => exact absurd (List.getLast?_eq_none_iff.1 h) hb
  | some x => simp

theorem comp_last (c : Bytes) (hc : CompOK c) : c.getLast? ≠ some 47 := by
  intro h
  exact hc.2.1 (List.mem_of_getLast? h)

theorem append_comp_normal (t c : Bytes) (hc : CompOK c) : Normal (appendComp t c) := by
  unfold appendComp
  split
  · refine ⟨by simp, ?_, ?_⟩
    · intro h
      have := congrArg List.length h
      simp at this
      have : 0 < c.length := List.length_pos_iff.2 hc.1
      omega
    · rw [getLast?_append_ne _ _ hc.1]; exact comp_last c hc
  · rename_i h
    have ht : t = [] ∨ t = [47] := by
      by_cases h1 : t = []
      · exact Or.inl h1
      · by_cases h2 : t = [47]
        · exact Or.inr h2
        · exact absurd ⟨h1, h2⟩ h
    refine ⟨by simp [hc.1], ?_, ?_⟩
    · rcases ht with rfl | rfl
      · simp only [List.nil_append]
        intro h; exact hc.2.1 (by rw [h]; simp)
      · intro h
        have := congrArg List.length h
        simp at this
        exact hc.1 this
    · rw [getLast?_append_ne _ _ hc.1]; exact comp_last c hc

theorem render_comps_normal (rest : List Bytes) (hr : ∀ c ∈ rest, CompOK c) (m : Bytes) (hm : Normal m) :
    slRender (rest.map some) m = m ++ sfx rest ∧ Normal (slRender (rest.map some) m) := by
  induction rest generalizing m with
  | nil => simp [slRender, sfx, hm]
  | cons c r ih =>
    have hc := hr c (List.mem_cons_self ..)
    have hn : appendComp m c = m ++ 47 :: c := by
      unfold appendComp
      rw [if_pos ⟨hm.1, hm.2.1⟩]
      simp
    have := ih (fun x hx => hr x (List.mem_cons_of_mem _ hx)) (appendComp m c) (append_comp_normal m c hc)
    simp only [List.map_cons, slRender]
    refine ⟨?_, this.2⟩
    rw [this.1, hn]
    simp [sfx]

/-- **joining a further entry**: what `joinSymlinkParts` makes of the name collected so far and the name
    a further entry spells by itself is the name all records spell together -/
theorem join_lemma (t : Bytes) (ht : Good t) (c : Bytes) (rest : List Bytes) (hc : CompOK c) (hr : ∀ x ∈ rest, CompOK x) :
    joinParts t (slRender ((c :: rest).map some) []) true = slRender ((c :: rest).map some) t ∧
    Good (slRender ((c :: rest).map some) t) := by
  have h0 : appendComp [] c = c := by simp [appendComp]
  have nc : Normal c := by have := append_comp_normal [] c hc; rwa [h0] at this
  have X := render_comps_normal rest hr c nc
  simp only [List.map_cons, slRender, h0]
  rw [X.1]
  have Y := render_comps_normal rest hr (appendComp t c) (append_comp_normal t c hc)
  refine ⟨?_, Or.inr (Or.inr Y.2)⟩
  rw [Y.1]
  rcases ht with rfl | rfl | hn
  · simp [joinParts, h0]
  · have : appendComp [47] c = 47 :: c := by simp [appendComp]
    simp [joinParts, this]
  · have : appendComp t c = t ++ 47 :: c := by
      unfold appendComp
      rw [if_pos ⟨hn.1, hn.2.1⟩]
      simp
    have hj : ¬ (t = [] ∨ t.getLast? = some 47) := by
      intro h; rcases h with h | h
      · exact hn.1 h
      · exact hn.2.2 h
    simp only [joinParts, Bool.not_true, Bool.false_eq_true, if_false, hj, this]
    simp

/-! ### component records as the reader walks them -/

def ItemOK : Item → Prop
  | none => True
  | some c => CompOK c

theorem slRender_append (a b : List Item) (t : Bytes) : slRender (a ++ b) t = slRender b (slRender a t) := by
  induction a generalizing t with
  | nil => rfl
  | cons i r ih => cases i <;> simp [slRender, ih]

/-- one component record `flags, length, bytes` in front of `rest` -/
theorem slWalk_step (f : Nat) (fl : UInt8) (c rest name : Bytes) (hc : c.length < 256) :
    slWalk (f + 1) (fl :: UInt8.ofNat c.length :: (c ++ rest)) name =
      slWalk f rest
        (if bit fl.toNat 3 then [47]
         else if bit fl.toNat 2 then appendComp name [46, 46]
         else if bit fl.toNat 1 then appendComp name [46]
         else if c.length > 0 then appendComp name c
         else name) := by
  have hl : (UInt8.ofNat c.length).toNat = c.length := ofNat_toNat_lt _ hc
  simp only [slWalk, List.isEmpty_cons, Bool.false_eq_true, if_false, List.length_cons, List.getD_cons_zero,
    List.getD_cons_succ, hl, List.length_append]
  rw [if_neg (by omega), if_neg (by omega)]
  have hd : List.drop (2 + c.length) (fl :: UInt8.ofNat c.length :: (c ++ rest)) = rest := by
    rw [Nat.add_comm]; simp
  have ht : List.take c.length (List.drop 2 (fl :: UInt8.ofNat c.length :: (c ++ rest))) = c := by simp
  simp only [hd, ht]

theorem slWalk_items (g : List Item) (hg : ∀ i ∈ g, ItemOK i) : ∀ (fuel : Nat) (name : Bytes), g.length ≤ fuel →
    slWalk fuel ((g.map encItem).flatten) name = some (slRender g name) := by
  induction g with
  | nil => intro fuel name _; cases fuel <;> simp [slWalk, slRender]
  | cons i r ih =>
    intro fuel name hf
    cases fuel with
    | zero => simp at hf
    | succ f =>
      have hr := ih (fun x hx => hg x (List.mem_cons_of_mem _ hx)) f
      have hf' : r.length ≤ f := by simp at hf; omega
      simp only [List.map_cons, List.flatten_cons]
      cases i with
      | none =>
        have := slWalk_step f 8 [] ((r.map encItem).flatten) name (by simp)
        simp only [List.length_nil, List.nil_append] at this
        rw [show encItem none = [8, UInt8.ofNat 0] from rfl]
        simp only [List.cons_append, List.nil_append]
        rw [this, hr _ hf']
        simp [slRender, bit]
      | some c =>
        have hc : CompOK c := hg (some c) (List.mem_cons_self ..)
        by_cases h2 : c = [46, 46]
        · subst h2
          have := slWalk_step f 4 [] ((r.map encItem).flatten) name (by simp)
          simp only [List.length_nil, List.nil_append] at this
          rw [show encItem (some [46, 46]) = [4, UInt8.ofNat 0] from rfl]
          simp only [List.cons_append, List.nil_append]
          rw [this, hr _ hf']
          simp [slRender, bit]
        · by_cases h1 : c = [46]
          · subst h1
            have := slWalk_step f 2 [] ((r.map encItem).flatten) name (by simp)
            simp only [List.length_nil, List.nil_append] at this
            rw [show encItem (some [46]) = [2, UInt8.ofNat 0] from rfl]
            simp only [List.cons_append, List.nil_append]
            rw [this, hr _ hf']
            simp [slRender, bit]
          · have := slWalk_step f 0 c ((r.map encItem).flatten) name (by have := hc.2.2; omega)
            have he : encItem (some c) = 0 :: UInt8.ofNat c.length :: c := by simp [encItem, h2, h1]
            rw [he]
            simp only [List.cons_append]
            rw [this, hr _ hf']
            have hpos : c.length > 0 := List.length_pos_iff.2 hc.1
            simp [slRender, bit, hpos]

def encLen (g : List Item) : Nat := ((g.map encItem).flatten).length

theorem encItem_len (i : Item) (h : ItemOK i) : 2 ≤ (encItem i).length ∧ (encItem i).length ≤ 250 := by
  cases i with
  | none => simp [encItem]
  | some c =>
    have := h.2.2
    simp only [encItem]
    split
    · simp
    · split
      · simp
      · simp; omega

theorem encLen_ge (g : List Item) (hg : ∀ i ∈ g, ItemOK i) : g.length ≤ encLen g := by
  induction g with
  | nil => simp [encLen]
  | cons i r ih =>
    have := ih (fun x hx => hg x (List.mem_cons_of_mem _ hx))
    have h2 := (encItem_len i (hg i (List.mem_cons_self ..))).1
    simp only [encLen, List.map_cons, List.flatten_cons, List.length_append, List.length_cons] at this ⊢
    omega

/-- an SL entry whose component area holds whole records of at most 250 bytes parses to the name they spell -/
theorem parseEnt_slEntry (cont : Bool) (g : List Item) (hg : ∀ i ∈ g, ItemOK i) (hl : encLen g ≤ 250) :
    parseEnt (slEntry cont ((g.map encItem).flatten)) = some (.sl cont (slRender g [])) := by
  have hlen : (UInt8.ofNat (((g.map encItem).flatten).length + 5)).toNat = ((g.map encItem).flatten).length + 5 :=
    ofNat_toNat_lt _ (by unfold encLen at hl; omega)
  have hw := slWalk_items g hg (((g.map encItem).flatten).length + 5) [] (by have := encLen_ge g hg; unfold encLen at this; omega)
  unfold parseEnt
  rw [if_neg (by simp [slEntry]), if_pos (by simp [slEntry])]
  unfold parseSL
  have e2 : (slEntry cont ((g.map encItem).flatten)).getD 2 0 = UInt8.ofNat (((g.map encItem).flatten).length + 5) := by simp [slEntry]
  have e3 : (slEntry cont ((g.map encItem).flatten)).getD 3 0 = 1 := by simp [slEntry]
  have e4 : ((slEntry cont ((g.map encItem).flatten)).getD 4 0 == 1) = cont := by cases cont <;> simp [slEntry]
  have el : (slEntry cont ((g.map encItem).flatten)).length = ((g.map encItem).flatten).length + 5 := by simp [slEntry]
  have ed : (slEntry cont ((g.map encItem).flatten)).drop 5 = (g.map encItem).flatten := by simp [slEntry]
  simp only [e2, e3, e4, el, ed, hlen]
  rw [if_neg (by simp), hw]
  rfl

/-! ### the packing loop -/

/-- `slPack` on component records rather than bytes: (continued?, records of the entry) -/
def packS : List Item → List Item → List (Bool × List Item)
  | [], cur => [(false, cur)]
  | e :: r, cur =>
    if (encItem e).length + encLen cur > slMaxComp then (true, cur) :: packS r [e] else packS r (cur ++ [e])

theorem slPack_packS (r cur : List Item) :
    slPack (r.map encItem) ((cur.map encItem).flatten) =
      (packS r cur).map (fun p => slEntry p.1 ((p.2.map encItem).flatten)) := by
  induction r generalizing cur with
  | nil => simp [slPack, packS]
  | cons e r ih =>
    have hl : ((cur.map encItem).flatten).length = encLen cur := rfl
    simp only [List.map_cons, slPack, packS]
    rw [hl]
    by_cases hcond : (encItem e).length + encLen cur > slMaxComp
    · rw [if_pos hcond, if_pos hcond]
      have := ih [e]
      simp only [List.map_cons, List.map_nil, List.flatten_cons, List.flatten_nil, List.append_nil] at this
      simp only [List.map_cons, this]
    · rw [if_neg hcond, if_neg hcond]
      have := ih (cur ++ [e])
      simp only [List.map_append, List.flatten_append, List.map_cons, List.map_nil, List.flatten_cons, List.flatten_nil,
        List.append_nil] at this
      exact this

theorem packS_groups (r : List Item) (hr : ∀ i ∈ r, ItemOK i) : ∀ (cur : List Item), (∀ i ∈ cur, ItemOK i) → encLen cur ≤ 250 →
    ∀ p ∈ packS r cur, (∀ i ∈ p.2, ItemOK i) ∧ encLen p.2 ≤ 250 := by
  induction r with
  | nil => intro cur hc hl p hp; simp only [packS, List.mem_singleton] at hp; subst hp; exact ⟨hc, hl⟩
  | cons e r ih =>
    intro cur hc hl p hp
    have he := hr e (List.mem_cons_self ..)
    have hr' := fun x hx => hr x (List.mem_cons_of_mem _ hx)
    simp only [packS] at hp
    split at hp
    · rcases List.mem_cons.1 hp with rfl | hp
      · exact ⟨hc, hl⟩
      · refine ih hr' [e] (by intro i hi; simp only [List.mem_singleton] at hi; subst hi; exact he) ?_ p hp
        have := (encItem_len e he).2
        simpa [encLen] using this
    · rename_i hn
      refine ih hr' (cur ++ [e]) ?_ ?_ p hp
      · intro i hi
        rcases List.mem_append.1 hi with hi | hi
        · exact hc i hi
        · simp only [List.mem_singleton] at hi; subst hi; exact he
      · unfold slMaxComp at hn
        simp only [encLen, List.map_append, List.flatten_append, List.length_append, List.map_cons, List.map_nil,
          List.flatten_cons, List.flatten_nil, List.append_nil] at hn hl ⊢
        omega

theorem parseAll_map {α} (l : List α) (f : α → Bytes) (g : α → SEnt) (h : ∀ x ∈ l, parseEnt (f x) = some (g x)) :
    parseAll (l.map f) = some (l.map g) := by
  induction l with
  | nil => rfl
  | cons x r ih =>
    simp only [List.map_cons, parseAll, h x (List.mem_cons_self ..), ih (fun y hy => h y (List.mem_cons_of_mem _ hy))]

/-! ### what ReadLink makes of the entries -/

def toSl (p : Bool × List Item) : SEnt := .sl p.1 (slRender p.2 [])

/-- the state of the reader between two entries: `t` collected so far (`s`: an entry was seen), `cur`
    the records of the entry being filled -/
def PInv (cur : List Item) (t : Bytes) (s : Bool) : Prop :=
  Good t ∧ (s = false → t = [] ∧ Good (slRender cur [])) ∧
  (s = true → ∃ c rest, cur = (c :: rest).map some ∧ CompOK c ∧ ∀ x ∈ rest, CompOK x)

theorem close_lemma (cur : List Item) (t : Bytes) (s : Bool) (h : PInv cur t s) :
    joinParts t (slRender cur []) s = slRender cur t ∧ Good (slRender cur t) := by
  cases s with
  | false =>
    obtain ⟨rfl, hg⟩ := h.2.1 rfl
    exact ⟨by simp [joinParts], hg⟩
  | true =>
    obtain ⟨c, rest, rfl, hc, hr⟩ := h.2.2 rfl
    exact join_lemma t h.1 c rest hc hr

theorem pinv_push (cur : List Item) (t : Bytes) (s : Bool) (h : PInv cur t s) (e : Bytes) (he : CompOK e) :
    PInv (cur ++ [some e]) t s := by
  refine ⟨h.1, ?_, ?_⟩
  · intro hs
    refine ⟨(h.2.1 hs).1, ?_⟩
    rw [slRender_append]
    simp only [slRender]
    exact Or.inr (Or.inr (append_comp_normal _ e he))
  · intro hs
    obtain ⟨c, rest, rfl, hc, hr⟩ := h.2.2 hs
    refine ⟨c, rest ++ [e], by simp, hc, ?_⟩
    intro x hx
    rcases List.mem_append.1 hx with hx | hx
    · exact hr x hx
    · simp only [List.mem_singleton] at hx; subst hx; exact he

theorem readLink_packS (r : List Bytes) (hr : ∀ c ∈ r, CompOK c) : ∀ (cur : List Item) (t : Bytes) (s : Bool), PInv cur t s →
    readLinkGo ((packS (r.map some) cur).map toSl) t s = some (slRender (cur ++ r.map some) t) := by
  induction r with
  | nil =>
    intro cur t s h
    have := close_lemma cur t s h
    simp only [List.map_nil, packS, List.map_cons, toSl, readLinkGo, Bool.false_eq_true, if_false, List.append_nil, this.1]
  | cons e r ih =>
    intro cur t s h
    have he := hr e (List.mem_cons_self ..)
    have hr' := fun x hx => hr x (List.mem_cons_of_mem _ hx)
    have hcl := close_lemma cur t s h
    simp only [List.map_cons, packS]
    split
    · simp only [List.map_cons, toSl, readLinkGo, if_true, hcl.1]
      have hi : PInv [some e] (slRender cur t) true :=
        ⟨hcl.2, ⟨(by intro h; cases h), fun _ => ⟨e, [], rfl, he, by intro x hx; cases hx⟩⟩⟩
      have := ih hr' [some e] (slRender cur t) true hi
      rw [this, slRender_append, slRender_append]
      rfl
    · have := ih hr' (cur ++ [some e]) t s (pinv_push cur t s h e he)
      rw [this, List.append_assoc]
      rfl

/-- **SL round trip on component records**: for an optional root record followed by ANY components
    that are non-empty, free of slashes and at most 248 bytes long, the entries the packing loop
    makes each parse as an SL entry and ReadLink returns exactly the target the records spell -/
theorem sl_items_roundtrip (root : Bool) (comps : List Bytes) (hc : ∀ c ∈ comps, CompOK c) :
    ∃ ps, parseAll (slPack (((if root then [none] else []) ++ comps.map some).map encItem) []) = some ps ∧
      readLink ps = some (slRender ((if root then [none] else []) ++ comps.map some) []) := by
  have hitems : ∀ i ∈ comps.map some, ItemOK i := by
    intro i hi
    obtain ⟨c, hcm, rfl⟩ := List.mem_map.1 hi
    exact hc c hcm
  -- the root record always joins the first entry
  have hstart : ∃ cur : List Item, (∀ i ∈ cur, ItemOK i) ∧ encLen cur ≤ 250 ∧ PInv cur [] false ∧
      slPack (((if root then [none] else []) ++ comps.map some).map encItem) [] =
        slPack ((comps.map some).map encItem) ((cur.map encItem).flatten) ∧
      slRender ((if root then [none] else []) ++ comps.map some) [] = slRender (cur ++ comps.map some) [] := by
    cases root with
    | false =>
      exact ⟨[], by simp, by simp [encLen], ⟨Or.inl rfl, ⟨fun _ => ⟨rfl, Or.inl rfl⟩, (by intro h; cases h)⟩⟩, by simp, by simp⟩
    | true =>
      refine ⟨[none], by intro i hi; simp only [List.mem_singleton] at hi; subst hi; trivial, by simp [encLen, encItem],
        ⟨Or.inl rfl, ⟨fun _ => ⟨rfl, Or.inr (Or.inl rfl)⟩, (by intro h; cases h)⟩⟩, ?_, by simp⟩
      simp [slPack, encItem, slMaxComp]
  obtain ⟨cur, hcur, hlen, hinv, hpk, hrn⟩ := hstart
  have hg := packS_groups (comps.map some) hitems cur hcur hlen
  refine ⟨(packS (comps.map some) cur).map toSl, ?_, ?_⟩
  · rw [hpk, slPack_packS]
    exact parseAll_map _ _ _ (fun p hp => parseEnt_slEntry p.1 p.2 (hg p hp).1 (hg p hp).2)
  · rw [hrn]
    exact readLink_packS comps hc cur [] false hinv

/-! ### from the target string -/

theorem splitSlash_ok : ∀ (t cur : Bytes), 47 ∉ cur → ∀ c ∈ splitSlash t cur, c ≠ [] ∧ 47 ∉ c := by
  intro t
  induction t with
  | nil =>
    intro cur hcur c hc
    simp only [splitSlash] at hc
    split at hc
    · simp at hc
    · rename_i hne
      simp only [List.mem_singleton] at hc
      subst hc
      exact ⟨hne, hcur⟩
  | cons x r ih =>
    intro cur hcur c hc
    simp only [splitSlash] at hc
    split at hc
    · split at hc
      · exact ih [] (by simp) c hc
      · rename_i hne
        rcases List.mem_cons.1 hc with rfl | hc
        · exact ⟨hne, hcur⟩
        · exact ih [] (by simp) c hc
    · rename_i hx
      refine ih (cur ++ [x]) ?_ c hc
      intro hm
      rcases List.mem_append.1 hm with hm | hm
      · exact hcur hm
      · simp only [List.mem_singleton] at hm
        exact hx hm.symm

/-- **SL round trip** for every target whose components are at most 248 bytes long: the entries
    `rockRidgeSymlink.Bytes` makes are well-formed system use entries, each parses as SL, and ReadLink
    returns the target the component records spell -/
theorem sl_target_roundtrip (uni : Bool) (t : Bytes) (hlen : ∀ c ∈ slComps uni t, c.length ≤ 248) :
    (∀ e ∈ slEntries uni t, EntOK e) ∧
    ∃ ps, parseAll (slEntries uni t) = some ps ∧ readLink ps = some (slRender (slItems uni t) []) := by
  have hc : ∀ c ∈ slComps uni t, CompOK c := by
    intro c hcm
    have := splitSlash_ok _ [] (by simp) c hcm
    exact ⟨this.1, this.2, hlen c hcm⟩
  have hitems : ∀ i ∈ slItems uni t, ItemOK i := by
    intro i hi
    simp only [slItems, List.mem_append, List.mem_map] at hi
    rcases hi with hi | ⟨c, hcm, rfl⟩
    · split at hi
      · simp only [List.mem_singleton] at hi; subst hi; trivial
      · simp at hi
    · exact hc c hcm
  refine ⟨?_, ?_⟩
  · intro e he
    unfold slEntries at he
    have h0 : slPack ((slItems uni t).map encItem) [] = slPack ((slItems uni t).map encItem) ((([] : List Item).map encItem).flatten) := rfl
    rw [h0, slPack_packS] at he
    obtain ⟨p, hp, rfl⟩ := List.mem_map.1 he
    have := (packS_groups (slItems uni t) hitems [] (by simp) (by simp [encLen]) p hp).2
    unfold encLen at this
    have hl : (slEntry p.1 ((p.2.map encItem).flatten)).length = ((p.2.map encItem).flatten).length + 5 := by
      simp only [slEntry, List.length_append, List.length_cons, List.length_nil]; omega
    refine ⟨by omega, by omega, ?_⟩
    rw [hl]
    simp only [slEntry, List.cons_append, List.getD_cons_succ, List.getD_cons_zero]
    exact ofNat_toNat_lt _ (by omega)
  · have := sl_items_roundtrip (decide (t.head? = some 47)) (slComps uni t) hc
    simp only [decide_eq_true_eq] at this
    exact this

/-! ### what Finalize refuses -/

theorem fitPrefix_last_stays (maxSize bs : Nat) (hm : maxSize ≤ bs) (sl : Bytes) (hsl : sl.length > bs) :
    ∀ (exts : List Bytes) (used : Nat), ∃ pre, (fitPrefix true maxSize (exts ++ [sl]) used).2 = pre ++ [sl] := by
  intro exts
  induction exts with
  | nil =>
    intro used
    refine ⟨[], ?_⟩
    simp only [List.nil_append, fitPrefix, if_true, sumLen_cons]
    rw [if_pos ⟨by omega, by omega⟩]
  | cons e r ih =>
    intro used
    simp only [List.cons_append, fitPrefix, if_true]
    split
    · exact ⟨e :: r, rfl⟩
    · exact ih (used + e.length)

/-- **the exact refusal** (recorded finding iso-rr-symlink-over-block): whatever extensions stand before
    it, however much room the record has and however many continuation blocks there are, an
    extension of more than one block at the end of the list makes `dirEntryExtensionsToBytes` fail -/
theorem assemble_refuses (bs : Nat) (sl : Bytes) (hsl : sl.length > bs) : ∀ (fuel : Nat) (exts : List Bytes) (maxSize : Nat)
    (ce : List Nat), maxSize ≤ bs → assemble true bs fuel (exts ++ [sl]) maxSize ce = none := by
  intro fuel
  induction fuel with
  | zero => intro exts maxSize ce _; rfl
  | succ f ih =>
    intro exts maxSize ce hm
    obtain ⟨pre, hpre⟩ := fitPrefix_last_stays maxSize bs hm sl hsl exts 0
    unfold assemble
    generalize hfp : fitPrefix true maxSize (exts ++ [sl]) 0 = fp at hpre
    obtain ⟨fit, rest⟩ := fp
    simp only at hpre
    subst hpre
    cases pre with
    | nil =>
      simp only [List.nil_append]
      cases ce with
      | nil => simp
      | cons c ce' =>
        have := ih [] bs ce' (Nat.le_refl _)
        simp only [List.nil_append] at this
        simp [this]
    | cons e r =>
      simp only [List.cons_append]
      cases ce with
      | nil => simp
      | cons c ce' =>
        have := ih (e :: r) bs ce' (Nat.le_refl _)
        simp only [List.cons_append] at this
        simp [this]

/-- ... and one that fits a block is placed whole in a continuation area of its own -/
theorem assemble_single (bs f : Nat) (e : Bytes) (ce : List Nat) (h : e.length ≤ bs) :
    assemble true bs (f + 1) [e] bs ce = some [e] := by
  have hn : ¬ (bs < e.length ∧ bs < e.length + ceSize) := by omega
  simp [assemble, fitPrefix, sumLen, hn]

/-! ### targets in normal form come back byte for byte -/

theorem splitSlash_comp (c r cur : Bytes) (hc : 47 ∉ c) : splitSlash (c ++ r) cur = splitSlash r (cur ++ c) := by
  induction c generalizing cur with
  | nil => simp
  | cons x xs ih =>
    have hx : x ≠ 47 := fun e => hc (by rw [e]; exact List.mem_cons_self ..)
    simp only [List.cons_append, splitSlash, hx, if_false]
    rw [ih (cur ++ [x]) (fun hm => hc (List.mem_cons_of_mem _ hm))]
    simp

theorem splitSlash_sfx (rest : List Bytes) (hr : ∀ c ∈ rest, CompOK c) (cur : Bytes) (hcur : cur ≠ []) :
    splitSlash (sfx rest) cur = cur :: rest := by
  induction rest generalizing cur with
  | nil => simp [sfx, splitSlash, hcur]
  | cons c r ih =>
    have hc := hr c (List.mem_cons_self ..)
    have : sfx (c :: r) = 47 :: (c ++ sfx r) := by simp [sfx]
    rw [this]
    simp only [splitSlash, if_true, hcur, if_false]
    rw [splitSlash_comp c (sfx r) [] hc.2.1, List.nil_append, ih (fun x hx => hr x (List.mem_cons_of_mem _ hx)) c hc.1]

/-- the target spelled by (an optional root record and) components in `CompOK` splits into exactly
    these records again: such targets are the NORMAL FORMS, and `sl_target_roundtrip` returns them unchanged -/
theorem slItems_render (root : Bool) (comps : List Bytes) (hc : ∀ c ∈ comps, CompOK c) :
    slItems false (slRender ((if root then [none] else []) ++ comps.map some) []) =
      (if root then [none] else []) ++ comps.map some := by
  cases comps with
  | nil => cases root <;> simp [slItems, slRender, slComps, splitSlash]
  | cons c rest =>
    have hc0 := hc c (List.mem_cons_self ..)
    have hr := fun x hx => hc x (List.mem_cons_of_mem _ hx)
    have hne : c.head? ≠ some 47 := by
      intro h
      exact hc0.2.1 (List.mem_of_mem_head? h)
    cases root with
    | false =>
      have h0 : appendComp [] c = c := by simp [appendComp]
      have nc : Normal c := by have := append_comp_normal [] c hc0; rwa [h0] at this
      have R := (render_comps_normal rest hr c nc).1
      simp only [Bool.false_eq_true, if_false, List.nil_append, List.map_cons, slRender, h0, R]
      have hh : (c ++ sfx rest).head? ≠ some 47 := by
        cases c with
        | nil => exact absurd rfl hc0.1
        | cons x xs => simpa using hne
      simp only [slItems, hh, if_false, List.nil_append, slComps, Bool.false_eq_true]
      rw [splitSlash_comp c (sfx rest) [] hc0.2.1, List.nil_append, splitSlash_sfx rest hr c hc0.1]
      simp
    | true =>
      have h0 : appendComp [47] c = 47 :: c := by simp [appendComp]
      have nc : Normal (47 :: c) := by have := append_comp_normal [47] c hc0; rwa [h0] at this
      have R := (render_comps_normal rest hr (47 :: c) nc).1
      simp only [if_true, List.cons_append, List.nil_append, List.map_cons, slRender, h0, R]
      simp only [slItems, List.head?_cons, if_true, slComps, Bool.false_eq_true, if_false, List.cons_append, splitSlash]
      rw [splitSlash_comp c (sfx rest) [] hc0.2.1]
      simp only [List.nil_append]
      rw [splitSlash_sfx rest hr c hc0.1]
      simp

end Diskfs.Iso
