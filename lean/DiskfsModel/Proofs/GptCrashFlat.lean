/-
  C09 on the flat model: every crash state of the flat device (`Gpt.crashDev`: a prefix of the synced
  writes of `Gpt.write`, the next one with ANY subset of its sectors applied) is, seen through `toDisk`,
  one of the record-level `Crash` states; together with `read_refines` this turns the record-level
  atomicity theorem into a theorem about `Gpt.read` on flat devices.
-/
import DiskfsModel.Proofs.GptRefine
set_option linter.unusedSimpArgs false
set_option linter.unusedVariables false
namespace Diskfs.GptCrash
open Diskfs Diskfs.Gpt

/-! ### record level: the collision premise is only needed up to the decoded partition list -/

/-- `crash_atomic` with the weaker premise "a sector mixture with the old CRC decodes to the old or the
    new partition list" (the flat model states the premise on bytes, without needing the array
    concatenation to be injective) -/
theorem crash_atomic_parts {S P : Type} {n : Nat} (R : Reader S P n) (pmFirst : Bool) (old new : Disk S n)
    (hOld : OldOk R old) (hNew : NewOk R new)
    (hColl : ∀ keep : Fin n → Bool, R.crc (mix keep new.pa old.pa) = R.crc old.pa →
      R.parts (mix keep new.pa old.pa) = R.parts old.pa ∨ R.parts (mix keep new.pa old.pa) = R.parts new.pa)
    (d : Disk S n) (hd : Crash pmFirst old new d) :
    (read R d).parts? = some (R.parts old.pa) ∨ (read R d).parts? = some (R.parts new.pa) := by
  cases hd with
  | pmbrFirst m hm hf => left; simp [read, hOld.hdr, Out.parts?]
  | pmbrLast m hm hf => right; simp [read, hNew.hdrP, Out.parts?]
  | backupArray keep => left; simp [read, hOld.hdr, Out.parts?]
  | backupHeader h hh => left; simp [read, hOld.hdr, Out.parts?]
  | primaryArray keep =>
    simp only [read, hOld.hdr]
    by_cases hc : R.crc (mix keep new.pa old.pa) = R.crc old.pa
    · simp only [hc, if_true, Out.parts?]
      rcases hColl keep hc with h | h
      · left; rw [h]
      · right; rw [h]
    · right
      simp [hc, readBackup, hNew.hdrB, hNew.same, Out.parts?]
  | primaryHeader h hh =>
    right
    rcases hh with hh | hh
    · subst hh
      simp only [read, hOld.hdr]
      by_cases hc : R.crc new.pa = R.crc old.pa
      · simp [hc, Out.parts?]
      · simp [hc, readBackup, hNew.hdrB, hNew.same, Out.parts?]
    · subst hh
      simp [read, hNew.hdrP, Out.parts?]

/-- in every crash state each header sector is the old or the new one -/
theorem crash_headers {S : Type} {n : Nat} (pmFirst : Bool) (old new d : Disk S n) (hd : Crash pmFirst old new d) :
    (d.ph = old.ph ∨ d.ph = new.ph) ∧ (d.bh = old.bh ∨ d.bh = new.bh) := by
  cases hd with
  | pmbrFirst m hm hf => exact ⟨Or.inl rfl, Or.inl rfl⟩
  | pmbrLast m hm hf => exact ⟨Or.inr rfl, Or.inr rfl⟩
  | backupArray keep => exact ⟨Or.inl rfl, Or.inl rfl⟩
  | backupHeader h hh => exact ⟨Or.inl rfl, hh⟩
  | primaryArray keep => exact ⟨Or.inl rfl, Or.inr rfl⟩
  | primaryHeader h hh => exact ⟨hh, Or.inr rfl⟩

/-! ### layout: the five regions, in order, disjoint, inside the disk -/

structure Layout (size lss : Nat) : Prop where
  h512 : 512 ≤ lss
  hn : 16384 / lss * lss = 16384
  e1 : 2 * lss + 16384 ≤ oBA size lss
  e2 : oBA size lss + 16384 = oBH size lss

/-- the minimum disk size is what makes the five regions pairwise disjoint -/
theorem layout_of (size lss : Nat) (hl : lss = 512 ∨ lss = 4096) (hmin : (2 * (16384 / lss) + 3) * lss ≤ size) :
    Layout size lss := by
  have hlpos : 0 < lss := by rcases hl with h | h <;> omega
  have hq : 2 * (16384 / lss) + 3 ≤ size / lss := (Nat.le_div_iff_mul_le hlpos).2 hmin
  have hp : 16384 / lss * lss = 16384 := nsec_mul lss hl
  refine ⟨by rcases hl with h | h <;> omega, hp, ?_, ?_⟩
  · unfold oBA
    have : (2 + 16384 / lss) * lss ≤ (size / lss - 1 - 16384 / lss) * lss := Nat.mul_le_mul_right _ (by omega)
    rw [Nat.add_mul, hp] at this
    exact this
  · unfold oBA oBH
    have : size / lss - 1 = (size / lss - 1 - 16384 / lss) + 16384 / lss := by omega
    rw [this, Nat.add_mul, hp]
    congr 2
    omega

/-- the sectors of a 16 KiB array -/
def sectors (lss : Nat) (a : Bytes) : Fin (16384 / lss) → Bytes := fun i => slice a (i.val * lss) (i.val * lss + lss)

theorem sector_bound {size lss : Nat} (L : Layout size lss) (i : Fin (16384 / lss)) : i.val * lss + lss ≤ 16384 := by
  have : (i.val + 1) * lss ≤ 16384 / lss * lss := Nat.mul_le_mul_right _ i.isLt
  rw [L.hn, Nat.add_mul, Nat.one_mul] at this
  exact this

theorem disk_ext {S : Type} {n : Nat} (a b : Disk S n) (h1 : a.mbr = b.mbr) (h2 : a.ph = b.ph) (h3 : a.pa = b.pa)
    (h4 : a.ba = b.ba) (h5 : a.bh = b.bh) : a = b := by
  cases a; cases b; simp_all

/-- sector `i` of a region that has just been written in full -/
theorem readAt_sector_hit (D : Dev) (off lss : Nat) (a : Bytes) (ha : a.length = 16384) (i : Nat) (hi : i * lss + lss ≤ 16384) :
    readAt (applyWr D ⟨off, a⟩) (off + i * lss) lss = slice a (i * lss) (i * lss + lss) := by
  have h : readAt (applyWr D ⟨off, a⟩) off 16384 = a := by
    have := readAt_applyWr_same D ⟨off, a⟩
    rw [show (Wr.mk off a).data.length = 16384 from ha] at this
    exact this
  have := slice_readAt (applyWr D ⟨off, a⟩) off 16384 (i * lss) (i * lss + lss) (by omega) hi
  rw [h] at this
  have e : i * lss + lss - i * lss = lss := by omega
  rw [e] at this
  exact this.symm

/-! ### one flat write = one field of the record -/

section fields
variable {size lss : Nat}

theorem toDisk_write_ba (L : Layout size lss) (D : Dev) (a : Bytes) (ha : a.length = 16384) :
    toDisk (applyWr D ⟨oBA size lss, a⟩) size lss = { toDisk D size lss with ba := sectors lss a } := by
  have h512 := L.h512; have e1 := L.e1; have e2 := L.e2
  apply disk_ext
  · exact readAt_applyWr_disjoint _ _ _ _ (by simp only [ha]; omega)
  · exact readAt_applyWr_disjoint _ _ _ _ (by simp only [ha]; omega)
  · funext i; have := sector_bound L i
    exact readAt_applyWr_disjoint _ _ _ _ (by simp only [ha]; omega)
  · funext i; exact readAt_sector_hit D _ lss a ha i.val (sector_bound L i)
  · exact readAt_applyWr_disjoint _ _ _ _ (by simp only [ha]; omega)

theorem toDisk_write_pa (L : Layout size lss) (D : Dev) (a : Bytes) (ha : a.length = 16384) :
    toDisk (applyWr D ⟨2 * lss, a⟩) size lss = { toDisk D size lss with pa := sectors lss a } := by
  have h512 := L.h512; have e1 := L.e1; have e2 := L.e2
  apply disk_ext
  · exact readAt_applyWr_disjoint _ _ _ _ (by simp only [ha]; omega)
  · exact readAt_applyWr_disjoint _ _ _ _ (by simp only [ha]; omega)
  · funext i; exact readAt_sector_hit D _ lss a ha i.val (sector_bound L i)
  · funext i; have := sector_bound L i
    exact readAt_applyWr_disjoint _ _ _ _ (by simp only [ha]; omega)
  · exact readAt_applyWr_disjoint _ _ _ _ (by simp only [ha]; omega)

theorem toDisk_write_bh (L : Layout size lss) (D : Dev) (b : Bytes) (hb : b.length = lss) :
    toDisk (applyWr D ⟨oBH size lss, b⟩) size lss = { toDisk D size lss with bh := b } := by
  have h512 := L.h512; have e1 := L.e1; have e2 := L.e2
  apply disk_ext
  · exact readAt_applyWr_disjoint _ _ _ _ (by simp only [hb]; omega)
  · exact readAt_applyWr_disjoint _ _ _ _ (by simp only [hb]; omega)
  · funext i; have := sector_bound L i
    exact readAt_applyWr_disjoint _ _ _ _ (by simp only [hb]; omega)
  · funext i; have := sector_bound L i
    exact readAt_applyWr_disjoint _ _ _ _ (by simp only [hb]; omega)
  · have := readAt_applyWr_same D ⟨oBH size lss, b⟩
    rw [show (Wr.mk (oBH size lss) b).data.length = lss from hb] at this
    exact this

theorem toDisk_write_ph (L : Layout size lss) (D : Dev) (b : Bytes) (hb : b.length = lss) :
    toDisk (applyWr D ⟨lss, b⟩) size lss = { toDisk D size lss with ph := b } := by
  have h512 := L.h512; have e1 := L.e1; have e2 := L.e2
  apply disk_ext
  · exact readAt_applyWr_disjoint _ _ _ _ (by simp only [hb]; omega)
  · have := readAt_applyWr_same D ⟨lss, b⟩
    rw [show (Wr.mk lss b).data.length = lss from hb] at this
    exact this
  · funext i; have := sector_bound L i
    exact readAt_applyWr_disjoint _ _ _ _ (by simp only [hb]; omega)
  · funext i; have := sector_bound L i
    exact readAt_applyWr_disjoint _ _ _ _ (by simp only [hb]; omega)
  · exact readAt_applyWr_disjoint _ _ _ _ (by simp only [hb]; omega)

theorem toDisk_write_pm (L : Layout size lss) (D : Dev) (pm : Bytes) (hpm : pm.length = 66) :
    toDisk (applyWr D ⟨446, pm⟩) size lss =
      { toDisk D size lss with mbr := readAt (applyWr D ⟨446, pm⟩) 0 lss } := by
  have h512 := L.h512; have e1 := L.e1; have e2 := L.e2
  apply disk_ext
  · rfl
  · exact readAt_applyWr_disjoint _ _ _ _ (by simp only [hpm]; omega)
  · funext i; have := sector_bound L i
    exact readAt_applyWr_disjoint _ _ _ _ (by simp only [hpm]; omega)
  · funext i; have := sector_bound L i
    exact readAt_applyWr_disjoint _ _ _ _ (by simp only [hpm]; omega)
  · exact readAt_applyWr_disjoint _ _ _ _ (by simp only [hpm]; omega)

/-- SECTOR SUBSET IS MIX: a torn backup-array write leaves, sector by sector, new where kept and old elsewhere -/
theorem toDisk_torn_ba (L : Layout size lss) (D : Dev) (a : Bytes) (ha : a.length = 16384) (keep : Nat → Bool) :
    toDisk (applyWrs D (tornPieces lss ⟨oBA size lss, a⟩ keep)) size lss =
      { toDisk D size lss with ba := mix (fun i => keep i.val) (sectors lss a) (toDisk D size lss).ba } := by
  have h512 := L.h512; have e1 := L.e1; have e2 := L.e2
  have hlen : (Wr.mk (oBA size lss) a).data.length = 16384 / lss * lss := by rw [L.hn]; exact ha
  have hl : 0 < lss := by omega
  apply disk_ext
  · exact torn_miss D lss _ hl _ hlen keep _ _ (by simp only [ha]; omega)
  · exact torn_miss D lss _ hl _ hlen keep _ _ (by simp only [ha]; omega)
  · funext i; have := sector_bound L i
    exact torn_miss D lss _ hl _ hlen keep _ _ (by simp only [ha]; omega)
  · funext i
    have := torn_read D lss _ hl ⟨oBA size lss, a⟩ hlen keep i.val i.isLt
    simp only [toDisk, mix, sectors]
    rw [this]
  · exact torn_miss D lss _ hl _ hlen keep _ _ (by simp only [ha]; omega)

/-- …and the same for a torn primary-array write -/
theorem toDisk_torn_pa (L : Layout size lss) (D : Dev) (a : Bytes) (ha : a.length = 16384) (keep : Nat → Bool) :
    toDisk (applyWrs D (tornPieces lss ⟨2 * lss, a⟩ keep)) size lss =
      { toDisk D size lss with pa := mix (fun i => keep i.val) (sectors lss a) (toDisk D size lss).pa } := by
  have h512 := L.h512; have e1 := L.e1; have e2 := L.e2
  have hlen : (Wr.mk (2 * lss) a).data.length = 16384 / lss * lss := by rw [L.hn]; exact ha
  have hl : 0 < lss := by omega
  apply disk_ext
  · exact torn_miss D lss _ hl _ hlen keep _ _ (by simp only [ha]; omega)
  · exact torn_miss D lss _ hl _ hlen keep _ _ (by simp only [ha]; omega)
  · funext i
    have := torn_read D lss _ hl ⟨2 * lss, a⟩ hlen keep i.val i.isLt
    simp only [toDisk, mix, sectors]
    rw [this]
  · funext i; have := sector_bound L i
    exact torn_miss D lss _ hl _ hlen keep _ _ (by simp only [ha]; omega)
  · exact torn_miss D lss _ hl _ hlen keep _ _ (by simp only [ha]; omega)

end fields

/-! ### every flat crash state is a record-level crash state -/

/-- the five synced writes of the repaired `Write` (protective MBR last), with natural-number offsets -/
def fiveWrs (size lss : Nat) (arr phN bhN pm : Bytes) : List Wr :=
  [⟨oBA size lss, arr⟩, ⟨oBH size lss, bhN⟩, ⟨2 * lss, arr⟩, ⟨lss, phN⟩, ⟨446, pm⟩]

section crash
variable {size lss : Nat}

theorem toDisk_complete (L : Layout size lss) (d0 : Dev) (arr phN bhN pm : Bytes)
    (ha : arr.length = 16384) (hph : phN.length = lss) (hbh : bhN.length = lss) (hpm : pm.length = 66) :
    toDisk (applyWrs d0 (fiveWrs size lss arr phN bhN pm)) size lss =
      { mbr := readAt (applyWrs d0 (fiveWrs size lss arr phN bhN pm)) 0 lss, ph := phN, pa := sectors lss arr,
        ba := sectors lss arr, bh := bhN } := by
  show toDisk (applyWr (applyWr (applyWr (applyWr (applyWr d0 ⟨oBA size lss, arr⟩) ⟨oBH size lss, bhN⟩) ⟨2 * lss, arr⟩)
    ⟨lss, phN⟩) ⟨446, pm⟩) size lss = _
  rw [toDisk_write_pm L _ pm hpm, toDisk_write_ph L _ phN hph, toDisk_write_pa L _ arr ha,
    toDisk_write_bh L _ bhN hbh, toDisk_write_ba L _ arr ha]
  rfl

/-- CRASH STATES: the flat device after the first `k` writes in full and the next one with any subset
    of its sectors is one of the record-level `Crash` states between the old device and the completed one -/
theorem crash_is_Crash (L : Layout size lss) (d0 : Dev) (arr phN bhN pm : Bytes)
    (ha : arr.length = 16384) (hph : phN.length = lss) (hbh : bhN.length = lss) (hpm : pm.length = 66)
    (k : Nat) (keep : Nat → Bool) :
    Crash false (toDisk d0 size lss) (toDisk (applyWrs d0 (fiveWrs size lss arr phN bhN pm)) size lss)
      (toDisk (crashDev d0 lss (fiveWrs size lss arr phN bhN pm) k keep) size lss) := by
  have h512 := L.h512
  have hnew := toDisk_complete L d0 arr phN bhN pm ha hph hbh hpm
  match k with
  | 0 =>
    show Crash false _ _ (toDisk (applyWrs d0 (tornPieces lss ⟨oBA size lss, arr⟩ keep)) size lss)
    rw [toDisk_torn_ba L d0 arr ha keep, hnew]
    exact Crash.backupArray (fun i => keep i.val)
  | 1 =>
    show Crash false _ _ (toDisk (applyWrs (applyWr d0 ⟨oBA size lss, arr⟩)
      (tornPieces lss ⟨oBH size lss, bhN⟩ keep)) size lss)
    rw [torn_single lss _ keep (by simp only [hbh]; omega) (by simp only [hbh]; omega), hnew]
    cases keep 0
    · show Crash false _ _ (toDisk (applyWr d0 ⟨oBA size lss, arr⟩) size lss)
      rw [toDisk_write_ba L _ arr ha]
      exact Crash.backupHeader _ (Or.inl rfl)
    · show Crash false _ _ (toDisk (applyWr (applyWr d0 ⟨oBA size lss, arr⟩) ⟨oBH size lss, bhN⟩) size lss)
      rw [toDisk_write_bh L _ bhN hbh, toDisk_write_ba L _ arr ha]
      exact Crash.backupHeader bhN (Or.inr rfl)
  | 2 =>
    show Crash false _ _ (toDisk (applyWrs (applyWr (applyWr d0 ⟨oBA size lss, arr⟩) ⟨oBH size lss, bhN⟩)
      (tornPieces lss ⟨2 * lss, arr⟩ keep)) size lss)
    rw [toDisk_torn_pa L _ arr ha keep, toDisk_write_bh L _ bhN hbh, toDisk_write_ba L _ arr ha, hnew]
    exact Crash.primaryArray (fun i => keep i.val)
  | 3 =>
    show Crash false _ _ (toDisk (applyWrs (applyWr (applyWr (applyWr d0 ⟨oBA size lss, arr⟩) ⟨oBH size lss, bhN⟩)
      ⟨2 * lss, arr⟩) (tornPieces lss ⟨lss, phN⟩ keep)) size lss)
    rw [torn_single lss _ keep (by simp only [hph]; omega) (by simp only [hph]; omega), hnew]
    cases keep 0
    · show Crash false _ _ (toDisk (applyWr (applyWr (applyWr d0 ⟨oBA size lss, arr⟩) ⟨oBH size lss, bhN⟩)
        ⟨2 * lss, arr⟩) size lss)
      rw [toDisk_write_pa L _ arr ha, toDisk_write_bh L _ bhN hbh, toDisk_write_ba L _ arr ha]
      exact Crash.primaryHeader _ (Or.inl rfl)
    · show Crash false _ _ (toDisk (applyWr (applyWr (applyWr (applyWr d0 ⟨oBA size lss, arr⟩) ⟨oBH size lss, bhN⟩)
        ⟨2 * lss, arr⟩) ⟨lss, phN⟩) size lss)
      rw [toDisk_write_ph L _ phN hph, toDisk_write_pa L _ arr ha, toDisk_write_bh L _ bhN hbh, toDisk_write_ba L _ arr ha]
      exact Crash.primaryHeader phN (Or.inr rfl)
  | 4 =>
    show Crash false _ _ (toDisk (applyWrs (applyWr (applyWr (applyWr (applyWr d0 ⟨oBA size lss, arr⟩) ⟨oBH size lss, bhN⟩)
      ⟨2 * lss, arr⟩) ⟨lss, phN⟩) (tornPieces lss ⟨446, pm⟩ keep)) size lss)
    rw [torn_single lss _ keep (by simp only [hpm]; omega) (by simp only [hpm]; omega)]
    cases keep 0
    · show Crash false _ _ (toDisk (applyWr (applyWr (applyWr (applyWr d0 ⟨oBA size lss, arr⟩) ⟨oBH size lss, bhN⟩)
        ⟨2 * lss, arr⟩) ⟨lss, phN⟩) size lss)
      rw [hnew, toDisk_write_ph L _ phN hph, toDisk_write_pa L _ arr ha, toDisk_write_bh L _ bhN hbh, toDisk_write_ba L _ arr ha]
      exact Crash.pmbrLast _ (Or.inl rfl) rfl
    · exact complete_is_crash_state false _ _
  | k + 5 =>
    have h1 : (fiveWrs size lss arr phN bhN pm).take (k + 5) = fiveWrs size lss arr phN bhN pm :=
      List.take_of_length_le (by simp [fiveWrs])
    have h2 : (fiveWrs size lss arr phN bhN pm)[k + 5]? = none := List.getElem?_eq_none (by simp [fiveWrs])
    unfold crashDev
    simp only [h1, h2]
    exact complete_is_crash_state false _ _

end crash

/-! ### the flat theorem -/

/-- the 16 KiB array whose sector `i` is `new`'s where `keep i` and `old`'s elsewhere -/
def mixBytes (lss : Nat) (keep : Nat → Bool) (new old : Bytes) : Bytes :=
  (List.range (16384 / lss)).flatMap fun i =>
    if keep i then slice new (i * lss) (i * lss + lss) else slice old (i * lss) (i * lss + lss)

/-- explicit premise (CRC32 is not collision free): no sector-wise mixture of the old and the new entry
    array has the old array's CRC unless it IS the old or the new array.  Evaluated with the real CRC32
    on every generated pair by the correspondence run. -/
def NoCrcCollisionFlat (crc : Bytes → Nat) (lss : Nat) (old new : Bytes) : Prop :=
  ∀ keep : Nat → Bool, crc (mixBytes lss keep new old) = crc old →
    mixBytes lss keep new old = old ∨ mixBytes lss keep new old = new

/-- the old device carries a valid primary GPT of the geometry this library writes: the sector at LBA 1
    passes readGPTHeader, names an array of 128 × 128 bytes at LBA 2, and records that array's CRC -/
def OldOkFlat (crc : Bytes → Nat) (d0 : Dev) (lss : Nat) : Prop :=
  ∃ h, readHeader crc (readAt d0 lss lss) = .ok h ∧ h.arrLBA = 2 ∧ h.count = 128 ∧ h.entSize = 128 ∧
    h.arrCrc = crc (readAt d0 (2 * lss) 16384)

theorem flatMap_congr_mem {α β : Type} (l : List α) (f g : α → List β) (h : ∀ a ∈ l, f a = g a) :
    l.flatMap f = l.flatMap g := by
  induction l with
  | nil => rfl
  | cons x xs ih =>
    simp only [List.flatMap_cons]
    rw [h x (List.mem_cons_self ..), ih (fun a ha => h a (List.mem_cons_of_mem _ ha))]

theorem sector_slice (d : Dev) (off lss i : Nat) (hi : i * lss + lss ≤ 16384) :
    slice (readAt d off 16384) (i * lss) (i * lss + lss) = readAt d (off + i * lss) lss := by
  have := slice_readAt d off 16384 (i * lss) (i * lss + lss) (by omega) hi
  have e : i * lss + lss - i * lss = lss := by omega
  rw [e] at this
  exact this

theorem join_mix {size lss : Nat} (L : Layout size lss) (dN d0 : Dev) (keepF : Fin (16384 / lss) → Bool) :
    join (mix keepF (toDisk dN size lss).pa (toDisk d0 size lss).pa) =
      mixBytes lss (fun i => if h : i < 16384 / lss then keepF ⟨i, h⟩ else false)
        (readAt dN (2 * lss) 16384) (readAt d0 (2 * lss) 16384) := by
  unfold join mixBytes
  apply flatMap_congr_mem
  intro i hi
  have hi' : i < 16384 / lss := List.mem_range.1 hi
  have hb := sector_bound L ⟨i, hi'⟩
  simp only [hi', dif_pos, mix, toDisk]
  rw [sector_slice dN (2 * lss) lss i hb, sector_slice d0 (2 * lss) lss i hb]

/-- what the repaired `Write` of a fresh table sets up on ANY prior device `d0`, seen at record level:
    the completed device is `NewOk` for the real decoders, its headers describe this library's geometry,
    and every flat crash state `(k, keep)` is a record-level `Crash` state between `d0` and the completed device -/
theorem write_crash_setup (c : Cfg) (hpl : c.pmbrLast = true) (crc : Bytes → Nat) (hcrc : ∀ b, crc b < two32)
    (d0 : Dev) (t0 : Table) (size : Nat) (ws : List Wr) (t : Table)
    (hf : Fresh t0) (hl : t0.lss = 512 ∨ t0.lss = 4096) (hg : t0.guid.length = 16) (hsz : size < two63)
    (hmin : (2 * (16384 / t0.lss) + 3) * t0.lss ≤ size) (hpm : t0.pmbr = true)
    (hw : write c crc t0 size = .ok (ws, t)) (k : Nat) (keep : Nat → Bool) :
    NewOk (flatReader crc size t0.lss) (toDisk (applyWrs d0 ws) size t0.lss) ∧
    PStd crc (applyWrs d0 ws) t0.lss ∧ BStd crc (applyWrs d0 ws) size t0.lss ∧
    OldOkFlat crc (applyWrs d0 ws) t0.lss ∧
    Crash false (toDisk d0 size t0.lss) (toDisk (applyWrs d0 ws) size t0.lss)
      (toDisk (crashDev d0 t0.lss ws k keep) size t0.lss) := by
  obtain ⟨arr, ps, harr, hlen, ht, r1, r2, r3, r4, _⟩ := write_regions c crc d0 t0 size ws t hf hl hg hsz hmin hw
  obtain ⟨arr', ps', harr', _, _, hws⟩ := write_fresh_exact c crc t0 size ws t hf hl hsz hmin hw
  have harr2 : arr = arr' := by rw [harr] at harr'; cases harr'; rfl
  subst harr2
  obtain ⟨il, iph, iac, ies, igu, ipa, ipm, ish, ifd, ild, ips, ia1, ia2⟩ := initTable_geo t0 size hf hl hsz hmin
  have L := layout_of size t0.lss hl hmin
  have hlpos : 0 < t0.lss := by rcases hl with h | h <;> omega
  have hq : 2 * (16384 / t0.lss) + 3 ≤ size / t0.lss := (Nat.le_div_iff_mul_le hlpos).2 hmin
  have hdl : size / t0.lss ≤ size := Nat.div_le_self _ _
  have hq64 : size / t0.lss < two64 := by simp only [two63, two64] at *; omega
  have hl92 : 92 ≤ (initTable t0 size).lss := by rw [il]; rcases hl with h | h <;> omega
  have hgi : (initTable t0 size).guid.length = 16 := by rw [igu]; exact hg
  have b1 : (initTable t0 size).primaryHeader < two64 := by rw [iph]; decide
  have b2 : (initTable t0 size).secondaryHeader < two64 := by rw [ish]; omega
  have b3 : (initTable t0 size).firstData < two64 := by
    rw [ifd]; have : 16384 / t0.lss ≤ 16384 := Nat.div_le_self _ _
    simp only [two64]; omega
  have b4 : (initTable t0 size).lastData < two64 := by rw [ild]; omega
  have b5 : arraySector (initTable t0 size) true < two64 := by rw [ia1]; decide
  have b6 : arraySector (initTable t0 size) false < two64 := by rw [ia2]; omega
  have b7 : (initTable t0 size).arrCount < two32 := by rw [iac]; decide
  have hP := readHeader_hdrEnc crc hcrc (initTable t0 size) true arr hgi b1 b2 b3 b4 b5 b7
  have hB := readHeader_hdrEnc crc hcrc (initTable t0 size) false arr hgi b1 b2 b3 b4 b6 b7
  simp only [if_true, Bool.false_eq_true, if_false, iph, ish, ifd, ild, ia1, ia2, iac] at hP hB
  -- the write list is the five writes
  have hfive : ws = fiveWrs size t0.lss arr (hdrEnc crc (initTable t0 size) true arr)
      (hdrEnc crc (initTable t0 size) false arr) (pmbrEnc c (initTable t0 size)) := by
    rw [hws, hpl]
    simp only [if_true, coreWrs, pmWrs, ipm, hpm, fiveWrs, oBA, oBH, List.cons_append, List.nil_append]
  have hphl : (hdrEnc crc (initTable t0 size) true arr).length = t0.lss := by
    rw [hdrEnc_length crc _ true arr hgi hl92, il]
  have hbhl : (hdrEnc crc (initTable t0 size) false arr).length = t0.lss := by
    rw [hdrEnc_length crc _ false arr hgi hl92, il]
  have hpml : (pmbrEnc c (initTable t0 size)).length = 66 := by simp [pmbrEnc]
  generalize hphN : hdrEnc crc (initTable t0 size) true arr = phN at *
  generalize hbhN : hdrEnc crc (initTable t0 size) false arr = bhN at *
  generalize hpmN : pmbrEnc c (initTable t0 size) = pm at *
  have hCrash := crash_is_Crash L d0 arr phN bhN pm hlen hphl hbhl hpml k keep
  rw [← hfive] at hCrash
  generalize hdN : applyWrs d0 ws = dN at *
  have hNewOk : NewOk (flatReader crc size t0.lss) (toDisk dN size t0.lss) := by
    refine ⟨?_, ?_, ?_⟩
    · show (flatReader crc size t0.lss).hdrP (readAt dN t0.lss t0.lss) = _
      simp only [flatReader, r1, hP, and_self, if_true, toDisk_pa_join dN size t0.lss hl, r2]
    · show (flatReader crc size t0.lss).hdrB (readAt dN (oBH size t0.lss) t0.lss) = _
      have r3' : readAt dN (oBH size t0.lss) t0.lss = bhN := r3
      have r4' : readAt dN (oBA size t0.lss) 16384 = arr := r4
      simp only [flatReader, r3', hB, and_self, if_true, toDisk_ba_join dN size t0.lss hl, r4']
    · funext i
      have hb := sector_bound L i
      show readAt dN (oBA size t0.lss + i.val * t0.lss) t0.lss = readAt dN (2 * t0.lss + i.val * t0.lss) t0.lss
      rw [← sector_slice dN (oBA size t0.lss) t0.lss i.val hb, ← sector_slice dN (2 * t0.lss) t0.lss i.val hb]
      have r4' : readAt dN (oBA size t0.lss) 16384 = arr := r4
      rw [r4', r2]
  have hPdN : PStd crc dN t0.lss := by
    intro h' hh'; rw [r1, hP] at hh'; cases hh'; exact ⟨rfl, rfl, rfl⟩
  have hBdN : BStd crc dN size t0.lss := by
    intro h' hh' _
    have r3' : readAt dN (oBH size t0.lss) t0.lss = bhN := r3
    rw [r3', hB] at hh'; cases hh'; exact ⟨rfl, rfl, rfl⟩
  have hOO : OldOkFlat crc dN t0.lss := ⟨_, by rw [r1]; exact hP, rfl, rfl, rfl, by rw [r2]⟩
  exact ⟨hNewOk, hPdN, hBdN, hOO, hCrash⟩

/-- C09 ON THE FLAT MODEL.  `d0` any device carrying a valid primary GPT of this library's geometry;
    `ws` what the repaired `Write` (protective MBR last) emits for a fresh table on a disk that holds both
    copies.  For EVERY crash state — the first `k` synced writes in full, the next one with ANY subset
    `keep` of its sectors — `Gpt.read` (LBA arithmetic, readGPTHeader, loadEntries, content-error-only
    fallback to the backup at the last LBA) succeeds and returns exactly the partition list it returned
    on `d0` or exactly the one it returns after the completed write; both of those reads succeed from the
    primary copy.  Explicit premises: sector-atomic writes (`crashDev` / `tornPieces`), `NoCrcCollisionFlat`,
    and that the sector at the last LBA of `d0`, if it validates as a backup header, describes this
    library's geometry (`BStd`; any table this library wrote satisfies it). -/
theorem crash_atomic_flat (c : Cfg) (hpl : c.pmbrLast = true) (crc : Bytes → Nat) (hcrc : ∀ b, crc b < two32)
    (d0 : Dev) (t0 : Table) (size : Nat) (ws : List Wr) (t : Table)
    (hf : Fresh t0) (hl : t0.lss = 512 ∨ t0.lss = 4096) (hg : t0.guid.length = 16) (hsz : size < two63)
    (hmin : (2 * (16384 / t0.lss) + 3) * t0.lss ≤ size) (hpm : t0.pmbr = true)
    (hw : write c crc t0 size = .ok (ws, t))
    (hOld : OldOkFlat crc d0 t0.lss) (hOldB : BStd crc d0 size t0.lss)
    (hColl : NoCrcCollisionFlat crc t0.lss (readAt d0 (2 * t0.lss) 16384) (readAt (applyWrs d0 ws) (2 * t0.lss) 16384))
    (k : Nat) (keep : Nat → Bool) :
    ∃ po pn, outOf (Gpt.read c crc d0 size t0.lss).1 = .ok po false ∧
      outOf (Gpt.read c crc (applyWrs d0 ws) size t0.lss).1 = .ok pn false ∧
      ((outOf (Gpt.read c crc (crashDev d0 t0.lss ws k keep) size t0.lss).1).parts? = some po ∨
       (outOf (Gpt.read c crc (crashDev d0 t0.lss ws k keep) size t0.lss).1).parts? = some pn) := by
  obtain ⟨hNewOk, hPdN, hBdN, _, hCrash⟩ := write_crash_setup c hpl crc hcrc d0 t0 size ws t hf hl hg hsz hmin hpm hw k keep
  have L := layout_of size t0.lss hl hmin
  generalize hdN : applyWrs d0 ws = dN at *
  have hOldOk : OldOk (flatReader crc size t0.lss) (toDisk d0 size t0.lss) := by
    obtain ⟨h, hh, g1, g2, g3, g4⟩ := hOld
    refine ⟨?_⟩
    show (flatReader crc size t0.lss).hdrP (readAt d0 t0.lss t0.lss) = _
    simp only [flatReader, hh, g1, g2, g3, and_self, if_true, toDisk_pa_join d0 size t0.lss hl, g4]
  have hColl' : ∀ keepF : Fin (16384 / t0.lss) → Bool,
      (flatReader crc size t0.lss).crc (mix keepF (toDisk dN size t0.lss).pa (toDisk d0 size t0.lss).pa)
        = (flatReader crc size t0.lss).crc (toDisk d0 size t0.lss).pa →
      (flatReader crc size t0.lss).parts (mix keepF (toDisk dN size t0.lss).pa (toDisk d0 size t0.lss).pa)
        = (flatReader crc size t0.lss).parts (toDisk d0 size t0.lss).pa ∨
      (flatReader crc size t0.lss).parts (mix keepF (toDisk dN size t0.lss).pa (toDisk d0 size t0.lss).pa)
        = (flatReader crc size t0.lss).parts (toDisk dN size t0.lss).pa := by
    intro keepF hc
    simp only [flatReader, join_mix L dN d0 keepF, toDisk_pa_join d0 size t0.lss hl, toDisk_pa_join dN size t0.lss hl] at hc ⊢
    rcases hColl _ hc with h | h
    · left; rw [h]
    · right; rw [h]
  have hPd0 : PStd crc d0 t0.lss := by
    obtain ⟨h, hh, g1, g2, g3, _⟩ := hOld
    intro h' hh'; rw [hh] at hh'; cases hh'; exact ⟨g1, g2, g3⟩
  obtain ⟨hph', hbh'⟩ := crash_headers false _ _ _ hCrash
  have hPD : PStd crc (crashDev d0 t0.lss ws k keep) t0.lss := by
    intro h' hh'
    rcases hph' with e | e
    · exact hPd0 h' (by rw [← show (toDisk d0 size t0.lss).ph = readAt d0 t0.lss t0.lss from rfl, ← e]; exact hh')
    · exact hPdN h' (by rw [← show (toDisk dN size t0.lss).ph = readAt dN t0.lss t0.lss from rfl, ← e]; exact hh')
  have hBD : BStd crc (crashDev d0 t0.lss ws k keep) size t0.lss := by
    intro h' hh' hm
    rcases hbh' with e | e
    · exact hOldB h' (by rw [← show (toDisk d0 size t0.lss).bh = readAt d0 (oBH size t0.lss) t0.lss from rfl, ← e]; exact hh') hm
    · exact hBdN h' (by rw [← show (toDisk dN size t0.lss).bh = readAt dN (oBH size t0.lss) t0.lss from rfl, ← e]; exact hh') hm
  have ref0 := read_refines c crc d0 size t0.lss hl hmin hsz hPd0 hOldB
  have refN := read_refines c crc dN size t0.lss hl hmin hsz hPdN hBdN
  have refD := read_refines c crc (crashDev d0 t0.lss ws k keep) size t0.lss hl hmin hsz hPD hBD
  have hat := crash_atomic_parts (flatReader crc size t0.lss) false _ _ hOldOk hNewOk hColl' _ hCrash
  refine ⟨(flatReader crc size t0.lss).parts (toDisk d0 size t0.lss).pa,
    (flatReader crc size t0.lss).parts (toDisk dN size t0.lss).pa, ?_, ?_, ?_⟩
  · rw [ref0]; simp [GptCrash.read, hOldOk.hdr]
  · rw [refN]; exact GptCrash.complete_reads_primary _ _ hNewOk
  · rw [refD]; exact hat

/-- first-ever write on the flat model: if neither the sector at LBA 1 nor the sector at the last LBA of
    `d0` passes readGPTHeader (blank disk, MBR disk, garbage), every crash state reads as an error — as
    `d0` itself did — or as exactly the partition list of the completed write -/
theorem blank_old_flat (c : Cfg) (hpl : c.pmbrLast = true) (crc : Bytes → Nat) (hcrc : ∀ b, crc b < two32)
    (d0 : Dev) (t0 : Table) (size : Nat) (ws : List Wr) (t : Table)
    (hf : Fresh t0) (hl : t0.lss = 512 ∨ t0.lss = 4096) (hg : t0.guid.length = 16) (hsz : size < two63)
    (hmin : (2 * (16384 / t0.lss) + 3) * t0.lss ≤ size) (hpm : t0.pmbr = true)
    (hw : write c crc t0 size = .ok (ws, t))
    (hNoP : ∀ h, readHeader crc (readAt d0 t0.lss t0.lss) ≠ .ok h)
    (hNoB : ∀ h, readHeader crc (readAt d0 (oBH size t0.lss) t0.lss) ≠ .ok h)
    (k : Nat) (keep : Nat → Bool) :
    ∃ pn, outOf (Gpt.read c crc d0 size t0.lss).1 = .err ∧
      outOf (Gpt.read c crc (applyWrs d0 ws) size t0.lss).1 = .ok pn false ∧
      (outOf (Gpt.read c crc (crashDev d0 t0.lss ws k keep) size t0.lss).1 = .err ∨
       (outOf (Gpt.read c crc (crashDev d0 t0.lss ws k keep) size t0.lss).1).parts? = some pn) := by
  obtain ⟨hNewOk, hPdN, hBdN, _, hCrash⟩ := write_crash_setup c hpl crc hcrc d0 t0 size ws t hf hl hg hsz hmin hpm hw k keep
  generalize hdN : applyWrs d0 ws = dN at *
  have hP0 : (flatReader crc size t0.lss).hdrP (toDisk d0 size t0.lss).ph = none := by
    show (flatReader crc size t0.lss).hdrP (readAt d0 t0.lss t0.lss) = none
    simp only [flatReader]
  have hB0 : (flatReader crc size t0.lss).hdrB (toDisk d0 size t0.lss).bh = none := by
    show (flatReader crc size t0.lss).hdrB (readAt d0 (oBH size t0.lss) t0.lss) = none
    simp only [flatReader]
  have hPd0 : PStd crc d0 t0.lss := fun h hh => absurd hh (hNoP h)
  have hBd0 : BStd crc d0 size t0.lss := fun h hh _ => absurd hh (hNoB h)
  obtain ⟨hph', hbh'⟩ := crash_headers false _ _ _ hCrash
  have hPD : PStd crc (crashDev d0 t0.lss ws k keep) t0.lss := by
    intro h' hh'
    rcases hph' with e | e
    · exact hPd0 h' (by rw [← show (toDisk d0 size t0.lss).ph = readAt d0 t0.lss t0.lss from rfl, ← e]; exact hh')
    · exact hPdN h' (by rw [← show (toDisk dN size t0.lss).ph = readAt dN t0.lss t0.lss from rfl, ← e]; exact hh')
  have hBD : BStd crc (crashDev d0 t0.lss ws k keep) size t0.lss := by
    intro h' hh' hm
    rcases hbh' with e | e
    · exact hBd0 h' (by rw [← show (toDisk d0 size t0.lss).bh = readAt d0 (oBH size t0.lss) t0.lss from rfl, ← e]; exact hh') hm
    · exact hBdN h' (by rw [← show (toDisk dN size t0.lss).bh = readAt dN (oBH size t0.lss) t0.lss from rfl, ← e]; exact hh') hm
  have ref0 := read_refines c crc d0 size t0.lss hl hmin hsz hPd0 hBd0
  have refN := read_refines c crc dN size t0.lss hl hmin hsz hPdN hBdN
  have refD := read_refines c crc (crashDev d0 t0.lss ws k keep) size t0.lss hl hmin hsz hPD hBD
  refine ⟨(flatReader crc size t0.lss).parts (toDisk dN size t0.lss).pa, ?_, ?_, ?_⟩
  · rw [ref0]; simp [GptCrash.read, GptCrash.readBackup, hP0, hB0]
  · rw [refN]; exact GptCrash.complete_reads_primary _ _ hNewOk
  · rw [refD]; exact GptCrash.blank_old _ false _ _ hP0 hB0 hNewOk _ hCrash

/-! ### partition.Read (GPT, then the MBR view of sector 0) on the flat model -/

/-- what mbr.Read makes of a sector-0 content: the record level's `mbrView`, instantiated with the real decoder -/
def mbrViewFlat (s : Bytes) : Option (List Mbr.Part) := (Mbr.read (fun i => s.getD i 0) 512).1

/-- what a caller of partition.Read observes: which kind of table, and its partitions -/
def outP (r : Res PartTable.Tbl) : POut (List Part) (List Mbr.Part) :=
  match r with
  | .ok (.gpt t) => .gpt t.parts
  | .ok (.mbr ps) => .mbr ps
  | _ => .err

theorem mbr_read_sector (d : Dev) (size lss : Nat) (h512 : 512 ≤ lss) (hs : 512 ≤ size) :
    (Mbr.read d size).1 = mbrViewFlat (readAt d 0 lss) := by
  have e : readAt (fun i => (readAt d 0 lss).getD i 0) 0 512 = readAt d 0 512 := by
    apply List.ext_getElem
    · simp
    · intro i h1 h2
      have hi : i < 512 := by simpa using h1
      simp only [readAt, List.getElem_map, List.getElem_range, Nat.zero_add]
      rw [List.getD_eq_getElem?_getD, List.getElem?_map, List.getElem?_range (by omega)]
      simp
  unfold mbrViewFlat Mbr.read
  have n1 : ¬ size < 512 := by omega
  have n2 : ¬ (512 : Nat) < 512 := by omega
  simp only [n1, n2, if_false, e]

/-- partition.Read on the flat device equals the record-level `partRead` with the real decoders
    (repaired reader: the entry-array bound check makes gpt.Read panic-free) -/
theorem partread_refines (c : Cfg) (hab : c.arrayBounded = true) (crc : Bytes → Nat) (d : Dev) (size lss : Nat)
    (hl : lss = 512 ∨ lss = 4096) (hmin : (2 * (16384 / lss) + 3) * lss ≤ size) (hsz : size < two63)
    (hP : PStd crc d lss) (hB : BStd crc d size lss) :
    outP (PartTable.read c crc d size lss).1 =
      partRead (flatReader crc size lss) mbrViewFlat (toDisk d size lss) := by
  have h512 : 512 ≤ lss := by rcases hl with h | h <;> omega
  have hs : 512 ≤ size := by
    have : 3 * lss ≤ (2 * (16384 / lss) + 3) * lss := Nat.mul_le_mul_right _ (by omega)
    omega
  have href := read_refines c crc d size lss hl hmin hsz hP hB
  have hnp := (read_fixed c hab crc d size lss (by omega)).1
  have hm := mbr_read_sector d size lss h512 hs
  unfold PartTable.read partRead
  rw [← href]
  generalize Gpt.read c crc d size lss = g at hnp ⊢
  obtain ⟨r, al⟩ := g
  cases r with
  | ok t => rfl
  | panic s => simp [Res.isPanic] at hnp
  | err e =>
    have hm' : mbrViewFlat (toDisk d size lss).mbr = (Mbr.read d size).1 := hm.symm
    simp only [PartTable.readWith, outOf, hm']
    generalize Mbr.read d size = mr
    obtain ⟨o, al2⟩ := mr
    cases o <;> rfl

/-- FIRST-EVER WRITE, SEEN THROUGH partition.Read, ON THE FLAT MODEL (repaired order: protective MBR last).
    `d0` has no valid GPT header at LBA 1 or at the last LBA (blank disk, MBR-partitioned disk, garbage).  For
    every crash state of the repaired Write, partition.Read (gpt.Read, then mbr.Read of sector 0) returns
    exactly what it returned on `d0` — no table, or the old MBR table — or exactly the new GPT's partitions -/
theorem first_write_atomic_flat (c : Cfg) (hpl : c.pmbrLast = true) (hab : c.arrayBounded = true)
    (crc : Bytes → Nat) (hcrc : ∀ b, crc b < two32)
    (d0 : Dev) (t0 : Table) (size : Nat) (ws : List Wr) (t : Table)
    (hf : Fresh t0) (hl : t0.lss = 512 ∨ t0.lss = 4096) (hg : t0.guid.length = 16) (hsz : size < two63)
    (hmin : (2 * (16384 / t0.lss) + 3) * t0.lss ≤ size) (hpm : t0.pmbr = true)
    (hw : write c crc t0 size = .ok (ws, t))
    (hNoP : ∀ h, readHeader crc (readAt d0 t0.lss t0.lss) ≠ .ok h)
    (hNoB : ∀ h, readHeader crc (readAt d0 (oBH size t0.lss) t0.lss) ≠ .ok h)
    (k : Nat) (keep : Nat → Bool) :
    ∃ pn, outP (PartTable.read c crc (applyWrs d0 ws) size t0.lss).1 = .gpt pn ∧
      (outP (PartTable.read c crc (crashDev d0 t0.lss ws k keep) size t0.lss).1 =
          outP (PartTable.read c crc d0 size t0.lss).1 ∨
       outP (PartTable.read c crc (crashDev d0 t0.lss ws k keep) size t0.lss).1 = .gpt pn) := by
  obtain ⟨hNewOk, hPdN, hBdN, _, hCrash⟩ := write_crash_setup c hpl crc hcrc d0 t0 size ws t hf hl hg hsz hmin hpm hw k keep
  generalize hdN : applyWrs d0 ws = dN at *
  have hP0 : (flatReader crc size t0.lss).hdrP (toDisk d0 size t0.lss).ph = none := by
    show (flatReader crc size t0.lss).hdrP (readAt d0 t0.lss t0.lss) = none
    simp only [flatReader]
  have hB0 : (flatReader crc size t0.lss).hdrB (toDisk d0 size t0.lss).bh = none := by
    show (flatReader crc size t0.lss).hdrB (readAt d0 (oBH size t0.lss) t0.lss) = none
    simp only [flatReader]
  have hPd0 : PStd crc d0 t0.lss := fun h hh => absurd hh (hNoP h)
  have hBd0 : BStd crc d0 size t0.lss := fun h hh _ => absurd hh (hNoB h)
  obtain ⟨hph', hbh'⟩ := crash_headers false _ _ _ hCrash
  have hPD : PStd crc (crashDev d0 t0.lss ws k keep) t0.lss := by
    intro h' hh'
    rcases hph' with e | e
    · exact hPd0 h' (by rw [← show (toDisk d0 size t0.lss).ph = readAt d0 t0.lss t0.lss from rfl, ← e]; exact hh')
    · exact hPdN h' (by rw [← show (toDisk dN size t0.lss).ph = readAt dN t0.lss t0.lss from rfl, ← e]; exact hh')
  have hBD : BStd crc (crashDev d0 t0.lss ws k keep) size t0.lss := by
    intro h' hh' hm
    rcases hbh' with e | e
    · exact hBd0 h' (by rw [← show (toDisk d0 size t0.lss).bh = readAt d0 (oBH size t0.lss) t0.lss from rfl, ← e]; exact hh') hm
    · exact hBdN h' (by rw [← show (toDisk dN size t0.lss).bh = readAt dN (oBH size t0.lss) t0.lss from rfl, ← e]; exact hh') hm
  have ref0 := partread_refines c hab crc d0 size t0.lss hl hmin hsz hPd0 hBd0
  have refN := partread_refines c hab crc dN size t0.lss hl hmin hsz hPdN hBdN
  have refD := partread_refines c hab crc (crashDev d0 t0.lss ws k keep) size t0.lss hl hmin hsz hPD hBD
  refine ⟨(flatReader crc size t0.lss).parts (toDisk dN size t0.lss).pa, ?_, ?_⟩
  · rw [refN]; simp [partRead, GptCrash.complete_reads_primary _ _ hNewOk]
  · rw [refD, ref0]
    exact GptCrash.first_write_atomic _ mbrViewFlat _ _ hP0 hB0 hNewOk _ hCrash

end Diskfs.GptCrash
