/-
  Lemmas about the extent-tree mirror (Model/Ext4/ExtTree.lean): what `extend` (extendExtentTree) does to the
  extent list the tree denotes.
-/
import DiskfsModel.Model.Ext4.ExtTree
namespace Diskfs.Ext4.ExtTree
open Diskfs Diskfs.Ext4

/-- strictly increasing file blocks -/
def SortedFB (es : List Extent) : Prop := es.Pairwise (fun a b => a.fileBlock < b.fileBlock)

/-! ### sortFB on a sorted list -/

theorem insertFB_sorted (e : Extent) (es : List Extent) (h : ∀ x ∈ es, e.fileBlock < x.fileBlock) :
    insertFB e es = e :: es := by
  cases es with
  | nil => rfl
  | cons x xs => simp [insertFB, h x (by simp)]

theorem sortFB_sorted (es : List Extent) (h : SortedFB es) : sortFB es = es := by
  induction es with
  | nil => rfl
  | cons e es ih =>
    have h' := List.pairwise_cons.mp h
    simp only [sortFB, ih h'.2]
    exact insertFB_sorted e es h'.1

theorem insertFB_length (e : Extent) (es : List Extent) : (insertFB e es).length = es.length + 1 := by
  induction es with
  | nil => rfl
  | cons x xs ih =>
    simp only [insertFB]
    split <;> simp [ih]

theorem sortFB_length (es : List Extent) : (sortFB es).length = es.length := by
  induction es with
  | nil => rfl
  | cons e es ih => simp [sortFB, insertFB_length, ih]

theorem SortedFB.of_append_right {a b : List Extent} (h : SortedFB (a ++ b)) : SortedFB b :=
  (List.pairwise_append.mp h).2.1

theorem SortedFB.of_append_left {a b : List Extent} (h : SortedFB (a ++ b)) : SortedFB a :=
  (List.pairwise_append.mp h).1

/-! ### flatten of lists of children -/

theorem flattenKids_append (a b : Kids) : flattenKids (a ++ b) = flattenKids a ++ flattenKids b := by
  induction a with
  | nil => rfl
  | cons p ps ih =>
    obtain ⟨k, c⟩ := p
    simp [flattenKids, ih]

theorem flattenKids_take_drop (ks : Kids) (n : Nat) : flattenKids (ks.take n) ++ flattenKids (ks.drop n) = flattenKids ks := by
  rw [← flattenKids_append, List.take_append_drop]

theorem treeBlocksKids_append (a b : Kids) : treeBlocksKids (a ++ b) = treeBlocksKids a ++ treeBlocksKids b := by
  induction a with
  | nil => rfl
  | cons p ps ih =>
    obtain ⟨k, c⟩ := p
    simp [treeBlocksKids, ih]

/-- every pointer key of the tree is at most `fb` -/
def keysLE (fb : Nat) : Node → Prop
  | .leaf _ _ _ => True
  | .index _ _ _ ks => keysLEKids fb ks
where keysLEKids (fb : Nat) : Kids → Prop
  | [] => True
  | (k, c) :: ks => k ≤ fb ∧ keysLE fb c ∧ keysLEKids fb ks

/-! ### findChildNode on keys that are all below the new file block: the last child -/

theorem findChildAux_all_le (fb : Nat) (keys : List Nat) (i : Nat) (h : ∀ k ∈ keys, k ≤ fb) :
    findChildAux fb keys i = if i + keys.length = 0 then none else some (i + keys.length - 1) := by
  induction keys generalizing i with
  | nil => simp [findChildAux]
  | cons k ks ih =>
    have hk : ¬ fb < k := Nat.not_lt.mpr (h k (by simp))
    simp only [findChildAux, hk, if_false]
    rw [ih (i + 1) (fun k' hk' => h k' (by simp [hk']))]
    simp only [List.length_cons]
    have e1 : i + 1 + ks.length = i + (ks.length + 1) := by omega
    rw [e1]

theorem findChild_last (fb : Nat) (keys : List Nat) (idx : Nat) (h : ∀ k ∈ keys, k ≤ fb)
    (hf : findChild keys fb = some idx) : 0 < keys.length ∧ idx = keys.length - 1 := by
  unfold findChild at hf
  rw [findChildAux_all_le fb keys 0 h] at hf
  split at hf
  · cases hf
  · simp only [Option.some.injEq] at hf
    omega

theorem keysLEKids_keys {fb : Nat} {ks : Kids} (h : keysLE.keysLEKids fb ks) : ∀ k ∈ ks.map (·.1), k ≤ fb := by
  induction ks with
  | nil => simp
  | cons p ps ih =>
    obtain ⟨k, c⟩ := p
    intro k' hk'
    simp only [List.map_cons, List.mem_cons] at hk'
    rcases hk' with rfl | hk'
    · exact h.1
    · exact ih h.2.2 k' hk'

theorem keysLEKids_mem {fb : Nat} {ks : Kids} (h : keysLE.keysLEKids fb ks) {p : Nat × Node} (hp : p ∈ ks) : keysLE fb p.2 := by
  induction ks with
  | nil => cases hp
  | cons q qs ih =>
    obtain ⟨k, c⟩ := q
    rcases List.mem_cons.mp hp with rfl | hp'
    · exact h.2.1
    · exact ih h.2.2 hp'

/-- the child at the last position: the list is everything before it followed by it -/
theorem last_decomp {α : Type} (l : List α) (idx : Nat) (p : α) (hl : 0 < l.length) (hi : idx = l.length - 1)
    (hg : l[idx]? = some p) : l = l.take idx ++ [p] ∧ l.drop (idx + 1) = [] := by
  have hlt : idx < l.length := by omega
  have hd : l.drop (idx + 1) = [] := List.drop_eq_nil_of_le (by omega)
  refine ⟨?_, hd⟩
  have h1 : l = l.take idx ++ l.drop idx := (List.take_append_drop idx l).symm
  have h2 : l.drop idx = p :: l.drop (idx + 1) := by
    rw [List.drop_eq_getElem_cons hlt]
    congr
    rw [List.getElem?_eq_getElem hlt] at hg
    exact Option.some.inj hg
  rw [h2, hd] at h1
  exact h1

theorem set_last {α : Type} (l : List α) (idx : Nat) (q : α) (hl : 0 < l.length) (hi : idx = l.length - 1) :
    l.set idx q = l.take idx ++ [q] := by
  have hlt : idx < l.length := by omega
  rw [List.set_eq_take_append_cons_drop, if_pos hlt, List.drop_eq_nil_of_le (by omega)]

/-! ### the pieces of extendExtentTree keep the extent list -/

theorem splitLeaf_ok {σ : Type} (fx : Bool) (A : Allocator σ) (s : σ) (bs disk : Nat) (all : List Extent) (a b : Node) (m : Nat) (s' : σ)
    (h : splitLeaf fx A s bs disk all = .ok (a, b, m, s')) :
    flatten a ++ flatten b = sortFB all ∧ a.depth = 0 ∧ b.depth = 0 := by
  unfold splitLeaf at h
  simp only at h
  split at h
  · cases h
  · split at h
    · cases h
    · split at h
      · cases h
      · simp only [Res.ok.injEq, Prod.mk.injEq] at h
        obtain ⟨rfl, rfl, _, _⟩ := h
        simp [flatten, Node.depth]

theorem flattenKids_mkKids (nodes : List Node) :
    flattenKids (List.map (fun p : Option Nat × Node => (p.1.getD 0, p.2)) (List.map (fun n : Node => (n.firstKey, n)) nodes)) =
      (nodes.map flatten).flatten := by
  induction nodes with
  | nil => rfl
  | cons n ns ih =>
    simp only [List.map_cons, flattenKids, List.flatten_cons]
    rw [ih]

theorem mkRoot_ok (nodes : List Node) (r : Node) (h : mkRoot nodes = .ok r) : flatten r = (nodes.map flatten).flatten := by
  unfold mkRoot at h
  split at h
  · cases h
  · simp only at h
    split at h
    · cases h
    · simp only [Res.ok.injEq] at h
      subst h
      simp only [flatten]
      exact flattenKids_mkKids _

theorem splitIndex_ok {σ : Type} (A : Allocator σ) (s : σ) (bs depth : Nat) (isRoot : Bool) (kids : Kids) (m : Nat)
    (r : Node) (m' : Nat) (s' : σ) (h : splitIndex A s bs depth isRoot kids m = .ok (r, m', s')) :
    flatten r = flattenKids kids := by
  unfold splitIndex at h
  simp only at h
  split at h
  · cases h
  · split at h
    · cases h
    · split at h
      · split at h
        · rename_i r0 hr
          simp only [Res.ok.injEq, Prod.mk.injEq] at h
          obtain ⟨rfl, _, _⟩ := h
          rw [mkRoot_ok _ _ hr]
          simp [flatten, flattenKids_take_drop]
        all_goals cases h
      · cases h

theorem extendRootLeaf_ok {σ : Type} (fx : Bool) (A : Allocator σ) (s : σ) (bs max disk : Nat) (exts added : List Extent)
    (t' : Node) (m : Nat) (s' : σ) (hs : SortedFB (exts ++ added))
    (h : extendRootLeaf fx A s bs max disk exts added = .ok (t', m, s')) :
    flatten t' = exts ++ added := by
  unfold extendRootLeaf at h
  split at h
  · simp only [Res.ok.injEq, Prod.mk.injEq] at h
    obtain ⟨rfl, _, _⟩ := h
    rfl
  · split at h
    · split at h
      · cases h
      · split at h
        · rename_i r0 hr
          simp only [Res.ok.injEq, Prod.mk.injEq] at h
          obtain ⟨rfl, _, _⟩ := h
          rw [mkRoot_ok _ _ hr]
          simp [flatten, sortFB_sorted _ hs]
        all_goals cases h
    · split at h
      · rename_i a b m0 s0 hsp
        split at h
        · rename_i r0 hr
          simp only [Res.ok.injEq, Prod.mk.injEq] at h
          obtain ⟨rfl, _, _⟩ := h
          rw [mkRoot_ok _ _ hr]
          have := (splitLeaf_ok fx A s bs disk _ a b m0 s0 hsp).1
          simp [this, sortFB_sorted _ hs]
        all_goals cases h
      all_goals cases h

theorem flatten_set_last (kids : Kids) (idx key k' : Nat) (c c' : Node) (X : List Extent)
    (hl : 0 < kids.length) (hi : idx = kids.length - 1) (hget : kids[idx]? = some (key, c))
    (hc : flatten c' = flatten c ++ X) :
    flattenKids (kids.set idx (k', c')) = flattenKids kids ++ X := by
  rw [set_last kids idx _ hl hi]
  have hd := (last_decomp kids idx _ hl hi hget).1
  conv => rhs; rw [hd]
  simp [flattenKids_append, flattenKids, hc]

theorem flatten_split_last (kids : Kids) (idx key ka kb : Nat) (c a b : Node) (X : List Extent)
    (hl : 0 < kids.length) (hi : idx = kids.length - 1) (hget : kids[idx]? = some (key, c))
    (hab : flatten a ++ flatten b = flatten c ++ X) :
    flattenKids (kids.take idx ++ [(ka, a), (kb, b)] ++ kids.drop (idx + 1)) = flattenKids kids ++ X := by
  have hd := last_decomp kids idx _ hl hi hget
  rw [hd.2]
  conv => rhs; rw [hd.1]
  simp only [flattenKids_append, flattenKids, List.append_nil, List.append_assoc]
  rw [hab]

theorem sorted_tail_of_last (kids : Kids) (idx key : Nat) (c : Node) (X : List Extent)
    (hl : 0 < kids.length) (hi : idx = kids.length - 1) (hget : kids[idx]? = some (key, c))
    (hs : SortedFB (flattenKids kids ++ X)) : SortedFB (flatten c ++ X) := by
  have hd := (last_decomp kids idx _ hl hi hget).1
  rw [hd] at hs
  simp only [flattenKids_append, flattenKids, List.append_nil, List.append_assoc] at hs
  exact hs.of_append_right

theorem extendIx_ok {σ : Type} (fx : Bool) (A : Allocator σ) (bs : Nat) :
    ∀ (fuel : Nat) (s : σ) (plist : Option (List (Nat × Nat))) (max disk depth : Nat) (kids : Kids) (a0 : Extent) (rest : List Extent)
      (t' : Node) (m : Nat) (s' : σ),
    extendIx fx A bs fuel s plist max disk depth kids (a0 :: rest) = .ok (t', m, s') →
    keysLE.keysLEKids a0.fileBlock kids →
    SortedFB (flattenKids kids ++ a0 :: rest) →
    flatten t' = flattenKids kids ++ a0 :: rest := by
  intro fuel
  induction fuel with
  | zero => intro s plist max disk depth kids a0 rest t' m s' h; simp [extendIx] at h
  | succ fuel ih =>
    intro s plist max disk depth kids a0 rest t' m s' h hk hs
    simp only [extendIx] at h
    split at h
    · cases h
    · split at h
      · cases h
      · rename_i idx hidx
        have hlast := findChild_last _ _ _ (keysLEKids_keys hk) hidx
        simp only [List.length_map] at hlast
        obtain ⟨hl, hi⟩ := hlast
        split at h
        · cases h
        · rename_i key cmax cdisk cexts hget
          have hsc := sorted_tail_of_last kids idx key _ _ hl hi hget hs
          simp only [flatten] at hsc
          split at h
          · cases h
          · split at h
            · -- appended in place
              split at h
              all_goals try (cases h; done)
              split at h
              · cases h
              · split at h
                all_goals try (cases h; done)
                simp only [Res.ok.injEq, Prod.mk.injEq] at h
                obtain ⟨rfl, _, _⟩ := h
                simp only [flatten]
                exact flatten_set_last kids idx key _ _ _ _ hl hi hget rfl
            · split at h
              · cases h
              · split at h
                all_goals try (cases h; done)
                rename_i a b m0 s0 hsp
                have hab := (splitLeaf_ok fx A s bs cdisk _ a b m0 s0 hsp).1
                rw [sortFB_sorted _ hsc] at hab
                split at h
                · cases h
                · split at h
                  · cases h
                  · split at h
                    · rename_i ka kb hka hkb
                      have hfl := flatten_split_last kids idx key ka kb (.leaf cmax cdisk cexts) a b (a0 :: rest) hl hi hget (by simpa [flatten] using hab)
                      split at h
                      · cases h
                      · split at h
                        · rw [splitIndex_ok A _ bs depth _ _ _ _ _ _ h, hfl]
                        · simp only [Res.ok.injEq, Prod.mk.injEq] at h
                          obtain ⟨rfl, _, _⟩ := h
                          simp only [flatten]
                          exact hfl
                    · cases h
        · rename_i key cmax cdisk cdepth ckids hget
          have hsc := sorted_tail_of_last kids idx key _ _ hl hi hget hs
          simp only [flatten] at hsc
          have hkc : keysLE.keysLEKids a0.fileBlock ckids := by
            have := keysLEKids_mem hk (List.mem_of_getElem? hget)
            simpa [keysLE] using this
          split at h
          · cases h
          · split at h
            all_goals try (cases h; done)
            rename_i child' m1 s1 hrec
            have hc := ih _ _ _ _ _ _ _ _ _ _ _ hrec hkc hsc
            split at h
            · cases h
            · split at h
              · cases h
              · split at h
                · cases h
                · split at h
                  all_goals try (cases h; done)
                  simp only [Res.ok.injEq, Prod.mk.injEq] at h
                  obtain ⟨rfl, _, _⟩ := h
                  simp only [flatten]
                  exact flatten_set_last kids idx key _ (.index cmax cdisk cdepth ckids) _ _ hl hi hget (by simpa [flatten] using hc)

/-- extendExtentTree on an existing tree: the extents it denotes afterwards are the old ones followed by the added ones -/
theorem extend_flatten {σ : Type} (fx : Bool) (A : Allocator σ) (s : σ) (bs : Nat) (t : Node) (added : List Extent)
    (t' : Node) (m : Nat) (s' : σ)
    (h : extend fx A s bs (some t) added = .ok (t', m, s'))
    (hk : ∀ a0 ∈ added.head?, keysLE a0.fileBlock t)
    (hs : SortedFB (flatten t ++ added)) :
    flatten t' = flatten t ++ added := by
  cases t with
  | leaf max disk exts =>
    simp only [extend] at h
    simpa [flatten] using extendRootLeaf_ok fx A s bs max disk exts added t' m s' (by simpa [flatten] using hs) h
  | index max disk depth kids =>
    simp only [extend] at h
    cases added with
    | nil => cases depth <;> simp [extendIx] at h
    | cons a0 rest =>
      have hk' : keysLE.keysLEKids a0.fileBlock kids := by
        have := hk a0 (by simp)
        simpa [keysLE] using this
      simpa [flatten] using extendIx_ok fx A bs depth s none max disk depth kids a0 rest t' m s' h hk' (by simpa [flatten] using hs)

/-- createRootExtentTree -/
theorem extend_none_flatten {σ : Type} (fx : Bool) (A : Allocator σ) (s : σ) (bs : Nat) (added : List Extent)
    (t' : Node) (m : Nat) (s' : σ) (h : extend fx A s bs none added = .ok (t', m, s')) :
    flatten t' = added ∧ m = 0 := by
  simp only [extend] at h
  split at h
  · simp only [Res.ok.injEq, Prod.mk.injEq] at h
    obtain ⟨rfl, rfl, _⟩ := h
    exact ⟨rfl, rfl⟩
  · cases h

/-! ### the shape invariant of the library's own trees -/

/-- nodes are not empty and every pointer key is the first file block of the node it points to -/
def wf : Node → Prop
  | .leaf _ _ es => es ≠ []
  | .index _ _ _ ks => ks ≠ [] ∧ wfKids ks
where wfKids : Kids → Prop
  | [] => True
  | (k, c) :: ks => c.firstKey = some k ∧ wf c ∧ wfKids ks

theorem firstKey_flatten : ∀ (c : Node) (k : Nat), wf c → c.firstKey = some k →
    ∃ e rest, flatten c = e :: rest ∧ e.fileBlock = k
  | .leaf _ _ [], _, hw, _ => absurd rfl hw
  | .leaf _ _ (e :: es), k, _, hf => ⟨e, es, rfl, by simpa [Node.firstKey] using hf⟩
  | .index _ _ _ [], _, hw, _ => absurd rfl hw.1
  | .index _ _ _ ((k0, c0) :: ks), k, hw, hf => by
    have hk : k0 = k := by simpa [Node.firstKey] using hf
    obtain ⟨e, rest, he, hfb⟩ := firstKey_flatten c0 k0 hw.2.2.1 hw.2.1
    exact ⟨e, rest ++ flattenKids ks, by simp [flatten, flattenKids, he], hk ▸ hfb⟩

mutual
theorem keysLE_of_flatten : ∀ (c : Node) (fb : Nat), wf c → (∀ e ∈ flatten c, e.fileBlock ≤ fb) → keysLE fb c
  | .leaf _ _ _, _, _, _ => trivial
  | .index _ _ _ ks, fb, hw, h => by
    simp only [keysLE]
    exact keysLEKids_of_flatten ks fb hw.2 (by simpa [flatten] using h)
theorem keysLEKids_of_flatten : ∀ (ks : Kids) (fb : Nat), wf.wfKids ks → (∀ e ∈ flattenKids ks, e.fileBlock ≤ fb) →
    keysLE.keysLEKids fb ks
  | [], _, _, _ => trivial
  | (k, c) :: ks, fb, hw, h => by
    obtain ⟨e, rest, he, hfb⟩ := firstKey_flatten c k hw.2.1 hw.1
    refine ⟨?_, keysLE_of_flatten c fb hw.2.1 (fun e he' => h e (by simp [flattenKids, he'])),
      keysLEKids_of_flatten ks fb hw.2.2 (fun e he' => h e (by simp [flattenKids, he']))⟩
    rw [← hfb]
    exact h e (by simp [flattenKids, he])
end

theorem keysLE_of_sorted (t : Node) (a0 : Extent) (rest : List Extent) (hw : wf t)
    (hs : SortedFB (flatten t ++ a0 :: rest)) : keysLE a0.fileBlock t := by
  apply keysLE_of_flatten t _ hw
  intro e he
  have := (List.pairwise_append.mp hs).2.2 e he a0 (by simp)
  omega

/-- extendExtentTree, hypotheses on the shape of the tree only: the extents afterwards are the old ones followed by
    the added ones -/
theorem extend_flatten_wf {σ : Type} (fx : Bool) (A : Allocator σ) (s : σ) (bs : Nat) (t : Node) (added : List Extent)
    (t' : Node) (m : Nat) (s' : σ) (hw : wf t)
    (h : extend fx A s bs (some t) added = .ok (t', m, s'))
    (hs : SortedFB (flatten t ++ added)) :
    flatten t' = flatten t ++ added ∧ SortedFB (flatten t') := by
  have hfl := extend_flatten fx A s bs t added t' m s' h
    (by
      intro a0 ha0
      cases added with
      | nil => cases ha0
      | cons b rest =>
        simp only [List.head?_cons, Option.mem_def, Option.some.injEq] at ha0
        subst ha0
        exact keysLE_of_sorted t _ rest hw hs) hs
  exact ⟨hfl, hfl ▸ hs⟩

end Diskfs.Ext4.ExtTree
