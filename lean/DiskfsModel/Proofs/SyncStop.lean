/-
  C16 helper lemmas, part 5: CopyFileSystem stops at the first fatal outcome (the failing call is the
  last call it issues), and what a successful — possibly fault-ridden — copy leaves compares equal.
-/
import DiskfsModel.Proofs.SyncFault
import DiskfsModel.Proofs.SyncVerdict
namespace Diskfs.Sync
open Forest

/-- a fatal outcome is the last call of the run, and the run reports failure -/
def FatalLast (r : FRun) : Prop :=
  ∀ l1 e l2, r.log = l1 ++ e :: l2 → fatal e = true → l2 = [] ∧ r.ok = false

theorem fatalLast_nil (r : FRun) (h : r.log = []) : FatalLast r := by
  intro l1 e l2 hl _
  rw [h] at hl
  exact absurd hl (by simp)

theorem fatalLast_single (r : FRun) (x : DstOp × Outcome) (h : r.log = [x]) (hk : fatal x = true → r.ok = false) :
    FatalLast r := by
  intro l1 e l2 hl hf
  rw [h] at hl
  cases l1 with
  | nil =>
    simp only [List.nil_append, List.cons.injEq] at hl
    obtain ⟨rfl, rfl⟩ := hl
    exact ⟨rfl, hk hf⟩
  | cons y ys =>
    simp only [List.cons_append, List.cons.injEq] at hl
    exact absurd hl.2 (by simp)

theorem fatalLast_seq (a : FRun) (b : Nat → FRun) (hna : NoFatal a) (ha : FatalLast a) (hb : ∀ j, FatalLast (b j)) :
    FatalLast (a.seq b) := by
  intro l1 e l2 hlog hf
  cases hk : a.ok with
  | false =>
    rw [seq_of_not_ok a b hk] at hlog ⊢
    exact ha l1 e l2 hlog hf
  | true =>
    rw [seq_of_ok a b hk] at hlog ⊢
    simp only at hlog ⊢
    rcases List.append_eq_append_iff.1 hlog with ⟨a', _, h2⟩ | ⟨c', h1, h2⟩
    · exact hb _ a' e l2 h2 hf
    · cases c' with
      | nil =>
        simp only [List.nil_append] at h2
        exact hb _ [] e l2 (by simpa using h2.symm) hf
      | cons x cs =>
        simp only [List.cons_append, List.cons.injEq] at h2
        have hmem : e ∈ a.log := by rw [h1, h2.1]; simp
        have := hna hk e hmem
        rw [this] at hf
        exact absurd hf (by simp)

theorem fatalLast_callF (plan : Plan) (op : DstOp) (i : Nat) (hop : ∀ p d, op ≠ .write p d) :
    FatalLast (callF plan op i) := by
  refine fatalLast_single _ (op, plan i) (callF_log plan op i) ?_
  intro hf
  unfold callF
  cases hp : plan i with
  | fail => rfl
  | ok => rw [hp] at hf; cases op <;> simp [fatal] at hf
  | short n =>
    rw [hp] at hf
    cases op with
    | write p d => exact absurd rfl (hop p d)
    | _ => simp [fatal] at hf

theorem fatalLast_chtimesF (plan : Plan) (p : Path) (i : Nat) : FatalLast (chtimesF plan p i) := by
  refine fatalLast_single _ (.chtimes p, plan i) rfl ?_
  intro hf; simp [fatal] at hf

theorem fatalLast_wholeWriteF (plan : Plan) (p : Path) (d : Bytes) (i : Nat) : FatalLast (wholeWriteF plan p d i) := by
  refine fatalLast_single _ (.write p d, plan i) (wholeWriteF_log plan p d i) ?_
  intro hf
  unfold wholeWriteF
  cases hp : plan i with
  | fail => rfl
  | ok => rw [hp] at hf; simp [fatal] at hf
  | short n =>
    rw [hp] at hf
    cases n with
    | zero =>
      have hne : d ≠ [] := by
        intro e; subst e; simp [fatal] at hf
      have : ¬ d.length ≤ 0 := by
        intro h; exact hne (List.eq_nil_of_length_eq_zero (Nat.le_zero.1 h))
      simp [this]
    | succ k => simp [fatal] at hf

theorem fatalLast_writeChunkF (plan : Plan) (p : Path) : ∀ (fuel : Nat) (rem : Bytes) (i : Nat),
    FatalLast (writeChunkF plan p fuel rem i) := by
  intro fuel
  induction fuel with
  | zero => intro rem i; exact fatalLast_nil _ (by simp [writeChunkF])
  | succ fuel ih =>
    intro rem i
    unfold writeChunkF
    by_cases hr : rem.isEmpty = true
    · simp only [hr, if_true]; exact fatalLast_nil _ (by simp [FRun.done])
    · simp only [hr, Bool.false_eq_true, if_false]
      have hne : rem ≠ [] := by intro e; subst e; simp at hr
      cases hp : plan i with
      | fail => exact fatalLast_single _ (.write p rem, .fail) rfl (fun _ => rfl)
      | ok => exact fatalLast_single _ (.write p rem, .ok) rfl (fun hf => by simp [fatal] at hf)
      | short w =>
        by_cases hw : w = 0
        · simp only [if_pos hw]
          exact fatalLast_single _ (.write p rem, .short 0) rfl (fun _ => rfl)
        · simp only [if_neg hw]
          intro l1 e l2 hl hf
          simp only at hl ⊢
          cases l1 with
          | nil =>
            simp only [List.nil_append, List.cons.injEq] at hl
            rw [← hl.1, fatal_write_short_pos p rem w hw] at hf
            exact absurd hf (by simp)
          | cons y ys =>
            simp only [List.cons_append, List.cons.injEq] at hl
            exact ih _ _ ys e l2 hl.2 hf

theorem fatalLast_streamF (plan : Plan) (p : Path) : ∀ (chunks : List Bytes) (i : Nat),
    FatalLast (streamF plan p chunks i) := by
  intro chunks
  induction chunks with
  | nil => intro i; exact fatalLast_nil _ (by simp [streamF, FRun.done])
  | cons ch rest ih =>
    intro i
    unfold streamF
    exact fatalLast_seq _ _ (noFatal_writeChunkF plan p _ ch i) (fatalLast_writeChunkF plan p _ ch i) (fun j => ih j)

theorem fatalLast_fileRunF (c : Cfg) (src : ReaderBehaviour) (plan : Plan) (p : Path) (d : Bytes) (i : Nat) :
    FatalLast (fileRunF c src plan p d i) := by
  unfold fileRunF
  refine fatalLast_seq _ _ (noFatal_callF plan _ i (by intro _ _ h; cases h))
    (fatalLast_callF plan _ i (by intro _ _ h; cases h)) (fun j => ?_)
  split
  · exact fatalLast_seq _ _ (noFatal_wholeWriteF plan p d j) (fatalLast_wholeWriteF plan p d j)
      (fun k => fatalLast_chtimesF plan p k)
  · exact fatalLast_seq _ _ (noFatal_streamF plan p _ j) (fatalLast_streamF plan p _ j)
      (fun k => fatalLast_chtimesF plan p k)

theorem fatalLast_copyDirF (c : Cfg) (src : ReaderBehaviour) (readlink : Bool) (plan : Plan) :
    ∀ (f : Forest) (pre : Path) (i : Nat), FatalLast (copyDirF c src readlink plan pre f i) := by
  intro f
  induction f with
  | nil => intro pre i; exact fatalLast_nil _ (by simp [copyDirF, FRun.done])
  | file n d r ih =>
    intro pre i
    unfold copyDirF
    split
    · exact ih pre i
    · exact fatalLast_seq _ _ (noFatal_fileRunF c src plan _ d i) (fatalLast_fileRunF c src plan _ d i) (fun j => ih pre j)
  | dir n s r ihs ih =>
    intro pre i
    unfold copyDirF
    split
    · exact ih pre i
    · have hmk := noFatal_callF plan (.mkdir (pre ++ [n])) i (by intro _ _ h; cases h)
      refine fatalLast_seq _ _ (noFatal_seq _ _ hmk (fun j => noFatal_copyDirF c src readlink plan s _ j))
        (fatalLast_seq _ _ hmk (fatalLast_callF plan _ i (by intro _ _ h; cases h)) (fun j => ihs _ j))
        (fun j => ih pre j)
  | link n t r ih =>
    intro pre i
    unfold copyDirF
    split
    · exact ih pre i
    · split
      · exact fatalLast_seq _ _ (noFatal_callF plan _ i (by intro _ _ h; cases h))
          (fatalLast_callF plan _ i (by intro _ _ h; cases h)) (fun j => ih pre j)
      · exact fatalLast_nil _ rfl
  | other n r ih =>
    intro pre i
    unfold copyDirF
    exact ih pre i

/-! ### what a successful copy leaves compares equal to the source -/

theorem treeEq_trans {a b c : Forest} (h1 : a ≈ b) (h2 : b ≈ c) : a ≈ c := fun p => (h1 p).trans (h2 p)
theorem treeEq_symm {a b : Forest} (h : a ≈ b) : b ≈ a := fun p => (h p).symm

/-- a plain source, stripped for the copy, is the source stripped for the comparison -/
theorem strip_source_eq_image (ex : List String) (t : Forest) (hp : t.plain = true) :
    stripExcluded ex t ≈ stripExcluded ex (copyImage ex t) := by
  intro p
  unfold stripExcluded copyImage
  rw [strip_plain_keepOther _ _ hp, strip_idem]

/-- every tree that reads like the destination store after a successful copy compares equal to the source -/
theorem compare_after_copy (c : Cfg) (hc : c.wf = true) (ra rb : ReaderBehaviour)
    (hfa : FullReads ra c.cmpBuf) (hfb : FullReads rb c.cmpBuf) (t b : Forest)
    (hwf : t.wf = true) (hp : t.plain = true) (hwb : b.wf = true)
    (hb : ∀ p, b.lookup p = Store.item ((copyImage c.excluded t).flatAt []) p) :
    compareFS c ra rb t b = .ok := by
  rw [compareFS_ok_iff c hc ra rb hfa hfb t b hwf hwb hp]
  have hbi : b ≈ copyImage c.excluded t := by
    intro p
    rw [hb p]
    exact item_flatAt _ (wf_strip c.excluded false t hwf) p
  exact treeEq_trans (strip_source_eq_image c.excluded t hp) (treeEq_symm (strip_congr c.excluded _ _ hbi))

end Diskfs.Sync
