/-
  Tables of ANY well-formed geometry (Model/GptGeom.lean): arithmetic of the rounded-up array sectors,
  the exact write list of `writeUp` for an initialised table satisfying `GeomWF`, what `initTableUp`
  computes for a fresh table with ANY sector size ≥ 512, and the bridge to the definitions the older
  theorems are stated over (`writeUp = write` whenever the array ends on a sector boundary).
  Helper for Props/C02 and Props/C09.
-/
import DiskfsModel.Model.GptGeom
import DiskfsModel.Proofs.GptValid
set_option linter.unusedSimpArgs false
set_option linter.unusedVariables false
namespace Diskfs.Gpt

/-! ### ceiling division -/

theorem ceil_facts (a l : Nat) (hl : 0 < l) :
    a ≤ (a + l - 1) / l * l ∧ (a + l - 1) / l * l < a + l := by
  have h1 := Nat.div_add_mod (a + l - 1) l
  have h2 := Nat.mod_lt (a + l - 1) hl
  rw [Nat.mul_comm] at h1
  constructor <;> omega

theorem ceil_pos (a l : Nat) (hl : 0 < l) (ha : 0 < a) : 1 ≤ (a + l - 1) / l := by
  have := (Nat.le_div_iff_mul_le hl (x := 1) (y := a + l - 1)).2 (by omega)
  exact this

theorem u64sub_le (a b : Nat) (hb : b ≤ a) (ha : a < two64) : u64sub a b = a - b := by
  have hb' : b % two64 = b := Nat.mod_eq_of_lt (by omega)
  unfold u64sub
  rw [Nat.mod_eq_of_lt ha, hb']
  have e : a + two64 - b = (a - b) + two64 := by omega
  rw [e, Nat.add_mod_right, Nat.mod_eq_of_lt (by omega)]

/-! ### the bridge: on every table this library initialises itself both definitions agree -/

theorem partSectorsUp_std (t : Table) (h1 : t.arrCount = 128) (h2 : t.entSize = 128)
    (hl : t.lss = 512 ∨ t.lss = 4096) : partSectorsUp t = partSectors t := by
  unfold partSectorsUp partSectors
  rcases hl with h | h <;> simp [h1, h2, h, u64, two64]

theorem initTableUp_fresh (t0 : Table) (size : Nat) (hf : Fresh t0) (hl : t0.lss = 512 ∨ t0.lss = 4096) :
    initTableUp t0 size = initTable t0 size := by
  unfold initTableUp initTable
  simp only [hf.ac, hf.es, hf.ph, hf.sh, hf.fd, hf.ld, if_true]
  rcases hl with h | h <;> simp [h, u64, two64]

/-- BRIDGE: for a fresh table on 512- or 4096-byte sectors (the domain of the older theorems) the
    model of the code as it is now, `writeUp`, IS `write`: every theorem about `write` is a theorem about
    what the driver executes -/
theorem writeUp_eq_write (c : Cfg) (crc : Bytes → Nat) (t0 : Table) (size : Nat) (hf : Fresh t0)
    (hl : t0.lss = 512 ∨ t0.lss = 4096) : writeUp c crc t0 size = write c crc t0 size := by
  obtain ⟨il, iph, iac, ies, _, _, _, _, _⟩ := initTable_fresh t0 size hf hl
  unfold writeUp write
  simp only [hf.init, Bool.false_eq_true, if_false]
  rw [initTableUp_fresh t0 size hf hl]
  generalize initTable t0 size = ti at *
  have hl' : ti.lss = 512 ∨ ti.lss = 4096 := by rw [il]; exact hl
  have hps : partSectorsUp ti = partSectors ti := partSectorsUp_std ti iac ies hl'
  have has : ∀ b, arraySectorUp ti b = arraySector ti b := by
    intro b; unfold arraySectorUp arraySector; rw [hps]
  have hhe : ∀ b arr, hdrEncUp crc ti b arr = hdrEnc crc ti b arr := by
    intro b arr; unfold hdrEncUp hdrEnc; rw [has]
  have hpv : partSectors ti ≤ 32 := by
    unfold partSectors; rcases hl' with h | h <;> simp [iac, ies, h, u64, two64]
  have hlpos : ti.lss > 0 := by rcases hl' with h | h <;> omega
  have hu : u64 (ti.primaryHeader + 2 * partSectors ti + 1) = ti.primaryHeader + 2 * partSectors ti + 1 := by
    unfold u64; rw [iph]; exact Nat.mod_eq_of_lt (by simp only [two64]; omega)
  simp only [hps, has, hhe, hu, hlpos, decide_true, Bool.and_true]
  rfl

/-! ### geometry of a well-formed initialised table -/

theorem partSectorsUp_eq (t : Table) (size : Nat) (hg : GeomWF t size) :
    partSectorsUp t = (arrBytes t + t.lss - 1) / t.lss := by
  have h1 := hg.cntMax; have h2 := hg.lss; have h3 := hg.hsz; have h4 := hg.fits
  have hlpos : 0 < t.lss := by omega
  have hls : t.lss ≤ size := by
    have : 1 ≤ size / t.lss := by omega
    have := (Nat.le_div_iff_mul_le hlpos).1 this
    omega
  have e1 : u64 (t.arrCount * 128) = t.arrCount * 128 := Nat.mod_eq_of_lt (by simp only [two64]; omega)
  have e2 : u64 (t.arrCount * 128 + t.lss - 1) = t.arrCount * 128 + t.lss - 1 :=
    Nat.mod_eq_of_lt (by simp only [two64, two63] at *; omega)
  unfold partSectorsUp arrBytes
  rw [hg.es, e1, e2]

/-- the five regions of a well-formed table: LBA 0 ⊇ [446,512) | header [lss,2·lss) | primary array
    [2·lss, 2·lss + p·lss) | … | backup array [offBA, offBA + p·lss) | backup header [offBH, offBH + lss),
    in this order, without overlap, inside the device; the array's bytes fit its p sectors and reach
    into the last of them -/
theorem geom_layout (t : Table) (size : Nat) (hg : GeomWF t size) :
    1 ≤ partSectorsUp t ∧ arrBytes t ≤ partSectorsUp t * t.lss ∧ partSectorsUp t * t.lss < arrBytes t + t.lss ∧
    offPA t = 2 * t.lss ∧ 2 * t.lss + partSectorsUp t * t.lss ≤ offBA t ∧
    offBA t + partSectorsUp t * t.lss = offBH t ∧ offBH t + t.lss ≤ size ∧
    partSectorsUp t ≤ t.secondaryHeader ∧ t.secondaryHeader < two63 := by
  have h2 := hg.lss; have h3 := hg.hsz; have h4 := hg.fits; have h5 := hg.cnt
  have hlpos : 0 < t.lss := by omega
  have hp := partSectorsUp_eq t size hg
  obtain ⟨c1, c2⟩ := ceil_facts (arrBytes t) t.lss hlpos
  have c3 := ceil_pos (arrBytes t) t.lss hlpos (by unfold arrBytes; omega)
  rw [← hp] at c1 c2 c3
  unfold offPA offBA offBH
  generalize partSectorsUp t = p at *
  have hmul : size / t.lss * t.lss ≤ size := Nat.div_mul_le_self _ _
  have hdl : size / t.lss ≤ size := Nat.div_le_self _ _
  have e1 : (2 + p) * t.lss ≤ (t.secondaryHeader - p) * t.lss := Nat.mul_le_mul_right _ (by rw [hg.sh]; omega)
  have e2 : (t.secondaryHeader - p + p) * t.lss = t.secondaryHeader * t.lss := by
    congr 1; rw [hg.sh]; omega
  have e3 : (t.secondaryHeader + 1) * t.lss ≤ size / t.lss * t.lss := Nat.mul_le_mul_right _ (by rw [hg.sh]; omega)
  rw [Nat.add_mul] at e1 e2 e3
  refine ⟨c3, c1, c2, ?_, ?_, ?_, ?_, by rw [hg.sh]; omega, by rw [hg.sh]; simp only [two63] at *; omega⟩
  · rw [hg.ph]
  · omega
  · omega
  · omega

/-- the four GPT writes of an initialised table in program order, with natural-number byte offsets -/
def coreUp (crc : Bytes → Nat) (t : Table) (arr : Bytes) : List Wr :=
  [⟨offBA t, arr⟩, ⟨offBH t, hdrEncUp crc t false arr⟩, ⟨2 * t.lss, arr⟩, ⟨t.lss, hdrEncUp crc t true arr⟩]

theorem arrEnc_length (c : Cfg) (t : Table) (arr : Bytes) (ps : List Part) (h : arrEnc c t = .ok (arr, ps)) :
    arr.length = t.entSize * t.arrCount := by
  unfold arrEnc at h
  split at h
  · simp at h
  · obtain ⟨b, hb, hpair⟩ := bind_ok_inv _ _ _ h
    simp only [Res.pure_eq, Res.ok.injEq, Prod.mk.injEq] at hpair
    rw [← hpair.1, slotsFrom_length c _ _ _ b hb]
    simp

/-- WRITE LIST, EXACTLY, for every well-formed geometry: the repaired and the as-found `Write` alike emit
    backup array at (AlternateLBA − p)·lss, backup header at AlternateLBA·lss, primary array at 2·lss,
    primary header at lss — p the array sectors ROUNDED UP — and the 66 protective-MBR bytes first or last -/
theorem writeUp_geom_exact (c : Cfg) (crc : Bytes → Nat) (t : Table) (size : Nat) (ws : List Wr) (t' : Table)
    (hg : GeomWF t size) (hw : writeUp c crc t size = .ok (ws, t')) :
    ∃ arr ps, arrEnc c t = .ok (arr, ps) ∧ arr.length = arrBytes t ∧ t' = { t with parts := ps } ∧
      ws = (if c.pmbrLast then coreUp crc t arr ++ pmWrs c t else pmWrs c t ++ coreUp crc t arr) := by
  obtain ⟨g1, g2, g3, g4, g5, g6, g7, g8, g9⟩ := geom_layout t size hg
  have h512 := hg.lss
  have hsz := hg.hsz
  have hlpos : 0 < t.lss := by omega
  unfold offPA at g4
  unfold offBA at g5 g6
  unfold offBH at g6 g7
  unfold writeUp at hw
  simp only [hg.init, if_true] at hw
  split at hw
  · simp at hw
  · split at hw
    · simp at hw
    · simp at hw
    · rename_i arr ps harr
      have hlen : arr.length = arrBytes t := by
        rw [arrEnc_length c t arr ps harr, hg.es]; unfold arrBytes; exact Nat.mul_comm _ _
      have hsh64 : t.secondaryHeader < two64 := by simp only [two63, two64] at *; omega
      have a1 : arraySectorUp t true = 2 := by simp [arraySectorUp, hg.ph, u64, two64]
      have a2 : arraySectorUp t false = t.secondaryHeader - partSectorsUp t := by
        simp only [arraySectorUp, Bool.false_eq_true, if_false]
        exact u64sub_le _ _ g8 hsh64
      have b1 : (t.secondaryHeader - partSectorsUp t) * t.lss < two63 := by omega
      have b2 : t.secondaryHeader * t.lss < two63 := by omega
      have b3 : 2 * t.lss < two63 := by omega
      have o1 : toI64 ((t.lss : Int) * toI64 ((arraySectorUp t false : Nat) : Int)) = ((offBA t : Nat) : Int) := by
        rw [a2, toI64_of_lt _ (by omega), toI64_mul_nat _ _ (by rw [Nat.mul_comm]; exact b1), Nat.mul_comm]; rfl
      have o2 : toI64 (toI64 ((t.secondaryHeader : Nat) : Int) * (t.lss : Int)) = ((offBH t : Nat) : Int) := by
        rw [toI64_of_lt _ g9, toI64_mul_nat _ _ b2]; rfl
      have o3 : toI64 ((t.lss : Int) * toI64 ((arraySectorUp t true : Nat) : Int)) = ((2 * t.lss : Nat) : Int) := by
        rw [a1, toI64_of_lt _ (by simp only [two63]; omega), toI64_mul_nat _ _ (by rw [Nat.mul_comm]; exact b3), Nat.mul_comm]
      rw [o1, o2, o3] at hw
      split at hw
      · rename_i hneg
        rcases hneg with h | h | h <;> exact absurd h (Int.not_lt.2 (Int.natCast_nonneg _))
      · simp only [Res.ok.injEq, Prod.mk.injEq, Int.toNat_natCast] at hw
        obtain ⟨h1, h2⟩ := hw
        refine ⟨arr, ps, harr, hlen, ?_, ?_⟩
        · rw [← h2]; have hi := hg.init; cases t; simp_all
        · rw [← h1]
          simp only [coreUp, pmWrs, offBA, offBH]

/-- the repaired Write (`minDiskCheck`) accepts an initialised table only if its AlternateLBA leaves room
    for both copies: with the backup header at the last LBA that is exactly the `fits` clause of `GeomWF` -/
theorem writeUp_ok_fits (c : Cfg) (crc : Bytes → Nat) (t : Table) (size : Nat) (ws : List Wr) (t' : Table)
    (hc : c.minDiskCheck = true) (hi : t.initialized = true) (hl : 0 < t.lss) (hph : t.primaryHeader = 1)
    (hps : partSectorsUp t < two32) (hw : writeUp c crc t size = .ok (ws, t')) :
    2 * partSectorsUp t + 2 ≤ t.secondaryHeader := by
  unfold writeUp at hw
  simp only [hi, if_true, hc, Bool.true_and] at hw
  split at hw
  · simp at hw
  · rename_i hn
    have hu : u64 (t.primaryHeader + 2 * partSectorsUp t + 1) = 2 * partSectorsUp t + 2 := by
      have e : t.primaryHeader + 2 * partSectorsUp t + 1 = 2 * partSectorsUp t + 2 := by rw [hph]; omega
      have hb : 2 * partSectorsUp t + 2 < two64 := by
        have h' : partSectorsUp t < 4294967296 := hps
        show 2 * partSectorsUp t + 2 < 18446744073709551616
        omega
      rw [e]; unfold u64; exact Nat.mod_eq_of_lt hb
    simp only [hl, gt_iff_lt, decide_true, Bool.true_and, decide_eq_true_eq, hu] at hn
    omega

/-! ### a fresh table with ANY sector size ≥ 512 becomes a well-formed initialised table -/

theorem initTableUp_geom (t0 : Table) (size : Nat) (hf : Fresh t0) (hl : 512 ≤ t0.lss) (hg : t0.guid.length = 16)
    (hsz : size < two63) (hmin : (2 * ((16384 + t0.lss - 1) / t0.lss) + 3) * t0.lss ≤ size) :
    GeomWF (initTableUp t0 size) size ∧ (initTableUp t0 size).parts = t0.parts ∧
    (initTableUp t0 size).guid = t0.guid ∧ (initTableUp t0 size).pmbr = t0.pmbr ∧
    (initTableUp t0 size).lss = t0.lss ∧ (initTableUp t0 size).arrCount = 128 := by
  have hlpos : 0 < t0.lss := by omega
  have hne : t0.lss ≠ 0 := by omega
  have hls : t0.lss ≤ size := by
    have : 3 * t0.lss ≤ (2 * ((16384 + t0.lss - 1) / t0.lss) + 3) * t0.lss := Nat.mul_le_mul_right _ (by omega)
    omega
  have hq : 2 * ((16384 + t0.lss - 1) / t0.lss) + 3 ≤ size / t0.lss := (Nat.le_div_iff_mul_le hlpos).2 hmin
  have hdl : size / t0.lss ≤ size := Nat.div_le_self _ _
  have hu1 : u64 (128 * 128) = 16384 := by decide
  have hu2 : u64 (16384 + t0.lss - 1) = 16384 + t0.lss - 1 := by
    unfold u64; exact Nat.mod_eq_of_lt (by simp only [two64, two63] at *; omega)
  have hu3 : u64 size = size := by unfold u64; exact Nat.mod_eq_of_lt (by simp only [two64, two63] at *; omega)
  have hps : partSectorsUp (initTableUp t0 size) = (16384 + t0.lss - 1) / t0.lss := by
    unfold partSectorsUp initTableUp
    simp only [hf.ac, hf.es, if_true, hne, if_false, hu1, hu2]
  have hsh : (initTableUp t0 size).secondaryHeader = size / t0.lss - 1 := by
    unfold initTableUp
    simp only [hf.sh, if_true, hne, if_false, hu3]
    exact u64sub_le _ _ (by omega) (by simp only [two64, two63] at *; omega)
  have hpb : (16384 + t0.lss - 1) / t0.lss ≤ 32 := by
    apply Nat.le_of_lt_succ
    apply (Nat.div_lt_iff_lt_mul hlpos).2
    omega
  refine ⟨⟨by simp [initTableUp], by simp [initTableUp, hne]; exact hl, by simp [initTableUp, hf.es],
    by simp [initTableUp, hf.ac], by simp [initTableUp, hf.ac], by simp [initTableUp, hf.ph], ?_, ?_, hsz, ?_, ?_, ?_⟩,
    by simp [initTableUp], by simp [initTableUp], by simp [initTableUp], by simp [initTableUp, hne],
    by simp [initTableUp, hf.ac]⟩
  · rw [hsh]; simp [initTableUp, hne]
  · rw [hps]; simp only [initTableUp, hne, if_false]; exact hq
  · simp only [initTableUp, hf.fd, if_true, hf.ac, hf.es, hne, if_false, hu1, hu2]
    unfold u64; exact Nat.mod_lt _ (by decide)
  · have : (initTableUp t0 size).lastData = u64sub (u64sub (initTableUp t0 size).secondaryHeader
        (partSectorsUp (initTableUp t0 size))) 1 := by
      simp only [initTableUp, hf.ld, if_true, partSectorsUp, hf.ac, hf.es, hne, if_false]
    rw [this]
    unfold u64sub; exact Nat.mod_lt _ (by decide)
  · simp only [initTableUp]; exact hg

/-- `Write` of a fresh table is `Write` of the table `initTable` makes of it -/
theorem writeUp_fresh (c : Cfg) (crc : Bytes → Nat) (t0 : Table) (size : Nat) (hf : Fresh t0) :
    writeUp c crc t0 size = writeUp c crc (initTableUp t0 size) size := by
  have hi : (initTableUp t0 size).initialized = true := by simp [initTableUp]
  unfold writeUp
  simp only [hf.init, Bool.false_eq_true, if_false, hi, if_true]

end Diskfs.Gpt
