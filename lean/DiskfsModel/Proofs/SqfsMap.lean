import DiskfsModel.Model.Sqfs.Map
namespace Diskfs.Sqfs

theorem load_store (c : Codec) (noComp : Bool) (bs : Nat) (blk : Bytes) (h : blk.length = bs) (hbs : 0 < bs) :
    loadBlock c bs (storeBlock c noComp blk) = blk := by
  have hne : blk ≠ [] := by intro e; rw [e] at h; simp at h; omega
  unfold storeBlock loadBlock
  split
  · have := c.nonempty blk hne
    have hl : (c.compress blk).length ≠ 0 := by
      intro e; exact this (List.eq_nil_of_length_eq_zero e)
    simp [hl, c.roundtrip]
  · have hl : blk.length ≠ 0 := by omega
    simp [hl]

theorem loadFrag_store (c : Codec) (noComp : Bool) (blk : Bytes) : loadFrag c (storeBlock c noComp blk) = blk := by
  unfold storeBlock loadFrag
  split <;> simp [c.roundtrip]

/-- a stored size of zero reads as a whole block of zeros, whatever the flag says -/
theorem load_sparse (c : Codec) (bs : Nat) (flag : Bool) : loadBlock c bs ⟨flag, []⟩ = zeros bs := by
  simp [loadBlock]

theorem fullBlocks_length (bs k : Nat) (c : Bytes) : (fullBlocks bs k c).length = k := by
  induction k generalizing c with
  | zero => rfl
  | succ k ih => simp [fullBlocks, ih]

theorem fullBlocks_block_length (bs k : Nat) (c : Bytes) (h : k * bs ≤ c.length) :
    ∀ b ∈ fullBlocks bs k c, b.length = bs := by
  induction k generalizing c with
  | zero => intro b hb; simp [fullBlocks] at hb
  | succ k ih =>
    intro b hb
    simp only [fullBlocks, List.mem_cons] at hb
    have hk : (k + 1) * bs = k * bs + bs := Nat.succ_mul k bs
    rcases hb with rfl | hb
    · simp; omega
    · exact ih (c.drop bs) (by simp; omega) b hb

theorem fullBlocks_getD (bs k : Nat) (c : Bytes) (i j : Nat) (hi : i < k) (hj : j < bs) :
    ((fullBlocks bs k c).getD i []).getD j 0 = c.getD (i * bs + j) 0 := by
  induction k generalizing c i with
  | zero => omega
  | succ k ih =>
    cases i with
    | zero =>
      simp only [fullBlocks, List.getD_cons_zero, Nat.zero_mul, Nat.zero_add]
      simp [List.getD_eq_getElem?_getD, hj]
    | succ i =>
      simp only [fullBlocks, List.getD_cons_succ]
      rw [ih (c.drop bs) i (by omega)]
      have : (i + 1) * bs + j = bs + (i * bs + j) := by rw [Nat.succ_mul]; omega
      rw [this]
      simp [List.getD_eq_getElem?_getD, List.getElem?_drop]

theorem getD_map_of_lt {α β} (f : α → β) (l : List α) (i : Nat) (d : β) (d' : α) (h : i < l.length) :
    (l.map f).getD i d = f (l.getD i d') := by
  simp [List.getD_eq_getElem?_getD, List.getElem?_map, List.getElem?_eq_getElem h]

theorem getD_mem {α} (l : List α) (i : Nat) (d : α) (h : i < l.length) : l.getD i d ∈ l := by
  simp [List.getD_eq_getElem?_getD, List.getElem?_eq_getElem h]

/-- the mapping delivers exactly the file's byte, for every offset inside the file -/
theorem byteAt_build (c : Codec) (nd nf : Bool) (bs : Nat) (pre post content : Bytes) (hbs : 0 < bs)
    (p : Nat) (hp : p < content.length) :
    byteAt c (buildFile c nd nf bs pre post content) p = content.getD p 0 := by
  have hk : content.length / bs * bs ≤ content.length := Nat.div_mul_le_self _ _
  have hlen : ((fullBlocks bs (content.length / bs) content).map (storeBlock c nd)).length = content.length / bs := by
    simp [fullBlocks_length]
  unfold byteAt
  simp only [buildFile, hlen]
  split
  · rename_i hi
    rw [getD_map_of_lt (storeBlock c nd) _ _ _ [] (by rw [fullBlocks_length]; exact hi)]
    have hb : ((fullBlocks bs (content.length / bs) content).getD (p / bs) []).length = bs :=
      fullBlocks_block_length bs _ content hk _ (getD_mem _ _ _ (by rw [fullBlocks_length]; exact hi))
    rw [load_store c nd bs _ hb hbs, fullBlocks_getD bs _ content _ _ hi (Nat.mod_lt _ hbs)]
    congr 1
    have := Nat.div_add_mod p bs
    rw [Nat.mul_comm] at this
    exact this
  · rename_i hi
    have hdm := Nat.div_add_mod content.length bs
    have hpk : content.length / bs * bs ≤ p := by
      have h1 : content.length / bs ≤ p / bs := by omega
      have h2 := Nat.mul_le_mul_right bs h1
      have h3 : p / bs * bs ≤ p := Nat.div_mul_le_self _ _
      omega
    have hm : content.length % bs ≠ 0 := by
      intro e
      rw [e, Nat.add_zero, Nat.mul_comm] at hdm
      omega
    simp only [hm, if_false]
    rw [loadFrag_store]
    simp only [List.getD_eq_getElem?_getD]
    congr 1
    rw [List.append_assoc, List.getElem?_append_right (by omega)]
    simp only [Nat.add_sub_cancel_left]
    rw [List.getElem?_append_left (by simp; omega), List.getElem?_drop]
    congr 1
    omega

theorem readS_build (c : Codec) (nd nf : Bool) (bs : Nat) (pre post content : Bytes) (hbs : 0 < bs) (off n : Nat) :
    readS c (buildFile c nd nf bs pre post content) off n =
      ((content.drop off).take n, off + min n (content.length - off),
        decide (content.length ≤ off + min n (content.length - off))) := by
  unfold readS
  have hsz : (buildFile c nd nf bs pre post content).size = content.length := rfl
  simp only [hsz]
  congr 1
  apply List.ext_getElem
  · simp
  · intro i h1 h2
    simp only [List.length_map, List.length_range] at h1
    simp only [List.getElem_map, List.getElem_range, List.getElem_take, List.getElem_drop]
    rw [byteAt_build c nd nf bs pre post content hbs (off + i) (by omega)]
    simp [List.getD_eq_getElem?_getD, List.getElem?_eq_getElem (show off + i < content.length by omega)]

/-- any sequence of reads returns what a plain byte reader over the contents returns -/
theorem readSeq_build (c : Codec) (nd nf : Bool) (bs : Nat) (pre post content : Bytes) (hbs : 0 < bs)
    (off : Nat) (ns : List Nat) :
    readSeq c (buildFile c nd nf bs pre post content) off ns = specSeq content off ns := by
  induction ns generalizing off with
  | nil => rfl
  | cons n ns ih =>
    simp only [readSeq, specSeq, readS_build c nd nf bs pre post content hbs]
    rw [ih]

end Diskfs.Sqfs
