/-
  Remove's write-back of the re-packed parent directory (Model/Ext4/DirPack.lean `rewriteDir`): with the padding
  of the repaired code the directory's blocks parse to exactly the remaining entries followed by unused ones.
-/
import DiskfsModel.Proofs.Ext4DirPack
namespace Diskfs.Ext4.DirPack


theorem encEmp_eq (w : Nat) (h : 8 ≤ w) :
    encEntry emp w = leEnc 4 0 ++ (leEnc 2 w ++ (0 :: 0 :: zeros (w - 8))) := by
  have hw : recLenOf emp w = w := recLenOf_pos _ _ (by omega)
  have := encEntry_eq emp w (by rw [hw]; simp [emp]; omega)
  rw [this, hw]
  simp [emp]

theorem encEmp_length (w : Nat) (h : 8 ≤ w) : (encEntry emp w).length = w := by
  rw [encEmp_eq w h]; simp; omega

theorem walksTo_emp (w : Nat) (rest : Bytes) (r : List Entry) (h12 : 12 ≤ w) (hw : w < 65536)
    (h : WalksTo rest r) : WalksTo (encEntry emp w ++ rest) (emp :: r) := by
  intro f hf
  have hrl : recLenOf emp w = w := recLenOf_pos _ _ (by omega)
  have hlenE := encEmp_length w (by omega)
  have hdrop : (encEntry emp w ++ rest).drop w = rest := List.drop_left' hlenE
  have hlen : (encEntry emp w ++ rest).length = w + rest.length := by simp [hlenE]
  have hd4 : leDec (((encEntry emp w ++ rest).drop 4).take 2) = w := by
    rw [encEmp_eq w (by omega), List.append_assoc, List.drop_left' (by simp), List.append_assoc,
      List.take_left' (by simp), leDec_leEnc_of_lt 2 _ (by omega)]
  have hdec : decodeEntry (encEntry emp w ++ rest) w = some emp := by
    unfold decodeEntry
    have hg6 : (encEntry emp w ++ rest).getD 6 0 = 0 := by rw [encEmp_eq w (by omega)]; simp [leEnc]
    have hg7 : (encEntry emp w ++ rest).getD 7 0 = 0 := by rw [encEmp_eq w (by omega)]; simp [leEnc]
    have ht4 : (encEntry emp w ++ rest).take 4 = leEnc 4 0 := by
      rw [encEmp_eq w (by omega), List.append_assoc]; exact List.take_left' (by simp)
    rw [if_neg (by omega), if_neg (by omega)]
    simp only [hg6, hg7, ht4]
    rw [if_neg (by simp; omega)]
    simp [emp, leEnc, leDec]
  generalize encEntry emp w ++ rest = X at *
  match f, X with
  | 0, [] => simp at hlen; omega
  | 0, _ :: _ => simp at hf
  | f+1, [] => simp at hlen; omega
  | f+1, x :: xs =>
    rw [walk]
    · simp only [hd4, hdec, hdrop]
      rw [if_neg (by omega), h f (by simp at hf hlen; omega)]
      rfl
    · simp



/-- the body of an empty block -/
def empBody (bs : Nat) (csum : Bool) : Bytes := encEntry emp (blockLimit bs csum)

theorem emptyBlock_eq (bs : Nat) (csum : Bool) (tail : Bytes → Bytes) (hbs : BsOK bs) :
    emptyBlock bs csum tail = fin csum tail (empBody bs csum) := by
  have := blockLimit_bounds bs csum hbs
  unfold emptyBlock empBody blockLimit at *
  rw [Nat.mod_eq_of_lt (by omega)]

theorem empBody_length (bs : Nat) (csum : Bool) (hbs : BsOK bs) : (empBody bs csum).length = blockLimit bs csum := by
  have := blockLimit_bounds bs csum hbs
  exact encEmp_length _ (by omega)

theorem emptyBlock_length (bs : Nat) (csum : Bool) (tail : Bytes → Bytes) (hbs : BsOK bs) (ht : TailOK csum tail) :
    (emptyBlock bs csum tail).length = bs := by
  rw [emptyBlock_eq bs csum tail hbs]
  exact fin_length bs csum tail hbs ht _ (empBody_length bs csum hbs)

def emptyBlocks (bs : Nat) (csum : Bool) (tail : Bytes → Bytes) (k : Nat) : Bytes :=
  (List.replicate k (emptyBlock bs csum tail)).flatten

theorem emptyBlocks_length (bs : Nat) (csum : Bool) (tail : Bytes → Bytes) (hbs : BsOK bs) (ht : TailOK csum tail)
    (k : Nat) : (emptyBlocks bs csum tail k).length = k * bs := by
  induction k with
  | zero => simp [emptyBlocks]
  | succ k ih =>
    simp only [emptyBlocks, List.replicate_succ, List.flatten_cons, List.length_append] at ih ⊢
    rw [ih, emptyBlock_length bs csum tail hbs ht]; rw [Nat.add_mul]; omega

theorem emptyBlocks_succ (bs : Nat) (csum : Bool) (tail : Bytes → Bytes) (k : Nat) :
    emptyBlocks bs csum tail (k + 1) = emptyBlock bs csum tail ++ emptyBlocks bs csum tail k := by
  simp [emptyBlocks, List.replicate_succ]

theorem emptyBlocks_succ' (bs : Nat) (csum : Bool) (tail : Bytes → Bytes) (k : Nat) :
    emptyBlocks bs csum tail (k + 1) = emptyBlocks bs csum tail k ++ emptyBlock bs csum tail := by
  simp [emptyBlocks, List.replicate_succ']

/-- the padding loop appends exactly the missing number of empty blocks -/
theorem padDir_spec (bs : Nat) (csum : Bool) (tail : Bytes → Bytes) (hbs : BsOK bs) (ht : TailOK csum tail) (n : Nat) :
    ∀ (fuel j : Nat) (b : Bytes), b.length = j * bs → j ≤ n → n - j ≤ fuel →
      padDir bs csum tail fuel (n * bs) b = b ++ emptyBlocks bs csum tail (n - j) := by
  have hbpos : 0 < bs := by unfold BsOK at hbs; omega
  intro fuel
  induction fuel with
  | zero =>
    intro j b hb hj hf
    have : n - j = 0 := by omega
    simp [padDir, this, emptyBlocks]
  | succ fuel ih =>
    intro j b hb hj hf
    by_cases hlt : j < n
    · have hl : b.length < n * bs := by rw [hb]; exact Nat.mul_lt_mul_of_pos_right hlt hbpos
      simp only [padDir, hl, if_true]
      rw [ih (j + 1) (b ++ emptyBlock bs csum tail)
        (by rw [List.length_append, hb, emptyBlock_length bs csum tail hbs ht, Nat.add_mul]; omega) (by omega) (by omega)]
      have : n - j = (n - (j + 1)) + 1 := by omega
      rw [this, emptyBlocks_succ, List.append_assoc]
    · have : j = n := by omega
      subst this
      simp [padDir, hb, emptyBlocks]

/-- the checksum loop peels the empty blocks one by one -/
theorem stripBlocks_empty (bs : Nat) (tail : Bytes → Bytes) (hbs : BsOK bs) (ht : TailOK true tail) :
    ∀ (k f : Nat), k ≤ f → stripBlocks bs tail f (emptyBlocks bs true tail k)
      = some (List.replicate k (empBody bs true)).flatten := by
  intro k
  induction k with
  | zero => intro f _; cases f <;> simp [emptyBlocks, stripBlocks]
  | succ k ih =>
    intro f hf
    cases f with
    | zero => omega
    | succ f =>
      rw [emptyBlocks_succ, emptyBlock_eq bs true tail hbs]
      have := stripBlocks_step bs tail f (empBody bs true) (emptyBlocks bs true tail k)
        (by unfold BsOK at hbs; omega) (by rw [empBody_length bs true hbs]; simp [blockLimit]) (ht rfl _)
      simp only [fin, if_true] at this ⊢
      rw [this, ih f (by omega)]
      simp [List.replicate_succ]

/-- … and continues behind the blocks `pack` wrote -/
theorem stripBlocks_outOf_app (bs : Nat) (tail : Bytes → Bytes) (hbs : BsOK bs)
    (ht : TailOK true tail) (rest R : Bytes) (f0 : Nat) (hrest : stripBlocks bs tail f0 rest = some R) :
    ∀ (gs : List Group), (∀ g ∈ gs, EntryOK g.2) →
      (∀ g ∈ gs, sumLen g.1 + entryLen g.2 ≤ blockLimit bs true) →
      stripBlocks bs tail (gs.length + f0) (outOf (blockLimit bs true) true tail gs ++ rest)
        = some ((gs.map (blockBytes (blockLimit bs true))).flatten ++ R) := by
  intro gs
  induction gs with
  | nil => intro _ _; simpa [outOf] using hrest
  | cons g gs ih =>
    intro hok hfit
    have hB := blockBytes_length _ g (hok g (List.mem_cons_self ..)) (hfit g (List.mem_cons_self ..))
    have h2 := ih (fun x hx => hok x (List.mem_cons_of_mem _ hx)) (fun x hx => hfit x (List.mem_cons_of_mem _ hx))
    have := stripBlocks_step bs tail (gs.length + f0) (blockBytes (blockLimit bs true) g)
      (outOf (blockLimit bs true) true tail gs ++ rest) (by unfold BsOK at hbs; omega)
      (by rw [hB]; simp [blockLimit]) (ht rfl _)
    have hfuel : (g :: gs).length + f0 = gs.length + f0 + 1 := by simp; omega
    rw [hfuel]
    simp only [outOf, List.map_cons, List.flatten_cons, fin, if_true, List.append_assoc] at this h2 ⊢
    rw [this, h2]
    simp

theorem walksTo_empties (w : Nat) (h12 : 12 ≤ w) (hw : w < 65536) :
    ∀ k, WalksTo (List.replicate k (encEntry emp w)).flatten (List.replicate k emp) := by
  intro k
  induction k with
  | zero => exact walksTo_nil
  | succ k ih =>
    simp only [List.replicate_succ, List.flatten_cons]
    exact walksTo_emp w _ _ h12 hw ih

theorem walksTo_blocks_app (limit : Nat) (hl : limit < 65536) (rest : Bytes) (r : List Entry) (h : WalksTo rest r) :
    ∀ (gs : List Group), (∀ g ∈ gs, ∀ e ∈ groupEntries g, EntryOK e ∧ e.name.length ≤ 247) →
      (∀ g ∈ gs, sumLen g.1 + entryLen g.2 ≤ limit) →
      WalksTo ((gs.map (blockBytes limit)).flatten ++ rest) ((gs.map groupEntries).flatten ++ r) := by
  intro gs
  induction gs with
  | nil => intro _ _; simpa using h
  | cons g gs ih =>
    intro hok hfit
    simp only [List.map_cons, List.flatten_cons, List.append_assoc]
    exact walksTo_block limit hl g _ _ (hok g (List.mem_cons_self ..)) (hfit g (List.mem_cons_self ..))
      (ih (fun x hx => hok x (List.mem_cons_of_mem _ hx)) (fun x hx => hfit x (List.mem_cons_of_mem _ hx)))

/-- parsing what `pack` wrote followed by `k` empty blocks -/
theorem parse_pack_empties (bs : Nat) (csum : Bool) (tail : Bytes → Bytes) (es : List Entry) (k : Nat)
    (hbs : BsOK bs) (ht : TailOK csum tail) (hes : es ≠ []) (hok : ∀ e ∈ es, EntryParseOK e) :
    parse bs csum tail (pack bs csum tail es ++ emptyBlocks bs csum tail k) = some (es ++ List.replicate k emp) := by
  obtain ⟨gs, h1, h2, h3⟩ := pack_groups bs csum tail es hbs ht hes (fun e he => (hok e he).1)
  have hbl := blockLimit_bounds bs csum hbs
  have hwE := walksTo_empties (blockLimit bs csum) (by omega) hbl.2.1 k
  have hw := walksTo_blocks_app (blockLimit bs csum) hbl.2.1 _ _ hwE gs (groups_all _ gs es h3 hok) h2
  rw [h3] at hw
  have hokg : ∀ g ∈ gs, EntryOK g.2 := fun g hg =>
    groups_all EntryOK gs es h3 (fun e he => (hok e he).1) g hg g.2 (by simp [groupEntries])
  have hlen := outOf_length bs csum tail hbs ht gs hokg h2
  have hEl := emptyBlocks_length bs csum tail hbs ht k
  unfold parse
  rw [h1]
  cases csum with
  | false =>
    simp only [Bool.false_eq_true, if_false, outOf_false]
    have hE : emptyBlocks bs false tail k = (List.replicate k (encEntry emp (blockLimit bs false))).flatten := by
      simp only [emptyBlocks, emptyBlock_eq bs false tail hbs, fin, Bool.false_eq_true, if_false, empBody]
    rw [hE]
    exact hw _ (Nat.le_refl _)
  | true =>
    simp only [if_true]
    have hsE := stripBlocks_empty bs tail hbs ht k k (Nat.le_refl _)
    have hbpos : 1 ≤ bs := by unfold BsOK at hbs; omega
    have hfl : gs.length + k ≤ (outOf (blockLimit bs true) true tail gs ++ emptyBlocks bs true tail k).length := by
      rw [List.length_append, hlen, hEl]
      have a1 : gs.length ≤ bs * gs.length := Nat.le_mul_of_pos_left _ (by omega)
      have a2 : k ≤ k * bs := Nat.le_mul_of_pos_right _ (by omega)
      omega
    -- more fuel than blocks does not change the result
    have hmono : ∀ (f : Nat), gs.length + k ≤ f →
        stripBlocks bs tail f (outOf (blockLimit bs true) true tail gs ++ emptyBlocks bs true tail k) =
          some ((gs.map (blockBytes (blockLimit bs true))).flatten ++ (List.replicate k (empBody bs true)).flatten) := by
      intro f hf
      have hsE' := stripBlocks_empty bs tail hbs ht k (f - gs.length) (by omega)
      have := stripBlocks_outOf_app bs tail hbs ht _ _ (f - gs.length) hsE' gs hokg h2
      have e : gs.length + (f - gs.length) = f := by omega
      rw [e] at this
      exact this
    rw [hmono _ hfl]
    exact hw _ (Nat.le_refl _)


/-- rewriteDir_spec: the repaired write-back fills the whole directory: the re-packed entries, then empty blocks -/
theorem rewriteDir_spec (bs : Nat) (csum : Bool) (tail : Bytes → Bytes) (old : Bytes) (n : Nat) (es : List Entry)
    (hbs : BsOK bs) (ht : TailOK csum tail) (hes : es ≠ []) (hok : ∀ e ∈ es, EntryParseOK e)
    (hold : old.length = n * bs) (hfit : (pack bs csum tail es).length ≤ old.length) :
    ∃ k, rewriteDir true bs csum tail old es = pack bs csum tail es ++ emptyBlocks bs csum tail k ∧
      (rewriteDir true bs csum tail old es).length = old.length ∧
      parse bs csum tail (rewriteDir true bs csum tail old es) = some (es ++ List.replicate k emp) := by
  obtain ⟨j, _, _, hj⟩ := pack_length_blocks bs csum tail es hbs ht hes (fun e he => (hok e he).1)
  have hbpos : 0 < bs := by unfold BsOK at hbs; omega
  have hj' : (pack bs csum tail es).length = j * bs := by rw [hj, Nat.mul_comm]
  have hjn : j ≤ n := by
    rw [hj', hold] at hfit
    exact Nat.le_of_mul_le_mul_right hfit hbpos
  have hpad := padDir_spec bs csum tail hbs ht n (old.length) j (pack bs csum tail es) hj' hjn (by
    rw [hold]
    have : n ≤ n * bs := Nat.le_mul_of_pos_right _ hbpos
    omega)
  have hEl := emptyBlocks_length bs csum tail hbs ht (n - j)
  have hres : rewriteDir true bs csum tail old es = pack bs csum tail es ++ emptyBlocks bs csum tail (n - j) := by
    rw [hold] at hpad
    simp only [rewriteDir, if_true]
    rw [hold, hpad]
    have hl : (pack bs csum tail es ++ emptyBlocks bs csum tail (n - j)).length = n * bs := by
      rw [List.length_append, hj', hEl, ← Nat.add_mul]; congr 1; omega
    rw [List.drop_of_length_le (by rw [hl, hold]; exact Nat.le_refl _), List.append_nil]
    exact List.take_of_length_le (by rw [hl]; exact Nat.le_refl _)
  refine ⟨n - j, hres, ?_, ?_⟩
  · rw [hres, List.length_append, hj', hEl, hold, ← Nat.add_mul]; congr 1; omega
  · rw [hres]; exact parse_pack_empties bs csum tail es (n - j) hbs ht hes hok

end Diskfs.Ext4.DirPack
