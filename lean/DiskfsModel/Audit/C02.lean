import DiskfsModel.Audit.Common
import DiskfsModel.Props.C02
#audit_module DiskfsModel.Props.C02
