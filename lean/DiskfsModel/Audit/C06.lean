import DiskfsModel.Audit.Common
import DiskfsModel.Props.C06
#audit_module DiskfsModel.Props.C06
