/-
  `#audit_module M` prints, for every theorem declared in module `M`, one line
    AUDIT <theorem> <axioms, comma separated or ->
  and a final `AUDIT-COUNT <n>`.  `check` parses these lines: the count is the
  number of proof obligations of the property and every axiom must be one of
  propext / Classical.choice / Quot.sound.
-/
import Lean
open Lean Elab Command

elab "#audit_module " m:ident : command => do
  let env ← getEnv
  let modName := m.getId
  let some idx := env.getModuleIdx? modName
    | throwError "module {modName} not imported"
  let mut names : Array Name := #[]
  for (n, ci) in env.constants.map₁.toList do
    if env.getModuleIdxFor? n == some idx then
      match ci with
      | .thmInfo _ =>
        let last := match n with | .str _ s => s | _ => ""
        let auto := last.startsWith "eq_" || last == "sizeOf_spec" || last.startsWith "injEq" ||
          last == "inj" || last.startsWith "match_" || last == "noConfusion"
        if !n.isInternal && !auto then names := names.push n
      | _ => pure ()
  let sorted := names.qsort (fun a b => a.toString < b.toString)
  for n in sorted do
    let axs ← Lean.collectAxioms n
    let s := if axs.isEmpty then "-" else ",".intercalate (axs.toList.map toString)
    logInfo m!"AUDIT {n} {s}"
  logInfo m!"AUDIT-COUNT {sorted.size}"
