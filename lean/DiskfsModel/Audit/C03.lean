import DiskfsModel.Audit.Common
import DiskfsModel.Props.C03
#audit_module DiskfsModel.Props.C03
