import DiskfsModel.Audit.Common
import DiskfsModel.Props.C09
#audit_module DiskfsModel.Props.C09
