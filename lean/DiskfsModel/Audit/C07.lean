import DiskfsModel.Audit.Common
import DiskfsModel.Props.C07
#audit_module DiskfsModel.Props.C07
