import DiskfsModel.Audit.Common
import DiskfsModel.Props.C20
#audit_module DiskfsModel.Props.C20
