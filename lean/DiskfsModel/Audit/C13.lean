import DiskfsModel.Audit.Common
import DiskfsModel.Props.C13
#audit_module DiskfsModel.Props.C13
