import DiskfsModel.Audit.Common
import DiskfsModel.Props.C15
#audit_module DiskfsModel.Props.C15
