import DiskfsModel.Audit.Common
import DiskfsModel.Props.C05
#audit_module DiskfsModel.Props.C05
