import DiskfsModel.Audit.Common
import DiskfsModel.Props.C14
#audit_module DiskfsModel.Props.C14
