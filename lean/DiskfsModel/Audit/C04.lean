import DiskfsModel.Audit.Common
import DiskfsModel.Props.C04
#audit_module DiskfsModel.Props.C04
