import DiskfsModel.Audit.Common
import DiskfsModel.Props.C17
#audit_module DiskfsModel.Props.C17
