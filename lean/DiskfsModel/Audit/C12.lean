import DiskfsModel.Audit.Common
import DiskfsModel.Props.C12
#audit_module DiskfsModel.Props.C12
