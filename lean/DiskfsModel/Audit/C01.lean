import DiskfsModel.Audit.Common
import DiskfsModel.Props.C01
#audit_module DiskfsModel.Props.C01
