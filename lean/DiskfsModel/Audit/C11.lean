import DiskfsModel.Audit.Common
import DiskfsModel.Props.C11
#audit_module DiskfsModel.Props.C11
