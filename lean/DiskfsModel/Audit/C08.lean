import DiskfsModel.Audit.Common
import DiskfsModel.Props.C08
#audit_module DiskfsModel.Props.C08
