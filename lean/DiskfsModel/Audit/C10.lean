import DiskfsModel.Audit.Common
import DiskfsModel.Props.C10
#audit_module DiskfsModel.Props.C10
