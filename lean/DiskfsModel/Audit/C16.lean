import DiskfsModel.Audit.Common
import DiskfsModel.Props.C16
#audit_module DiskfsModel.Props.C16
