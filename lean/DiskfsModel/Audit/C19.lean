import DiskfsModel.Audit.Common
import DiskfsModel.Props.C19
#audit_module DiskfsModel.Props.C19
