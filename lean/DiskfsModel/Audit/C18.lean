import DiskfsModel.Audit.Common
import DiskfsModel.Props.C18
#audit_module DiskfsModel.Props.C18
